#!/usr/bin/env python3
"""Regenerate MANIFEST.json from harness/props.py (single source of truth)."""
import json, os, sys
sys.path.insert(0, '/verif/harness')
from props import CLAIMED as PROPS, NOT_APPLICABLE, HOOK_COMMITS
checks = []
for pid in sorted(PROPS):
    c = PROPS[pid]
    checks.append(dict(
        property_id=pid,
        quick_cmd=f"./check {pid} --tier quick",
        thorough_cmd=f"./check {pid} --tier thorough",
        evidence_file=f"/verif/evidence/{pid}.json",
        replay_cmd_template=f"./check {pid} --replay {{path}}",
        engine="verif-harness",
        level_claimed=dict(category=c["level"], text=c["level_text"], design_ref=c.get("design_ref", "DESIGN.md section 4, " + pid)),
        level_note=c["level_note"],
        technique=c["technique"],
    ))
m = dict(
    version=1,
    setup_cmd="./setup.sh",
    hooks=dict(guard="verif", enable="go test -tags verif (the harness module replaces github.com/brimdata/super with /repo)",
               baseline_off_cmd="cd /repo && go test -vet=off -count=1 -timeout 25m ./...",
               source_commits=HOOK_COMMITS, add_only=True),
    engines=[dict(name="verif-harness", path="/verif/harness", serves_properties=sorted(PROPS),
                  kind_free_text="Go module with one test package per property: pgregory.net/rapid generators (stateful histories, fault enumeration) and native go fuzz targets; driver ./check shards, merges statistics, matches known findings, writes evidence")],
    checks=checks,
    notes="All checks are property-based tests / fuzzers with explicit oracles; see DESIGN.md. known_findings.json lists open findings (KNOWN-FINDING lines) and fixed ones (fix: commits in /repo).",
    not_applicable=[dict(property_id=k, reason=v) for k, v in sorted(NOT_APPLICABLE.items())],
)
json.dump(m, open('/verif/MANIFEST.json', 'w'), indent=1)
print("wrote MANIFEST.json with", len(checks), "checks,", len(NOT_APPLICABLE), "not_applicable")
