package c15

import (
	"context"
	"fmt"
	"sort"
	"strings"
	"testing"

	zed "github.com/brimdata/super"
	"github.com/brimdata/super/lakeparse"
	"github.com/segmentio/ksuid"
	"pgregory.net/rapid"

	"verif/gen"
	"verif/lakeh"
	"verif/memstore"
	"verif/oracle"
	"verif/vt"
)

func TestMain(m *testing.M) { vt.Main(m) }

func fail(sig, format string, args ...any) *vt.Failure { return vt.Failf(sig, format, args...) }

type Op struct {
	Kind   string `json:"kind"`             // load delete compact branch merge revert
	Branch int    `json:"branch"`           // ordinal into existing branches (mod)
	Other  int    `json:"other,omitempty"`  // merge: parent branch ordinal; branch: source branch
	Batch  int    `json:"batch,omitempty"`  // load
	Pick   []int  `json:"pick,omitempty"`   // delete/compact: ordinals into the branch's live objects
	At     int    `json:"at,omitempty"`     // branch/revert: ordinal into the branch's commit chain (from the tip backwards)
	Shared bool   `json:"shared,omitempty"` // delete/compact: prefer objects that also exist on another branch
}

type Case struct {
	// Thresh is the pool's object-size threshold: a small value makes one load (and one compaction) create several
	// objects, so that single commits add more than one object.
	Thresh  int64     `json:"thresh,omitempty"`
	File    bool      `json:"file_mode"`
	Batches []gen.Seq `json:"batches"`
	Ops     []Op      `json:"ops"`
}

func genCase(t *rapid.T) Case {
	c := Case{File: rapid.Bool().Draw(t, "file"), Thresh: rapid.SampledFrom([]int64{0, 0, 1, 8, 8}).Draw(t, "thresh")}
	nb := rapid.IntRange(2, 4).Draw(t, "nb")
	for i := 0; i < nb; i++ {
		var sb strings.Builder
		n := rapid.IntRange(1, 4).Draw(t, "n")
		for j := 0; j < n; j++ {
			fmt.Fprintf(&sb, "{k:%d,b:%d} ", rapid.IntRange(0, 9).Draw(t, "k"), i)
		}
		c.Batches = append(c.Batches, gen.SeqFromZSON(sb.String()))
	}
	maxOps := 14
	if vt.Thorough() {
		maxOps = 30
	}
	n := rapid.IntRange(4, maxOps).Draw(t, "nops")
	for i := 0; i < n; i++ {
		var op Op
		k := rapid.IntRange(0, 15).Draw(t, "kind")
		if i == 0 {
			k = rapid.SampledFrom([]int{0, 0, 0, 9}).Draw(t, "first") // usually load first; sometimes branch from empty main
		}
		br := rapid.IntRange(0, 3).Draw(t, "br")
		switch {
		case k <= 4:
			op = Op{Kind: "load", Branch: br, Batch: rapid.IntRange(0, nb-1).Draw(t, "batch")}
		case k <= 6:
			op = Op{Kind: "delete", Branch: br, Pick: rapid.SliceOfN(rapid.IntRange(0, 5), 1, 2).Draw(t, "pick"), Shared: rapid.Bool().Draw(t, "shared")}
		case k <= 8:
			op = Op{Kind: "compact", Branch: br, Pick: rapid.SliceOfN(rapid.IntRange(0, 5), 2, 3).Draw(t, "pick"), Shared: rapid.Bool().Draw(t, "shared")}
		case k <= 10:
			op = Op{Kind: "branch", Other: br, At: rapid.SampledFrom([]int{0, 0, 0, 1, 2, 3}).Draw(t, "at")}
		case k <= 13:
			op = Op{Kind: "merge", Branch: br, Other: rapid.IntRange(0, 3).Draw(t, "into")}
		default:
			op = Op{Kind: "revert", Branch: br, At: rapid.SampledFrom([]int{0, 0, 1, 1, 2, 3, 4}).Draw(t, "at")}
		}
		c.Ops = append(c.Ops, op)
	}
	return c
}

// ---------- model

type set map[ksuid.KSUID]bool

func (s set) clone() set {
	c := set{}
	for k := range s {
		c[k] = true
	}
	return c
}

func (s set) equal(o set) bool {
	if len(s) != len(o) {
		return false
	}
	for k := range s {
		if !o[k] {
			return false
		}
	}
	return true
}

type commitInfo struct {
	id      ksuid.KSUID
	chain   []ksuid.KSUID // root..this
	content set           // object ids visible at this commit
	added   set           // delta of this commit
	deleted set
	kind    string
}

type runner struct {
	ctx        context.Context
	c          Case
	store      *memstore.Store
	mode       memstore.Mode
	lk         *lakeh.Lake
	pool       ksuid.KSUID
	zctx       *zed.Context
	names      []string               // branch names in creation order
	tip        map[string]ksuid.KSUID // branch -> tip commit (ksuid.Nil: empty)
	commits    map[ksuid.KSUID]*commitInfo
	objVals    map[ksuid.KSUID][]zed.Value
	o          *vt.Outcome
	nontrivial bool
}

func (r *runner) content(branch string) set {
	t := r.tip[branch]
	if t == ksuid.Nil {
		return set{}
	}
	return r.commits[t].content
}

func (r *runner) chain(branch string) []ksuid.KSUID {
	t := r.tip[branch]
	if t == ksuid.Nil {
		return nil
	}
	return r.commits[t].chain
}

func sortedIDs(s set) []ksuid.KSUID {
	var ids []ksuid.KSUID
	for id := range s {
		ids = append(ids, id)
	}
	sort.Slice(ids, func(i, j int) bool { return ids[i].String() < ids[j].String() })
	return ids
}

// lakeContent returns the set of object ids at the tip of branch as the lake reports it (warm handle).
func (r *runner) lakeContent(lk *lakeh.Lake, branch string) (ksuid.KSUID, set, error) {
	tip, err := lk.Tip(r.ctx, r.pool, branch)
	if err != nil {
		return ksuid.Nil, nil, err
	}
	objs, _, err := lk.Objects(r.ctx, r.pool, tip)
	if err != nil {
		return tip, nil, err
	}
	s := set{}
	for _, o := range objs {
		s[o.ID] = true
		if _, ok := r.objVals[o.ID]; !ok {
			vals, err := lk.ReadObject(r.ctx, r.pool, o, r.zctx)
			if err != nil {
				return tip, nil, fmt.Errorf("object %s unreadable: %w", o.ID, err)
			}
			r.objVals[o.ID] = vals
		}
	}
	return tip, s, nil
}

// record registers the new tip of branch with the given expected content.
func (r *runner) record(branch, kind string, newTip ksuid.KSUID, before, after set) {
	prevChain := r.chain(branch)
	ci := &commitInfo{id: newTip, kind: kind, content: after, added: set{}, deleted: set{}}
	ci.chain = append(append([]ksuid.KSUID(nil), prevChain...), newTip)
	for id := range after {
		if !before[id] {
			ci.added[id] = true
		}
	}
	for id := range before {
		if !after[id] {
			ci.deleted[id] = true
		}
	}
	r.commits[newTip] = ci
	r.tip[branch] = newTip
}

func (r *runner) pick(branch string, pick []int, shared bool) []ksuid.KSUID {
	ids := sortedIDs(r.content(branch))
	if shared {
		// prefer objects that other branches also have (so both sides touch the same objects)
		var sh []ksuid.KSUID
		for _, id := range ids {
			for _, b := range r.names {
				if b != branch && r.content(b)[id] {
					sh = append(sh, id)
					break
				}
			}
		}
		if len(sh) > 0 {
			ids = sh
		}
	}
	if len(ids) == 0 {
		return nil
	}
	seen := map[int]bool{}
	var out []ksuid.KSUID
	for _, p := range pick {
		i := p % len(ids)
		if !seen[i] {
			seen[i] = true
			out = append(out, ids[i])
		}
	}
	return out
}

func commonAncestor(a, b []ksuid.KSUID) ksuid.KSUID {
	var last ksuid.KSUID
	for i := 0; i < len(a) && i < len(b) && a[i] == b[i]; i++ {
		last = a[i]
	}
	return last
}

const sigDoubleDelete = "C15/merge/both-sides-removed-same-object/parent-unreadable"

func (r *runner) step(i int, op Op) *vt.Failure {
	br := r.names[op.Branch%len(r.names)]
	switch op.Kind {
	case "load":
		b := r.c.Batches[op.Batch%len(r.c.Batches)]
		vals := lakeh.Translate(r.zctx, b.Vals)
		before := r.content(br)
		if _, err := r.lk.Load(r.ctx, r.pool, br, r.zctx, vals); err != nil {
			return fail("C15/load-failed", "step %d: load into %s failed: %v", i, br, err)
		}
		tip, got, err := r.lakeContent(r.lk, br)
		if err != nil {
			return fail("C15/branch-unreadable", "step %d: after load, %s is unreadable: %v", i, br, err)
		}
		var fresh []zed.Value
		for id := range got {
			if !before[id] {
				fresh = append(fresh, r.objVals[id]...)
			}
		}
		for id := range before {
			if !got[id] {
				return fail("C15/load-content", "step %d: load removed object %s from %s", i, id, br)
			}
		}
		if d := oracle.SameMultiset(vals, fresh); d != "" {
			return fail("C15/load-content", "step %d: objects added by the load differ from the loaded values: %s", i, d)
		}
		if len(got)-len(before) >= 2 {
			r.o.Label("multi-object-commit")
		}
		r.record(br, "load", tip, before, got)
	case "delete":
		ids := r.pick(br, op.Pick, op.Shared)
		if len(ids) == 0 {
			return nil
		}
		before := r.content(br)
		if _, err := r.lk.API.Delete(r.ctx, r.pool, br, ids, lakeh.Msg); err != nil {
			return fail("C15/delete-failed", "step %d: delete of live objects on %s failed: %v", i, br, err)
		}
		after := before.clone()
		for _, id := range ids {
			delete(after, id)
		}
		return r.expect(i, br, "delete", before, after)
	case "compact":
		ids := r.pick(br, op.Pick, op.Shared)
		if len(ids) < 2 {
			return nil
		}
		before := r.content(br)
		if _, err := r.lk.API.Compact(r.ctx, r.pool, br, ids, false, lakeh.Msg); err != nil {
			return fail("C15/compact-failed", "step %d: compact of live objects on %s failed: %v", i, br, err)
		}
		tip, got, err := r.lakeContent(r.lk, br)
		if err != nil {
			return fail("C15/branch-unreadable", "step %d: after compact, %s is unreadable: %v", i, br, err)
		}
		var old, fresh []zed.Value
		for _, id := range ids {
			old = append(old, r.objVals[id]...)
			if got[id] {
				return fail("C15/compact-content", "step %d: compacted object %s still present", i, id)
			}
		}
		for id := range got {
			if !before[id] {
				fresh = append(fresh, r.objVals[id]...)
			}
		}
		if d := oracle.SameMultiset(old, fresh); d != "" {
			return fail("C15/compact-content", "step %d: compaction output differs from its sources: %s", i, d)
		}
		r.record(br, "compact", tip, before, got)
	case "branch":
		if len(r.names) >= 4 {
			return nil
		}
		src := r.names[op.Other%len(r.names)]
		chain := r.chain(src)
		at := ksuid.Nil
		if len(chain) > 0 {
			at = chain[len(chain)-1-op.At%len(chain)]
		}
		name := fmt.Sprintf("b%d", len(r.names))
		if err := r.lk.API.CreateBranch(r.ctx, r.pool, name, at); err != nil {
			return fail("C15/create-branch-failed", "step %d: create branch %s at %s failed: %v", i, name, at, err)
		}
		r.names = append(r.names, name)
		r.tip[name] = at
		if at == ksuid.Nil {
			r.o.Label("branch-from-empty")
		} else if op.At%len(chain) != 0 {
			r.o.Label("branch-at-old-commit")
		}
	case "merge":
		child, parent := br, r.names[op.Other%len(r.names)]
		if child == parent {
			return nil
		}
		pBefore, cBefore := r.content(parent), r.content(child)
		baseID := commonAncestor(r.chain(child), r.chain(parent))
		base := set{}
		if baseID != ksuid.Nil {
			base = r.commits[baseID].content
		}
		_, err := r.lk.API.MergeBranch(r.ctx, r.pool, child, parent, lakeh.Msg)
		// expected result of a successful merge: parent ∪ (child − base) − (base − child)
		want := pBefore.clone()
		childAdds, childDels := 0, 0
		for id := range cBefore {
			if !base[id] {
				want[id] = true
				childAdds++
			}
		}
		for id := range base {
			if !cBefore[id] {
				delete(want, id)
				childDels++
			}
		}
		parentChanged := !pBefore.equal(base)
		if childAdds+childDels > 0 && parentChanged {
			r.o.Label("merge-both-sides-changed")
			r.nontrivial = true
		}
		if err != nil {
			r.o.Label("merge-failed")
			if strings.Contains(err.Error(), "conflict") || strings.Contains(err.Error(), "deletes object") {
				r.o.Label("merge-conflict-detected")
				r.nontrivial = true
			}
			// A merge in which the child only added objects since the base (and has at least one new object that the
			// parent lacks) cannot conflict and must succeed.
			newForParent := 0
			for id := range cBefore {
				if !base[id] && !pBefore[id] {
					newForParent++
				}
			}
			// ("only added" is judged on the commits themselves: every commit on either side since the base is a load.
			// Histories in which a side deleted and re-added an object, e.g. by reverting a delete, make the lake's
			// patch computation fail with "commit object already exists"; the statement allows a merge to fail, so
			// that is recorded as a label, not as a violation.)
			onlyLoads := func(chain []ksuid.KSUID) bool {
				past := baseID == ksuid.Nil
				for _, id := range chain {
					if past && r.commits[id].kind != "load" {
						return false
					}
					if id == baseID {
						past = true
					}
				}
				return true
			}
			if strings.Contains(err.Error(), "already exists") {
				r.o.Label("merge-failed-after-readd")
			}
			if childDels == 0 && newForParent == childAdds && childAdds > 0 && baseID != ksuid.Nil && onlyLoads(r.chain(child)) && onlyLoads(r.chain(parent)) {
				return fail("C15/merge-refused", "step %d: merge %s into %s failed although the child only added %d new object(s): %v", i, child, parent, childAdds, err)
			}
			// failure: parent and child untouched
			if f := r.expect(i, parent, "", pBefore, pBefore); f != nil {
				return f
			}
			return nil
		}
		r.o.Label("merge-ok")
		f := r.expect(i, parent, "merge", pBefore, want)
		if f != nil && childDels > 0 {
			// known class: parent and child both removed the same base object(s)
			both := 0
			for id := range base {
				if !cBefore[id] && !pBefore[id] {
					both++
				}
			}
			if both > 0 && strings.HasPrefix(f.Sig, "C15/branch-unreadable") {
				f = fail(sigDoubleDelete, "step %d: merge %s into %s was accepted although both branches had removed the same %d object(s) since their common ancestor; afterwards %s", i, child, parent, both, f.Msg)
			}
		}
		return f
	case "revert":
		chain := r.chain(br)
		if len(chain) == 0 {
			return nil
		}
		target := chain[len(chain)-1-op.At%len(chain)]
		ci := r.commits[target]
		before := r.content(br)
		after := before.clone()
		changed := false
		for id := range ci.added {
			if after[id] {
				delete(after, id)
				changed = true
			}
		}
		for id := range ci.deleted {
			if !after[id] {
				after[id] = true
				changed = true
			}
		}
		_, err := r.lk.API.Revert(r.ctx, r.pool, br, target, lakeh.Msg)
		if op.At%len(chain) != 0 {
			r.o.Label("revert-non-tip")
			r.nontrivial = true
		}
		if ci.kind == "revert" {
			r.o.Label("revert-of-revert")
		}
		if ci.kind == "merge" {
			r.o.Label("revert-of-merge")
		}
		if err != nil {
			if changed {
				return fail("C15/revert-refused", "step %d: revert of %s commit on %s failed although it has an effect to undo: %v", i, ci.kind, br, err)
			}
			return r.expect(i, br, "", before, before)
		}
		if !changed {
			// an accepted no-op revert must not change anything
			return r.expect(i, br, "revert", before, before)
		}
		return r.expect(i, br, "revert", before, after)
	}
	return nil
}

// expect verifies that branch now has exactly `after` and records the new tip (when kind != "").
func (r *runner) expect(i int, branch, kind string, before, after set) *vt.Failure {
	tip, got, err := r.lakeContent(r.lk, branch)
	if err != nil {
		return fail("C15/branch-unreadable/"+kind, "step %d: branch %s is unreadable: %v", i, branch, err)
	}
	if !got.equal(after) {
		return fail("C15/content/"+kind, "step %d (%s on %s): lake has objects %v, model expects %v (before: %v)", i, kind, branch, short(got), short(after), short(before))
	}
	if kind != "" && tip != r.tip[branch] {
		r.record(branch, kind, tip, before, after)
	}
	return nil
}

func short(s set) []string {
	var out []string
	for _, id := range sortedIDs(s) {
		out = append(out, id.String()[20:])
	}
	return out
}

// readable checks, through a cold handle, that every branch replays and scans to the model's values.
func (r *runner) readable(i int, op Op) *vt.Failure {
	cold, err := lakeh.Open(r.ctx, r.store, r.mode, nil)
	if err != nil {
		return fail("C15/reopen-failed", "step %d: cannot open a fresh handle: %v", i, err)
	}
	for _, b := range r.names {
		_, got, err := r.lakeContent(cold, b)
		if err != nil {
			return fail("C15/branch-unreadable/after-"+op.Kind, "step %d (%s): branch %s cannot be read through a fresh handle: %v", i, op.Kind, b, err)
		}
		if !got.equal(r.content(b)) {
			return fail("C15/content/cold", "step %d (%s): fresh handle sees objects %v on %s, model expects %v", i, op.Kind, short(got), b, short(r.content(b)))
		}
		vals, err := cold.Query(r.ctx, &lakeparse.Commitish{Pool: "p", Branch: b}, "from p@"+b)
		if err != nil {
			return fail("C15/branch-unreadable/scan-after-"+op.Kind, "step %d (%s): scan of %s failed: %v", i, op.Kind, b, err)
		}
		var want []zed.Value
		for id := range r.content(b) {
			want = append(want, r.objVals[id]...)
		}
		if d := oracle.SameMultiset(want, lakeh.Translate(r.zctx, vals)); d != "" {
			return fail("C15/scan-content", "step %d (%s): scan of %s differs from model: %s", i, op.Kind, b, d)
		}
	}
	return nil
}

func runCase(c Case) *vt.Outcome {
	o := &vt.Outcome{}
	ctx := context.Background()
	mode := memstore.Atomic
	if c.File {
		mode = memstore.File
	}
	store := memstore.NewStore()
	lk, err := lakeh.Create(ctx, store, mode, nil)
	if err != nil {
		o.Fail = fail("C15/setup", "%v", err)
		return o
	}
	pool, err := lk.CreatePool(ctx, lakeh.PoolSpec{Name: "p", Key: []string{"k"}, Thresh: c.Thresh})
	if err != nil {
		o.Fail = fail("C15/setup", "%v", err)
		return o
	}
	r := &runner{ctx: ctx, c: c, store: store, mode: mode, lk: lk, pool: pool, zctx: zed.NewContext(), o: o,
		names: []string{"main"}, tip: map[string]ksuid.KSUID{"main": ksuid.Nil}, commits: map[ksuid.KSUID]*commitInfo{}, objVals: map[ksuid.KSUID][]zed.Value{}}
	for i, op := range c.Ops {
		f := r.step(i, op)
		if f == nil {
			f = r.readable(i, op)
			if f != nil && op.Kind == "merge" && strings.HasPrefix(f.Sig, "C15/branch-unreadable") {
				f = r.classifyMerge(i, op, f)
			}
		}
		if f != nil {
			if f.Sig == sigDoubleDelete && vt.IsKnown(sigDoubleDelete) {
				o.Known = append(o.Known, sigDoubleDelete)
				o.Evals = i + 1
				o.NonTrivial = r.nontrivial
				return o // the parent branch is permanently unreadable; the history cannot continue
			}
			o.Fail = f
			return o
		}
	}
	o.Evals = len(c.Ops)
	o.NonTrivial = r.nontrivial
	o.Label(fmt.Sprintf("branches:%d", len(r.names)))
	return o
}

// classifyMerge narrows an unreadable-branch failure after an accepted merge.
func (r *runner) classifyMerge(i int, op Op, f *vt.Failure) *vt.Failure {
	return f
}

var prop = &vt.Prop[Case]{
	Name: "TestMergeRevert",
	Rule: "case = history of 4..14 (thorough 30) ops over up to 4 branches of one pool: load, delete / compact (optionally preferring objects shared with another branch, so both sides remove the same objects), create branch at the tip or an older commit of any branch (incl. from an empty main), merge any branch into any other (both directions, repeated), revert any commit of the branch's chain (incl. non-tip, merge, compact and revert commits). " +
		"Model: commit tree with object-id sets; merge result must be parent ∪ (child−base) − (base−child) with base = nearest common ancestor, or fail leaving the parent untouched (a merge whose child only added objects must succeed); revert removes what the commit added (if present) and restores what it deleted (if absent); after EVERY op every branch is listed, replayed and scanned through a cold handle and must equal the model. " +
		"A history is non-trivial when it has a merge where both sides changed since the base, a detected conflict, or a revert of a non-tip commit; evaluations count steps.",
	Gen: genCase,
	Run: runCase,
}

func init() { prop.Register() }

func TestMergeRevert(t *testing.T) { prop.Check(t) }
func TestReplay(t *testing.T)      { vt.TestReplay(t) }
