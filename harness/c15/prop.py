PROP = dict(
    level="exploration",
    rule="C15: branch/merge/revert histories against a commit-tree model on object-id sets",
    level_text="Exploration by model-based (stateful) property testing: generated multi-branch histories are executed against the real lake and compared, after every operation and through a cold handle, with a commit-tree model implementing the net merge formula and the revert rule; sampled, not exhaustive.",
    level_note="Trusted: harness in-memory storage engine; the model's nearest-common-ancestor and net-merge formula (the weakest reading of the statement: any merge failure is accepted as long as the parent is untouched, except that a merge whose child only added objects must succeed). Not covered here: merge racing with parent commits under a scheduler (C12 covers racing commits).",
    technique="stateful property-based testing (rapid) against a reference model",
    assumptions=["storage is the harness's in-memory engine", "merge conflicts are allowed to fail; only their atomicity and the readability of both branches are checked"],
    tests=[dict(name="TestMergeRevert", quick=(8, 120), thorough=(16, 800))],
)
