// Package qh runs a query in-process over a slice of values (sam runtime,
// optimized plan, single reader) and returns copies of the results.
package qh

import (
	"context"

	zed "github.com/brimdata/super"
	"github.com/brimdata/super/compiler"
	"github.com/brimdata/super/runtime"
	"github.com/brimdata/super/zbuf"
	"github.com/brimdata/super/zio"
)

// Run evaluates src over vals (all typed in zctx).
func Run(zctx *zed.Context, vals []zed.Value, src string) ([]zed.Value, error) {
	ctx, cancel := context.WithCancel(context.Background())
	defer cancel()
	comp := compiler.NewCompiler()
	seq, sset, err := comp.Parse(src)
	if err != nil {
		return nil, err
	}
	q, err := runtime.CompileQuery(ctx, zctx, comp, seq, sset, []zio.Reader{zbuf.NewArray(vals)})
	if err != nil {
		return nil, err
	}
	defer q.Pull(true)
	var out []zed.Value
	for {
		batch, err := q.Pull(false)
		if err != nil {
			return out, err
		}
		if batch == nil {
			return out, nil
		}
		for _, v := range batch.Values() {
			out = append(out, v.Copy())
		}
		batch.Unref()
	}
}
