PROP = dict(
    level="exploration",
    rule="C13: commit immutability over histories; reader isolation under scheduled storage-step interleavings",
    level_text="Exploration: (A) model-free constancy check - every commit ever created is re-queried after every later operation through warm, stale and cold handles; (B) a reader and a writer on separate handles are interleaved at storage-step granularity by a generated schedule and the reader must see exactly the state before or after. Histories and schedules are sampled by rapid.",
    level_note="Trusted: harness in-memory storage engine and gate scheduler (each client's storage steps are serialised; internal goroutines of one client are granted in arrival order). In-process goroutine interleavings inside one handle are not controlled.",
    technique="stateful property-based testing (rapid) with a deterministic storage-step scheduler",
    assumptions=["two processes are modelled as two lake.Root handles over one in-memory store", "the first observation of a commit is the reference for later observations (content correctness is C14/C15)"],
    tests=[dict(name="TestCommitImmutable", quick=(8, 40), thorough=(16, 120)),
           dict(name="TestReaderIsolation", quick=(8, 100), thorough=(16, 1500))],
)
