package c13

import (
	"context"
	"fmt"
	"sort"
	"strings"
	"testing"

	zed "github.com/brimdata/super"
	"github.com/segmentio/ksuid"
	"pgregory.net/rapid"

	"verif/gen"
	"verif/lakeh"
	"verif/memstore"
	"verif/oracle"
	"verif/vt"
)

func TestMain(m *testing.M) { vt.Main(m) }

func fail(sig, format string, args ...any) *vt.Failure { return vt.Failf(sig, format, args...) }

// ---------- Part A: every commit ever created keeps its contents

type Op struct {
	Kind   string `json:"kind"` // load delete deletewhere compact branch merge revert renamepool vacuum
	Branch int    `json:"branch"`
	Other  int    `json:"other,omitempty"`
	Batch  int    `json:"batch,omitempty"`
	Pick   []int  `json:"pick,omitempty"`
	At     int    `json:"at,omitempty"`
	Pred   string `json:"pred,omitempty"`
	// Quiet: the checks after this step look at the store through clones only, so that they leave no persisted
	// snapshot files behind; the real store then holds snapshot files for some commits and not for others, as it
	// does when nobody queried the lake between two commits.
	Quiet bool `json:"quiet,omitempty"`
}

type Case struct {
	File    bool      `json:"file_mode"`
	Batches []gen.Seq `json:"batches"`
	Ops     []Op      `json:"ops"`
}

func genBatches(t *rapid.T) []gen.Seq {
	var out []gen.Seq
	nb := rapid.IntRange(2, 4).Draw(t, "nb")
	for i := 0; i < nb; i++ {
		var sb strings.Builder
		n := rapid.IntRange(1, 5).Draw(t, "n")
		for j := 0; j < n; j++ {
			fmt.Fprintf(&sb, "{k:%d,b:%d} ", rapid.IntRange(0, 9).Draw(t, "k"), i)
		}
		out = append(out, gen.SeqFromZSON(sb.String()))
	}
	return out
}

func genCase(t *rapid.T) Case {
	c := Case{File: rapid.Bool().Draw(t, "file"), Batches: genBatches(t)}
	maxOps := 10
	if vt.Thorough() {
		maxOps = 24
	}
	n := rapid.IntRange(3, maxOps).Draw(t, "nops")
	for i := 0; i < n; i++ {
		k := 0
		if i > 0 {
			k = rapid.IntRange(0, 17).Draw(t, "kind")
		}
		br := rapid.IntRange(0, 2).Draw(t, "br")
		var op Op
		switch {
		case k <= 5:
			op = Op{Kind: "load", Branch: br, Batch: rapid.IntRange(0, 3).Draw(t, "batch")}
		case k <= 7:
			op = Op{Kind: "delete", Branch: br, Pick: rapid.SliceOfN(rapid.IntRange(0, 5), 1, 2).Draw(t, "pick")}
		case k == 8:
			op = Op{Kind: "deletewhere", Branch: br, Pred: fmt.Sprintf("k >= %d", rapid.IntRange(0, 9).Draw(t, "c"))}
		case k <= 10:
			op = Op{Kind: "compact", Branch: br, Pick: rapid.SliceOfN(rapid.IntRange(0, 5), 2, 3).Draw(t, "pick")}
		case k == 11:
			op = Op{Kind: "branch", Other: br}
		case k <= 13:
			op = Op{Kind: "merge", Branch: br, Other: rapid.IntRange(0, 2).Draw(t, "into")}
		case k <= 15:
			op = Op{Kind: "revert", Branch: br, At: rapid.IntRange(0, 3).Draw(t, "at")}
		case k == 16:
			op = Op{Kind: "renamepool"}
		default:
			op = Op{Kind: "vacuum", Branch: br}
		}
		op.Quiet = rapid.IntRange(0, 2).Draw(t, "quiet") == 0
		c.Ops = append(c.Ops, op)
	}
	return c
}

type commitRec struct {
	id      ksuid.KSUID
	step    int
	full    []zed.Value // contents observed when the commit was created
	count   string      // result of the filtered query observed then
	objects map[ksuid.KSUID]bool
	exempt  bool // some object was vacuumed
	later   int  // number of later compaction/revert/merge/delete steps survived
}

const sigStale = "C13/acknowledged-commit-not-visible/other-handle-cached-branch-tip"

type runnerA struct {
	ctx       context.Context
	c         Case
	store     *memstore.Store
	mode      memstore.Mode
	writer    *lakeh.Lake // long-lived, performs all operations
	reader    *lakeh.Lake // long-lived second handle (warm, possibly stale caches)
	pool      ksuid.KSUID
	poolName  string
	zctx      *zed.Context
	names     []string
	chains    map[string][]ksuid.KSUID // branch -> commits tip-first
	commits   map[ksuid.KSUID]*commitRec
	order     []ksuid.KSUID
	o         *vt.Outcome
	requeried int
	gone      map[ksuid.KSUID]bool // objects removed by vacuum so far
}

func (r *runnerA) query(lk *lakeh.Lake, commit ksuid.KSUID) ([]zed.Value, string, error) {
	full, err := lk.Query(r.ctx, nil, fmt.Sprintf("from %s@%s", r.poolName, commit))
	if err != nil {
		return nil, "", err
	}
	cnt, err := lk.Query(r.ctx, nil, fmt.Sprintf("from %s@%s | k >= 3 | count:=count(),s:=sum(k)", r.poolName, commit))
	if err != nil {
		return nil, "", err
	}
	s := ""
	for _, v := range cnt {
		s += oracle.Show(v)
	}
	return lakeh.Translate(r.zctx, full), s, nil
}

// noteTip records the tip of branch if it is a commit not seen before.
func (r *runnerA) noteTip(step int, branch string, quiet bool) *vt.Failure {
	st := r.store
	if quiet {
		st = r.store.Clone()
	}
	fresh, err := lakeh.Open(r.ctx, st, r.mode, nil)
	if err != nil {
		return fail("C13/reopen-failed", "step %d: %v", step, err)
	}
	tip, err := fresh.Tip(r.ctx, r.pool, branch)
	if err != nil {
		return fail("C13/tip-unreadable", "step %d: %v", step, err)
	}
	if tip == ksuid.Nil {
		return nil
	}
	if _, ok := r.commits[tip]; ok {
		if len(r.chains[branch]) == 0 || r.chains[branch][0] != tip {
			r.chains[branch] = append([]ksuid.KSUID{tip}, r.chains[branch]...)
		}
		return nil
	}
	objs, _, err := fresh.Objects(r.ctx, r.pool, tip)
	if err != nil {
		return fail("C13/commit-unreadable", "step %d: %v", step, err)
	}
	rec := &commitRec{id: tip, step: step, objects: map[ksuid.KSUID]bool{}}
	for _, o := range objs {
		rec.objects[o.ID] = true
		if r.gone[o.ID] {
			// e.g. a revert that restores an object whose file was vacuumed: exempt by the statement
			rec.exempt = true
		}
	}
	if !rec.exempt {
		full, cnt, err := r.query(fresh, tip)
		if err != nil {
			return fail("C13/commit-unreadable", "step %d: new commit %s on %s cannot be queried: %v", step, tip, branch, err)
		}
		rec.full, rec.count = full, cnt
	} else {
		r.o.Label("commit-references-vacuumed-object")
	}
	r.commits[tip] = rec
	r.order = append(r.order, tip)
	r.chains[branch] = append([]ksuid.KSUID{tip}, r.chains[branch]...)
	return nil
}

func (r *runnerA) live(branch string) []ksuid.KSUID {
	ch := r.chains[branch]
	if len(ch) == 0 {
		return nil
	}
	var ids []ksuid.KSUID
	for id := range r.commits[ch[0]].objects {
		ids = append(ids, id)
	}
	sort.Slice(ids, func(i, j int) bool { return ids[i].String() < ids[j].String() })
	return ids
}

func pickFrom(ids []ksuid.KSUID, pick []int, min int) []ksuid.KSUID {
	if len(ids) < min {
		return nil
	}
	seen := map[int]bool{}
	var out []ksuid.KSUID
	for _, p := range pick {
		if i := p % len(ids); !seen[i] {
			seen[i] = true
			out = append(out, ids[i])
		}
	}
	for i := 0; len(out) < min; i++ {
		if !seen[i] {
			seen[i] = true
			out = append(out, ids[i])
		}
	}
	return out
}

// step runs one operation.  Vacuum on one branch also removes object files that other branches (or commits
// restored later by a revert) still reference; the statement exempts vacuumed objects, so operations that fail
// on a branch whose tip references a vacuumed object are tolerated (and labelled).
func (r *runnerA) step(i int, op Op) (string, *vt.Failure) {
	br, f := r.step1(i, op)
	if f != nil && f.Sig == "C13/op-failed" {
		for _, b := range r.names {
			for _, id := range r.live(b) {
				if r.gone[id] {
					r.o.Label("op-failed-on-vacuumed-objects")
					return "", nil
				}
			}
		}
	}
	return br, f
}

func (r *runnerA) step1(i int, op Op) (mutated string, f *vt.Failure) {
	br := r.names[op.Branch%len(r.names)]
	api := r.writer.API
	var err error
	switch op.Kind {
	case "load":
		b := r.c.Batches[op.Batch%len(r.c.Batches)]
		_, err = r.writer.Load(r.ctx, r.pool, br, b.Zctx, b.Vals)
		if err != nil {
			return "", fail("C13/op-failed", "step %d: load: %v", i, err)
		}
		return br, nil
	case "delete":
		ids := pickFrom(r.live(br), op.Pick, 1)
		if ids == nil {
			return "", nil
		}
		if _, err = api.Delete(r.ctx, r.pool, br, ids, lakeh.Msg); err != nil {
			return "", fail("C13/op-failed", "step %d: delete: %v", i, err)
		}
		return br, nil
	case "deletewhere":
		if len(r.chains[br]) == 0 {
			return "", nil
		}
		if _, err = api.DeleteWhere(r.ctx, r.pool, br, op.Pred, lakeh.Msg); err != nil {
			return "", nil // nothing matched ("empty") or refused: no new commit
		}
		return br, nil
	case "compact":
		ids := pickFrom(r.live(br), op.Pick, 2)
		if ids == nil {
			return "", nil
		}
		if _, err = api.Compact(r.ctx, r.pool, br, ids, false, lakeh.Msg); err != nil {
			return "", fail("C13/op-failed", "step %d: compact: %v", i, err)
		}
		return br, nil
	case "branch":
		if len(r.names) >= 3 {
			return "", nil
		}
		src := r.names[op.Other%len(r.names)]
		if len(r.chains[src]) == 0 {
			return "", nil
		}
		name := fmt.Sprintf("b%d", len(r.names))
		if err = api.CreateBranch(r.ctx, r.pool, name, r.chains[src][0]); err != nil {
			return "", fail("C13/op-failed", "step %d: create branch: %v", i, err)
		}
		r.names = append(r.names, name)
		r.chains[name] = append([]ksuid.KSUID(nil), r.chains[src]...)
		return "", nil
	case "merge":
		parent := r.names[op.Other%len(r.names)]
		if parent == br {
			return "", nil
		}
		if _, err = api.MergeBranch(r.ctx, r.pool, br, parent, lakeh.Msg); err != nil {
			return "", nil // conflicts / empty differences are allowed to fail
		}
		return parent, nil
	case "revert":
		ch := r.chains[br]
		if len(ch) == 0 {
			return "", nil
		}
		if _, err = api.Revert(r.ctx, r.pool, br, ch[op.At%len(ch)], lakeh.Msg); err != nil {
			return "", nil // "revert commit is empty"
		}
		return br, nil
	case "renamepool":
		name := r.poolName + "x"
		if err = api.RenamePool(r.ctx, r.pool, name); err != nil {
			return "", fail("C13/op-failed", "step %d: rename pool: %v", i, err)
		}
		r.poolName = name
		r.o.Label("pool-renamed")
		return "", nil
	case "vacuum":
		if len(r.chains[br]) == 0 {
			return "", nil
		}
		ids, err := api.Vacuum(r.ctx, r.poolName, br, false)
		if err != nil {
			return "", fail("C13/op-failed", "step %d: vacuum: %v", i, err)
		}
		gone := map[ksuid.KSUID]bool{}
		for _, id := range ids {
			gone[id] = true
			r.gone[id] = true
		}
		for _, rec := range r.commits {
			for id := range rec.objects {
				if gone[id] {
					rec.exempt = true
				}
			}
		}
		if len(ids) > 0 {
			r.o.Label("vacuumed-objects")
		}
		return "", nil
	}
	return "", nil
}

// recheck re-queries every commit created so far through several kinds of handle: the two long-lived ones, a
// fresh one walking the commits oldest first, and a fresh one on a clone of the store walking them newest first
// (so that it derives a newer commit's snapshot from an older persisted one before it is asked for the older one).
// In a quiet step only clones are used.
func (r *runnerA) recheck(i int, op Op) *vt.Failure {
	st := r.store
	if op.Quiet {
		st = r.store.Clone()
	}
	cold, err := lakeh.Open(r.ctx, st, r.mode, nil)
	if err != nil {
		return fail("C13/reopen-failed", "step %d: %v", i, err)
	}
	cold2, err := lakeh.Open(r.ctx, r.store.Clone(), r.mode, nil)
	if err != nil {
		return fail("C13/reopen-failed", "step %d: %v", i, err)
	}
	type handle struct {
		name string
		lk   *lakeh.Lake
	}
	handles := []handle{{"writer(warm)", r.writer}, {"second-handle(warm)", r.reader}, {"fresh(cold)", cold}}
	if op.Quiet {
		handles = handles[2:]
	}
	check := func(h handle, rec *commitRec) *vt.Failure {
		full, cnt, err := r.query(h.lk, rec.id)
		if err != nil {
			return fail("C13/commit-unreadable/after-"+op.Kind, "step %d (%s): commit created at step %d cannot be queried any more through %s: %v", i, op.Kind, rec.step, h.name, err)
		}
		if d := oracle.SameMultiset(rec.full, full); d != "" {
			return fail("C13/commit-content-changed/after-"+op.Kind, "step %d (%s): contents of the commit created at step %d changed as seen by %s: %s", i, op.Kind, rec.step, h.name, d)
		}
		if cnt != rec.count {
			return fail("C13/commit-query-changed/after-"+op.Kind, "step %d (%s): filtered query on the commit created at step %d changed as seen by %s: %s -> %s", i, op.Kind, rec.step, h.name, rec.count, cnt)
		}
		r.requeried++
		return nil
	}
	for _, id := range r.order {
		rec := r.commits[id]
		if rec.exempt || rec.step == i {
			continue
		}
		for _, h := range handles {
			if f := check(h, rec); f != nil {
				return f
			}
		}
		switch op.Kind {
		case "compact", "revert", "merge", "delete", "deletewhere":
			rec.later++
		}
	}
	for k := len(r.order) - 1; k >= 0; k-- {
		rec := r.commits[r.order[k]]
		if rec.exempt {
			continue
		}
		if f := check(handle{"fresh(cold, newest commit first)", cold2}, rec); f != nil {
			return f
		}
	}
	return nil
}

// visible checks that a query of the branch started after the operation was acknowledged sees it, from the
// second long-lived handle and from a fresh one.
func (r *runnerA) visible(i int, branch string, quiet bool) *vt.Failure {
	tipRec := r.commits[r.chains[branch][0]]
	if tipRec.exempt {
		return nil
	}
	st := r.store
	if quiet {
		st = r.store.Clone()
	}
	cold, err := lakeh.Open(r.ctx, st, r.mode, nil)
	if err != nil {
		return fail("C13/reopen-failed", "step %d: %v", i, err)
	}
	type handle struct {
		name string
		lk   *lakeh.Lake
	}
	handles := []handle{{"fresh(cold)", cold}, {"second-handle(warm)", r.reader}}
	if quiet {
		handles = handles[:1]
	}
	for _, h := range handles {
		got, err := h.lk.Query(r.ctx, nil, fmt.Sprintf("from %s@%s", r.poolName, branch))
		if err != nil {
			return fail("C13/branch-unreadable", "step %d: query of %s through %s failed: %v", i, branch, h.name, err)
		}
		if d := oracle.SameMultiset(tipRec.full, lakeh.Translate(r.zctx, got)); d != "" {
			if h.name != "fresh(cold)" {
				// does it show exactly an earlier tip of this branch? then the handle resolved the branch from a cached table
				for _, old := range r.chains[branch][1:] {
					if oracle.SameMultiset(r.commits[old].full, lakeh.Translate(r.zctx, got)) == "" {
						r.o.Label("stale-branch-tip-seen")
						if vt.IsKnown(sigStale) {
							r.o.Known = append(r.o.Known, sigStale)
							return nil
						}
						return fail(sigStale, "step %d: a query of %s@%s issued through a second long-lived handle after the commit was acknowledged still returns the previous tip's data (the handle answers branch lookups from a table cached for up to one second)", i, r.poolName, branch)
					}
				}
			}
			return fail("C13/acknowledged-commit-not-visible", "step %d: query of %s through %s does not show the acknowledged commit: %s", i, branch, h.name, d)
		}
	}
	return nil
}

func runCase(c Case) *vt.Outcome {
	o := &vt.Outcome{}
	ctx := context.Background()
	mode := memstore.Atomic
	if c.File {
		mode = memstore.File
	}
	store := memstore.NewStore()
	w, err := lakeh.Create(ctx, store, mode, nil)
	if err != nil {
		o.Fail = fail("C13/setup", "%v", err)
		return o
	}
	pool, err := w.CreatePool(ctx, lakeh.PoolSpec{Name: "p", Key: []string{"k"}, Thresh: 40})
	if err != nil {
		o.Fail = fail("C13/setup", "%v", err)
		return o
	}
	rd, err := lakeh.Open(ctx, store, mode, nil)
	if err != nil {
		o.Fail = fail("C13/setup", "%v", err)
		return o
	}
	r := &runnerA{ctx: ctx, c: c, store: store, mode: mode, writer: w, reader: rd, pool: pool, poolName: "p", zctx: zed.NewContext(),
		names: []string{"main"}, chains: map[string][]ksuid.KSUID{}, commits: map[ksuid.KSUID]*commitRec{}, o: o, gone: map[ksuid.KSUID]bool{}}
	for i, op := range c.Ops {
		// warm the second handle's caches right before the writer acts
		if len(r.chains["main"]) > 0 && !op.Quiet {
			rd.Query(ctx, nil, fmt.Sprintf("from %s@main | count()", r.poolName))
		}
		br, f := r.step(i, op)
		if f == nil && br != "" {
			if f = r.noteTip(i, br, op.Quiet); f == nil {
				f = r.visible(i, br, op.Quiet)
			}
		}
		if f == nil {
			f = r.recheck(i, op)
		}
		if f != nil {
			o.Fail = f
			return o
		}
	}
	o.Evals = r.requeried + 1
	for _, rec := range r.commits {
		if rec.later > 0 && !rec.exempt {
			o.NonTrivial = true
		}
	}
	o.Label(fmt.Sprintf("commits:%d", min(len(r.commits), 8)))
	return o
}

var propA = &vt.Prop[Case]{
	Name: "TestCommitImmutable",
	Rule: "case = storage mode x history of 3..10 (thorough 24) ops over up to 3 branches: load, delete, delete-where, compact, create branch, merge, revert, rename pool, vacuum. Every commit that ever was a branch tip is recorded with the result of a full scan and of a filtered aggregate at `pool@<commit id>`; after EVERY later step each recorded commit is re-queried through the long-lived writing handle, a second long-lived handle with warm caches, a fresh handle (oldest commit first) and a fresh handle on a clone of the store (newest commit first), and must give the same results; a third of the steps are quiet: their checks run on clones only and leave no persisted snapshot files, so later handles derive snapshots from older persisted ones (commits whose objects were vacuumed are exempt, exactly those). " +
		"After every acknowledged mutation a query of the branch through the second long-lived handle and through a fresh handle must show it. evaluations = re-queries; a history is non-trivial when some commit was re-queried after a later delete/compaction/revert/merge; distinct by case digest.",
	Gen: genCase,
	Run: runCase,
}

// ---------- Part B: a running query is isolated from a concurrent writer (storage-step interleavings)

type GateCase struct {
	File        bool      `json:"file_mode"`
	Batches     []gen.Seq `json:"batches"`
	Loads       int       `json:"loads"`
	Writer      Op        `json:"writer"`
	Query       string    `json:"query"`
	Schedule    []int     `json:"schedule"` // run lengths, alternating reader/writer, reader first if ReaderFirst
	ReaderFirst bool      `json:"reader_first"`
}

func genGate(t *rapid.T) GateCase {
	g := GateCase{File: rapid.Bool().Draw(t, "file"), Batches: genBatches(t), Loads: rapid.IntRange(1, 4).Draw(t, "loads"),
		ReaderFirst: rapid.Bool().Draw(t, "rf")}
	switch rapid.IntRange(0, 3).Draw(t, "w") {
	case 0:
		g.Writer = Op{Kind: "load", Batch: rapid.IntRange(0, 3).Draw(t, "b")}
	case 1:
		g.Writer = Op{Kind: "delete", Pick: []int{rapid.IntRange(0, 5).Draw(t, "p")}}
	case 2:
		g.Writer = Op{Kind: "compact", Pick: []int{0, 1, rapid.IntRange(0, 5).Draw(t, "p")}}
	default:
		g.Writer = Op{Kind: "deletewhere", Pred: fmt.Sprintf("k >= %d", rapid.IntRange(0, 9).Draw(t, "c"))}
	}
	g.Query = rapid.SampledFrom([]string{"from p", "from p | sort this", "from p | count:=count(),s:=sum(k)"}).Draw(t, "q")
	n := rapid.IntRange(1, 8).Draw(t, "nruns")
	for i := 0; i < n; i++ {
		g.Schedule = append(g.Schedule, rapid.IntRange(1, 12).Draw(t, "run"))
	}
	return g
}

func runGate(g GateCase) *vt.Outcome {
	o := &vt.Outcome{}
	ctx := context.Background()
	mode := memstore.Atomic
	if g.File {
		mode = memstore.File
	}
	store := memstore.NewStore()
	setup, err := lakeh.Create(ctx, store, mode, nil)
	if err != nil {
		o.Fail = fail("C13/setup", "%v", err)
		return o
	}
	pool, err := setup.CreatePool(ctx, lakeh.PoolSpec{Name: "p", Key: []string{"k"}, Thresh: 40})
	if err != nil {
		o.Fail = fail("C13/setup", "%v", err)
		return o
	}
	for i := 0; i < g.Loads; i++ {
		b := g.Batches[i%len(g.Batches)]
		if _, err := setup.Load(ctx, pool, "main", b.Zctx, b.Vals); err != nil {
			o.Fail = fail("C13/setup", "%v", err)
			return o
		}
	}
	zctx := zed.NewContext()
	beforeVals, err := setup.Query(ctx, nil, g.Query)
	if err != nil {
		o.Fail = fail("C13/setup", "%v", err)
		return o
	}
	before := lakeh.Translate(zctx, beforeVals)
	// resolve the writer's object ids on the intact lake
	tip, _ := setup.Tip(ctx, pool, "main")
	objs, _, _ := setup.Objects(ctx, pool, tip)
	var ids []ksuid.KSUID
	for _, ob := range objs {
		ids = append(ids, ob.ID)
	}
	sort.Slice(ids, func(i, j int) bool { return ids[i].String() < ids[j].String() })
	min := 1
	if g.Writer.Kind == "compact" {
		min = 2
	}
	var picked []ksuid.KSUID
	if g.Writer.Kind == "delete" || g.Writer.Kind == "compact" {
		if picked = pickFrom(ids, g.Writer.Pick, min); picked == nil {
			return &vt.Outcome{Skip: "writer-inapplicable"}
		}
	}
	// two separate handles ("processes"), each behind the gate
	gate := memstore.NewGate()
	rd, err := lakeh.OpenClient(ctx, store, mode, nil, 0)
	if err != nil {
		o.Fail = fail("C13/setup", "%v", err)
		return o
	}
	wr, err := lakeh.OpenClient(ctx, store, mode, nil, 1)
	if err != nil {
		o.Fail = fail("C13/setup", "%v", err)
		return o
	}
	rd.Engine.Hook, wr.Engine.Hook = gate, gate
	var got []zed.Value
	var rerr, werr error
	gate.Start(0)
	gate.Start(1)
	go func() {
		got, rerr = rd.Query(ctx, nil, g.Query)
		gate.Finish(0)
	}()
	go func() {
		switch g.Writer.Kind {
		case "load":
			b := g.Batches[g.Writer.Batch%len(g.Batches)]
			_, werr = wr.Load(ctx, pool, "main", b.Zctx, b.Vals)
		case "delete":
			_, werr = wr.API.Delete(ctx, pool, "main", picked, lakeh.Msg)
		case "compact":
			_, werr = wr.API.Compact(ctx, pool, "main", picked, false, lakeh.Msg)
		case "deletewhere":
			_, werr = wr.API.DeleteWhere(ctx, pool, "main", g.Writer.Pred, lakeh.Msg)
		}
		gate.Finish(1)
	}()
	// drive the schedule: runs of grants alternating between the two clients, then round-robin until both finish
	cur := 1
	if g.ReaderFirst {
		cur = 0
	}
	rSteps, wSteps, switches := 0, 0, 0
	readerSawWriter := false
	grant := func(c int) bool {
		op := gate.Step(c)
		if op == nil {
			return false
		}
		if c == 0 {
			rSteps++
			if wSteps > 0 && !gate.Done(1) {
				readerSawWriter = true
			}
		} else {
			wSteps++
		}
		return true
	}
	for _, run := range g.Schedule {
		for k := 0; k < run; k++ {
			if !grant(cur) {
				break
			}
		}
		cur = 1 - cur
		switches++
	}
	for !(gate.Done(0) && gate.Done(1)) {
		progressed := false
		for c := 0; c < 2; c++ {
			if !gate.Done(c) && grant(c) {
				progressed = true
			}
		}
		if !progressed && gate.Done(0) && gate.Done(1) {
			break
		}
	}
	// after-state through a fresh handle
	fresh, err := lakeh.Open(ctx, store, mode, nil)
	if err != nil {
		o.Fail = fail("C13/reopen-failed", "%v", err)
		return o
	}
	afterVals, err := fresh.Query(ctx, nil, g.Query)
	if err != nil {
		o.Fail = fail("C13/branch-unreadable", "after the writer finished (err=%v) the branch cannot be queried: %v", werr, err)
		return o
	}
	after := lakeh.Translate(zctx, afterVals)
	mode_ := "mode:" + mode.String()
	o.Label(mode_, "writer:"+g.Writer.Kind)
	if rerr != nil {
		sig := fmt.Sprintf("C13/reader-error-during-%s/%s", g.Writer.Kind, mode)
		// Known class (file-like storage only; same root cause as C17's truncated-HEAD finding): the journal HEAD file
		// is rewritten in place (truncate, then write).  A reader that finds it empty retries journal.MaxReadRetry
		// times with back-off and then gives up, so a writer that stalls between the two steps for that long makes
		// concurrent queries fail.  Recognised by the error text and by the trace: the reader's last >= 8 reads of HEAD
		// all fall between the writer's put-open and put-write of HEAD.
		if mode == memstore.File && (strings.Contains(rerr.Error(), "no such journal") || strings.Contains(rerr.Error(), "can read but not parse contents of journal HEAD")) && headStall(gate.Trace) {
			sig = "C13/file/reader-gives-up-while-HEAD-is-rewritten"
		}
		if vt.IsKnown(sig) {
			o.Known = append(o.Known, sig)
			return o
		}
		o.Fail = fail(sig, "a query running concurrently with a %s (writer err=%v) failed: %v\ngrants: %s", g.Writer.Kind, werr, rerr, strings.Join(gate.Trace, " | "))
		return o
	}
	gotT := lakeh.Translate(zctx, got)
	if oracle.SameMultiset(before, gotT) != "" && oracle.SameMultiset(after, gotT) != "" {
		sig := fmt.Sprintf("C13/reader-saw-mixed-state/%s/%s", g.Writer.Kind, mode)
		if vt.IsKnown(sig) {
			o.Known = append(o.Known, sig)
			return o
		}
		o.Fail = fail(sig, "a query (%s) running concurrently with a %s returned neither the contents before nor after the commit:\n  got    %s\n  before %s\n  after  %s\ngrants: %s",
			g.Query, g.Writer.Kind, show(gotT), show(before), show(after), strings.Join(gate.Trace, " | "))
		return o
	}
	o.NonTrivial = readerSawWriter
	if readerSawWriter {
		o.Label("writer-inside-read")
	}
	o.Evals = rSteps + wSteps
	o.Sample = map[string]any{"case": g, "grants": len(gate.Trace), "writer_err": fmt.Sprint(werr)}
	return o
}

// headStall reports whether at least 8 consecutive storage steps of the reader (client 0), all of them reads of a
// HEAD file, lie between the writer's (client 1) truncating open of HEAD and its write.
func headStall(trace []string) bool {
	open, n := false, 0
	for _, g := range trace {
		switch {
		case strings.HasPrefix(g, "c1#") && strings.Contains(g, " put-open HEAD("):
			open, n = true, 0
		case strings.HasPrefix(g, "c1#") && (strings.Contains(g, " put-write HEAD(") || strings.Contains(g, " put-close HEAD(")):
			if open && n >= 8 {
				return true
			}
			open = false
		case strings.HasPrefix(g, "c0#") && open:
			if strings.Contains(g, " get HEAD(") {
				n++
			} else {
				n = 0
			}
		}
	}
	return open && n >= 8
}

func show(vals []zed.Value) string {
	var s []string
	for _, v := range vals {
		s = append(s, oracle.Show(v))
	}
	sort.Strings(s)
	return strings.Join(s, " ")
}

var propB = &vt.Prop[GateCase]{
	Name: "TestReaderIsolation",
	Rule: "case = storage mode x pool with 1..4 loads x one writer operation (load, delete, compact, delete-where) x one query (scan, sorted scan, aggregate) x schedule: reader and writer are separate lake handles whose every storage step (in file mode every individual write) is granted by a scheduler following generated run lengths (1..8 runs of 1..12 steps, then round-robin). " +
		"The reader's result must equal the branch contents before or after the writer's commit (never a mixture, never an error); evaluations = granted storage steps; non-trivial when a reader step was granted while the writer was between its first and last step; distinct by case digest.",
	Gen: genGate,
	Run: runGate,
}

func init() { propA.Register(); propB.Register() }

func TestCommitImmutable(t *testing.T) { propA.Check(t) }
func TestReaderIsolation(t *testing.T) { propB.Check(t) }
func TestReplay(t *testing.T)          { vt.TestReplay(t) }
