package c11

import (
	"bytes"
	"encoding/hex"
	"encoding/json"
	"fmt"
	"os"
	"path/filepath"
	"strings"
	"testing"

	zed "github.com/brimdata/super"
	"github.com/brimdata/super/zcode"

	"verif/gen"
	"verif/oracle"
	"verif/vt"
)

// TestMakeKnown writes one small reproducing case per open known finding to
// $VERIF_MAKE_KNOWN/known-<id>.json (run by hand).  Candidates are literal
// inputs or single edits/mutations of small valid VNG objects; a candidate is
// accepted when the oracle reports exactly the finding's signature.
func TestMakeKnown(t *testing.T) {
	dir := os.Getenv("VERIF_MAKE_KNOWN")
	if dir == "" {
		t.Skip("set VERIF_MAKE_KNOWN=<dir> (normally /verif/replays/C11)")
	}
	os.MkdirAll(dir, 0o755)
	hx := func(s string) []byte {
		b, err := hex.DecodeString(strings.ReplaceAll(s, " ", ""))
		if err != nil {
			t.Fatal(err)
		}
		return b
	}
	vngOf := func(zson string) []byte {
		seq := gen.SeqFromZSON(zson)
		b, err := encode("vng", seq.Vals, wopts{})
		if err != nil {
			t.Fatal(err)
		}
		meta, data, err := vngMeta(b)
		if err != nil {
			t.Fatal(err)
		}
		out, err := vngAssemble(meta, data)
		if err != nil {
			t.Fatal(err)
		}
		return out
	}
	// edit the k-th leaf of the wanted kind of a VNG object's metadata
	editLeaf := func(obj []byte, wantType bool, k int, body []byte) ([]byte, bool) {
		meta, data, err := vngMeta(obj)
		if err != nil {
			t.Fatal(err)
		}
		n, hit := 0, false
		edited := oracle.MapLeaves(meta, func(typ zed.Type, b zcode.Bytes) zcode.Bytes {
			if (typ.ID() == zed.IDType) == wantType && (wantType || isUintID(typ.ID())) {
				if n == k {
					hit = true
					n++
					return append(zcode.Bytes{}, body...)
				}
				n++
			}
			return b
		})
		out, err := vngAssemble(edited, data)
		if err != nil {
			t.Fatal(err)
		}
		return out, hit
	}
	ints := vngOf("1 2 3 4 5 6 7 8 9 10 11 12 13 14 15 16 17 18 19 20 21 22 23 24 25 26 27 28 29 30")
	recs := vngOf(`{a:1,s:"x"} {a:2,s:"y"} {a:3,s:"x"} {a:null,s:"y"}`)
	arrs := vngOf(`[1,2] [3] [4,5,6]`)
	mixed := vngOf(`1 "a" 2 "b" 3 "c"`)
	bases := [][]byte{ints, recs, arrs, mixed}

	type cand struct {
		c    Case
		note string
	}
	lit := func(format string, b []byte, validate bool, only string) []cand {
		return []cand{{Case{Kind: "bytes", Format: format, Base: b, Threads: 1, Validate: validate, Origin: "hostile:known", Only: only}, ""}}
	}
	typeEdits := func(tv []byte) []cand {
		var cs []cand
		for _, b := range bases {
			for k := 0; k < 4; k++ {
				if out, ok := editLeaf(b, true, k, tv); ok {
					cs = append(cs, cand{Case{Kind: "bytes", Format: "vng", Base: out, Threads: 1, Origin: "gen:vng,meta-uncompressed", Edits: []string{fmt.Sprintf("metatype:leaf%d=%x", k, tv)}}, ""})
				}
			}
		}
		return cs
	}
	uintEdits := func(u uint64) []cand {
		var cs []cand
		for _, b := range bases {
			for k := 0; k < 40; k++ {
				if out, ok := editLeaf(b, false, k, zed.EncodeUint(u)); ok {
					cs = append(cs, cand{Case{Kind: "bytes", Format: "vng", Base: out, Threads: 1, Origin: "gen:vng,meta-uncompressed", Edits: []string{fmt.Sprintf("metauint:leaf%d=%d", k, u)}}, ""})
				}
			}
		}
		return cs
	}
	byteMuts := func(region string) []cand {
		var cs []cand
		for _, b := range bases {
			lo, hi := 24, len(b)
			ms := int(b[8]) | int(b[9])<<8
			if region == "meta" {
				hi = 24 + ms
			} else {
				lo = 24 + ms
			}
			for off := lo; off < hi; off++ {
				for _, m := range []Mut{{Op: "flip", Off: off, N: 0}, {Op: "flip", Off: off, N: 7}, {Op: "set", Off: off, Data: []byte{0xff}}, {Op: "set", Off: off, Data: []byte{0x00}}, {Op: "set", Off: off, Data: []byte{0x03}}} {
					cs = append(cs, cand{Case{Kind: "bytes", Format: "vng", Base: b, Script: []Mut{m}, Threads: 1, Origin: "gen:vng,meta-uncompressed"}, ""})
				}
			}
		}
		return cs
	}
	setInterior := hx("0700 00 01 01 61 09 02 1e" + "1400 1f 03 02 05")
	recTrailing := hx("0500 00 01 01 61 09" + "1500 1e 04 02 02 01")
	want := map[string][]cand{
		"C11/panic@.(*MapperLookupCache).Lookup":                                         lit("zng", hx("1b00 ffffffffffffffffff01 01"), false, ""),
		"C11/panic@/zio/zngio.(*buffer).read<-/zio/zngio.(*Decoder).readCountedString":   lit("zng", hx("0b00 07 ffffffffffffffffff01"), false, ""),
		"C11/panic@/zio/zngio.newBuffer":                                                 lit("zng", hx("5c00 00 ffffffffffffffffff01 00"), false, ""),
		"C11/zng/validate-skips-set-interior":                                            lit("zng", setInterior, true, ""),
		"C11/zng/validate-misses-prim-length":                                            lit("zng", hx("1200 10 01"), true, ""),
		"C11/zng/validate-misses-type-value":                                             lit("zng", hx("1300 1c 02 41"), true, ""),
		"C11/zng/validate-misses-map-order":                                              lit("zng", hx("0300 03 09 09"+"1a00 1e 09 0204 0202 0202 0202"), true, ""),
		"C11/zng/validate-misses-record-trailing":                                        lit("zng", recTrailing, true, ""),
		"C11/panic@.(*Context).DecodeTypeValue:nil-deref":                                typeEdits([]byte{34, 2, 9}),
		"C11/panic@.(*Context).DecodeTypeValue:makeslice":                                typeEdits(hx("1e ffffffffffffffffff01")),
		"C11/panic@.(*Context).DecodeTypeValue:slice-bounds":                             typeEdits(hx("1e 01 ffffffffffffffffff01 61 09")),
		"C11/panic@/vng.readMetadata":                                                    lit("vng", hx("564e4700 04000000 0000000000000000 0000000000000000"), false, ""),
		"C11/panic@/vng.readMetadata[unmarshal-of-unvalidated-value]":                    byteMuts("meta"),
		"C11/panic@/vng.readMetadata[unmarshal-type-mismatch]":                           byteMuts("meta"),
		"C11/fatal-stack-overflow@/zson.(*UnmarshalZNGContext).lookupGoType[null-union]": byteMuts("meta"),
		"C11/panic@/vng[nil-metadata-node]":                                              byteMuts("meta"),
		"C11/panic@/vng.(*PrimitiveBuilder).ReadBytes":                                   uintEdits(1<<64 - 1),
		"C11/panic@/vng.(*DictBuilder).ReadBytes":                                        uintEdits(1<<64 - 1),
		"C11/alloc/vng/big-blocks":                                                       uintEdits(1<<31 - 1),
		"C11/panic@/zcode.(*Iter).Next<-/vng.(*PrimitiveBuilder).ReadBytes":              byteMuts("data"),
		"C11/panic@/vng.(*dynamicBuilder).Read":                                          byteMuts("data"),
		"C11/panic@/zson.parseStringBytes":                                               lit("zson", []byte(`"\ud800"`), false, ""),
		"C11/alloc/json/many-small":                                                      lit("json", jsonDeep(1000, 40), false, "named"),
		"C11/alloc/zson/many-small":                                                      lit("zson", jsonDeep(1000, 40), false, "named"),
		"C11/alloc/zng/many-small":                                                       lit("zng", zngChains(300, 46), false, "named"),
		"C11/compile/panic@/compiler/parser.(*current).on*[grammar-action]":              {{Case{Kind: "query", Query: "sort -r -r"}, ""}},
	}
	idOf := map[string]string{}
	b, err := os.ReadFile("/verif/harness/c11/known.json")
	if err != nil {
		t.Fatal(err)
	}
	var doc struct {
		Findings []struct{ ID, Signature, Status string } `json:"findings"`
	}
	if err := json.Unmarshal(b, &doc); err != nil {
		t.Fatal(err)
	}
	for _, f := range doc.Findings {
		if f.Status == "open" {
			idOf[f.Signature] = f.ID
		}
	}
	for sig, id := range idOf {
		cands := want[sig]
		if len(cands) == 0 {
			t.Errorf("no candidates for %s (%s)", id, sig)
			continue
		}
		found := false
		for _, cd := range cands {
			var o *vt.Outcome
			test := "TestBytes"
			if cd.c.Kind == "query" {
				test = "TestQuery"
				o = runQuery(cd.c)
			} else {
				o = runBytes(cd.c)
			}
			hit := o.Fail != nil && o.Fail.Sig == sig
			for _, k := range o.Known {
				hit = hit || k == sig
			}
			// accept only clean reproductions: nothing unknown fails
			if !hit || (o.Fail != nil && o.Fail.Sig != sig) {
				continue
			}
			out, _ := json.MarshalIndent(replayFile{Test: test, Sig: sig, Expect: "known", Case: cd.c}, "", " ")
			if err := os.WriteFile(filepath.Join(dir, "known-"+id+".json"), out, 0o644); err != nil {
				t.Fatal(err)
			}
			in := applyScript(cd.c.Base, cd.c.Splice, cd.c.Script)
			t.Logf("%s: %s  input %d bytes %x", id, sig, len(in), clip(in, 48))
			found = true
			break
		}
		if !found {
			t.Errorf("no candidate reproduces %s (%s)", id, sig)
		}
	}
	_ = bytes.Equal
}
