// Package c11 checks property C11: untrusted bytes and query text never crash
// or hang the process.  See prop.py for the rule text and MUTANTS.md for the
// sensitivity record and the native-fuzz commands.
package c11

import (
	"bytes"
	"encoding/binary"
	"fmt"
	"math"
	"os"
	"path/filepath"
	"runtime/debug"
	"sort"
	"strings"
	"sync"
	"testing"
	"time"

	zed "github.com/brimdata/super"
	"github.com/brimdata/super/zcode"
	"github.com/brimdata/super/zio"
	"github.com/brimdata/super/zio/anyio"
	"github.com/brimdata/super/zio/jsonio"
	"github.com/brimdata/super/zio/zngio"
	"github.com/brimdata/super/zio/zsonio"
	"github.com/brimdata/super/ztest"
	"pgregory.net/rapid"

	"verif/gen"
	"verif/oracle"
	"verif/vt"
)

func TestMain(m *testing.M) {
	// Every reader allocates a 512 KiB buffer while the live heap stays tiny:
	// with the default GC percentage a collection runs every few cases.
	debug.SetGCPercent(1000)
	vt.Main(m)
}

// Case is one replayable C11 case.  Kind "bytes": Base (a valid encoding or a
// literal input) is mutated by Script (Splice is the partner input of splice
// steps) and read with the given options through the named reader and through
// auto-detection.  Kind "query": Query is mutated by QScript and compiled.
type Case struct {
	Kind     string   `json:"kind"`
	Format   string   `json:"format,omitempty"`
	Base     []byte   `json:"base,omitempty"`
	Splice   []byte   `json:"splice,omitempty"`
	Script   []Mut    `json:"script,omitempty"`
	Threads  int      `json:"threads,omitempty"`
	Validate bool     `json:"validate,omitempty"`
	Chunk    int      `json:"chunk,omitempty"`
	Origin   string   `json:"origin,omitempty"` // how Base was made: gen:<writer opts> | repo:<file> | hostile:<name> | fuzz
	Edits    []string `json:"edits,omitempty"`  // structural edits already applied to Base (VNG metadata)
	NVals    int      `json:"nvals,omitempty"`  // number of values encoded in Base when it is an unedited generated encoding
	Query    string   `json:"query,omitempty"`
	QPartner string   `json:"qpartner,omitempty"`
	QScript  []QMut   `json:"qscript,omitempty"`
	Only     string   `json:"only,omitempty"` // "named" or "auto": restrict the runs (for slow regression inputs)
}

var byteFormats = []string{"zng", "zng", "zng", "zng", "zng", "vng", "vng", "vng", "zson", "zson", "zjson", "zjson", "json", "csv", "tsv", "zeek", "line"}

var allFormats = []string{"zng", "vng", "zson", "zjson", "json", "csv", "tsv", "zeek", "line"}

var flatPrims = []zed.Type{zed.TypeString, zed.TypeInt64, zed.TypeUint64, zed.TypeFloat64, zed.TypeBool, zed.TypeTime,
	zed.TypeDuration, zed.TypeIP, zed.TypeNet, zed.TypeInt32, zed.TypeUint8}

func repoDir() string {
	if d := os.Getenv("VERIF_REPO"); d != "" {
		return d
	}
	return "/repo"
}

// ---- base encodings

type wopts struct {
	Compress bool
	Frame    int
	Pretty   int
	Controls int // zng: control frames interleaved
	EOS      int // zng: extra end-of-stream markers (type context resets)
}

func (w wopts) String() string {
	return fmt.Sprintf("compress=%v,frame=%d,pretty=%d,ctl=%d,eos=%d", w.Compress, w.Frame, w.Pretty, w.Controls, w.EOS)
}

// encode writes vals in format with the repo's own writer.  Writers may
// refuse or even panic on some generated values (that is the business of
// other properties); the caller then falls back to another base.
func encode(format string, vals []zed.Value, w wopts) (out []byte, err error) {
	defer func() {
		if r := recover(); r != nil {
			err = fmt.Errorf("writer panic: %v", r)
		}
	}()
	var buf bytes.Buffer
	switch format {
	case "line":
		for _, v := range vals {
			buf.WriteString(strings.ReplaceAll(oracle.Show(v), "\n", " "))
			buf.WriteByte('\n')
		}
		return buf.Bytes(), nil
	case "zng":
		zw := zngio.NewWriterWithOpts(zio.NopCloser(&buf), zngio.WriterOpts{Compress: w.Compress, FrameThresh: w.Frame})
		n := len(vals)
		for i, v := range vals {
			if err := zw.Write(v); err != nil {
				return nil, err
			}
			if w.Controls > 0 && n > 0 && i%(n/(w.Controls+1)+1) == 0 {
				if err := zw.WriteControl([]byte(`{"ctl":`+fmt.Sprint(i)+`}`), zngio.ControlFormatJSON); err != nil {
					return nil, err
				}
			}
			if w.EOS > 0 && n > 0 && i%(n/(w.EOS+1)+1) == 1 {
				if err := zw.EndStream(); err != nil {
					return nil, err
				}
			}
		}
		if err := zw.Close(); err != nil {
			return nil, err
		}
		return buf.Bytes(), nil
	}
	zw, err := anyio.NewWriter(zio.NopCloser(&buf), anyio.WriterOpts{Format: format,
		ZSON: zsonio.WriterOpts{Pretty: w.Pretty}, JSON: jsonio.WriterOpts{Pretty: w.Pretty}})
	if err != nil {
		return nil, err
	}
	for _, v := range vals {
		if err := zw.Write(v); err != nil {
			return nil, err
		}
	}
	if err := zw.Close(); err != nil {
		return nil, err
	}
	return buf.Bytes(), nil
}

var fallbackBase = map[string]string{
	"zson":  "{a:1,b:\"x\"}\n{a:2,b:\"y\"}\n",
	"zjson": `{"type":{"kind":"record","id":30,"fields":[{"name":"a","type":{"kind":"primitive","name":"int64"}}]},"value":["1"]}` + "\n",
	"json":  "{\"a\":1,\"b\":[1,2,{\"c\":null}]}\n",
	"csv":   "a,b\n1,x\n2,y\n",
	"tsv":   "a\tb\n1\tx\n2\ty\n",
	"zeek":  "#separator \\x09\n#set_separator\t,\n#empty_field\t(empty)\n#unset_field\t-\n#path\tconn\n#fields\ta\tb\n#types\tstring\tint\nx\t1\ny\t2\n",
	"line":  "hello\nworld\n",
}

func drawFlat(t *rapid.T, format string, maxLen int) gen.Seq {
	zctx := zed.NewContext()
	tg := &gen.TypeGen{Zctx: zctx, Opts: gen.TypeOpts{SimpleNames: true}}
	vg := &gen.ValGen{Zctx: zctx, Types: tg}
	nshape := 1
	if format == "zeek" {
		nshape = rapid.IntRange(1, 3).Draw(t, "nshape")
	}
	var shapes []zed.Type
	for i := 0; i < nshape; i++ {
		n := rapid.IntRange(1, 4).Draw(t, "nf")
		names := rapid.Permutation(gen.SimpleFieldNames).Draw(t, "names")
		fields := make([]zed.Field, n)
		for j := range fields {
			ft := rapid.SampledFrom(flatPrims).Draw(t, "ft")
			if format == "zeek" && rapid.IntRange(0, 4).Draw(t, "container?") == 0 {
				if rapid.Bool().Draw(t, "set") {
					ft = zctx.LookupTypeSet(ft)
				} else {
					ft = zctx.LookupTypeArray(ft)
				}
			}
			fields[j] = zed.NewField(names[j], ft)
		}
		shapes = append(shapes, zctx.MustLookupTypeRecord(fields))
	}
	s := gen.Seq{Zctx: zctx}
	n := rapid.IntRange(0, maxLen).Draw(t, "n")
	cur := 0
	for i := 0; i < n; i++ {
		if rapid.IntRange(0, 3).Draw(t, "sw") == 0 {
			cur = rapid.IntRange(0, nshape-1).Draw(t, "shape")
		}
		s.Vals = append(s.Vals, vg.Value(t, shapes[cur]))
	}
	return s
}

func finite(typ zed.Type, body zcode.Bytes) zcode.Bytes {
	if zed.IsFloat(typ.ID()) {
		if f := zed.DecodeFloat(body); math.IsInf(f, 0) || math.IsNaN(f) {
			switch typ.ID() {
			case zed.IDFloat16:
				return zed.EncodeFloat16(1)
			case zed.IDFloat32:
				return zed.EncodeFloat32(1)
			}
			return zed.EncodeFloat64(1)
		}
	}
	return body
}

// drawBase draws values and encodes them in format with drawn writer options.
func drawBase(t *rapid.T, format string, maxLen int) (base []byte, origin string, nvals int) {
	var seq gen.Seq
	switch format {
	case "csv", "tsv", "zeek":
		seq = drawFlat(t, format, maxLen)
	default:
		seq = gen.DrawSeq(t, gen.SeqOpts{MaxLen: maxLen, MaxTypes: 4})
		if format == "json" {
			for i, v := range seq.Vals {
				seq.Vals[i] = oracle.MapLeaves(v, finite)
			}
		}
	}
	for i, v := range seq.Vals {
		if is := oracle.CheckValue(v); is != nil {
			panic(fmt.Sprintf("harness: generated value %d (%s) is not walker-consistent: %s", i, oracle.Show(v), is))
		}
	}
	w := wopts{
		Compress: rapid.Bool().Draw(t, "compress"),
		Frame:    rapid.SampledFrom([]int{1, 2, 7, 64, 300, 4096, zngio.DefaultFrameThresh}).Draw(t, "frame"),
		Pretty:   rapid.SampledFrom([]int{0, 0, 2, 4}).Draw(t, "pretty"),
	}
	if format == "zng" {
		w.Controls = rapid.SampledFrom([]int{0, 0, 0, 1, 3}).Draw(t, "controls")
		w.EOS = rapid.SampledFrom([]int{0, 0, 0, 1, 2}).Draw(t, "eos")
	}
	b, err := encode(format, seq.Vals, w)
	if err != nil || (len(b) == 0 && format != "zng") {
		return []byte(fallbackBase[formatOr(format)]), "fallback:" + format, 0
	}
	return b, "gen:" + format + ":" + w.String(), len(seq.Vals)
}

func formatOr(f string) string {
	if _, ok := fallbackBase[f]; ok {
		return f
	}
	return "zson"
}

// ---- repo test inputs (small inputs of the repo's own ztests)

type poolEntry struct {
	Name   string
	Format string
	Data   []byte
}

var (
	repoPool    []poolEntry
	repoQueries []string
)

func formatOfDir(dir string) string {
	switch {
	case strings.Contains(dir, "/csvio/"):
		return "csv"
	case strings.Contains(dir, "/zeekio/"):
		return "zeek"
	case strings.Contains(dir, "/zjsonio/"):
		return "zjson"
	case strings.Contains(dir, "/jsonio/"):
		return "json"
	case strings.Contains(dir, "/lineio/"):
		return "line"
	}
	return "zson"
}

func loadRepoCorpus() {
	root := repoDir()
	var yamls []string
	filepath.Walk(root, func(path string, info os.FileInfo, err error) error {
		if err != nil {
			return nil
		}
		if info.IsDir() && (info.Name() == ".git" || info.Name() == "node_modules") {
			return filepath.SkipDir
		}
		if strings.HasSuffix(path, ".yaml") && strings.Contains(path, "/ztests/") {
			yamls = append(yamls, path)
		}
		return nil
	})
	sort.Strings(yamls)
	seenQ := map[string]bool{}
	addQ := func(q string) {
		q = strings.TrimSpace(q)
		if q != "" && len(q) <= 2000 && !seenQ[q] {
			seenQ[q] = true
			repoQueries = append(repoQueries, q)
		}
	}
	for _, f := range []string{"compiler/parser/valid.zed", "compiler/parser/invalid.zed"} {
		b, _ := os.ReadFile(filepath.Join(root, f))
		for _, l := range strings.Split(string(b), "\n") {
			addQ(l)
		}
	}
	seenD := map[string]bool{}
	for _, y := range yamls {
		z, err := ztest.FromYAMLFile(y)
		if err != nil {
			continue
		}
		addQ(z.Zed)
		rel := strings.TrimPrefix(y, root+"/")
		if !strings.HasPrefix(rel, "zio/") && !strings.HasPrefix(rel, "zson/") {
			continue
		}
		add := func(name, data string) {
			if len(data) == 0 || len(data) > 3000 || seenD[data] {
				return
			}
			seenD[data] = true
			repoPool = append(repoPool, poolEntry{Name: rel + "#" + name, Format: formatOfDir("/" + rel), Data: []byte(data)})
		}
		add("input", z.Input)
		for _, in := range z.Inputs {
			if in.Data != nil {
				add(in.Name, *in.Data)
			}
		}
	}
}

var repoOnce sync.Once

// repoCorpus loads the repo inputs and programs on first use (generators only;
// replays and fuzz workers never need them).
func repoCorpus() { repoOnce.Do(loadRepoCorpus) }

// ---- generator for byte cases

type hostileBase struct {
	Name   string
	Format string
	Data   []byte
}

func hostileBases() []hostileBase {
	huge := uv(1<<64 - 1)
	frame := func(code byte, body []byte) []byte {
		n := len(body)
		out := []byte{code | byte(n&0xf)}
		out = binary.AppendUvarint(out, uint64(n>>4))
		return append(out, body...)
	}
	cat := func(bs ...[]byte) []byte { return bytes.Join(bs, nil) }
	hs := []hostileBase{
		{"zng-value-typeid-minus1", "zng", frame(0x10, cat(huge, []byte{1}))},
		{"zng-typedef-name-len-minus1", "zng", frame(0x00, cat([]byte{7}, huge))},
		{"zng-frame-len-minus1", "zng", cat([]byte{0x10}, huge)},
		{"zng-frame-1GiB", "zng", cat([]byte{0x10}, uv(1<<26), []byte{1, 2, 3})},
		{"zng-comp-size-1GiB", "zng", cat([]byte{0x50, 0x01, 0x00}, uv(1<<30), bytes.Repeat([]byte{0}, 16))},
		{"zng-comp-size-minus1", "zng", cat([]byte{0x5f, 0x01, 0x00}, huge, bytes.Repeat([]byte{0}, 32))},
		{"zng-comp-len-too-small", "zng", []byte{0x51, 0x00, 0x00, 0x05}},
		{"zng-typevalue-34-2-9", "zng", frame(0x10, []byte{28, 4, 34, 2, 9})},
		{"zng-record-nfields-huge", "zng", frame(0x00, cat([]byte{0}, huge))},
		{"zng-union-zero", "zng", frame(0x00, []byte{4, 0})},
		{"zng-enum-huge", "zng", frame(0x00, cat([]byte{5}, uv(1<<40)))},
		{"zng-ff-run", "zng", bytes.Repeat([]byte{0xff}, 64)},
		{"zng-zero-run", "zng", bytes.Repeat([]byte{0x00}, 64)},
		{"zng-control-empty", "zng", []byte{0x20, 0x00}},
		{"zng-self-ref-array", "zng", frame(0x00, []byte{1, 30})},
		{"zng-typedef-chain-300", "zng", zngChain(300)},
		{"vng-header-only", "vng", cat([]byte("VNG\x00"), []byte{4, 0, 0, 0}, make([]byte, 16))},
		{"vng-header-metasize-huge", "vng", cat([]byte("VNG\x00"), []byte{4, 0, 0, 0}, []byte{0, 0, 0, 0, 0, 0, 0, 0x10}, make([]byte, 8))},
		{"parquet-magic", "vng", cat([]byte("PAR1"), make([]byte, 16), []byte{0xff, 0xff, 0xff, 0x7f}, []byte("PAR1"))},
		{"arrow-continuation", "vng", cat([]byte{0xff, 0xff, 0xff, 0xff, 0x10, 0, 0, 0}, make([]byte, 32))},
		{"zson-deep-array", "zson", deepText("[", "]", 1200)},
		{"zson-deep-record", "zson", bytes.Repeat([]byte("{a:"), 1200)},
		{"zson-deep-type", "zson", cat([]byte("<"), bytes.Repeat([]byte("["), 1200), []byte("int64"), bytes.Repeat([]byte("]"), 1200), []byte(">"))},
		{"zson-deep-union-decorator", "zson", cat([]byte("1"), bytes.Repeat([]byte("((int64,string)"), 200))},
		{"json-deep-array", "json", deepText("[", "]", 1200)},
		{"json-deep-object", "json", bytes.Repeat([]byte("{\"a\":"), 1200)},
		{"json-long-number", "json", bytes.Repeat([]byte("9"), 5000)},
		{"zjson-deep-type", "zjson", cat(bytes.Repeat([]byte(`{"type":{"kind":"array","type":`), 300), []byte(`{"kind":"primitive","name":"int64"}`), bytes.Repeat([]byte("}"), 300), []byte(`,"value":null}`))},
		{"csv-unterminated-quote", "csv", []byte("a,b\n\"1,2\n3,4\n")},
		{"csv-many-columns", "csv", bytes.Repeat([]byte(","), 5000)},
		{"zeek-types-without-fields", "zeek", []byte("#types\tstring\nx\n")},
		{"zeek-empty-lines", "zeek", []byte("\n\n#fields\ta\n#types\tstring\n\nx\n")},
		{"line-long", "line", bytes.Repeat([]byte("x"), 70000)},
	}
	return hs
}

var hostilePool = hostileBases()

// zngChains is a ZNG stream of count sections, each a chain of n nested
// container typedefs over a different (container kind, primitive) pair, one
// null value of the deepest type and an end-of-stream marker.
func zngChains(n, count int) []byte {
	var out []byte
	prims := []int{0, 1, 2, 3, 6, 7, 8, 9, 12, 13, 14, 15, 16, 23, 24, 25, 26, 27, 28, 29}
	kinds := []byte{1, 2, 6}
	c := 0
	for _, k := range kinds {
		for _, p := range prims {
			if c >= count {
				return out
			}
			c++
			var body []byte
			for i := 0; i < n; i++ {
				body = append(body, k)
				id := p
				if i > 0 {
					id = 30 + i - 1
				}
				body = binary.AppendUvarint(body, uint64(id))
			}
			out = append(out, byte(len(body)&0xf))
			out = binary.AppendUvarint(out, uint64(len(body)>>4))
			out = append(out, body...)
			var vb []byte
			vb = binary.AppendUvarint(vb, uint64(30+n-1))
			vb = append(vb, 0)
			out = append(out, 0x10|byte(len(vb)&0xf))
			out = binary.AppendUvarint(out, uint64(len(vb)>>4))
			out = append(out, vb...)
			out = append(out, 0xff)
		}
	}
	return out
}

// jsonDeep is count JSON/ZSON values, each depth nested arrays around a record
// with a field name of its own (so that no two values share a type).
func jsonDeep(depth, count int) []byte {
	var b bytes.Buffer
	for i := 0; i < count; i++ {
		b.Write(bytes.Repeat([]byte("["), depth))
		fmt.Fprintf(&b, `{"k%d":1}`, i)
		b.Write(bytes.Repeat([]byte("]"), depth))
		b.WriteByte('\n')
	}
	return b.Bytes()
}

// zngChain is a ZNG stream defining n nested array types (each typedef refers
// to the previous one) followed by one null value of the deepest type.
func zngChain(n int) []byte {
	var body []byte
	for i := 0; i < n; i++ {
		body = append(body, 1)
		id := 9
		if i > 0 {
			id = 30 + i - 1
		}
		body = binary.AppendUvarint(body, uint64(id))
	}
	out := []byte{byte(len(body) & 0xf)}
	out = binary.AppendUvarint(out, uint64(len(body)>>4))
	out = append(out, body...)
	var vb []byte
	vb = binary.AppendUvarint(vb, uint64(30+n-1))
	vb = append(vb, 0)
	out = append(out, 0x10|byte(len(vb)&0xf))
	out = binary.AppendUvarint(out, uint64(len(vb)>>4))
	return append(out, vb...)
}

func drawData(t *rapid.T, binary bool) []byte {
	switch k := rapid.IntRange(0, 9).Draw(t, "datakind"); {
	case k < 6:
		if binary {
			return rapid.SampledFrom(hostileBin).Draw(t, "hostile")
		}
		return []byte(rapid.SampledFrom(hostileText).Draw(t, "hostile"))
	case k < 7:
		if binary {
			return []byte(rapid.SampledFrom(hostileText).Draw(t, "hostile"))
		}
		return rapid.SampledFrom(hostileBin).Draw(t, "hostile")
	case k < 8:
		return []byte{byte(rapid.IntRange(0, 255).Draw(t, "byte"))}
	default:
		return rapid.SliceOfN(rapid.Byte(), 1, 6).Draw(t, "bytes")
	}
}

func drawScript(t *rapid.T, format string, base []byte, canSplice bool) []Mut {
	n := rapid.SampledFrom([]int{0, 1, 1, 1, 1, 1, 2, 2, 2, 3, 3, 4}).Draw(t, "nmut")
	if n == 0 {
		return nil
	}
	ts := targetsFor(format, base)
	classes, byClass := classesOf(ts)
	isBin := format == "zng" || format == "vng"
	ops := []string{"flip", "flip", "flip", "set", "set", "set", "set", "ins", "ins", "rep", "rep", "del", "dup", "trunc"}
	if canSplice {
		ops = append(ops, "splice", "splice")
	}
	var script []Mut
	for i := 0; i < n; i++ {
		m := Mut{Op: rapid.SampledFrom(ops).Draw(t, "op")}
		tlen := 1
		if len(classes) > 0 && rapid.IntRange(0, 3).Draw(t, "aimed?") > 0 {
			cl := rapid.SampledFrom(classes).Draw(t, "class")
			tg := rapid.SampledFrom(byClass[cl]).Draw(t, "target")
			m.Class = cl
			m.Off = tg.Off
			tlen = tg.Len
			if tg.Len > 1 && (cl == "value-body" || cl == "comp-payload" || cl == "vng-data" || cl == "control-body" || cl == "typedef-name") {
				m.Off += rapid.IntRange(0, tg.Len-1).Draw(t, "within")
				tlen = 1
			}
		} else {
			m.Class = "uniform"
			m.Off = rapid.IntRange(0, len(base)).Draw(t, "off")
		}
		switch m.Op {
		case "trunc":
			// any offset, but mostly in the last third: an early cut leaves nothing to decode
			if len(base) > 3 && rapid.IntRange(0, 3).Draw(t, "late?") > 0 {
				m.Class = "tail"
				m.Off = len(base) - rapid.IntRange(0, len(base)/3).Draw(t, "fromend")
			}
		case "flip":
			m.N = rapid.IntRange(0, 7).Draw(t, "bit")
		case "set", "ins":
			m.Data = drawData(t, isBin)
		case "rep":
			m.N = tlen
			m.Data = drawData(t, isBin)
		case "del", "dup":
			m.N = rapid.SampledFrom([]int{1, 1, tlen, 2, 3, 8, 64}).Draw(t, "n")
		case "splice":
			m.N = rapid.IntRange(0, 1<<16).Draw(t, "partneroff")
		}
		script = append(script, m)
	}
	return script
}

func genBytes(t *rapid.T) Case {
	repoCorpus()
	c := Case{Kind: "bytes"}
	c.Format = rapid.SampledFrom(byteFormats).Draw(t, "format")
	maxLen := 12
	if vt.Thorough() {
		maxLen = 40
	}
	// (rapid favours small draws: the generated encodings come first)
	switch src := rapid.IntRange(0, 19).Draw(t, "source"); {
	case src >= 18 && len(repoPool) > 0:
		e := rapid.SampledFrom(repoPool).Draw(t, "repo")
		c.Format, c.Base, c.Origin = e.Format, e.Data, "repo:"+e.Name
	case src >= 16:
		h := rapid.SampledFrom(hostilePool).Draw(t, "hostilebase")
		c.Format, c.Base, c.Origin = h.Format, h.Data, "hostile:"+h.Name
	default:
		c.Base, c.Origin, c.NVals = drawBase(t, c.Format, maxLen)
		if c.Format == "vng" && strings.HasPrefix(c.Origin, "gen:") {
			drawVNGEdits(t, &c)
		}
	}
	canSplice := rapid.IntRange(0, 3).Draw(t, "partner?") == 0
	if canSplice {
		pf := c.Format
		if rapid.IntRange(0, 2).Draw(t, "otherformat") == 0 {
			pf = rapid.SampledFrom(allFormats).Draw(t, "pformat")
		}
		c.Splice, _, _ = drawBase(t, pf, 4)
	}
	c.Script = drawScript(t, c.Format, c.Base, canSplice)
	uses := false
	for _, m := range c.Script {
		if m.Op == "splice" {
			uses = true
		}
	}
	if !uses {
		c.Splice = nil
	}
	c.Threads = rapid.SampledFrom([]int{1, 3}).Draw(t, "threads")
	c.Validate = rapid.Bool().Draw(t, "validate")
	c.Chunk = rapid.SampledFrom([]int{0, 0, 0, 0, 1, 7, 4096}).Draw(t, "chunk")
	return c
}

// ---- Run for byte cases

func outcomeOf(r *runResult) string {
	switch {
	case r.panicked:
		return "panic"
	case r.reader == "":
		return "refused"
	case r.values == 0 && r.err != nil:
		return "error-before-first-value"
	case r.values == 0:
		return "empty"
	case r.err != nil:
		return "values-then-error"
	case r.capped:
		return "values-capped"
	}
	return "values-then-eof"
}

func runBytes(c Case) *vt.Outcome {
	o := &vt.Outcome{}
	rep := &reporter{o: o}
	input := applyScript(c.Base, c.Splice, c.Script)
	mutated := len(c.Edits) > 0 || !bytes.Equal(input, c.Base) || strings.HasPrefix(c.Origin, "hostile:") || c.Origin == "fuzz"
	origin := c.Origin
	if i := strings.Index(origin, ":"); i > 0 {
		origin = origin[:i]
	}
	o.Label("format:"+c.Format, "origin:"+origin)
	if !mutated {
		o.Label("unmutated")
	}
	for _, m := range c.Script {
		o.Label("mut:"+m.Op, "aim:"+m.Class)
	}
	for _, e := range c.Edits {
		if i := strings.Index(e, ":"); i > 0 {
			o.Label("edit:" + e[:i])
		}
	}
	if c.Threads > 1 {
		o.Label("opt:threads=3")
	}
	if c.Validate {
		o.Label("opt:validate")
	}
	if c.Chunk > 0 {
		o.Label("opt:chunked")
	}
	past := false
	for _, via := range []string{"named", "auto"} {
		if c.Only != "" && c.Only != via {
			continue
		}
		cfg := runCfg{Via: via, Format: c.Format, Threads: 1, Validate: c.Validate, Chunk: c.Chunk}
		if c.Chunk == 0 && (via == "auto" || c.Format == "vng") {
			if meta, ok := looksLikeVNG(input); ok {
				ok, metaIssue := vngPreflight(meta, rep)
				cfg.MetaIssue = metaIssue
				if !ok {
					o.Label("excluded:" + via + ":vng-metadata-would-crash-process")
					continue
				}
				if vt.IsKnown("C11/alloc/vng/big-blocks") {
					if seg, sum, err := vngScreen(input); err == nil && (seg > segmentLimit || sum > lengthsLimit) {
						rep.report("C11/alloc/vng/big-blocks", "")
						o.Label("excluded:" + via + ":vng-declares-huge-segment-or-length")
						continue
					}
				}
			}
		}
		r1 := runOnce(input, cfg, rep)
		o.Label(via + ":" + outcomeOf(r1))
		if via == "auto" {
			if r1.reader != "" {
				o.Label("auto-detected:" + r1.reader)
			} else if !r1.panicked {
				o.Label("auto-detected:none")
			}
		}
		if r1.invalid > 0 {
			o.Label("walker-inconsistent-values:" + r1.reader)
		}
		if r1.values > 0 || (r1.typedefs && (r1.reader == "zng" || c.Format == "zng")) {
			past = true
		}
		if !mutated && via == "named" && c.NVals > 0 && (r1.err != nil || r1.values != c.NVals || r1.invalid > 0) {
			// not C11's business (C01-C03 look at round trips) but worth seeing
			o.Label("valid-base-not-read-back:" + c.Format)
		}
		if rep.failed() {
			return o
		}
		consumers(r1.kept, r1.reader, rep)
		if rep.failed() {
			return o
		}
		threaded := c.Threads > 1 && !r1.panicked && (r1.reader == "zng" || r1.reader == "csv" || r1.reader == "")
		if threaded && (r1.err != nil || r1.reader != "zng") {
			// (auto-detection tries ZNG with Validate forced on)
			if !zngReadAheadSafe(input, cfg.Validate || via == "auto", rep) || (via == "auto" && !cfg.Validate && !zngReadAheadSafe(input, false, rep)) {
				threaded = false
				o.Label("excluded:" + via + "-threads3:listed-panic-in-a-frame-behind-the-first-error")
			}
		}
		if threaded {
			cfg.Threads = c.Threads
			r3 := runOnce(input, cfg, rep)
			o.Label(via + "-threads3:" + outcomeOf(r3))
			if rep.failed() {
				return o
			}
			if r3.values != r1.values || (r3.err == nil) != (r1.err == nil) {
				o.Label("threads3-differs-from-threads1")
			}
			consumers(r3.kept, r3.reader, rep)
			if rep.failed() {
				return o
			}
		}
	}
	leakCheck(rep, fmt.Sprintf("format=%s threads=%d validate=%v chunk=%d", c.Format, c.Threads, c.Validate, c.Chunk))
	if mutated && past {
		o.NonTrivial = true
		o.Label("past-detection")
	} else if mutated {
		o.Label("rejected-at-once")
	}
	return o
}

var bytesProp = &vt.Prop[Case]{
	Name:      "TestBytes",
	CaseLimit: 90 * time.Second,
	Rule: "case = (format, base = valid encoding written by the repo's writers from generated values (ZNG: compress x frame threshold x control frames x extra EOS; VNG: optionally with uncompressed and edited metadata) " +
		"or a small repo ztest input or a hostile literal, mutation script of 0..4 steps aimed at frame headers/length varints/compression header/typedef fields/value type ids and tags/VNG header+metadata/text punctuation " +
		"with hostile constants, reader options threads in {1,3} x validate x {seekable, chunked non-seekable}); read through the named reader and through auto-detection, Max = 1 MiB. " +
		"Oracle: no panic, bounded number of values, TotalAlloc delta <= 64MiB+8*(len+threads*Max), with Validate every ZNG value passes the independent walker, walker-consistent values go to the ZSON formatter and ZNG writer without panic, no reader goroutine left after Close. " +
		"Non-trivial: the input differs from its valid base (or is hostile) and a reader got past detection (>= 1 value handed out, or >= 1 ZNG typedef decoded); distinct = distinct case digests.",
	Gen: genBytes,
	Run: runBytes,
}

func init() { bytesProp.Register() }

func TestBytes(t *testing.T) { bytesProp.Check(t) }

// TestReplay replays /verif/replays/C11 (through vt) and, in directory mode,
// the seed corpus /verif/corpus/C11 through the same oracle.
func TestReplay(t *testing.T) {
	vt.TestReplay(t)
	if os.Getenv("VERIF_REPLAY_DIR") != "" {
		vt.ReplayDir(t, corpusDir())
	}
}

func corpusDir() string {
	if d := os.Getenv("VERIF_CORPUS"); d != "" {
		return d
	}
	return "/verif/corpus/C11"
}
