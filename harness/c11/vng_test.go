package c11

import (
	"bytes"
	"encoding/binary"
	"fmt"

	zed "github.com/brimdata/super"
	"github.com/brimdata/super/vng"
	"github.com/brimdata/super/zcode"
	"github.com/brimdata/super/zio"
	"github.com/brimdata/super/zio/zngio"
	"pgregory.net/rapid"

	"verif/oracle"
)

// The metadata section of a VNG object is one ZNG value (usually LZ4
// compressed).  To aim mutations at it the harness re-writes a valid object
// with an uncompressed metadata section, optionally after replacing chosen
// leaves of the metadata value (segment offsets/lengths, vector lengths,
// counts, the type values of primitive vectors, names) by hostile values.
// This happens at generation time on valid data; the case stores the result.

type metaLeaf struct {
	ID   int // zed type id of the leaf
	Body zcode.Bytes
}

// vngMeta splits a valid VNG object and decodes its metadata value.
func vngMeta(b []byte) (val zed.Value, data []byte, err error) {
	if len(b) < vng.HeaderSize {
		return zed.Null, nil, fmt.Errorf("short")
	}
	ms := binary.LittleEndian.Uint64(b[8:])
	if ms > uint64(len(b)-vng.HeaderSize) {
		return zed.Null, nil, fmt.Errorf("bad metasize")
	}
	meta := b[vng.HeaderSize : vng.HeaderSize+int(ms)]
	data = b[vng.HeaderSize+int(ms):]
	r := zngio.NewReaderWithOpts(zed.NewContext(), bytes.NewReader(meta), zngio.ReaderOpts{Threads: 1})
	defer r.Close()
	v, err := r.Read()
	if err != nil {
		return zed.Null, nil, err
	}
	if v == nil {
		return zed.Null, nil, fmt.Errorf("no metadata value")
	}
	return v.Copy(), data, nil
}

func vngAssemble(meta zed.Value, data []byte) ([]byte, error) {
	var mb bytes.Buffer
	zw := zngio.NewWriterWithOpts(zio.NopCloser(&mb), zngio.WriterOpts{Compress: false, FrameThresh: zngio.DefaultFrameThresh})
	if err := zw.Write(meta); err != nil {
		return nil, err
	}
	if err := zw.Close(); err != nil {
		return nil, err
	}
	hdr := vng.Header{Version: vng.Version, MetaSize: uint64(mb.Len()), DataSize: uint64(len(data))}
	out := append([]byte{}, hdr.Serialize()...)
	out = append(out, mb.Bytes()...)
	return append(out, data...), nil
}

func metaLeaves(v zed.Value) []metaLeaf {
	var ls []metaLeaf
	oracle.MapLeaves(v, func(typ zed.Type, body zcode.Bytes) zcode.Bytes {
		ls = append(ls, metaLeaf{typ.ID(), body})
		return body
	})
	return ls
}

var hostileUints = []uint64{0, 1, 2, 3, 255, 256, 65535, 65536, 1 << 20, 1<<20 + 1, 1 << 24, 1<<31 - 1, 1 << 31, 1<<32 - 1, 1 << 32, 1 << 33, 1 << 40, 1 << 47, 1 << 48, 1 << 62, 1<<63 - 1, 1 << 63, 1<<64 - 1}

var hostileTypeValues = [][]byte{
	// (rapid favours the front of a sampled list: the most telling ones first)
	{34, 2, 9}, {30, 0x80, 0x80, 0x80, 0x08}, {34, 0x80, 0x80, 0x80, 0x08}, {35, 0x80, 0x80, 0x80, 0x08}, // truncated union; record/union/enum announcing 2^24 entries
	{34, 1}, {34, 0}, {30, 1, 1, 'a'}, {37, 1, 'x'}, {38, 1, 'x'}, {35, 0xff, 0xff, 3}, {},
	{30, 0xff, 0xff, 0xff, 0xff, 0xff, 0xff, 0xff, 0xff, 0xff, 0x01},
	{34, 0xff, 0xff, 0xff, 0xff, 0xff, 0xff, 0xff, 0xff, 0x7f},
	{35, 0xff, 0xff, 0xff, 0xff, 0xff, 0xff, 0xff, 0xff, 0xff, 0x01},
	{30, 1, 0xff, 0xff, 0xff, 0xff, 0xff, 0xff, 0xff, 0xff, 0xff, 0x01, 'a', 9},
	{31, 31, 31, 31}, {99}, {29}, {28}, {25}, {9, 9}, {33, 9}, {32}, {36},
	{30, 0x80, 0x80, 0x80, 0x40},                                           // record type value announcing 2^27 fields
	{30, 0xa1, 0x8d, 0x06}, {34, 0xa1, 0x8d, 0x06}, {35, 0xa1, 0x8d, 0x06}, // 100001: one more than MaxRecordFields etc.
	{30, 2, 1, 'a', 9, 1, 'a', 9}, // duplicate field
	{37, 5, 'i', 'n', 't', '6', '4', 9},
}

func isUintID(id int) bool {
	return id == zed.IDUint8 || id == zed.IDUint16 || id == zed.IDUint32 || id == zed.IDUint64
}

// drawVNGEdits rewrites c.Base (a valid generated VNG object) with an
// uncompressed metadata section and 0..3 hostile metadata leaves.
func drawVNGEdits(t *rapid.T, c *Case) {
	mode := rapid.IntRange(0, 5).Draw(t, "vngmode")
	if mode == 0 {
		return // as written (metadata usually compressed)
	}
	meta, data, err := vngMeta(c.Base)
	if err != nil {
		return
	}
	leaves := metaLeaves(meta)
	nedit := 0
	if mode >= 2 && len(leaves) > 0 {
		nedit = rapid.SampledFrom([]int{1, 1, 1, 2, 3}).Draw(t, "nedit")
	}
	repl := map[int]zcode.Bytes{}
	var uintIdx, typeIdx []int
	for i, l := range leaves {
		if l.Body == nil {
			continue
		}
		switch {
		case isUintID(l.ID):
			uintIdx = append(uintIdx, i)
		case l.ID == zed.IDType:
			typeIdx = append(typeIdx, i)
		}
	}
	for k := 0; k < nedit; k++ {
		pickType := len(typeIdx) > 0 && (len(uintIdx) == 0 || rapid.IntRange(0, 9).Draw(t, "edittype?") < 4)
		if pickType {
			i := rapid.SampledFrom(typeIdx).Draw(t, "typeleaf")
			tv := rapid.SampledFrom(hostileTypeValues).Draw(t, "typevalue")
			repl[i] = append(zcode.Bytes{}, tv...)
			c.Edits = append(c.Edits, fmt.Sprintf("metatype:leaf%d=%x", i, tv))
		} else if len(uintIdx) > 0 {
			i := rapid.SampledFrom(uintIdx).Draw(t, "uintleaf")
			var u uint64
			switch rapid.IntRange(0, 3).Draw(t, "uintkind") {
			case 0:
				u = zed.DecodeUint(leaves[i].Body) + 1
			case 1:
				u = zed.DecodeUint(leaves[i].Body) - 1
			default:
				u = rapid.SampledFrom(hostileUints).Draw(t, "uint")
			}
			repl[i] = append(zcode.Bytes{}, zed.EncodeUint(u)...)
			c.Edits = append(c.Edits, fmt.Sprintf("metauint:leaf%d=%d", i, u))
		}
	}
	n := 0
	edited := oracle.MapLeaves(meta, func(typ zed.Type, body zcode.Bytes) zcode.Bytes {
		i := n
		n++
		if r, ok := repl[i]; ok {
			return r
		}
		return body
	})
	b, err := vngAssemble(edited, data)
	if err != nil {
		c.Edits = nil
		return
	}
	c.Base = b
	c.Origin += ",meta-uncompressed"
	if len(c.Edits) > 0 {
		c.NVals = 0
	}
}
