package c11

import (
	"encoding/json"
	"fmt"
	"os"
	"path/filepath"
	"regexp"
	"testing"

	"pgregory.net/rapid"
)

// TestMakeCorpus regenerates the seed corpus (run by hand:
// VERIF_MAKE_CORPUS=/verif/corpus/C11 go test -run TestMakeCorpus ./c11).
// The corpus holds, as replayable cases: valid encodings of generated values in
// every format and writer-option class, small inputs of the repo's ztests, the
// hostile literals, and the repo's query programs.  It is replayed by the
// quick tier (TestReplay) and seeds the native fuzz targets.
func TestMakeCorpus(t *testing.T) {
	dir := os.Getenv("VERIF_MAKE_CORPUS")
	if dir == "" {
		t.Skip("set VERIF_MAKE_CORPUS=<dir> to regenerate the seed corpus")
	}
	repoCorpus()
	if err := os.MkdirAll(dir, 0o755); err != nil {
		t.Fatal(err)
	}
	old, _ := filepath.Glob(filepath.Join(dir, "*.json"))
	for _, f := range old {
		os.Remove(f)
	}
	clean := regexp.MustCompile(`[^A-Za-z0-9_.-]+`)
	n := 0
	write := func(test, name string, c Case) {
		b, err := json.MarshalIndent(replayFile{Test: test, Case: c}, "", " ")
		if err != nil {
			t.Fatal(err)
		}
		name = clean.ReplaceAllString(name, "_")
		if len(name) > 80 {
			name = name[:80]
		}
		if err := os.WriteFile(filepath.Join(dir, fmt.Sprintf("%03d-%s.json", n, name)), b, 0o644); err != nil {
			t.Fatal(err)
		}
		n++
	}
	// valid encodings: per format a few generated sequences (options vary with the draw)
	for _, format := range allFormats {
		per := 6
		if format == "zng" || format == "vng" {
			per = 14
		}
		g := rapid.Custom(func(rt *rapid.T) Case {
			c := Case{Kind: "bytes", Format: format}
			c.Base, c.Origin, c.NVals = drawBase(rt, format, 10)
			if format == "vng" && rapid.Bool().Draw(rt, "uncompressed-meta") {
				if meta, data, err := vngMeta(c.Base); err == nil {
					if b, err := vngAssemble(meta, data); err == nil {
						c.Base = b
						c.Origin += ",meta-uncompressed"
					}
				}
			}
			c.Threads = rapid.SampledFrom([]int{1, 3}).Draw(rt, "threads")
			c.Validate = rapid.Bool().Draw(rt, "validate")
			return c
		})
		for i := 0; i < per; i++ {
			c := g.Example(1000*len(format) + i + 1)
			if len(c.Base) > 6000 {
				continue
			}
			write("TestBytes", "valid-"+format, c)
		}
	}
	for _, h := range hostilePool {
		write("TestBytes", "hostile-"+h.Name, Case{Kind: "bytes", Format: h.Format, Base: h.Data, Origin: "hostile:" + h.Name, Threads: 3, Validate: true})
	}
	for i, hb := range hostileBin {
		// hostile constants as values of a ZNG values frame and as whole inputs
		frame := append([]byte{0x10 | byte(len(hb)&0xf), byte(len(hb) >> 4)}, hb...)
		write("TestBytes", fmt.Sprintf("hostile-const-%d", i), Case{Kind: "bytes", Format: "zng", Base: frame, Origin: fmt.Sprintf("hostile:const%d", i), Threads: 1, Validate: i%2 == 0})
	}
	step := max(1, len(repoPool)/70)
	for i := 0; i < len(repoPool); i += step {
		e := repoPool[i]
		write("TestBytes", "repo-"+e.Name, Case{Kind: "bytes", Format: e.Format, Base: e.Data, Origin: "repo:" + e.Name, Threads: 1 + 2*(i%2), Validate: true})
	}
	qstep := max(1, len(repoQueries)/150)
	for i := 0; i < len(repoQueries); i += qstep {
		write("TestQuery", "query", Case{Kind: "query", Query: repoQueries[i]})
	}
	for i, q := range repoQueries {
		if i >= 50 {
			break // valid.zed and invalid.zed come first
		}
		if i%qstep != 0 {
			write("TestQuery", "query-parser", Case{Kind: "query", Query: q})
		}
	}
	for _, q := range extraQueries {
		write("TestQuery", "query-extra", Case{Kind: "query", Query: q})
	}
	t.Logf("wrote %d corpus cases to %s (repo pool %d inputs, %d programs)", n, dir, len(repoPool), len(repoQueries))
}
