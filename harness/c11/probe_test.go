package c11

import (
	"bytes"
	"encoding/json"
	"fmt"
	"os"
	"testing"

	zed "github.com/brimdata/super"
	"github.com/brimdata/super/zio/zngio"
	"github.com/brimdata/super/zson"
	"verif/oracle"
)

func TestProbe(t *testing.T) {
	b, _ := os.ReadFile("/var/tmp/c11scratch/found/crash-f1655841.json")
	var rf replayFile
	json.Unmarshal(b, &rf)
	c := rf.Case
	input := applyScript(c.Base, c.Splice, c.Script)
	meta, ok := looksLikeVNG(input)
	fmt.Println("vng?", ok, len(meta))
	zctx := zed.NewContext()
	r := zngio.NewReaderWithOpts(zctx, bytes.NewReader(meta), zngio.ReaderOpts{Threads: 1})
	for {
		v, err := r.Read()
		fmt.Println("read:", v != nil, err)
		if v == nil || err != nil {
			break
		}
		fmt.Println("type:", zson.FormatType(v.Type()))
		fmt.Printf("bytes: %x\n", v.Bytes())
		fmt.Println("issue:", oracle.CheckValue(*v))
		for _, tv := range oracle.TypeLeaves(*v) {
			fmt.Printf("  typeleaf %x\n", tv)
		}
	}
}
