package c11

import (
	"fmt"
	"sort"
	"strings"
	"testing"

	"pgregory.net/rapid"
)

func TestProbe(t *testing.T) {
	counts := map[string]int{}
	nv, ne := 0, 0
	rapid.Check(t, func(rt *rapid.T) {
		c := genBytes(rt)
		if c.Format == "vng" {
			nv++
		}
		for _, e := range c.Edits {
			if strings.HasPrefix(e, "metatype:") {
				ne++
				counts[e[strings.Index(e, "=")+1:]]++
			}
		}
	})
	var ks []string
	for k := range counts {
		ks = append(ks, k)
	}
	sort.Strings(ks)
	for _, k := range ks {
		fmt.Printf("%-30s %d\n", k, counts[k])
	}
	fmt.Println("vng cases", nv, "type edits", ne)
}
