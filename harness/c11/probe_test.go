package c11

import (
	"fmt"
	"testing"

	zed "github.com/brimdata/super"
	"github.com/brimdata/super/zcode"
	"verif/gen"
	"verif/oracle"
)

func TestProbe(t *testing.T) {
	seq := gen.SeqFromZSON("1 2 3")
	b, _ := encode("vng", seq.Vals, wopts{})
	meta, data, _ := vngMeta(b)
	for _, tv := range [][]byte{{30, 0x80, 0x80, 0x80, 0x08}, {30, 0xa1, 0x8d, 0x06}} {
		n := 0
		edited := oracle.MapLeaves(meta, func(typ zed.Type, body zcode.Bytes) zcode.Bytes {
			if typ.ID() == zed.IDType {
				n++
				return append(zcode.Bytes{}, tv...)
			}
			return body
		})
		out, _ := vngAssemble(edited, data)
		o := runBytes(Case{Kind: "bytes", Format: "vng", Base: out, Threads: 1, Origin: "gen:x", Edits: []string{"metatype:x"}})
		fmt.Printf("tv=%x typeleaves=%d fail=%v known=%v labels=%v\n", tv, n, o.Fail, o.Known, o.Labels)
	}
}
