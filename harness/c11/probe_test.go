package c11

import (
	"bytes"
	"encoding/binary"
	"fmt"
	"runtime"
	"testing"
	"time"

	zed "github.com/brimdata/super"
	"github.com/brimdata/super/compiler/optimizer/demand"
	"github.com/brimdata/super/zio/anyio"
	"github.com/brimdata/super/zio/zngio"
)

func zngChain(n int) []byte {
	var body []byte
	for i := 0; i < n; i++ {
		body = append(body, 1)
		id := 9
		if i > 0 {
			id = 30 + i - 1
		}
		body = binary.AppendUvarint(body, uint64(id))
	}
	out := []byte{byte(len(body) & 0xf)}
	out = binary.AppendUvarint(out, uint64(len(body)>>4))
	out = append(out, body...)
	// one null value of the deepest type
	var vb []byte
	vb = binary.AppendUvarint(vb, uint64(30+n-1))
	vb = append(vb, 0)
	out = append(out, 0x10|byte(len(vb)&0xf))
	out = binary.AppendUvarint(out, uint64(len(vb)>>4))
	return append(out, vb...)
}

func TestProbe(t *testing.T) {
	for _, n := range []int{500, 1000, 2000, 4000, 8000, 16000} {
		in := zngChain(n)
		var m0, m1 runtime.MemStats
		runtime.ReadMemStats(&m0)
		t0 := time.Now()
		rc, err := anyio.NewReaderWithOpts(zed.NewContext(), bytes.NewReader(in), demand.All(), anyio.ReaderOpts{Format: "zng", ZNG: zngio.ReaderOpts{Threads: 1, Max: 1 << 20}})
		nv := 0
		var rerr error
		if err == nil {
			for {
				v, err := rc.Read()
				if v == nil || err != nil {
					rerr = err
					break
				}
				nv++
			}
		}
		runtime.ReadMemStats(&m1)
		fmt.Printf("zng chain depth=%d len=%d values=%d err=%v alloc=%d MB time=%v\n", n, len(in), nv, rerr, (m1.TotalAlloc-m0.TotalAlloc)>>20, time.Since(t0))
	}
}
