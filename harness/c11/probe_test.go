package c11

import (
	"fmt"
	"testing"
	"time"

	"verif/vt"
)

func TestProbe(t *testing.T) {
	try := func(name, format string, in []byte) {
		o := &vt.Outcome{}
		rep := &reporter{o: o}
		t0 := time.Now()
		r := runOnce(in, runCfg{Via: "named", Format: format, Threads: 1}, rep)
		sig := ""
		if o.Fail != nil {
			sig = o.Fail.Sig
		}
		fmt.Printf("%s len=%d values=%d err=%v alloc=%dMB bound=%dMB time=%v known=%v fail=%v\n", name, len(in), r.values, r.err, r.allocDelta>>20, allocBound(len(in), 1)>>20, time.Since(t0), o.Known, sig)
	}
	try("json 1000x27", "json", jsonDeep(1000, 27))
	try("json 1000x40", "json", jsonDeep(1000, 40))
	try("json 1500x25", "json", jsonDeep(1500, 25))
	try("json deep 4500", "json", deepText("[", "]", 4500))
	try("json deep 8000", "json", deepText("[", "]", 8000))
	try("zson 1000x40", "zson", jsonDeep(1000, 40))
	try("zson 1500x25", "zson", jsonDeep(1500, 25))
	try("zson deep 5000", "zson", deepText("[", "]", 5000))
	try("zng 300x46", "zng", zngChains(300, 46))
	try("zng chain 1600", "zng", zngChain(1600))
}
