package c11

import (
	"context"
	"strings"
	"testing"
	"time"
	"unicode"

	zed "github.com/brimdata/super"
	"github.com/brimdata/super/compiler"
	"github.com/brimdata/super/compiler/data"
	"github.com/brimdata/super/runtime"
	"pgregory.net/rapid"

	"verif/vt"
)

// QMut is one token-level mutation of a query text.
type QMut struct {
	Op   string `json:"op"` // del | dup | swap | ins | splice | trunc
	Pos  int    `json:"pos"`
	N    int    `json:"n,omitempty"`
	Text string `json:"text,omitempty"`
}

// tokens splits a program into identifier/number runs, quoted strings,
// whitespace runs and single punctuation characters (lossless: the
// concatenation of the tokens is the text).
func tokens(s string) []string {
	var out []string
	rs := []rune(s)
	for i := 0; i < len(rs); {
		j := i + 1
		switch r := rs[i]; {
		case unicode.IsLetter(r) || unicode.IsDigit(r) || r == '_':
			for j < len(rs) && (unicode.IsLetter(rs[j]) || unicode.IsDigit(rs[j]) || rs[j] == '_' || rs[j] == '.') {
				j++
			}
		case unicode.IsSpace(r):
			for j < len(rs) && unicode.IsSpace(rs[j]) {
				j++
			}
		case r == '"' || r == '\'' || r == '`':
			for j < len(rs) && rs[j] != r {
				if rs[j] == '\\' {
					j++
				}
				j++
			}
			j = min(j+1, len(rs))
		}
		out = append(out, string(rs[i:j]))
		i = j
	}
	return out
}

var hostileTokens = []string{"(", ")", "[", "]", "{", "}", "|", "|>", "=>", ":=", "==", "::", ",", ";", ".", "...", "?", ":", "*", "-", "!", "<", ">", "<(", "|[", "]|", "|{", "}|",
	"over", "with", "const", "func", "op", "type", "from", "fork", "switch", "case", "default", "join", "on", "yield", "where", "by", "summarize", "sort", "put", "cut", "drop", "rename", "search", "assert",
	"this", "null", "true", "error(", "missing", "quiet(", "typeof(", "cast(", "shape(", "grep(", "regexp(", "collect(", "count()", "every(1h)", "not", "and", "or", "in", "like", "matches",
	"1e999", "9223372036854775808", "-9223372036854775809", "0x", "1.2.3.4/33", "::/129", "2020-13-45T99:99:99Z", "1y1y1y", "<int64>", "<{a:", "<foo=", "<(int64,", "enum(", "|[1,1]|", "|{1:1,1:2}|",
	"\"", "'", "`", "\\", "/*", "*/", "//", "\n", "\x00", "\xff", "é", "/(/", "/[/", "/a**/", "*(", "\"\\u\"", "f\"{", "f\"{{", "${", "a[", "a[:", "a[1:", "a.b.", "?.", "=~",
	"const x = x", "func f(x): (f(x))", "op o(): (o())", "type t = t", "yield f(", "over this => (", "from (", "pool", "file", "get http://", "format", "@", "pass"}

// substWords replace identifier/number tokens: names of functions, aggregators,
// operators and types, this-paths, numbers at type boundaries.
var substWords = []string{"this", "a", "b", "x", "a.b", "this.a", "count", "sum", "avg", "min", "max", "collect", "union", "any", "and", "or", "dcount", "fuse", "map", "every",
	"typeof", "typeunder", "nameof", "kind", "len", "has", "missing", "error", "is_error", "quiet", "cast", "shape", "fill", "crop", "order", "fit", "flatten", "unflatten", "fields",
	"grep", "regexp", "regexp_replace", "replace", "split", "join", "trim", "lower", "upper", "levenshtein", "parse_uri", "parse_zson", "hex", "base64", "network_of", "cidr_match",
	"now", "bucket", "strftime", "abs", "ceil", "floor", "log", "pow", "round", "sqrt", "coalesce", "compare", "nest_dotted", "under", "rune_len", "ksuid", "has_error",
	"int8", "int16", "int32", "int64", "uint8", "uint16", "uint32", "uint64", "float16", "float32", "float64", "bool", "bytes", "string", "ip", "net", "type", "null", "time", "duration",
	"sort", "head", "tail", "uniq", "pass", "yield", "put", "cut", "drop", "rename", "where", "search", "summarize", "over", "fork", "switch", "merge", "combine", "join", "sample", "load", "output", "explode", "top", "assert", "debug", "from", "file", "get",
	"0", "1", "-1", "255", "256", "65536", "2147483648", "9223372036854775807", "18446744073709551615", "1.5", "1e308", "1h", "1ns", "2020-01-01T00:00:00Z", "10.0.0.1", "10.0.0.0/8", "true", "false", "null"}

func applyQScript(q, partner string, script []QMut) string {
	toks := tokens(q)
	ptoks := tokens(partner)
	at := func(p, n int) int {
		if n <= 0 {
			return 0
		}
		if p < 0 {
			p = -p
		}
		return p % n
	}
	for _, m := range script {
		switch m.Op {
		case "del":
			if len(toks) > 0 {
				i := at(m.Pos, len(toks))
				e := min(i+max(m.N, 1), len(toks))
				toks = append(toks[:i:i], toks[e:]...)
			}
		case "dup":
			if len(toks) > 0 {
				i := at(m.Pos, len(toks))
				e := min(i+max(m.N, 1), len(toks))
				seg := append([]string{}, toks[i:e]...)
				reps := 1
				if m.Text != "" {
					reps = len(m.Text) // repetition count carried in Text's length
				}
				var ins []string
				for k := 0; k < reps; k++ {
					ins = append(ins, seg...)
				}
				toks = append(toks[:e:e], append(ins, toks[e:]...)...)
			}
		case "swap":
			if len(toks) > 1 {
				i, j := at(m.Pos, len(toks)), at(m.N, len(toks))
				toks[i], toks[j] = toks[j], toks[i]
			}
		case "ins":
			i := at(m.Pos, len(toks)+1)
			toks = append(toks[:i:i], append([]string{m.Text}, toks[i:]...)...)
		case "splice":
			i := at(m.Pos, len(toks)+1)
			j := at(m.N, len(ptoks)+1)
			toks = append(toks[:i:i], ptoks[j:]...)
		case "trunc":
			toks = toks[:at(m.Pos, len(toks)+1)]
		case "subst": // replace the N-th word-like token at or after Pos by Text
			if len(toks) > 0 {
				start := at(m.Pos, len(toks))
				for k := 0; k < len(toks); k++ {
					i := (start + k) % len(toks)
					if r := []rune(toks[i]); len(r) > 0 && (unicode.IsLetter(r[0]) || unicode.IsDigit(r[0]) || r[0] == '_') {
						toks[i] = m.Text
						break
					}
				}
			}
		}
	}
	return strings.Join(toks, "")
}

// extraQueries cover syntax that the repo's query corpus hardly contains
// (sources, declarations, parallel paths, lake operators, literals of every
// type).  Whether they compile does not matter.
var extraQueries = []string{
	"from foo", "from foo@main", "from foo@main:objects", "from :pools", "from foo* | count()", "from /a.*/ | head 1", "from \"quoted pool\" | pass",
	"from ( pool a => pass pool b => head 1 ) | merge x", "from ( file a.zson => count() get http://x/y => pass )",
	"file a.json format json order x desc | head 1", "get http://localhost/x method \"POST\" headers {a:[\"b\"]} body \"z\" | pass",
	"from foo | load bar@main author \"a\" message \"m\" meta \"x\"", "from HEAD", "from foo | delete where a==1",
	"fork ( => count() => sum(a) => head 1 ) | merge this", "switch a ( case 1 => pass case 2 => head 1 default => count() )", "switch ( case a==1 => put b:=1 default => drop a )",
	"over a with b=c => ( yield {a:this,b} | head 1 )", "over this, a.b => ( where this>1 )", "yield (over a | sum(this))",
	"const PI=3.14 type port=uint16 func f(x,y): (x+y*PI) op g(a): ( yield f(a,1) ) g(this) | sort -r a,b nulls first",
	"join on a=b c:=d", "anti join (file x.zson) on a=b", "left join on a=b x:=y | right join on c=d", "inner join (from p) on a.b=c[0]",
	"summarize every(1h) count(), s:=sum(x) where y>1 by k:=lower(z), w with -limit 10", "count() by a | uniq -c | sample a | top 3 -flush a",
	"put a:=1,b.c:=a+1 | cut a,b.c | drop b | rename d:=a | fuse | shape(this,<{a:int64}>) | explode a by int64 as x | merge a,b:desc | tail 2 | assert a>0 | debug f\"x{a}\" | output main",
	"yield 1,1.5,-1e10,0x1F,\"s\",'s',true,null,1.2.3.4,::1,10.0.0.0/8,2020-01-01T00:00:00Z,1h2m3s,0xdeadbeef,<int64>,<{a:[string]}>,|[1,2]|,|{\"k\":1}|,[1,\"a\"],{a:1,...b,c:{}},error(\"x\"),%sym,f\"a{b}c\"",
	"yield a[0],a[1:2],a[:-1],a.b.c,this[\"x y\"],a?.b,a ? b : c,a in b,not a,-a,!a,a*b/c%d+e-f,a<b and c<=d or e!=f,a::string,cast(a,<ip>),<foo=uint8>(1)",
	"search foo bar* /re.*/ a==1 \"quoted\" | where grep(/x/, this) and a matches /y/ or s like \"%x\"",
	"yield typeof(a),kind(a),nameof(a),is(<int64>),has(a.b),missing(a),len(a),quiet(a),coalesce(a,b),compare(a,b),regexp_replace(s,\"a\",\"b\"),map(|x| x+1, a)",
	"type t={a:int64} yield <t>, <[t]>, <(t,string)>, <enum(a,b)>, <error(t)>, <|{t:t}|>",
	"op a(): ( b() ) op b(): ( a() ) a()", "func f(x): ( f(x) ) yield f(1)", "const a = b const b = a yield a",
	"select a, count(*) as c from t where a > 1 group by a having c > 1 order by a desc limit 10", "select * from a join b on a.x = b.y",
}

// argTemplates x hostileArgs: operators, functions and declarations whose arguments the compiler evaluates or
// inspects at compile time (limits, constants, types, patterns), with § replaced by constants of every type and
// at every boundary.  Mutation alone practically never writes `top uint64(2) x`.
var argTemplates = []string{"head §", "tail §", "top § a", "top § -flush a,b", "sort a | head § | tail §", "const N=§ head N", "const N=§ top N a", "const N=§ tail N | top N b",
	"const N=§ const M=N+N yield M", "summarize count() by a with -limit §", "count() by every(§)", "yield bucket(a,§)", "yield a[§]", "yield a[§:§]", "yield a[:§]", "over a with b=§ => ( head b )",
	"yield cast(a,§)", "yield shape(§)", "yield §::uint8", "yield §::<§>", "yield <§>(§)", "yield round(§), pow(§,§), abs(§), sqrt(§), log(§)", "yield strftime(§,§)", "yield network_of(§,§), cidr_match(§,§)",
	"yield regexp(§,s), regexp_replace(s,§,§)", "where grep(§,this)", "where a in §", "where a matches §", "yield §+§, §/§, §%§, -§, !§", "yield § < §, § == §", "yield §.a, §[0], §[§]",
	"explode a by § as x", "merge a:§", "sort § | uniq", "sort -r §, § desc", "sample §", "cut §", "put §:=§", "rename §:=a", "drop §", "type T=§ yield <T>", "func f(x): (x+§) yield f(§)",
	"op o(n): ( head n ) o(§)", "op o(n): ( top n a ) o(§)", "switch § ( case § => head § default => tail § )", "fork ( => head § => tail § ) | merge §", "yield f\"{§}\"", "assert §", "search §", "yield {a:§,...§}, [§,...§], |[§]|, |{§:§}|",
	"from § | head §", "file § format §", "get § method §", "yield now()-§, time(§), duration(§), ksuid(§), hex(§), base64(§), len(§), typeof(§), nameof(§), error(§), quiet(§), has(§), coalesce(§,§), compare(§,§,§)"}

var hostileArgs = []string{"0", "1", "2", "-1", "-0", "uint8(1)", "uint16(3)", "uint32(1)", "uint64(2)", "int8(-1)", "int16(2)", "int32(3)", "int64(2)", "float16(2)", "float32(2)", "float64(2)", "1.5", "1e308", "-1e308", "1e-400", "NaN", "+Inf",
	"9223372036854775807", "9223372036854775808", "18446744073709551615", "18446744073709551616", "-9223372036854775808", "-9223372036854775809", "uint64(18446744073709551615)", "int64(uint64(18446744073709551615))", "uint8(256)", "int8(128)",
	"\"1\"", "\"\"", "'a'", "null", "null(int64)", "null(uint8)", "true", "false", "N", "this", "a", "a.b", "1+1", "1/0", "1%0", "1.0/0", "len(a)", "count()", "[1]", "[]", "{a:1}", "{}", "|[1]|", "|{1:2}|", "<int64>", "<uint8>", "<{a:int64}>", "<T>", "int64", "uint8",
	"1h", "-1h", "0s", "1ns", "2020-01-01T00:00:00Z", "10.0.0.1", "::1", "10.0.0.0/8", "0x", "0x10", "error(1)", "error(\"missing\")", "missing(a)", "now()", "/a*/", "/(/", "*", "%x", "1::uint8", "(1)", "((1))", "-(1)", "- 1", "1 ", "1,2", "1;2", "$1", "§"}

func genArgQuery(t *rapid.T) string {
	q := rapid.SampledFrom(argTemplates).Draw(t, "argtemplate")
	var sb strings.Builder
	for _, r := range q {
		if r == '§' {
			sb.WriteString(rapid.SampledFrom(hostileArgs).Draw(t, "arg"))
		} else {
			sb.WriteRune(r)
		}
	}
	return sb.String()
}

var fallbackQueries = []string{"count() by a | sort -r count", "where a==1 and b in [1,2] | put c:=a+1 | cut a,c", "over a => ( yield this ) | head 1",
	"yield {a:1,b:[1,2],c:|{1:2}|,d:<int64>} | summarize collect(a) by typeof(b)", "fork (=> count() => sum(a)) | merge a", "const X=1 func f(x):(x+X) op o(y):(yield f(y)) o(1)"}

func genQuery(t *rapid.T) Case {
	repoCorpus()
	c := Case{Kind: "query"}
	pool := repoQueries
	if len(pool) == 0 {
		pool = fallbackQueries
	}
	argQuery := false
	if k := rapid.IntRange(0, 7).Draw(t, "extra?"); k >= 6 {
		c.Query = rapid.SampledFrom(extraQueries).Draw(t, "extraquery")
	} else if k >= 4 {
		c.Query = genArgQuery(t)
		argQuery = true
	} else {
		c.Query = rapid.SampledFrom(pool).Draw(t, "query")
	}
	n := rapid.SampledFrom([]int{0, 1, 1, 1, 2, 2, 3, 4, 6}).Draw(t, "nmut")
	if argQuery && n > 1 {
		n = 0 // these programs are short: more than one token mutation leaves little of them
	}
	ops := []string{"del", "del", "dup", "dup", "swap", "ins", "ins", "ins", "splice", "trunc", "subst", "subst", "subst", "subst"}
	for i := 0; i < n; i++ {
		m := QMut{Op: rapid.SampledFrom(ops).Draw(t, "op"), Pos: rapid.IntRange(0, 400).Draw(t, "pos")}
		switch m.Op {
		case "del":
			m.N = rapid.SampledFrom([]int{1, 1, 2, 3, 5}).Draw(t, "n")
		case "dup":
			m.N = rapid.SampledFrom([]int{1, 1, 2, 3, 5}).Draw(t, "n")
			if rapid.IntRange(0, 5).Draw(t, "many?") == 0 {
				m.Text = strings.Repeat("x", rapid.SampledFrom([]int{8, 40, 200}).Draw(t, "reps"))
			}
		case "swap":
			m.N = rapid.IntRange(0, 400).Draw(t, "other")
		case "ins":
			m.Text = rapid.SampledFrom(hostileTokens).Draw(t, "token")
		case "subst":
			if rapid.Bool().Draw(t, "fromword") {
				m.Text = rapid.SampledFrom(substWords).Draw(t, "word")
			} else {
				// a word-like token of another program
				var words []string
				for _, tk := range tokens(rapid.SampledFrom(pool).Draw(t, "donor")) {
					if r := []rune(tk); len(r) > 0 && (unicode.IsLetter(r[0]) || unicode.IsDigit(r[0]) || r[0] == '_') {
						words = append(words, tk)
					}
				}
				if len(words) == 0 {
					words = substWords
				}
				m.Text = rapid.SampledFrom(words).Draw(t, "donorword")
			}
		case "splice":
			if c.QPartner == "" {
				c.QPartner = rapid.SampledFrom(pool).Draw(t, "partner")
			}
			m.N = rapid.IntRange(0, 400).Draw(t, "ppos")
		}
		c.QScript = append(c.QScript, m)
	}
	return c
}

// compileQuery is the oracle for query text: parse, semantic analysis (the
// way compiler.NewCompiler().NewQuery does it: a data.Source without engine or
// lake) and optimization must return or report an error.
func compileQuery(text string, rep *reporter) (stage string) {
	stage = "parse"
	if p := catch(func() {
		seq, _, err := compiler.Parse(text)
		if err != nil {
			return
		}
		if len(seq) == 0 {
			stage = "parse-empty"
			return
		}
		stage = "semantic"
		rctx := runtime.NewContext(context.Background(), zed.NewContext())
		defer rctx.Cancel()
		job, err := compiler.NewJob(rctx, seq, data.NewSource(nil, nil), nil)
		if err != nil {
			return
		}
		stage = "optimize"
		if err := job.Optimize(); err != nil {
			return
		}
		stage = "compiled"
	}); p != nil {
		site := p.site()
		if strings.HasPrefix(p.frames[0], "/compiler/parser.(*current).on") {
			// One root cause: parser.ParseSuperPipe runs the generated parser with
			// Recover(false), so a panic in any grammar action (typically a type
			// assertion on the nil left behind by an earlier action error)
			// escapes compiler.Parse instead of becoming a parse error.
			site = "/compiler/parser.(*current).on*[grammar-action]"
		}
		rep.report("C11/compile/panic@"+site, "compiling %q panicked in stage %s\n%s", text, stage, p.text())
		return "panic"
	}
	return stage
}

func runQuery(c Case) *vt.Outcome {
	o := &vt.Outcome{}
	rep := &reporter{o: o}
	text := applyQScript(c.Query, c.QPartner, c.QScript)
	if len(text) > 20000 {
		text = text[:20000]
	}
	for _, m := range c.QScript {
		o.Label("qmut:" + m.Op)
	}
	stage := compileQuery(text, rep)
	o.Label("stage:" + stage)
	if text != c.Query {
		// got past the parser (reached semantic analysis or further) with a mutated text
		if stage == "semantic" || stage == "optimize" || stage == "compiled" {
			o.NonTrivial = true
			o.Label("mutated-and-parsed")
		} else {
			o.Label("mutated-and-rejected-by-parser")
		}
	} else {
		o.Label("unmutated")
	}
	return o
}

var queryProp = &vt.Prop[Case]{
	Name:      "TestQuery",
	CaseLimit: 90 * time.Second,
	Rule: "case = program from compiler/parser/valid.zed, invalid.zed or the zed: field of a repo ztest (or, 25%, a hand-written program covering rarer syntax, or, 25%, an argument template - operators, functions and declarations whose arguments are inspected at compile time - filled with constants of every type and at every boundary, e.g. `top uint64(2) a`, `const N=-1 head N`), mutated by 0..6 token-level steps (delete, duplicate (up to 200x), swap, insert a hostile token, splice with another program, truncate); " +
		"compiler.Parse + compiler.NewJob (semantic analysis over data.NewSource(nil,nil)) + Job.Optimize must return or error without panic (watchdog covers hangs). " +
		"Non-trivial: the mutated text differs from the corpus program and still parses (semantic analysis was reached).",
	Gen: genQuery,
	Run: runQuery,
}

func init() { queryProp.Register() }

func TestQuery(t *testing.T) { queryProp.Check(t) }
