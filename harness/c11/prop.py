PROP = dict(
        pkg="c11", level="fuzzing",
        rule="C11: mutated encodings / hostile literals x reader options through named readers and auto-detection; mutated query text through parse+semantic+optimize",
        assumptions=[],
        level_text="placeholder",
        level_note="placeholder",
        technique="structure-aware mutation fuzzing with rapid (replayable cases) + native go test -fuzz targets over the same oracle (thorough)",
        tests=[dict(name="TestBytes", quick=(8, 100), thorough=(16, 2000)),
               dict(name="TestQuery", quick=(8, 100), thorough=(16, 2000))],
)
