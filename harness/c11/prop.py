PROP = dict(
        pkg="c11", level="exploration",
        rule="C11: (a) mutated valid encodings / repo test inputs / hostile literals x reader options, read through the named reader and through auto-detection under a six-clause oracle "
             "(no panic, bounded values, bounded allocation, Validate => walker-consistent, consumers do not panic, no goroutine left); (b) mutated query programs through parse + semantic analysis + optimizer; "
             "(c) deterministic replay of /verif/corpus/C11 and /verif/replays/C11; (d) thorough tier: native go test -fuzz on five targets over the same oracle",
        assumptions=[
            "a panic on a goroutine of the code under test (threaded ZNG scanner, VNG metadata reader) or a Go fatal error kills the worker process; the driver then reports the breadcrumb case with signature `crash`. "
            "To keep such root causes attributable every configuration is first run with the synchronous scanner (Threads=1) on the test goroutine, VNG metadata sections are pre-decoded synchronously, "
            "and type values inside VNG metadata are pre-decoded with Context.DecodeTypeValue; the threaded run only follows when these did not panic",
            "hangs are detected by vt's no-progress watchdog (90 s + 20 s inside one call into the repo); slowness below that is not judged. Algorithmic blow-ups are only visible through the allocation clause",
            "allocation is measured as runtime.MemStats.TotalAlloc delta of the whole process around one read of the input (harness copies of handed-out values subtracted); bound 64 MiB + 8*(len(input) + threads*Max)",
            "VNG objects that declare a segment > 32 MiB or container lengths summing to > 2^21 are not given to the reader while finding C11-vng-alloc is open (a hit is a multi-GiB allocation or an hours-long loop, not a clean failure); they are counted under that finding",
            "before a Threads=3 run that follows a synchronous run ending in an error, the synchronous scanner is read on past every error (it keeps no sticky error) so that frames the threaded scanner would reach by reading ahead are visited on the test goroutine first; a listed panic there vetoes the threaded run",
            "finding C11-unmarshal-null-union is a Go fatal error (stack overflow) that cannot be observed in-process: the check reports the structural condition that causes it (a null union value inside a VNG metadata value) and keeps such objects from the reader; the crash itself was observed as a dead worker in the thorough tier",
            "native fuzzing is not reproducible from a seed; its crashers are saved as replay cases and replayed deterministically afterwards",
        ],
        level_text="Fuzzing: structure-aware mutation of valid encodings produced by the repo's own writers (plus repo test inputs and hostile literals), drawn by rapid so that every case is a replayable JSON file; "
                   "thorough tier adds coverage-guided native Go fuzzing of the same oracle function. The input space (all byte strings x options, all query strings) is sampled, not exhausted.",
        level_note="Trusted: the harness's independent structural walker (verif/oracle/walker.go; every generated value must pass it, else the harness aborts), Go's runtime accounting (TotalAlloc, goroutine dumps). "
                   "Not covered: arrows/parquet readers beyond what auto-detection executes on non-parquet bytes; query *execution* (only compilation is in the property); the service load endpoint as such (its reader path is the non-seekable auto-detection exercised here).",
        technique="structure-aware mutation fuzzing with rapid (replayable cases, root-cause signatures, known-finding neutralisation) + native go test -fuzz targets FuzzAny/FuzzZNG/FuzzVNG/FuzzZSON/FuzzCompile over the same oracle",
        env=dict(GOMAXPROCS="4"),
        tests=[dict(name="TestBytes", quick=(8, 1000), thorough=(16, 8000), gomaxprocs=2),
               dict(name="TestQuery", quick=(4, 1200), thorough=(8, 10000), gomaxprocs=2),
               dict(name="TestNativeFuzz", quick=(1, 1), thorough=(5, 1), shrinktime="1s")],
)
