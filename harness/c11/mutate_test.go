package c11

import (
	"bytes"
	"encoding/binary"
	"sort"
)

// Mut is one step of a mutation script.  Offsets are reduced modulo the current
// input length when applied, so every script is applicable to every input
// (this keeps shrunk scripts meaningful).
type Mut struct {
	Op    string `json:"op"`              // trunc | flip | set | ins | del | dup | splice
	Off   int    `json:"off"`             // where
	N     int    `json:"n,omitempty"`     // del/dup: length; flip: bit number; splice: offset in the partner
	Data  []byte `json:"data,omitempty"`  // set/ins: bytes
	Class string `json:"class,omitempty"` // what Off was aimed at when the script was drawn (label only)
}

func clampOff(off, n int) int {
	if n <= 0 {
		return 0
	}
	if off < 0 {
		off = -off
	}
	return off % n
}

// applyScript returns the mutated input.
func applyScript(base, partner []byte, script []Mut) []byte {
	in := append([]byte{}, base...)
	for _, m := range script {
		switch m.Op {
		case "trunc":
			if len(in) > 0 {
				in = in[:clampOff(m.Off, len(in)+1)]
			}
		case "flip":
			if len(in) > 0 {
				in[clampOff(m.Off, len(in))] ^= 1 << (uint(m.N) & 7)
			}
		case "set": // overwrite in place (never grows the input)
			if len(in) > 0 {
				o := clampOff(m.Off, len(in))
				copy(in[o:], m.Data)
			}
		case "ins":
			o := clampOff(m.Off, len(in)+1)
			out := make([]byte, 0, len(in)+len(m.Data))
			out = append(out, in[:o]...)
			out = append(out, m.Data...)
			in = append(out, in[o:]...)
		case "rep": // replace N bytes at Off by Data
			o := clampOff(m.Off, len(in)+1)
			e := o + max(m.N, 0)
			if e > len(in) {
				e = len(in)
			}
			out := make([]byte, 0, len(in)+len(m.Data))
			out = append(out, in[:o]...)
			out = append(out, m.Data...)
			in = append(out, in[e:]...)
		case "del":
			if len(in) > 0 {
				o := clampOff(m.Off, len(in))
				e := o + max(m.N, 1)
				if e > len(in) {
					e = len(in)
				}
				in = append(in[:o:o], in[e:]...)
			}
		case "dup":
			if len(in) > 0 {
				o := clampOff(m.Off, len(in))
				e := o + max(m.N, 1)
				if e > len(in) {
					e = len(in)
				}
				out := make([]byte, 0, len(in)+e-o)
				out = append(out, in[:e]...)
				out = append(out, in[o:e]...)
				in = append(out, in[e:]...)
			}
		case "splice": // head of the input up to Off, then the partner from N
			o := clampOff(m.Off, len(in)+1)
			p := clampOff(m.N, len(partner)+1)
			out := make([]byte, 0, o+len(partner)-p)
			out = append(out, in[:o]...)
			in = append(out, partner[p:]...)
		}
	}
	return in
}

// ---- structure maps: offsets worth aiming at, by class

type target struct {
	Off   int
	Len   int // length of the field at Off (>=1)
	Class string
}

func uvarintLen(b []byte) int {
	_, n := binary.Uvarint(b)
	if n <= 0 {
		return 0
	}
	return n
}

// zngTargets scans a (valid) ZNG stream b starting at offset base and lists
// frame header bytes, length varints, compression header fields, typedef
// fields, and the type-id / tag bytes of top-level values in uncompressed
// frames.  It is a best-effort scanner for aiming mutations and stops at the
// first thing it does not understand.
func zngTargets(b []byte, base int) []target {
	var ts []target
	add := func(off, n int, class string) {
		if n < 1 {
			n = 1
		}
		ts = append(ts, target{base + off, n, class})
	}
	o := 0
	for o < len(b) && len(ts) < 4000 {
		code := b[o]
		if code == 0xff {
			add(o, 1, "eos")
			o++
			continue
		}
		if code&0x80 != 0 {
			return ts
		}
		add(o, 1, "frame-code")
		ln := uvarintLen(b[o+1:])
		if ln == 0 {
			return ts
		}
		v, _ := binary.Uvarint(b[o+1:])
		size := int(v<<4) | int(code&0xf)
		add(o+1, ln, "frame-len")
		body := o + 1 + ln
		if size < 0 || body+size > len(b) {
			return ts
		}
		ftype := (code >> 4) & 3
		if code&0x40 != 0 {
			add(body, 1, "comp-format")
			sl := uvarintLen(b[body+1 : body+size])
			if sl > 0 {
				add(body+1, sl, "comp-size")
				if body+1+sl < body+size {
					add(body+1+sl, size-1-sl, "comp-payload")
				}
			}
		} else {
			switch ftype {
			case 0:
				typedefTargets(b[body:body+size], body, add)
			case 1:
				valueTargets(b[body:body+size], body, add)
			case 2:
				add(body, size, "control-body")
			}
		}
		o = body + size
	}
	return ts
}

func typedefTargets(b []byte, base int, add func(off, n int, class string)) {
	o := 0
	uv := func(class string) (int, bool) {
		if o >= len(b) {
			return 0, false
		}
		v, n := binary.Uvarint(b[o:])
		if n <= 0 {
			return 0, false
		}
		add(base+o, n, class)
		o += n
		return int(v), true
	}
	name := func() bool {
		n, ok := uv("typedef-namelen")
		if !ok || n < 0 || o+n > len(b) {
			return false
		}
		if n > 0 {
			add(base+o, n, "typedef-name")
		}
		o += n
		return true
	}
	for o < len(b) {
		code := b[o]
		add(base+o, 1, "typedef-code")
		o++
		switch code {
		case 0: // record
			n, ok := uv("typedef-count")
			if !ok {
				return
			}
			for i := 0; i < n; i++ {
				if !name() {
					return
				}
				if _, ok := uv("typedef-typeid"); !ok {
					return
				}
			}
		case 1, 2, 6: // array set error
			if _, ok := uv("typedef-typeid"); !ok {
				return
			}
		case 3: // map
			if _, ok := uv("typedef-typeid"); !ok {
				return
			}
			if _, ok := uv("typedef-typeid"); !ok {
				return
			}
		case 4: // union
			n, ok := uv("typedef-count")
			if !ok {
				return
			}
			for i := 0; i < n; i++ {
				if _, ok := uv("typedef-typeid"); !ok {
					return
				}
			}
		case 5: // enum
			n, ok := uv("typedef-count")
			if !ok {
				return
			}
			for i := 0; i < n; i++ {
				if !name() {
					return
				}
			}
		case 7: // named
			if !name() {
				return
			}
			if _, ok := uv("typedef-typeid"); !ok {
				return
			}
		default:
			return
		}
	}
}

func valueTargets(b []byte, base int, add func(off, n int, class string)) {
	o := 0
	for o < len(b) {
		n := uvarintLen(b[o:])
		if n == 0 {
			return
		}
		add(base+o, n, "value-typeid")
		o += n
		if o >= len(b) {
			return
		}
		tag, tn := binary.Uvarint(b[o:])
		if tn <= 0 {
			return
		}
		add(base+o, tn, "value-tag")
		o += tn
		if tag == 0 {
			continue
		}
		l := int(tag - 1)
		if l < 0 || o+l > len(b) {
			return
		}
		if l > 0 {
			add(base+o, l, "value-body")
			// the first nested tag, if the body looks like a container
			if it, itn := binary.Uvarint(b[o : o+l]); itn > 0 && it > 0 && int(it-1)+itn <= l {
				add(base+o, itn, "inner-tag")
			}
		}
		o += l
	}
}

// vngTargets lists header fields of a VNG object plus, when the metadata
// section parses as ZNG, that section's ZNG targets (class prefixed "meta-")
// and the start/middle/end of the data section.
func vngTargets(b []byte) []target {
	var ts []target
	if len(b) < 24 {
		return ts
	}
	ts = append(ts, target{0, 4, "vng-magic"}, target{4, 4, "vng-version"}, target{8, 8, "vng-metasize"}, target{16, 8, "vng-datasize"})
	ms := binary.LittleEndian.Uint64(b[8:])
	if ms > uint64(len(b)-24) {
		return ts
	}
	for _, t := range zngTargets(b[24:24+int(ms)], 24) {
		t.Class = "meta-" + t.Class
		ts = append(ts, t)
	}
	d := 24 + int(ms)
	if d < len(b) {
		ts = append(ts, target{d, len(b) - d, "vng-data"})
	}
	return ts
}

// textTargets lists token boundaries of a text input: punctuation, quotes,
// digits runs, line starts.
func textTargets(b []byte) []target {
	var ts []target
	lineStart := true
	for i := 0; i < len(b) && len(ts) < 4000; i++ {
		c := b[i]
		switch {
		case lineStart:
			ts = append(ts, target{i, 1, "line-start"})
		case bytes.IndexByte([]byte("{}[]()<>|:,=\"'\\\t#"), c) >= 0:
			ts = append(ts, target{i, 1, "punct"})
		case c >= '0' && c <= '9' && (i == 0 || b[i-1] < '0' || b[i-1] > '9'):
			ts = append(ts, target{i, 1, "number"})
		}
		lineStart = c == '\n'
	}
	return ts
}

func targetsFor(format string, b []byte) []target {
	switch format {
	case "zng":
		return zngTargets(b, 0)
	case "vng":
		return vngTargets(b)
	}
	return textTargets(b)
}

// classesOf returns the distinct classes in ts (sorted) and an index by class.
func classesOf(ts []target) ([]string, map[string][]target) {
	m := map[string][]target{}
	for _, t := range ts {
		m[t.Class] = append(m[t.Class], t)
	}
	var cs []string
	for c := range m {
		cs = append(cs, c)
	}
	sort.Strings(cs)
	return cs, m
}

// ---- hostile constants

func uv(u uint64) []byte { return binary.AppendUvarint(nil, u) }

var hostileBin = [][]byte{
	uv(1<<64 - 1),            // int(-1)
	uv(1 << 63),              // math.MinInt64
	uv(1<<63 - 1),            // math.MaxInt64
	uv(1 << 62),              // overflows on <<4
	uv(1 << 59),              // (v<<4) wraps negative
	uv(1 << 40),              // 1 TiB
	uv(1 << 31), uv(1 << 32), // int32 edges
	uv(1 << 30),                // 1 GiB = zngio.MaxSize
	uv(1<<30 + 1),              //
	uv(1 << 20), uv(1<<20 + 1), // = Max used by the harness
	uv(100000), uv(100001), // MaxRecordFields etc.
	{0xff, 0xff, 0xff, 0xff, 0xff, 0xff, 0xff, 0xff, 0xff, 0xff, 0xff}, // overlong varint
	{0x80}, {0x80, 0x80, 0x80}, // unterminated varint
	bytes.Repeat([]byte{0xff}, 16),
	bytes.Repeat([]byte{0xff}, 64),
	bytes.Repeat([]byte{0x00}, 16),
	{0x00}, {0x01}, {0x7f}, {0xfe},
	{34, 2, 9},          // truncated union type value
	{34, 1},             // union with a missing member
	{30, 1, 1, 'a'},     // record type value, field without type
	{37, 1, 'x'},        // named type value without body
	{38, 1, 'x'},        // reference to an undefined name
	{35, 0xff, 0xff, 3}, // enum with a huge symbol count
	{30, 0xff, 0xff, 0xff, 0xff, 0xff, 0xff, 0xff, 0xff, 0xff, 0x01}, // record type value with -1 fields
	{34, 0xff, 0xff, 0xff, 0xff, 0xff, 0xff, 0xff, 0xff, 0x7f},       // union type value with 2^63-1 members
	{31, 31, 31, 31, 31, 31, 31, 31, 31, 31, 31, 31, 31, 31, 31, 31}, // nested array type value, truncated
	{0x50, 0x01, 0x00}, // compressed frame header
	{0x10, 0x00},       // empty values frame
	{0x20, 0x00},       // empty control frame
	{0x30, 0x00},       // unknown frame type
}

var hostileText = []string{
	"[", "{", "(", "|[", "|{", "<", "]", "}", ")", "]|", "}|", ">", "\"", "'", "\\", "\\u", "\\u00", "\\ud800", "\x00", "\xff", "\xc3",
	"null", "true", "1e999", "-1e999", "1e-999", "9223372036854775808", "-9223372036854775809", "18446744073709551616", "0x", "0x1", "1.", ".1", "-", "+", "NaN", "+Inf",
	"::", "1.2.3.4/33", "::/129", "1.2.3.4/", "2020-01-01T00:00:00Z", "9999-99-99T99:99:99Z", "1y", "1e99s", "-9223372036854775808ns",
	"error(", "<error(", "(=x)", "(x)", "=x", "%x", "(0=", "(int64)", "(uint8)", "(enum(a))", "enum(", "<{a:", "<[", "<|[", "<|{", "<(", "<x=", "<x>",
	"{\"schema\":", "{\"type\":", "{\"kind\":\"", "\"primitive\"", "\"record\"", "\"typedef\"", "\"typename\"", "\"fields\":[", "\"id\":", "\"value\":",
	"#separator \\x09\n", "#set_separator\t,\n", "#empty_field\t(empty)\n", "#unset_field\t-\n", "#path\tconn\n", "#fields\ta\tb\n", "#types\tstring\tint\n", "#types\tvector[\n", "#fields\n", "#close\t", "#",
	"\n", "\r\n", "\r", "\t", ",", ",,,,", "\"\"\"", "\n\n", " ",
}

func deepText(open, close string, n int) []byte {
	var b bytes.Buffer
	for i := 0; i < n; i++ {
		b.WriteString(open)
	}
	for i := 0; i < n; i++ {
		b.WriteString(close)
	}
	return b.Bytes()
}
