package c11

import (
	"bufio"
	"bytes"
	"crypto/sha1"
	"encoding/hex"
	"encoding/json"
	"fmt"
	"os"
	"os/exec"
	"path/filepath"
	"regexp"
	"sort"
	"strconv"
	"strings"
	"testing"
	"time"

	"pgregory.net/rapid"

	"verif/vt"
)

// ---- seed corpus (shared by the deterministic replay and the native fuzz targets)

type replayFile struct {
	Test   string `json:"test"`
	Sig    string `json:"sig"`
	Msg    string `json:"msg,omitempty"`
	Expect string `json:"expect,omitempty"`
	Case   Case   `json:"case"`
}

func readCases(dir string) []Case {
	var out []Case
	names, _ := filepath.Glob(filepath.Join(dir, "*.json"))
	sort.Strings(names)
	for _, n := range names {
		b, err := os.ReadFile(n)
		if err != nil {
			continue
		}
		var rf replayFile
		if json.Unmarshal(b, &rf) == nil {
			out = append(out, rf.Case)
		}
	}
	return out
}

func seedCases() []Case {
	return append(readCases(corpusDir()), readCases("/verif/replays/C11")...)
}

const maxFuzzInput = 64 << 10

// optsOf decodes the fuzzer-controlled option byte.
func optsOf(b byte) (threads int, validate bool, chunk int) {
	threads = 1
	if b&1 != 0 {
		threads = 3
	}
	validate = b&2 != 0
	chunk = []int{0, 0, 1, 4096}[(b>>2)&3]
	return
}

func optsByte(c Case) byte {
	var b byte
	if c.Threads > 1 {
		b |= 1
	}
	if c.Validate {
		b |= 2
	}
	switch {
	case c.Chunk == 1:
		b |= 2 << 2
	case c.Chunk > 1:
		b |= 3 << 2
	}
	return b
}

// fuzzOutcome applies the rapid tests' oracle to a fuzzer input.  Failures
// listed as open known findings do not stop the fuzzer (the search continues
// behind them); an unlisted failure is saved as a replay file and fails the
// target.
func fuzzOutcome(t *testing.T, test string, c Case, o *vt.Outcome) {
	if o.Fail == nil || vt.IsKnown(o.Fail.Sig) {
		return
	}
	saveFound(test, o.Fail.Sig, o.Fail.Msg, c)
	t.Fatalf("VIOLATION sig=%s: %s", o.Fail.Sig, o.Fail.Msg)
}

func foundDir() string {
	if d := os.Getenv("VERIF_FUZZ_OUT"); d != "" {
		return d
	}
	return "/verif/replays/C11/found"
}

// saveFound keeps, per signature, the smallest failing case seen (the fuzzer's
// minimiser calls the target repeatedly with shrinking inputs).
func saveFound(test, sig, msg string, c Case) {
	dir := foundDir()
	os.MkdirAll(dir, 0o755)
	name := "fuzz-" + regexp.MustCompile(`[^A-Za-z0-9_.-]+`).ReplaceAllString(sig, "_")
	if len(name) > 90 {
		name = name[:90]
	}
	path := filepath.Join(dir, name+".json")
	size := len(c.Base) + len(c.Query)
	if b, err := os.ReadFile(path); err == nil {
		var old replayFile
		if json.Unmarshal(b, &old) == nil && len(old.Case.Base)+len(old.Case.Query) <= size {
			return
		}
	}
	if len(msg) > 6000 {
		msg = msg[:6000]
	}
	b, _ := json.MarshalIndent(replayFile{Test: test, Sig: sig, Msg: msg, Case: c}, "", " ")
	os.WriteFile(path, b, 0o644)
}

func fuzzBytes(f *testing.F, format, only string) {
	for _, c := range seedCases() {
		if c.Kind != "bytes" || (only == "" && c.Format != format) || c.Only != "" {
			continue // (cases restricted with Only are the slow regression inputs)
		}
		in := applyScript(c.Base, c.Splice, c.Script)
		if len(in) <= maxFuzzInput {
			f.Add(in, optsByte(c))
		}
	}
	f.Fuzz(func(t *testing.T, data []byte, opts byte) {
		if len(data) > maxFuzzInput {
			t.Skip()
		}
		c := Case{Kind: "bytes", Format: format, Base: data, Origin: "fuzz", Only: only}
		c.Threads, c.Validate, c.Chunk = optsOf(opts)
		fuzzOutcome(t, "TestBytes", c, runBytes(c))
	})
}

// FuzzAny feeds the input to auto-detection only; FuzzZNG/FuzzVNG/FuzzZSON to
// the named reader and to auto-detection.
func FuzzAny(f *testing.F)  { fuzzBytes(f, "zson", "auto") }
func FuzzZNG(f *testing.F)  { fuzzBytes(f, "zng", "") }
func FuzzVNG(f *testing.F)  { fuzzBytes(f, "vng", "") }
func FuzzZSON(f *testing.F) { fuzzBytes(f, "zson", "") }

func FuzzCompile(f *testing.F) {
	for _, c := range seedCases() {
		if c.Kind == "query" {
			f.Add(applyQScript(c.Query, c.QPartner, c.QScript))
		}
	}
	f.Fuzz(func(t *testing.T, text string) {
		if len(text) > 4096 {
			t.Skip()
		}
		c := Case{Kind: "query", Query: text}
		fuzzOutcome(t, "TestQuery", c, runQuery(c))
	})
}

// ---- native fuzzing pass (thorough tier), driven like a property so that
// ./check schedules it and merges its evidence

var fuzzTargets = []string{"FuzzAny", "FuzzZNG", "FuzzVNG", "FuzzZSON", "FuzzCompile"}

type FuzzRun struct {
	Target  string `json:"target"`
	Seconds int    `json:"seconds"`
	Workers int    `json:"workers"`
}

func genFuzzRun(t *rapid.T) FuzzRun {
	rapid.Just(0).Draw(t, "unused")
	shard, _ := strconv.Atoi(os.Getenv("VERIF_SHARD"))
	secs := 90
	if s, err := strconv.Atoi(os.Getenv("VERIF_FUZZ_SECONDS")); err == nil && s > 0 {
		secs = s
	}
	return FuzzRun{Target: fuzzTargets[shard%len(fuzzTargets)], Seconds: secs, Workers: 3}
}

var execsRE = regexp.MustCompile(`execs: (\d+)`)
var interestingRE = regexp.MustCompile(`new interesting: (\d+) \(total: (\d+)\)`)

func runFuzzRun(c FuzzRun) *vt.Outcome {
	if !vt.Thorough() && os.Getenv("VERIF_NATIVE_FUZZ") == "" {
		return &vt.Outcome{Skip: "native-fuzz-runs-in-thorough-tier-only"}
	}
	o := &vt.Outcome{}
	o.Label("target:" + c.Target)
	harness := "/verif/harness"
	work, err := os.MkdirTemp("", "c11fuzz-")
	if err != nil {
		return &vt.Outcome{Skip: "no-temp-dir"}
	}
	defer os.RemoveAll(work)
	args := []string{"test", "-tags", "verif", "-vet=off", "-run", "^$", "-fuzz", "^" + c.Target + "$", "-fuzztime", fmt.Sprintf("%ds", c.Seconds),
		"-parallel", strconv.Itoa(c.Workers)}
	if repo := os.Getenv("VERIF_REPO"); repo != "" {
		mod, err := os.ReadFile(filepath.Join(harness, "go.mod"))
		if err != nil {
			return &vt.Outcome{Skip: "no-go.mod"}
		}
		abs, _ := filepath.Abs(repo)
		os.WriteFile(filepath.Join(work, "go.mod"), bytes.ReplaceAll(mod, []byte("=> /repo"), []byte("=> "+abs)), 0o644)
		sum, _ := os.ReadFile(filepath.Join(harness, "go.sum"))
		os.WriteFile(filepath.Join(work, "go.sum"), sum, 0o644)
		args = append(args, "-modfile="+filepath.Join(work, "go.mod"))
	}
	args = append(args, "./c11")
	found := filepath.Join(work, "found")
	cmd := exec.Command("go", args...)
	cmd.Dir = harness
	cmd.Env = append(os.Environ(), "GOFLAGS=-mod=mod", "GOPROXY=off", "GOSUMDB=off", "GOTOOLCHAIN=local", "VERIF_FUZZ_OUT="+found, "VERIF_OUT=", "VERIF_NO_BREADCRUMB=1")
	var out bytes.Buffer
	cmd.Stdout, cmd.Stderr = &out, &out
	t0 := time.Now()
	runErr := cmd.Run()
	o.Label(fmt.Sprintf("fuzz-wall-s:%d", int(time.Since(t0).Seconds())/10*10))
	text := out.String()
	execs := 0
	sc := bufio.NewScanner(strings.NewReader(text))
	for sc.Scan() {
		if m := execsRE.FindStringSubmatch(sc.Text()); m != nil {
			execs, _ = strconv.Atoi(m[1])
		}
	}
	o.Evals = max(execs, 1)
	o.NonTrivial = execs > 0
	// the fuzzer writes crashers (minimised) under c11/testdata/fuzz/<Target>/
	crashDir := filepath.Join(harness, "c11", "testdata", "fuzz", c.Target)
	crashers, _ := filepath.Glob(filepath.Join(crashDir, "*"))
	defer func() {
		os.RemoveAll(crashDir)
		os.Remove(filepath.Join(harness, "c11", "testdata", "fuzz"))
		os.Remove(filepath.Join(harness, "c11", "testdata"))
	}()
	// cases saved by the oracle (violations with a signature)
	saved, _ := filepath.Glob(filepath.Join(found, "*.json"))
	for _, s := range saved {
		b, err := os.ReadFile(s)
		if err != nil {
			continue
		}
		var rf replayFile
		if json.Unmarshal(b, &rf) != nil {
			continue
		}
		dst := filepath.Join("/verif/replays/C11/found", filepath.Base(s))
		os.MkdirAll(filepath.Dir(dst), 0o755)
		os.WriteFile(dst, b, 0o644)
		if o.Fail == nil {
			o.Fail = vt.Failf(rf.Sig, "native fuzz target %s found (replay saved as %s): %s", c.Target, dst, rf.Msg)
		}
	}
	if o.Fail == nil && len(crashers) > 0 && !reproduces(harness, args, c.Target, crashers[0]) {
		// e.g. a worker killed under memory or time pressure: nothing to replay
		o.Label("nonreproducible-fuzz-crasher")
		crashers = nil
	}
	if o.Fail == nil && len(crashers) > 0 {
		// the worker process died (panic on a reader goroutine, fatal error):
		// convert the fuzzer's crasher file into a replayable case
		rc, ok := crasherToCase(c.Target, crashers[0])
		msg := tail(text, 3000)
		if ok {
			h := sha1.Sum(append(rc.Base, rc.Query...))
			dst := filepath.Join("/verif/replays/C11/found", "fuzz-crash-"+hex.EncodeToString(h[:4])+".json")
			test := "TestBytes"
			if rc.Kind == "query" {
				test = "TestQuery"
			}
			b, _ := json.MarshalIndent(replayFile{Test: test, Sig: "crash", Msg: msg, Case: rc}, "", " ")
			os.MkdirAll(filepath.Dir(dst), 0o755)
			os.WriteFile(dst, b, 0o644)
			msg = "replay saved as " + dst + "\n" + msg
		}
		o.Fail = vt.Failf("crash", "native fuzz target %s: worker process died; %s", c.Target, msg)
	}
	if o.Fail == nil && runErr != nil {
		// build failure, toolchain problem: inconclusive, not a violation
		return &vt.Outcome{Skip: "native-fuzz-did-not-run:" + firstLine(tail(text, 400))}
	}
	return o
}

// reproduces runs the saved crasher file as a plain seed of its target (no
// fuzzing) in a child process, twice, and reports whether it fails.
func reproduces(harness string, fuzzArgs []string, target, crasher string) bool {
	var args []string
	for _, a := range fuzzArgs {
		if strings.HasPrefix(a, "-modfile=") {
			args = append(args, a)
		}
	}
	args = append([]string{"test", "-tags", "verif", "-vet=off", "-count=1", "-timeout", "600s", "-run", "^" + target + "$/^" + filepath.Base(crasher) + "$"}, args...)
	args = append(args, "./c11")
	for i := 0; i < 2; i++ {
		cmd := exec.Command("go", args...)
		cmd.Dir = harness
		cmd.Env = append(os.Environ(), "GOFLAGS=-mod=mod", "GOPROXY=off", "GOSUMDB=off", "GOTOOLCHAIN=local", "VERIF_OUT=", "VERIF_NO_BREADCRUMB=1", "VERIF_FUZZ_OUT="+os.TempDir())
		if err := cmd.Run(); err != nil {
			return true
		}
	}
	return false
}

func tail(s string, n int) string {
	if len(s) > n {
		return s[len(s)-n:]
	}
	return s
}

func firstLine(s string) string {
	s = strings.TrimSpace(s)
	if i := strings.IndexByte(s, '\n'); i >= 0 {
		return s[:i]
	}
	return s
}

// crasherToCase parses a "go test fuzz v1" corpus file.
func crasherToCase(target, path string) (Case, bool) {
	b, err := os.ReadFile(path)
	if err != nil {
		return Case{}, false
	}
	lines := strings.Split(strings.TrimSpace(string(b)), "\n")
	if len(lines) < 2 || !strings.HasPrefix(lines[0], "go test fuzz v1") {
		return Case{}, false
	}
	unq := func(l, typ string) (string, bool) {
		l = strings.TrimSpace(l)
		if !strings.HasPrefix(l, typ+"(") || !strings.HasSuffix(l, ")") {
			return "", false
		}
		s, err := strconv.Unquote(l[len(typ)+1 : len(l)-1])
		return s, err == nil
	}
	if target == "FuzzCompile" {
		s, ok := unq(lines[1], "string")
		return Case{Kind: "query", Query: s}, ok
	}
	s, ok := unq(lines[1], "[]byte")
	if !ok || len(lines) < 3 {
		return Case{}, false
	}
	l := strings.TrimSpace(lines[2])
	var opts byte
	if strings.HasPrefix(l, "byte(") && strings.HasSuffix(l, ")") {
		inner := l[5 : len(l)-1]
		if strings.HasPrefix(inner, "'") {
			if r, _, _, err := strconv.UnquoteChar(inner[1:len(inner)-1], '\''); err == nil {
				opts = byte(r)
			}
		} else if n, err := strconv.ParseUint(inner, 0, 8); err == nil {
			opts = byte(n)
		}
	}
	c := Case{Kind: "bytes", Base: []byte(s), Origin: "fuzz"}
	switch target {
	case "FuzzAny":
		c.Format, c.Only = "zson", "auto"
	case "FuzzZNG":
		c.Format = "zng"
	case "FuzzVNG":
		c.Format = "vng"
	case "FuzzZSON":
		c.Format = "zson"
	}
	c.Threads, c.Validate, c.Chunk = optsOf(opts)
	return c, true
}

var fuzzProp = &vt.Prop[FuzzRun]{
	Name:      "TestNativeFuzz",
	CaseLimit: 30 * time.Minute,
	Rule: "thorough tier only: shard k runs `go test -fuzz` on target k mod 5 of FuzzAny, FuzzZNG, FuzzVNG, FuzzZSON, FuzzCompile (same oracle function as the rapid tests, seeded with /verif/corpus/C11 and /verif/replays/C11) for a wall-clock budget; " +
		"evaluations = fuzzer executions; any crasher is minimised by the fuzzer and saved as a replay case under /verif/replays/C11/found/.",
	Gen: genFuzzRun,
	Run: runFuzzRun,
}

func init() { fuzzProp.Register() }

func TestNativeFuzz(t *testing.T) { fuzzProp.Check(t) }
