package c11

import (
	"bytes"
	"encoding/binary"
	"fmt"
	"io"
	"reflect"
	"regexp"
	"runtime"
	"runtime/debug"
	"sort"
	"strings"
	"sync"
	"time"

	zed "github.com/brimdata/super"
	"github.com/brimdata/super/compiler/optimizer/demand"
	"github.com/brimdata/super/vng"
	"github.com/brimdata/super/zio"
	"github.com/brimdata/super/zio/anyio"
	"github.com/brimdata/super/zio/zngio"
	"github.com/brimdata/super/zio/zsonio"

	"verif/oracle"
	"verif/vt"
)

// readMax is ReaderOpts.ZNG.Max for every run.
const readMax = 1 << 20

// ---- panic capture

type panicInfo struct {
	val    any
	stack  string
	frames []string // frames of the code under test, innermost first
}

// stripArgs removes the trailing argument list of a stack-trace function line.
func stripArgs(l string) string {
	if i := strings.LastIndex(l, "("); i > 0 {
		return l[:i]
	}
	return l
}

func repoFrames(stack string) []string {
	var out []string
	seenPanic := false
	for _, l := range strings.Split(stack, "\n") {
		if strings.HasPrefix(l, "panic(") {
			seenPanic = true // frames above the first panic() line are the deferred recover machinery
			continue
		}
		if !seenPanic || strings.HasPrefix(l, "\t") {
			continue
		}
		if strings.HasPrefix(l, "github.com/brimdata/super") {
			l = stripArgs(l)
			out = append(out, strings.TrimPrefix(l, "github.com/brimdata/super"))
		}
	}
	return out
}

// catch runs f and returns a description of the panic that escaped it, if any.
func catch(f func()) (p *panicInfo) {
	defer func() {
		if r := recover(); r != nil {
			st := string(debug.Stack())
			p = &panicInfo{val: r, stack: st, frames: repoFrames(st)}
			if len(p.frames) == 0 {
				panic(fmt.Sprintf("harness panic (never touched the code under test): %v\n%s", r, st))
			}
		}
	}()
	f()
	return nil
}

// site names the root-cause location of a panic: the innermost frame of the
// code under test; when that frame is a low-level helper that panics on
// malformed bytes by contract (package zcode, the primitive Decode* helpers of
// package zed, buffer.read), the first caller outside that set is appended,
// because the defect is the caller handing it unchecked bytes.
func (p *panicInfo) site() string {
	helper := func(f string) bool {
		return strings.HasPrefix(f, "/zcode.") || strings.HasPrefix(f, ".Decode") || strings.HasPrefix(f, "/zio/zngio.(*buffer).")
	}
	// Context.DecodeTypeValue is one recursive decoder whose panics surface in
	// whatever it calls with the half-decoded type (CompareTypes,
	// appendTypeValue, makeslice, ...): name the decoder and the kind of
	// runtime error instead of the accidental innermost frame.
	unmarshal, readMeta := false, false
	for _, f := range p.frames {
		if f == ".(*Context).DecodeTypeValue" {
			return f + ":" + p.kind()
		}
		unmarshal = unmarshal || strings.HasPrefix(f, "/zson.(*UnmarshalZNGContext).")
		readMeta = readMeta || f == "/vng.readMetadata"
	}
	if unmarshal && readMeta {
		// vng.readMetadata reads the metadata value with a non-validating
		// zngio reader and hands it to the ZNG unmarshaler, which walks it with
		// zcode.Iter (and formats it for error messages): one root cause,
		// many innermost frames.
		if strings.Contains(fmt.Sprint(p.val), "reflect") {
			// ... or a well-formed value of an unexpected type: the unmarshaler
			// assigns through reflect without checking assignability.
			return "/vng.readMetadata[unmarshal-type-mismatch]"
		}
		return "/vng.readMetadata[unmarshal-of-unvalidated-value]"
	}
	s := p.frames[0]
	inVNG := false
	for _, f := range p.frames {
		inVNG = inVNG || strings.HasPrefix(f, "/vng.(*") || f == "/vng.NewZedReader" || f == "/vng.NewBuilder"
	}
	if inVNG && !readMeta && p.kind() == "nil-deref" {
		// A null node inside the VNG metadata tree (Field.Values, Array.Values,
		// Nulls.Values, Primitive.Type, ...: NewBuilder maps a nil Metadata to
		// a nil Builder, a null Type unmarshals to a nil zed.Type) is
		// dereferenced by whichever method touches it first.
		return "/vng[nil-metadata-node]"
	}
	if helper(s) {
		for _, f := range p.frames[1:] {
			if !helper(f) {
				return s + "<-" + f
			}
		}
	}
	return s
}

// kind classifies the panic value.
func (p *panicInfo) kind() string {
	msg := fmt.Sprint(p.val)
	switch {
	case strings.Contains(msg, "nil pointer dereference"):
		return "nil-deref"
	case strings.Contains(msg, "index out of range"):
		return "index-out-of-range"
	case strings.Contains(msg, "slice bounds out of range"):
		return "slice-bounds"
	case strings.Contains(msg, "makeslice"):
		return "makeslice"
	case strings.Contains(msg, "bad uvarint"):
		return "bad-uvarint"
	}
	return "other"
}

func (p *panicInfo) text() string {
	st := p.stack
	if len(st) > 3500 {
		st = st[:3500]
	}
	return fmt.Sprintf("panic: %v\n%s", p.val, st)
}

// ---- input readers

// chunkReader is a non-seekable reader that hands out at most n bytes per Read.
type chunkReader struct {
	b []byte
	n int
}

func (c *chunkReader) Read(p []byte) (int, error) {
	if len(c.b) == 0 {
		return 0, io.EOF
	}
	n := min(len(p), c.n, len(c.b))
	copy(p, c.b[:n])
	c.b = c.b[n:]
	return n, nil
}

type runCfg struct {
	Via      string // "named" or "auto"
	Format   string // named format
	Threads  int
	Validate bool
	Chunk    int
	// MetaIssue is the walker's verdict on the metadata value of a VNG-looking
	// input (nil when consistent or not VNG); see the panic attribution below.
	MetaIssue *oracle.Issue
}

func (c runCfg) String() string {
	return fmt.Sprintf("via=%s format=%s threads=%d validate=%v chunk=%d", c.Via, c.Format, c.Threads, c.Validate, c.Chunk)
}

type runResult struct {
	reader     string // reader that produced the values ("" when the constructor refused)
	values     int
	err        error
	capped     bool
	invalid    int         // values that the walker found inconsistent
	firstIssue string      // first walker issue (text)
	kept       []zed.Value // copies of walker-consistent values (capped)
	typedefs   bool        // at least one complex type reached the shared context
	panicked   bool
	allocDelta uint64
}

func readerKind(rc zio.ReadCloser) string {
	var inner any = rc
	if _, ok := rc.(*zngio.Reader); ok {
		return "zng"
	}
	rv := reflect.ValueOf(rc)
	if rv.Kind() == reflect.Struct && rv.NumField() == 1 {
		inner = rv.Field(0).Interface()
	}
	name := fmt.Sprintf("%T", inner)
	for _, k := range []string{"zngio", "vng", "zsonio", "zjsonio", "jsonio", "csvio", "zeekio", "lineio", "parquetio", "arrowio"} {
		if strings.HasPrefix(name, "*"+k+".") {
			return strings.TrimSuffix(strings.TrimSuffix(k, "io"), "io")
		}
	}
	return name
}

// hardBound tells whether "at most bound values" is a theorem for the reader
// kind: text readers consume at least one byte per value; a ZNG value takes at
// least two bytes of an uncompressed frame and LZ4 expands by at most 255x.
func readBound(kind string, n int) (bound int, hard bool) {
	switch kind {
	case "zng":
		return 255*n + 1, true
	case "zson", "zjson", "json", "csv", "zeek", "line":
		return n + 1, true
	}
	// VNG (constant vectors, run lengths), parquet, arrows: the number of
	// values is not bounded by the input size; stop after a budget.
	return 20000, false
}

const (
	keepMax      = 1500
	keepMaxBytes = 4 << 20
)

// reporter collects oracle verdicts of one case: signatures listed as open
// known findings are counted and the case continues; the first unlisted one
// becomes the failure.
type reporter struct {
	o    *vt.Outcome
	seen map[string]bool
}

func (r *reporter) report(sig, format string, args ...any) {
	if r.seen == nil {
		r.seen = map[string]bool{}
	}
	if r.seen[sig] {
		return
	}
	r.seen[sig] = true
	if vt.IsKnown(sig) {
		r.o.Known = append(r.o.Known, sig)
		return
	}
	if r.o.Fail == nil {
		r.o.Fail = vt.Failf(sig, format, args...)
	}
}

func (r *reporter) failed() bool { return r.o.Fail != nil }

// allocClass tells the two ways of exceeding the bound apart by the mean size
// of the allocations: a size field taken from the input ("big-blocks": few
// allocations of many MiB) versus super-linear work ("many-small").
func allocClass(m0, m1 *runtime.MemStats) string {
	n := m1.Mallocs - m0.Mallocs
	if n == 0 || (m1.TotalAlloc-m0.TotalAlloc)/n >= 64<<10 {
		return "big-blocks"
	}
	return "many-small"
}

func allocBound(n, threads int) uint64 {
	return 64<<20 + 8*uint64(n+threads*readMax)
}

// runOnce reads input through one configuration and applies oracle clauses
// (1) panics, (2) bounded reads, (3) allocation, (4) validate => consistent.
func runOnce(input []byte, cfg runCfg, rep *reporter) *runResult {
	res := &runResult{}
	zctx := zed.NewContext()
	var rc zio.ReadCloser
	var harnessBytes uint64
	phase := "open"
	closed := false
	body := func() {
		var r io.Reader
		if cfg.Chunk == 0 {
			r = bytes.NewReader(input)
		} else {
			r = &chunkReader{b: input, n: cfg.Chunk}
		}
		opts := anyio.ReaderOpts{ZNG: zngio.ReaderOpts{Validate: cfg.Validate, Max: readMax, Threads: cfg.Threads}}
		if cfg.Via == "named" {
			opts.Format = cfg.Format
		}
		var err error
		rc, err = anyio.NewReaderWithOpts(zctx, r, demand.All(), opts)
		if err != nil {
			res.err = err
			rc = nil
			return
		}
		res.reader = readerKind(rc)
		phase = "read"
		bound, hard := readBound(res.reader, len(input))
		keptBytes := 0
		for {
			v, err := rc.Read()
			if err != nil {
				res.err = err
				return
			}
			if v == nil {
				return
			}
			res.values++
			if res.values > bound {
				if hard {
					rep.report("C11/"+res.reader+"/more-values-than-input-allows",
						"%s: reader %s handed out more than %d values from %d input bytes (no progress on the input?)", cfg, res.reader, bound, len(input))
				}
				res.capped = true
				return
			}
			if is := oracle.CheckValue(*v); is != nil {
				res.invalid++
				if res.firstIssue == "" {
					res.firstIssue = is.String()
				}
				if cfg.Validate && res.reader == "zng" {
					// While C11-validate-set-interior is open, anything wrong inside a
					// set element has that one cause (Validate never looks there).
					// Once it is closed, an inconsistency inside a set is attributed
					// like anywhere else, to the check Validate lacks for its class.
					sig := "C11/zng/validate-misses-" + is.Class
					if is.InSet && vt.IsKnown("C11/zng/validate-skips-set-interior") {
						sig = "C11/zng/validate-skips-set-interior"
					}
					rep.report(sig, "%s: with Validate on the ZNG reader handed out value #%d of type %s whose bytes %x are not consistent with the type: %s",
						cfg, res.values, safeType(v.Type()), clip(v.Bytes(), 200), is)
				}
				continue
			}
			if len(res.kept) < keepMax && keptBytes < keepMaxBytes {
				c := v.Copy()
				res.kept = append(res.kept, c)
				keptBytes += len(c.Bytes())
				harnessBytes += uint64(len(c.Bytes())) + 96
			}
		}
	}
	var m0, m1 runtime.MemStats
	runtime.ReadMemStats(&m0)
	p := catch(func() {
		body()
		if rc != nil {
			phase = "close"
			rc.Close()
			closed = true
		}
	})
	if p != nil && rc != nil && !closed {
		// release the reader's goroutines; a second panic here adds nothing
		func() {
			defer func() { recover() }()
			rc.Close()
		}()
	}
	runtime.ReadMemStats(&m1)
	res.allocDelta = m1.TotalAlloc - m0.TotalAlloc
	if _, err := zctx.LookupType(zed.IDTypeComplex); err == nil {
		res.typedefs = true
	}
	if p != nil {
		res.panicked = true
		sig := "C11/panic@" + p.site()
		if is := cfg.MetaIssue; is != nil && strings.HasSuffix(sig, "[unmarshal-of-unvalidated-value]") {
			// vng.readMetadata validates the metadata value before unmarshaling
			// it (since 0a0cf401a); when the unmarshaler still panics on a value
			// that the walker finds inconsistent, the cause is the check that
			// Value.Validate lacks for that class, not a missing validation.
			vsig := "C11/zng/validate-misses-" + is.Class
			if is.InSet && vt.IsKnown("C11/zng/validate-skips-set-interior") {
				vsig = "C11/zng/validate-skips-set-interior"
			}
			if vt.IsKnown(vsig) {
				rep.report(vsig, "")
				return res
			}
		}
		rep.report(sig, "%s: panic escaped the reader (phase %s, reader %q) after %d values\n%s", cfg, phase, res.reader, res.values, p.text())
		return res
	}
	kind := res.reader
	if kind == "" {
		kind = cfg.Format
		if cfg.Via == "auto" {
			kind = "auto"
		}
	}
	if d, b := res.allocDelta-min(res.allocDelta, harnessBytes), allocBound(len(input), cfg.Threads); d > b {
		rep.report("C11/alloc/"+kind+"/"+allocClass(&m0, &m1), "%s: reading %d input bytes allocated %d bytes in %d allocations (TotalAlloc delta), bound 64MiB+8*(len+threads*Max) = %d; reader %q, %d values, err=%v",
			cfg, len(input), d, m1.Mallocs-m0.Mallocs, b, res.reader, res.values, res.err)
	}
	return res
}

func safeType(t zed.Type) (s string) {
	defer func() {
		if r := recover(); r != nil {
			s = fmt.Sprintf("<type unformattable: %v>", r)
		}
	}()
	return fmt.Sprintf("%x", zed.EncodeTypeValue(t))
}

func clip(b []byte, n int) []byte {
	if len(b) > n {
		return b[:n]
	}
	return b
}

// consumers feeds walker-consistent values to a ZSON formatter and a ZNG
// writer (clause 6); a panic there is reported separately from reader panics.
func consumers(vals []zed.Value, from string, rep *reporter) {
	// Values of very deeply nested types are left out: formatting and
	// re-encoding them repeats the super-linear type work that finding
	// C11-deep-type-* is about and only costs time here.
	bigType := map[zed.Type]bool{}
	kept := vals[:0:0]
	for _, v := range vals {
		big, ok := bigType[v.Type()]
		if !ok {
			big = len(zed.EncodeTypeValue(v.Type())) > 2048
			bigType[v.Type()] = big
		}
		if !big {
			kept = append(kept, v)
		}
	}
	vals = kept
	if len(vals) == 0 {
		return
	}
	var cur zed.Value
	if p := catch(func() {
		w := zsonio.NewWriter(zio.NopCloser(io.Discard), zsonio.WriterOpts{})
		for _, v := range vals {
			cur = v
			if err := w.Write(v); err != nil {
				return
			}
		}
		w.Close()
	}); p != nil {
		rep.report("C11/consumer/zson-format/panic@"+p.site(), "zson formatter panicked on a structurally consistent value handed out by reader %s: type %s bytes %x\n%s",
			from, safeType(cur.Type()), clip(cur.Bytes(), 200), p.text())
	}
	if p := catch(func() {
		w := zngio.NewWriterWithOpts(zio.NopCloser(io.Discard), zngio.WriterOpts{Compress: true, FrameThresh: 4096})
		for _, v := range vals {
			cur = v
			if err := w.Write(v); err != nil {
				return
			}
		}
		w.Close()
	}); p != nil {
		rep.report("C11/consumer/zng-write/panic@"+p.site(), "zngio writer panicked on a structurally consistent value handed out by reader %s: type %s bytes %x\n%s",
			from, safeType(cur.Type()), clip(cur.Bytes(), 200), p.text())
	}
}

// zngReadAheadSafe tells whether the input may be given to the threaded ZNG
// scanner after the synchronous run ended with an error.  The threaded
// scanner's input goroutine keeps parsing frames and handing them to workers
// while an earlier frame's error is still on its way to the caller, so it
// reaches frames the synchronous run never saw; a listed panic in one of them
// would kill the process instead of being counted.  The synchronous scanner
// keeps no sticky error: reading on after each error visits those frames on
// the test goroutine.  Only a panic with a listed signature vetoes the
// threaded run (and is counted); anything else is left for the threaded run
// to show.
func zngReadAheadSafe(input []byte, validate bool, rep *reporter) bool {
	safe := true
	if p := catch(func() {
		r := zngio.NewReaderWithOpts(zed.NewContext(), bytes.NewReader(input), zngio.ReaderOpts{Threads: 1, Max: readMax, Validate: validate})
		defer r.Close()
		errs := 0
		for n := 0; n <= 255*len(input)+1 && errs <= len(input)+1; n++ {
			v, err := r.Read()
			if err != nil {
				errs++
				continue
			}
			if v == nil {
				return
			}
		}
	}); p != nil {
		if sig := "C11/panic@" + p.site(); vt.IsKnown(sig) {
			rep.report(sig, "")
			safe = false
		}
	}
	return safe
}

// ---- VNG pre-flight
//
// vng.NewObject decodes the metadata section with a zngio reader that uses
// default options (GOMAXPROCS worker goroutines, Max = 1 GiB): a panic of the
// ZNG decoder there happens on a goroutine of the code under test and kills
// the process, so it could be neither attributed nor counted.  The harness
// therefore first decodes the metadata section with the synchronous ZNG
// reader on the test goroutine (same decoder code, panics recoverable) and
// only opens the object when that did not panic.

func looksLikeVNG(b []byte) (meta []byte, ok bool) {
	if len(b) < vng.HeaderSize || b[0] != 'V' || b[1] != 'N' || b[2] != 'G' || b[3] != 0 {
		return nil, false
	}
	if binary.LittleEndian.Uint32(b[4:]) != vng.Version {
		return nil, false
	}
	ms := binary.LittleEndian.Uint64(b[8:])
	if ms > vng.MaxMetaSize {
		return nil, false
	}
	end := uint64(vng.HeaderSize) + ms
	if end > uint64(len(b)) {
		end = uint64(len(b))
	}
	return b[vng.HeaderSize:end], true
}

// vngPreflight returns false when the object must not be opened through
// vng.NewObject because that would kill the process instead of panicking on
// the test goroutine:
//   - the metadata section makes the synchronous ZNG decoder panic (in
//     readMetadata the same panic happens on a zngio goroutine);
//   - a type value inside the metadata value makes Context.DecodeTypeValue
//     panic: the unmarshaler reaches it through Context.LookupByValue, whose
//     deferred mu.Unlock then runs on an unlocked mutex, which is a fatal error
//     ("sync: Unlock of unlocked RWMutex") that no recover can stop.  The
//     harness calls DecodeTypeValue directly (recoverable) on every type-typed
//     leaf of the metadata value, in order and in the metadata's own context.
//
// Both are reported (once) under the signature of the recoverable panic.
// maxAnnouncedSize scans ZNG frame headers from the start of b (as far as they
// are well-formed) and returns the largest uncompressed size announced by a
// compressed frame.
func maxAnnouncedSize(b []byte) uint64 {
	var m uint64
	for o := 0; o < len(b); {
		code := b[o]
		if code == 0xff {
			o++
			continue
		}
		if code&0x80 != 0 {
			break
		}
		v, n := binary.Uvarint(b[o+1:])
		if n <= 0 || v > 1<<40 {
			break
		}
		size := int(v<<4) | int(code&0xf)
		body := o + 1 + n
		if code&0x40 != 0 && body+1 < len(b) {
			if u, un := binary.Uvarint(b[body+1:]); un > 0 {
				m = max(m, u)
			}
		}
		if body+size > len(b) {
			break
		}
		o = body + size
	}
	return m
}

func vngPreflight(meta []byte, rep *reporter) (ok bool, metaIssue *oracle.Issue) {
	ok = true
	if vt.IsKnown("C11/alloc/vng/big-blocks") && maxAnnouncedSize(meta) > 48<<20 {
		// (listed: readMetadata's reader would allocate what the frame header
		// announces, up to 1 GiB + 25%; do not do that in every such case)
		rep.report("C11/alloc/vng/big-blocks", "")
		return false, nil
	}
	var val *zed.Value
	zctx := zed.NewContext()
	var m0, m1 runtime.MemStats
	runtime.ReadMemStats(&m0)
	checkAlloc := func(sig, what string) {
		runtime.ReadMemStats(&m1)
		if d := m1.TotalAlloc - m0.TotalAlloc; d > allocBound(len(meta)+vng.HeaderSize, 1) {
			rep.report(sig+"/"+allocClass(&m0, &m1), "%s allocated %d bytes in %d allocations (VNG metadata section of %d bytes)", what, d, m1.Mallocs-m0.Mallocs, len(meta))
			ok = false
		}
		m0 = m1
	}
	// readMetadata's reader runs with the default Max of 1 GiB whatever the
	// caller configured: a compressed frame announcing a large size makes it
	// allocate that much (+25%) before looking at the payload.
	defer func() {
		checkAlloc("C11/alloc/vng", "decoding the metadata section the way vng.readMetadata does (zngio reader with default options, Max = 1 GiB)")
	}()
	if p := catch(func() {
		r := zngio.NewReaderWithOpts(zctx, bytes.NewReader(meta), zngio.ReaderOpts{Threads: 1})
		defer r.Close()
		for i := 0; i < 2; i++ {
			v, err := r.Read()
			if v == nil || err != nil {
				return
			}
			if i == 0 {
				c := v.Copy()
				val = &c
			}
		}
	}); p != nil {
		rep.report("C11/panic@"+p.site(), "VNG metadata section (decoded by vng.readMetadata with a threaded zngio reader: this panic kills the process there): %s", p.text())
		return false, nil
	}
	if val == nil {
		return true, nil
	}
	checkAlloc("C11/alloc/vng", "decoding the metadata section the way vng.readMetadata does (zngio reader with default options, Max = 1 GiB)")
	metaIssue = oracle.CheckValue(*val)
	if oracle.HasNullUnion(*val) && vt.IsKnown("C11/fatal-stack-overflow@/zson.(*UnmarshalZNGContext).lookupGoType[null-union]") {
		// (Only while C11-unmarshal-null-union is listed as open.  With the
		// finding closed the object goes to the reader like any other: a
		// regression then shows as a dead worker, signature `crash`.)
		// zson.(*UnmarshalZNGContext).lookupGoType: `case *zed.TypeUnion: return
		// u.lookupGoType(typ.Untag(bytes))`, and TypeUnion.Untag(nil) returns the
		// union type itself with nil bytes: a null union value under an
		// interface-typed Go field (every nested vng.Metadata is one) recurses
		// until "fatal error: stack overflow" (1 GB of stack; not recoverable).
		// Seen as a process crash; it cannot be observed in-process, so the
		// structural condition is what gets reported and kept from the reader.
		rep.report("C11/fatal-stack-overflow@/zson.(*UnmarshalZNGContext).lookupGoType[null-union]",
			"the VNG metadata value contains a null value of union type: zson unmarshal into the interface-typed vng.Metadata fields recurses forever in lookupGoType (Untag(nil) returns the same union type) until the runtime aborts with 'fatal error: stack overflow'")
		ok = false
	}
	defer func() {
		checkAlloc("C11/alloc/typevalue", "Context.DecodeTypeValue on the type values of the metadata")
	}()
	for _, tv := range oracle.TypeLeaves(*val) {
		tv := tv
		if p := catch(func() { zctx.DecodeTypeValue(tv) }); p != nil {
			ok = false
			rep.report("C11/panic@"+p.site(), "Context.DecodeTypeValue(%x) panics; the VNG metadata unmarshaler reaches it through Context.LookupByValue, where the panic turns into "+
				"\"fatal error: sync: Unlock of unlocked RWMutex\" (deferred mu.Unlock while the lock is released around DecodeTypeValue) and kills the process\n%s", tv, p.text())
		}
	}
	return ok, metaIssue
}

// Once C11/alloc/vng is a listed finding (the VNG reader trusts the segment
// sizes, vector lengths and counts it finds in the file) the harness keeps
// such inputs away from the reader, because a hit is not a clean failure: a
// segment MemLength of 2^40 is a 1 TiB make(), and an array length of 2^40 in
// a Lengths vector keeps one Read call looping and appending for hours.
const (
	segmentLimit = 32 << 20 // largest Segment.MemLength / Length let through
	lengthsLimit = 1 << 21  // largest sum of the values of all Lengths vectors let through
)

// vngScreen opens the object's metadata (after the pre-flight) and returns the
// largest Segment.MemLength / Segment.Length in it and the sum of the
// (non-negative) container lengths stored in its Lengths vectors.
func vngScreen(input []byte) (maxSeg uint64, sumLengths uint64, err error) {
	if p := catch(func() {
		var o *vng.Object
		o, err = vng.NewObject(bytes.NewReader(input))
		if err != nil {
			return
		}
		var lengths []vng.Segment
		maxSeg = walkSegments(reflect.ValueOf(o.Metadata()), 0, &lengths)
		if maxSeg > segmentLimit {
			return
		}
		for _, seg := range lengths {
			buf := make([]byte, seg.MemLength)
			if seg.Read(o.DataReader(), buf) != nil {
				continue
			}
			for len(buf) > 0 {
				tag, n := binary.Uvarint(buf)
				if n <= 0 || tag == 0 || tag-1 > uint64(len(buf)-n) {
					break
				}
				if v := zed.DecodeInt(buf[n : n+int(tag-1)]); v > 0 {
					sumLengths += uint64(v)
				}
				buf = buf[n+int(tag-1):]
			}
		}
	}); p != nil {
		return 0, 0, fmt.Errorf("panic: %v", p.val)
	}
	return maxSeg, sumLengths, err
}

var segmentType = reflect.TypeOf(vng.Segment{})

// walkSegments returns the largest MemLength/Length of the segments below v
// and appends the segments stored in fields named Lengths.
func walkSegments(v reflect.Value, depth int, lengths *[]vng.Segment) uint64 {
	if depth > 200 || !v.IsValid() {
		return 0
	}
	var m uint64
	switch v.Kind() {
	case reflect.Interface, reflect.Ptr:
		if v.IsNil() {
			return 0
		}
		return walkSegments(v.Elem(), depth+1, lengths)
	case reflect.Struct:
		if v.Type() == segmentType {
			s := v.Interface().(vng.Segment)
			return max(s.MemLength, s.Length)
		}
		if v.Type() == reflect.TypeOf(zed.Value{}) {
			return 0
		}
		for i := 0; i < v.NumField(); i++ {
			f := v.Type().Field(i)
			if !f.IsExported() {
				continue
			}
			if f.Type == segmentType && f.Name == "Lengths" {
				*lengths = append(*lengths, v.Field(i).Interface().(vng.Segment))
			}
			m = max(m, walkSegments(v.Field(i), depth+1, lengths))
		}
	case reflect.Slice:
		for i := 0; i < v.Len(); i++ {
			m = max(m, walkSegments(v.Index(i), depth+1, lengths))
		}
	}
	return m
}

// ---- goroutine leak check (clause 5)

var (
	leakOnce     sync.Once
	baseline     int
	leakedBefore = map[string]bool{} // goroutine ids already reported
)

var goroutineHdr = regexp.MustCompile(`^goroutine (\d+) \[([^\]]*)\]`)

type ginfo struct {
	state string
	fns   []string
}

func (g ginfo) String() string { return g.state + ": " + strings.Join(g.fns, " < ") }

func isReaderFrame(f string) bool {
	return strings.Contains(f, "/zio/zngio.") || strings.Contains(f, "/zio/anyio.")
}

// readerGoroutines returns the goroutines (other than the caller) that have
// zngio./anyio. frames, by goroutine id.
func readerGoroutines() map[string]ginfo {
	buf := make([]byte, 1<<20)
	buf = buf[:runtime.Stack(buf, true)]
	out := map[string]ginfo{}
	for i, g := range strings.Split(string(buf), "\n\n") {
		if i == 0 {
			continue // the calling goroutine
		}
		if !isReaderFrame(g) {
			continue
		}
		m := goroutineHdr.FindStringSubmatch(g)
		if m == nil || leakedBefore[m[1]] {
			continue
		}
		state := m[2]
		if i := strings.Index(state, ","); i >= 0 {
			state = state[:i] // drop ", 2 minutes"
		}
		var fns []string
		for _, l := range strings.Split(g, "\n")[1:] {
			if !strings.HasPrefix(l, "\t") && !strings.HasPrefix(l, "created by") {
				fns = append(fns, stripArgs(l))
			}
		}
		out[m[1]] = ginfo{state, fns}
	}
	return out
}

func snapshotString(m map[string]ginfo) string {
	var ids []string
	for id := range m {
		ids = append(ids, id)
	}
	sort.Strings(ids)
	var b strings.Builder
	for _, id := range ids {
		fmt.Fprintf(&b, "goroutine %s [%s]\n", id, m[id])
	}
	return b.String()
}

// leakCheck polls until no reader goroutine is left.  Only a persistent leak
// is reported: goroutines still present after leakPatience whose blocked
// state is identical in two snapshots one second apart.
const leakPatience = 8 * time.Second

func leakCheck(rep *reporter, what string) {
	leakOnce.Do(func() { baseline = runtime.NumGoroutine() })
	if runtime.NumGoroutine() <= baseline {
		return
	}
	deadline := time.Now().Add(leakPatience)
	sleep := 50 * time.Microsecond
	for {
		if len(readerGoroutines()) == 0 {
			return
		}
		if time.Now().After(deadline) {
			break
		}
		time.Sleep(sleep)
		if sleep < 20*time.Millisecond {
			sleep *= 2
		}
	}
	s1 := readerGoroutines()
	time.Sleep(time.Second)
	s2 := readerGoroutines()
	if len(s2) == 0 || snapshotString(s1) != snapshotString(s2) {
		return // still changing: not a leak by the rule
	}
	var ids []string
	for id := range s2 {
		ids = append(ids, id)
		leakedBefore[id] = true
	}
	sort.Strings(ids)
	where := "?"
	for _, f := range s2[ids[0]].fns {
		if isReaderFrame(f) {
			where = strings.TrimPrefix(f, "github.com/brimdata/super")
			break
		}
	}
	rep.report("C11/goroutine-leak@"+where, "%s: %d goroutine(s) of the readers are still blocked %v after Close returned (two identical snapshots 1s apart):\n%s",
		what, len(s2), leakPatience+time.Second, snapshotString(s2))
}
