package c09

import (
	"context"
	"encoding/json"
	"fmt"
	"regexp"
	"sort"
	"strings"

	zed "github.com/brimdata/super"
	"github.com/brimdata/super/compiler"
	"github.com/brimdata/super/compiler/data"
	"github.com/brimdata/super/lakeparse"
	"github.com/brimdata/super/runtime"
	"github.com/segmentio/ksuid"
	"pgregory.net/rapid"

	"verif/gen"
	"verif/lakeh"
	"verif/memstore"
	"verif/oracle"
	"verif/vt"
)

// ---------- (b) lake level: the auto-vectorized shapes in four vector states

type LakeProg struct {
	Text  string `json:"text"`
	Shape string `json:"shape"` // countby | sum | other
	Field string `json:"field,omitempty"`
}

type LakeCase struct {
	Pool    lakeh.PoolSpec `json:"pool"`
	Batches []gen.Seq      `json:"batches"`
	Progs   []LakeProg     `json:"progs"`
	Some    []int          `json:"some"`   // ordinals (mod number of objects) of the objects that get vectors first
	Delete  []int          `json:"delete"` // ordinals of the objects whose vectors are deleted at the end (empty = all)
	Compact bool           `json:"compact"` // finally compact all objects with vectors enabled and query again
}

func genLakeCase(t *rapid.T) LakeCase {
	c := LakeCase{Pool: lakeh.PoolSpec{Name: "p", Key: []string{"k"}, Desc: chance(t, 30, "desc"),
		Thresh: pickOf(t, "thresh", []int64{1, 60, 200, 0}), Stride: pickOf(t, "stride", []int{1, 0})}}
	// the two columns the auto-vectorized shapes look at
	sKinds := pickOf(t, "s-kinds", [][]string{{"string"}, {"string"}, {"string"}, {"string"}, {"string", "nullstr"}, {"string", "missing"}, {"string", "int64"}, {"int64"}, {"string", "nullstr", "missing"}, {"bool"}})
	nKinds := pickOf(t, "n-kinds", [][]string{{"int64"}, {"int64"}, {"int64"}, {"int64"}, {"int64", "nullint"}, {"int32", "nullint"}, {"uint64"}, {"float64q"}, {"int64", "float64q"}, {"int64", "nullint"}, {"int64", "missing"}, {"int64", "string"}, {"int32"}, {"int64", "uint64"}})
	// a quarter of the cases aim at the part of the space where the vector Sum is right today (so that a change there
	// shows): integer n with nulls, dictionary encoded (2..256 distinct values per object and record type), objects of
	// several values, and sum(n) among the programs
	cleanSum := chance(t, 25, "clean-sum")
	if cleanSum {
		nKinds = pickOf(t, "clean-n-kinds", [][]string{{"int64", "nullint"}, {"int64", "int64", "nullint"}, {"int64"}, {"int32", "nullint"}})
		sKinds = []string{"string"}
		c.Pool.Thresh = pickOf(t, "clean-thresh", []int64{200, 0, 120})
	}
	nb := ir(t, 1, 3, "nbatches")
	// 6%: one long load into large objects, so that columns with more than 256 distinct values (plain vectors) occur
	long := chance(t, 6, "long")
	if long {
		c.Pool.Thresh = 0
	}
	key := 0
	for i := 0; i < nb; i++ {
		enc := func(name string) string {
			if long && i == 0 {
				return "plain"
			}
			if cleanSum {
				return "dict"
			}
			return pick(t, name+"-enc", "const", "dict", "dict")
		}
		s := newCol(t, "s", sKinds, enc("s"))
		n := newCol(t, "n", nKinds, enc("n"))
		rows := ir(t, 1, 12, "rows")
		if cleanSum {
			rows = ir(t, 5, 14, "rows-clean")
		}
		if long && i == 0 {
			rows = ir(t, 258, 280, "rows-long")
		}
		var sb strings.Builder
		for r := 0; r < rows; r++ {
			fields := []string{fmt.Sprintf("k:%d", key)}
			key += ir(t, 0, 2, "keystep")
			if v, ok := s.value(t, r); ok {
				fields = append(fields, "s:"+v)
			}
			if v, ok := n.value(t, r); ok {
				fields = append(fields, "n:"+v)
			}
			sb.WriteString("{" + strings.Join(fields, ",") + "} ")
		}
		c.Batches = append(c.Batches, gen.SeqFromZSON(sb.String()))
	}
	progs := []LakeProg{
		{"from p | count() by s", "countby", "s"}, {"from p | count() by s", "countby", "s"}, {"from p | sum(n)", "sum", "n"}, {"from p | sum(n)", "sum", "n"},
		{"from p | count() by n", "countby", "n"}, {"from p | count() by k", "countby", "k"}, {"from p | sum(k)", "sum", "k"},
		{"from p | where n > 1 | count() by s", "countby", "s"}, {"from p | where k >= 2 | sum(n)", "sum", "n"},
		{"from p | count() by s | sort s", "countby", "s"}, {"from p | sum(n) | yield {total:this}", "sum", "n"},
		{"from p | count() by s | count()", "countby", "s"}, {"from p | sum(s)", "sum", "s"},
		{"from p | count()", "other", ""}, {"from p | cut s | count() by s", "other", ""}, {"from p | yield n | sort this", "other", ""}, {"from p | c:=count() by s", "other", ""},
		{"from p | sum(n) by s", "other", ""}, {"from p | where n > 0 | cut k,n | sort k", "other", ""},
	}
	np := ir(t, 1, 3, "nprogs")
	for i := 0; i < np; i++ {
		c.Progs = append(c.Progs, pickOf(t, "prog", progs))
	}
	if cleanSum {
		c.Progs[0] = pickOf(t, "clean-prog", []LakeProg{progs[2], progs[2], progs[10]})
	}
	for i, ns := 0, ir(t, 1, 3, "nsome"); i < ns; i++ {
		c.Some = append(c.Some, ir(t, 0, 7, "some"))
	}
	c.Compact = chance(t, 50, "compact")
	if c.Compact && chance(t, 70, "compact-small-stride") {
		// the sorted writer only sees its output grow when a seek-index stride completes
		c.Pool.Stride = 1
		if c.Pool.Thresh == 0 && !long {
			c.Pool.Thresh = 60
		}
	}
	if chance(t, 50, "delete-some") {
		for i, nd := 0, ir(t, 1, 2, "ndel"); i < nd; i++ {
			c.Delete = append(c.Delete, ir(t, 0, 7, "del"))
		}
	}
	return c
}

// "float64q": quarter-valued floats so that float sums are exact whatever the order of the partial additions
func init() {
	valuePool["float64q"] = []string{"1.5", "0.25", "-2.75", "4.", "8.5"}
}

type lakeEnv struct {
	ctx   context.Context
	store *memstore.Store
	lk    *lakeh.Lake
	pool  ksuid.KSUID
	zctx  *zed.Context
}

type lakeRun struct {
	vals      []zed.Value
	err       error
	vectorize bool
	slicer    bool
	dag       string
}

// run executes src at parallelism 2 through the explicit compile steps.
func (e *lakeEnv) run(src string) (res lakeRun) {
	seq, _, err := compiler.Parse(src)
	if err != nil {
		res.err = err
		return
	}
	// Every query runs on a handle of its own (own vector cache): scanner goroutines that a failed vectorized query
	// leaves behind would otherwise meet the next query in vcache.Cache.Fetch, which deadlocks when two callers fetch
	// the same uncached object (finding C09/vcache/concurrent-fetch-deadlock, checked by TestVcacheFetch).
	lk, err := lakeh.Open(e.ctx, e.store, memstore.Atomic, nil)
	if err != nil {
		res.err = err
		return
	}
	rctx := runtime.NewContext(e.ctx, zed.NewContext())
	defer rctx.Cancel()
	job, err := compiler.NewJob(rctx, seq, data.NewSource(nil, lk.Root), &lakeparse.Commitish{})
	if err != nil {
		res.err = err
		return
	}
	if err := job.Optimize(); err != nil {
		res.err = err
		return
	}
	if err := job.Parallelize(2); err != nil {
		res.err = err
		return
	}
	b, _ := json.Marshal(job.Entry())
	res.dag = string(b)
	res.vectorize = strings.Contains(res.dag, `"kind":"Vectorize"`)
	res.slicer = strings.Contains(res.dag, `"kind":"Slicer"`)
	if err := job.Build(); err != nil {
		res.err = err
		return
	}
	vals, err := pullAll(job.Puller())
	if err != nil {
		res.err = err
		return
	}
	res.vals = lakeh.Translate(e.zctx, vals)
	return
}

// colFeatures describes the column `field` over the pool's objects.
type colFeatures struct {
	kinds      map[string]bool // coarse kinds of the values (missing included)
	encs       map[string]int  // const/dict/plain -> number of objects
	dictObjs   int
	objects    int
	sharedDict bool // some value occurs in the dictionaries of two objects
	// predSum is what the vector Sum operator at HEAD computes for the column (model: per object and record type, a
	// column of an integer type that is dictionary or plain encoded contributes the sum of its non-null values; const
	// columns, floats and everything else contribute nothing; the result is an int64).  A vectorized sum that differs
	// from the sequential one is only attributed to the listed findings when it equals this prediction.
	predSum int64
}

// features describes the column; with keyAtLeast set, objects whose largest pool key is below it are left out (the
// lister's key-range pruner still skips them in a vectorized plan, although the filter itself is ignored).
func (e *lakeEnv) features(field string, keyAtLeast *int64) (colFeatures, error) {
	f := colFeatures{kinds: map[string]bool{}, encs: map[string]int{}}
	tip, err := e.lk.Tip(e.ctx, e.pool, "main")
	if err != nil {
		return f, err
	}
	objs, _, err := e.lk.Objects(e.ctx, e.pool, tip)
	if err != nil {
		return f, err
	}
	f.objects = len(objs)
	seenInDict := map[string]int{}
	for _, o := range objs {
		if keyAtLeast != nil && zed.IsInteger(o.Max.Type().ID()) && !o.Max.IsNull() && o.Max.AsInt() < *keyAtLeast {
			continue
		}
		vals, err := e.lk.ReadObject(e.ctx, e.pool, o, e.zctx)
		if err != nil {
			return f, err
		}
		// per record type: distinct values of the field (that is how VNG chooses the encoding)
		perType := map[zed.Type]map[string]bool{}
		counts := map[zed.Type]int{}
		intSum := map[zed.Type]int64{}
		fieldType := map[zed.Type]zed.Type{}
		for _, v := range vals {
			rt := zed.TypeRecordOf(v.Type())
			idx, has := -1, false
			if rt != nil {
				idx, has = rt.IndexOfField(field)
			}
			if !has {
				f.kinds["missing"] = true
				continue
			}
			fieldType[v.Type()] = rt.Fields[idx].Type
			fv := v.Deref(field)
			if fv == nil {
				// Deref gives nil for a null field
				f.kinds["null"] = true
				continue
			}
			f.kinds[coarse(kindOf(*fv))] = true
			if fv.IsNull() {
				// nulls are kept apart from the column's values by the VNG writer
				continue
			}
			switch id := fv.Type().ID(); {
			case zed.IsSigned(id):
				intSum[v.Type()] += fv.Int()
			case zed.IsUnsigned(id):
				intSum[v.Type()] += int64(fv.Uint())
			}
			if perType[v.Type()] == nil {
				perType[v.Type()] = map[string]bool{}
			}
			perType[v.Type()][oracle.Key(*fv)] = true
			counts[v.Type()]++
			_ = counts
		}
		objEnc := map[string]bool{}
		for typ, d := range perType {
			noDict := false
			switch fieldType[typ].ID() {
			case zed.IDUint8, zed.IDInt8, zed.IDBool:
				noDict = true // vng.NewPrimitiveEncoder: 8-bit values are never dictionary (or const) encoded
			}
			switch {
			case len(d) == 1 && !noDict:
				objEnc["const"] = true
			case len(d) > 256 || noDict:
				objEnc["plain"] = true
				f.predSum += intSum[typ]
			default:
				objEnc["dict"] = true
				f.predSum += intSum[typ]
				for k := range d {
					seenInDict[k]++
				}
			}
		}
		for enc := range objEnc {
			f.encs[enc]++
		}
		if objEnc["dict"] {
			f.dictObjs++
		}
	}
	for _, n := range seenInDict {
		if n >= 2 {
			f.sharedDict = true
		}
	}
	return f, nil
}

func (f colFeatures) String() string {
	ks := sortedKeys(f.kinds)
	var es []string
	for e := range f.encs {
		es = append(es, e)
	}
	sort.Strings(es)
	return strings.Join(ks, "|") + ";" + strings.Join(es, "|")
}

func (f colFeatures) debug() string {
	return fmt.Sprintf("predSum=%d", f.predSum)
}

// lakeRootCause attributes a difference of a vectorized run to a listed finding - only where the observed result is
// what that finding predicts: for sum() the vector result must equal the model of HEAD's Sum operator (predSum), for
// count() by the vector rows must be bounded by the rows of the sequential plan (dictionary counts are overwritten,
// groups are lost, never invented or over-counted).  Anything else keeps a detailed signature of its own.
func lakeRootCause(p LakeProg, r lakeRun, f colFeatures, ref, bound []zed.Value) string {
	msg := ""
	if r.err != nil {
		msg = r.err.Error()
	}
	hasFilter := strings.Contains(p.Text, "where ")
	switch {
	case strings.Contains(msg, "vam.objectPuller encountered unnamed object"):
		return "vectorized-scan-behind-slicer"
	case strings.Contains(msg, "interface conversion: vector.Any is *vector.") && strings.Contains(msg, "not *vector.String") && strings.Contains(msg, "CountByString"):
		return "countby/dictionary-key-not-string"
	case strings.Contains(msg, "UNKNOWN *vector.") && strings.Contains(msg, "CountByString"):
		return "countby/key-vector-not-supported"
	case r.err != nil:
		return ""
	}
	nonString := false
	for k := range f.kinds {
		switch k {
		case "string", "null", "missing":
		default:
			nonString = true
		}
	}
	switch p.Shape {
	case "countby":
		if !countsBounded(p.Field, r.vals, bound, f.kinds["null"]) {
			return ""
		}
		switch {
		case hasFilter:
			return "vectorized-scan-ignores-filter"
		case nonString:
			return "countby/non-string-key-dropped"
		case f.kinds["missing"]:
			return "countby/missing-key-group-lost"
		case f.kinds["null"]:
			return "countby/null-key"
		case f.dictObjs >= 1:
			return "countby/dict-counts-overwritten"
		}
	case "sum":
		if len(r.vals) != 1 || len(ref) > 1 || len(ref) == 0 && !hasFilter {
			return ""
		}
		// `sum(n)` yields the bare value; `... | yield {total:this}` wraps it
		unwrap := func(v zed.Value) *zed.Value {
			if rt := zed.TypeRecordOf(v.Type()); rt != nil {
				if len(rt.Fields) != 1 {
					return nil
				}
				return v.Deref(rt.Fields[0].Name)
			}
			return &v
		}
		got := unwrap(r.vals[0])
		want := &zed.Null
		if len(ref) == 1 {
			if w := unwrap(ref[0]); w != nil {
				want = w
			}
		}
		if got == nil || got.Type() != zed.TypeInt64 || got.IsNull() || got.Int() != f.predSum {
			return ""
		}
		switch {
		case hasFilter:
			return "vectorized-scan-ignores-filter"
		case f.kinds["float"] || f.kinds["float-narrow"]:
			return "sum/float-ignored"
		case f.kinds["uint"] || f.kinds["uint-narrow"]:
			return "sum/unsigned-reported-as-int64"
		case want.IsNull():
			return "sum/nothing-summable-reports-zero"
		case f.encs["const"] > 0:
			return "sum/const-vector-ignored"
		}
	}
	return ""
}

// countsBounded: every row {field,count} of the vectorized result has a row with the same key and at least that
// count in bound (the sequential result, without the filter if the program has one).  With null keys in the column
// the vector operator counts null(string) under "", so the bound of "" includes the null group.
func countsBounded(field string, got, bound []zed.Value, hasNull bool) bool {
	limit := map[string]uint64{}
	var nullCount uint64
	for _, v := range bound {
		k, c := v.Deref(field), v.Deref("count")
		if k == nil || c == nil || c.Type() != zed.TypeUint64 {
			return true // not the plain {key,count} shape (operators follow): nothing to verify
		}
		limit[oracle.Key(*k)] += c.Uint()
		if k.IsNull() {
			nullCount += c.Uint()
		}
	}
	for _, v := range got {
		k, c := v.Deref(field), v.Deref("count")
		if k == nil || c == nil || c.Type() != zed.TypeUint64 {
			return true
		}
		max := limit[oracle.Key(*k)]
		if hasNull && k.Type() == zed.TypeString && !k.IsNull() && len(k.Bytes()) == 0 {
			max += nullCount
		}
		if c.Uint() > max {
			return false
		}
	}
	return true
}

func nonNumeric(kinds map[string]bool) bool {
	for k := range kinds {
		if family(k) != "num" {
			return true
		}
	}
	return false
}

func lakeSymptom(ref, got lakeRun) string {
	switch {
	case got.err != nil:
		m := errClass(got.err)
		if strings.HasPrefix(m, "panic") {
			return "panic(" + m + ")"
		}
		return "query-error(" + m + ")"
	case len(ref.vals) != len(got.vals):
		if len(got.vals) < len(ref.vals) {
			return "fewer-values"
		}
		return "more-values"
	}
	return "values-differ"
}

var leadingFilterRE = regexp.MustCompile(`^from p \| where [^|]* \| `)

func runLakeCase(c LakeCase) *vt.Outcome {
	o := &vt.Outcome{}
	ctx := context.Background()
	store := memstore.NewStore()
	lk, err := lakeh.Create(ctx, store, memstore.Atomic, nil)
	if err != nil {
		o.Fail = fail("C09/setup", "%v", err)
		return o
	}
	pool, err := lk.CreatePool(ctx, c.Pool)
	if err != nil {
		o.Fail = fail("C09/setup", "%v", err)
		return o
	}
	e := &lakeEnv{ctx: ctx, store: store, lk: lk, pool: pool, zctx: zed.NewContext()}
	for _, b := range c.Batches {
		if _, err := lk.Load(ctx, pool, "main", b.Zctx, b.Vals); err != nil {
			o.Fail = fail("C09/setup", "load: %v", err)
			return o
		}
	}
	tip, err := lk.Tip(ctx, pool, "main")
	if err != nil {
		o.Fail = fail("C09/setup", "%v", err)
		return o
	}
	objs, _, err := lk.Objects(ctx, pool, tip)
	if err != nil || len(objs) == 0 {
		o.Fail = fail("C09/setup", "no objects: %v", err)
		return o
	}
	sort.Slice(objs, func(i, j int) bool { return objs[i].ID.String() < objs[j].ID.String() })
	pickIDs := func(ords []int) []ksuid.KSUID {
		seen := map[int]bool{}
		var ids []ksuid.KSUID
		for _, x := range ords {
			i := x % len(objs)
			if !seen[i] {
				seen[i] = true
				ids = append(ids, objs[i].ID)
			}
		}
		return ids
	}
	switch {
	case len(objs) >= 4:
		o.Label("objects>=4")
	case len(objs) >= 2:
		o.Label("objects>=2")
	default:
		o.Label("objects=1")
	}
	// state 0: no vectors
	refs := make([]lakeRun, len(c.Progs))
	for i, p := range c.Progs {
		refs[i] = e.run(p.Text)
		if refs[i].vectorize {
			o.Fail = fail("C09/lake/vectorize-without-vectors", "%q: the plan contains dag.Vectorize although no object has vectors (query error: %v)", p.Text, refs[i].err)
			return o
		}
		if refs[i].err != nil {
			o.Skip = "reference-error: " + errClass(refs[i].err)
			return o
		}
	}
	// for programs with a leading filter: the result without it (what a plan that ignores the filter may return at most)
	noFilter := make([][]zed.Value, len(c.Progs))
	for i, p := range c.Progs {
		if t := leadingFilterRE.ReplaceAllString(p.Text, "from p | "); t != p.Text {
			r := e.run(t)
			if r.err != nil {
				o.Skip = "reference-error: " + errClass(r.err)
				return o
			}
			noFilter[i] = r.vals
		}
	}
	nobjs := len(objs)
	known := map[string]bool{}
	check := func(state string, expectVec bool) bool {
		for i, p := range c.Progs {
			got := e.run(p.Text)
			o.Evals++
			if got.vectorize {
				o.Label("vectorized:" + p.Shape)
				o.Units = append(o.Units, p.Text)
			}
			if got.vectorize && !expectVec {
				o.Fail = fail("C09/lake/vectorize-with-partial-vectors", "%q in state %q: the plan contains dag.Vectorize although not every object has vectors", p.Text, state)
				return false
			}
			d := ""
			if got.err != nil {
				d = "query failed: " + got.err.Error()
			} else {
				d = oracle.SameMultiset(refs[i].vals, got.vals)
			}
			if d == "" {
				if got.vectorize {
					o.Label("vectorized-agrees:" + p.Shape)
				}
				continue
			}
			sym := lakeSymptom(refs[i], got)
			sig := "C09/lake/" + state + "/" + p.Shape + "/" + sym
			feat := ""
			if got.vectorize {
				var keyBound *int64
				if strings.Contains(p.Text, "where k >= 2 |") {
					two := int64(2)
					keyBound = &two
				}
				f, ferr := e.features(p.Field, keyBound)
				if ferr != nil {
					o.Fail = fail("C09/setup", "%v", ferr)
					return false
				}
				feat = f.String()
				bound := refs[i].vals
				if noFilter[i] != nil {
					bound = noFilter[i]
				}
				if rc := lakeRootCause(p, got, f, refs[i].vals, bound); rc != "" {
					sig = "C09/lake/" + rc
				} else {
					sig = "C09/lake/vectorized/" + p.Shape + "(" + feat + ")/" + sym
					feat += " " + f.debug()
				}
			}
			msg := fmt.Sprintf("%q at parallelism 2 in vector state %q (objects=%d, vectorized plan=%v, column %s: %s): %s; without vectors the query returns %d values, e.g. %s",
				p.Text, state, nobjs, got.vectorize, p.Field, feat, d, len(refs[i].vals), showFirst(refs[i].vals))
			if vt.IsKnown(sig) || discover("TestVamLake", sig, msg, c) {
				known[sig] = true
				continue
			}
			o.Fail = fail(sig, "%s", msg)
			return false
		}
		return true
	}
	// state 1: vectors on some objects
	some := pickIDs(c.Some)
	if _, err := lk.API.AddVectors(ctx, "p", "main", some, lakeh.Msg); err != nil {
		o.Fail = fail("C09/lake/add-vectors-failed", "AddVectors(%d of %d objects): %v", len(some), len(objs), err)
		return o
	}
	allHave := len(some) == len(objs)
	if !check("some-vectors", allHave) {
		return o
	}
	// state 2: vectors on all objects
	inSome := map[ksuid.KSUID]bool{}
	for _, id := range some {
		inSome[id] = true
	}
	var rest []ksuid.KSUID
	for _, ob := range objs {
		if !inSome[ob.ID] {
			rest = append(rest, ob.ID)
		}
	}
	if len(rest) > 0 {
		if _, err := lk.API.AddVectors(ctx, "p", "main", rest, lakeh.Msg); err != nil {
			o.Fail = fail("C09/lake/add-vectors-failed", "AddVectors(rest: %d objects): %v", len(rest), err)
			return o
		}
	}
	if !check("all-vectors", true) {
		return o
	}
	// state 3: after deleting vectors (of some or of all objects)
	del := pickIDs(c.Delete)
	if len(del) == 0 {
		for _, ob := range objs {
			del = append(del, ob.ID)
		}
	}
	if _, err := lk.API.DeleteVectors(ctx, "p", "main", del, lakeh.Msg); err != nil {
		o.Fail = fail("C09/lake/delete-vectors-failed", "DeleteVectors(%d of %d objects): %v", len(del), len(objs), err)
		return o
	}
	if !check("after-delete", false) {
		return o
	}
	// state 4 (optional): compact every object with vectors enabled - the vector copies now come from the compaction
	// writer (lake.SortedWriter), and with a small threshold and seek stride the rollup spills into several objects
	if c.Compact {
		var all []ksuid.KSUID
		for _, ob := range objs {
			all = append(all, ob.ID)
		}
		if len(all) >= 2 {
			if _, err := lk.API.Compact(ctx, pool, "main", all, true, lakeh.Msg); err != nil {
				o.Fail = fail("C09/lake/compact-failed", "Compact(%d objects, vectors): %v", len(all), err)
				return o
			}
			tip, err := lk.Tip(ctx, pool, "main")
			if err != nil {
				o.Fail = fail("C09/setup", "%v", err)
				return o
			}
			after, vecs, err := lk.Objects(ctx, pool, tip)
			if err != nil {
				o.Fail = fail("C09/setup", "%v", err)
				return o
			}
			nobjs = len(after)
			allVec := true
			for _, ob := range after {
				if !vecs[ob.ID] {
					allVec = false
				}
			}
			if !allVec {
				o.Fail = fail("C09/lake/compact-without-vectors", "compaction with vectors enabled left %d objects, not all with a vector copy", len(after))
				return o
			}
			if len(after) >= 2 {
				o.Label("compacted:objects>=2")
			} else {
				o.Label("compacted:objects=1")
			}
			if !check("compacted-with-vectors", true) {
				return o
			}
		}
	}
	o.Known = sortedKeys(known)
	o.NonTrivial = len(o.Units) > 0
	o.Units = dedupe(o.Units)
	o.Labels = dedupe(o.Labels)
	return o
}

func showFirst(vals []zed.Value) string {
	if len(vals) == 0 {
		return "(nothing)"
	}
	var parts []string
	for i, v := range vals {
		if i == 3 {
			parts = append(parts, "...")
			break
		}
		parts = append(parts, oracle.Show(v))
	}
	return strings.Join(parts, " ")
}

var lakeProp = &vt.Prop[LakeCase]{
	Name: "TestVamLake",
	Rule: "lake level: pool keyed on k (asc/desc, threshold {1,60,200,default}) loaded with 1..3 batches of 1..12 records {k,s,n}; s drawn from string / string+null / string+missing / string+int / int / bool columns and n from int64 / uint64 / float (quarter-valued, so sums are exact) / mixes with null, missing, string, int32 - each as const or dictionary column per load (6%: one load of 258..280 records with distinct values, i.e. plain vectors); " +
		"1..3 programs from the auto-vectorized shapes (`count() by <field>`, `sum(<field>)` on s, n, the pool key; with a leading filter; followed by other operators) and programs that must not be vectorized; every program is executed at parallelism 2 through NewJob->Optimize->Parallelize(2)->Build in four or five vector states: no vectors (reference), vectors on some objects, vectors on all objects, after DeleteVectors (of some or all) and (50%) after compacting all objects with vectors enabled (small threshold and seek stride, so the rollup spills into several objects). " +
		"All states must return the reference's multiset and never fail. A difference of a vectorized plan is attributed to a listed finding only where the result is what the finding predicts: sum() must equal a model of HEAD's vector Sum (integer dict/plain columns of the objects the key pruner keeps; const, float and other columns contribute nothing), count() by rows must be bounded by the sequential rows (counts overwritten or groups lost, never invented or over-counted); dag.Vectorize may appear only when every object has vectors. evaluations = program executions after the reference; a case is non-trivial when a built plan contained dag.Vectorize; distinct = (case digest, program).",
	Gen: genLakeCase,
	Run: runLakeCase,
}

func lakehPool() lakeh.PoolSpec {
	return lakeh.PoolSpec{Name: "p", Key: []string{"k"}, Thresh: 1, Stride: 1}
}
