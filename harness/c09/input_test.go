package c09

import (
	"fmt"
	"strings"

	zed "github.com/brimdata/super"
	"pgregory.net/rapid"

	"verif/gen"
	"verif/oracle"
)

// Input generation for the file-level tests: records {a,b,s,c,r} whose scalar
// columns a and b mix value kinds (several record types in one input) and
// whose values are drawn so that VNG encodes a column as const, dictionary or
// plain vector.

var scalarKinds = []string{"int64", "int64", "int64", "uint64", "float64", "string", "bool", "nullint", "nullstr", "missing", "int32", "uint8", "float32"}

var valuePool = map[string][]string{
	"int64":   {"1", "0", "-1", "2", "3", "7", "10", "-2"},
	"uint64":  {"1(uint64)", "0(uint64)", "2(uint64)", "5(uint64)", "9(uint64)"},
	"float64": {"1.5", "0.", "-2.25", "4.", "1e+10"},
	"string":  {`"a"`, `"B"`, `"abc"`, `""`, `" x "`, `"a,b"`},
	"bool":    {"true", "false"},
	"int32":   {"3(int32)", "0(int32)", "-1(int32)"},
	"uint8":   {"2(uint8)", "0(uint8)", "200(uint8)"},
	"float32": {"1.5(float32)", "-0.5(float32)"},
	"nullint": {"null(int64)"},
	"nullstr": {"null(string)"},
}

type colGen struct {
	name  string
	kinds []string
	enc   string // const | dict | plain
	pool  map[string][]string
}

func newCol(t *rapid.T, name string, kinds []string, enc string) *colGen {
	c := &colGen{name: name, kinds: kinds, enc: enc, pool: map[string][]string{}}
	for _, k := range kinds {
		all := valuePool[k]
		if len(all) == 0 {
			continue
		}
		n := 1
		if enc != "const" {
			n = ir(t, 2, 4, name+"-poolsize")
		}
		for i := 0; i < n; i++ {
			c.pool[k] = append(c.pool[k], pickOf(t, name+"-poolval", all))
		}
	}
	return c
}

func (c *colGen) value(t *rapid.T, row int) (string, bool) {
	k := pickOf(t, c.name+"-kind", c.kinds)
	if k == "missing" {
		return "", false
	}
	if c.enc == "plain" {
		switch k {
		case "int64":
			return fmt.Sprint(row - 5), true
		case "uint64":
			return fmt.Sprintf("%d(uint64)", row), true
		case "float64":
			return fmt.Sprintf("%d.5", row-3), true
		case "string":
			return fmt.Sprintf(`"s%d"`, row), true
		case "int32":
			return fmt.Sprintf("%d(int32)", row-2), true
		}
	}
	return pickOf(t, c.name+"-val", c.pool[k]), true
}

type inputOpts struct {
	scalarKinds []string // kinds allowed for a and b (default scalarKinds)
	maxKinds    int      // per column (default 3)
	noLong      bool
}

func drawKinds(t *rapid.T, name string, o inputOpts) []string {
	from := o.scalarKinds
	if from == nil {
		from = scalarKinds
	}
	mk := o.maxKinds
	if mk == 0 {
		mk = 3
	}
	n := ir(t, 1, mk, name+"-nkinds")
	var out []string
	for i := 0; i < n; i++ {
		out = append(out, pickOf(t, name+"-kinds", from))
	}
	return out
}

// genInput draws the input sequence and returns it with labels describing it.
func genInput(t *rapid.T, o inputOpts) (gen.Seq, []string) {
	n := ir(t, 1, 25, "nrows")
	long := !o.noLong && chance(t, 8, "long")
	if long {
		n = ir(t, 258, 300, "nrows-long")
	}
	enc := func(name string) string {
		if long && chance(t, 60, name+"-plain") {
			return "plain"
		}
		return pick(t, name+"-enc", "const", "dict", "dict")
	}
	aKinds := drawKinds(t, "a", o)
	if long {
		// one kind, so that the column really has more than 256 distinct values within one record type (plain vector)
		aKinds = []string{pick(t, "a-long-kind", "int64", "int64", "string", "float64", "uint64", "int32")}
	}
	a := newCol(t, "a", aKinds, enc("a"))
	b := newCol(t, "b", drawKinds(t, "b", o), enc("b"))
	s := newCol(t, "s", pickOf(t, "s-kinds", [][]string{{"string"}, {"string"}, {"string", "nullstr"}, {"string", "missing"}, {"string", "nullstr", "missing"}}), enc("s"))
	hasC := chance(t, 70, "has-c")
	hasR := chance(t, 70, "has-r")
	rx := newCol(t, "rx", pickOf(t, "rx-kinds", [][]string{{"int64"}, {"int64"}, {"int64", "float64"}, {"int64", "nullint"}, {"int64", "missing"}}), enc("rx"))
	var sb strings.Builder
	for row := 0; row < n; row++ {
		var fields []string
		if v, ok := a.value(t, row); ok {
			fields = append(fields, "a:"+v)
		}
		if v, ok := b.value(t, row); ok {
			fields = append(fields, "b:"+v)
		}
		if v, ok := s.value(t, row); ok {
			fields = append(fields, "s:"+v)
		}
		if hasC {
			switch ir(t, 0, 9, "ckind") {
			case 0:
			case 1:
				fields = append(fields, "c:null([int64])")
			case 2:
				fields = append(fields, "c:[]([int64])")
			default:
				na := ir(t, 1, 3, "clen")
				var el []string
				for x := 0; x < na; x++ {
					el = append(el, fmt.Sprint(ir(t, 0, 4, "cel")))
				}
				fields = append(fields, "c:["+strings.Join(el, ",")+"]")
			}
		}
		if hasR && ir(t, 0, 7, "rkind") > 0 {
			var rf []string
			if v, ok := rx.value(t, row); ok {
				rf = append(rf, "x:"+v)
			}
			rf = append(rf, "y:"+pick(t, "ry", `"p"`, `"q"`, `"p"`))
			fields = append(fields, "r:{"+strings.Join(rf, ",")+"}")
		}
		sb.WriteString("{" + strings.Join(fields, ",") + "} ")
	}
	seq := gen.SeqFromZSON(sb.String())
	return seq, nil
}

// describeInput measures the input: number of top-level types, which vector
// encodings its top-level columns get (const/dict/plain by distinct values per
// record type), which value kinds occur in a and b.
func describeInput(vals []zed.Value) []string {
	var labels []string
	types := map[zed.Type]int{}
	distinct := map[string]map[string]bool{} // type#field -> values
	counts := map[string]int{}
	kinds := map[string]bool{}
	for _, v := range vals {
		types[v.Type()]++
		rt := zed.TypeRecordOf(v.Type())
		if rt == nil || v.IsNull() {
			continue
		}
		it := v.Bytes().Iter()
		for _, f := range rt.Fields {
			body := it.Next()
			key := fmt.Sprintf("%p#%s", rt, f.Name)
			if distinct[key] == nil {
				distinct[key] = map[string]bool{}
			}
			fv := zed.NewValue(f.Type, body)
			distinct[key][oracle.Key(fv)] = true
			counts[key]++
			if f.Name == "a" || f.Name == "b" {
				kinds[kindOf(fv)] = true
			}
		}
	}
	switch {
	case len(types) >= 4:
		labels = append(labels, "in:types>=4")
	case len(types) >= 2:
		labels = append(labels, "in:types>=2")
	default:
		labels = append(labels, "in:types=1")
	}
	encs := map[string]bool{}
	for key, d := range distinct {
		switch {
		case len(d) == 1 && counts[key] > 1:
			encs["const"] = true
		case len(d) > 256:
			encs["plain"] = true
		case len(d) > 1:
			encs["dict"] = true
		}
	}
	for e := range encs {
		labels = append(labels, "in:enc-"+e)
	}
	for k := range kinds {
		if strings.HasPrefix(k, "null") {
			k = "null"
		}
		labels = append(labels, "in:kind-"+k)
	}
	return dedupe(labels)
}
