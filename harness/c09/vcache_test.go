package c09

import (
	"context"
	"fmt"
	"os"
	goruntime "runtime"
	"strings"
	"sync"
	"sync/atomic"
	"time"

	"github.com/brimdata/super/pkg/storage"
	"github.com/brimdata/super/runtime/vcache"
	"github.com/segmentio/ksuid"
	"pgregory.net/rapid"

	"verif/gen"
	"verif/memstore"
	"verif/vt"
)

// ---------- (c) two queries fetching the same vector object through one cache

type FetchCase struct {
	Fetchers int `json:"fetchers"` // concurrent callers of Cache.Fetch for one uncached object (first one is held inside the storage Get)
}

// gate blocks the first get of a vector object until released.
type gate struct {
	entered chan struct{}
	release chan struct{}
	n       atomic.Int32
}

func (g *gate) Before(op *memstore.Op) memstore.Verdict {
	if op.Kind == "get" && strings.HasSuffix(op.Path, ".vng") && g.n.Add(1) == 1 {
		close(g.entered)
		<-g.release
	}
	return memstore.Proceed
}
func (g *gate) After(*memstore.Op) {}

func goroutinesIn(frame string) (n int, blockedOnMutex int) {
	buf := make([]byte, 1<<20)
	buf = buf[:goruntime.Stack(buf, true)]
	for _, g := range strings.Split(string(buf), "\n\n") {
		if !strings.Contains(g, frame) {
			continue
		}
		n++
		head, _, _ := strings.Cut(g, "\n")
		if strings.Contains(head, "sync.Mutex.Lock") || strings.Contains(head, "semacquire") {
			blockedOnMutex++
		}
	}
	return
}

func runFetchCase(c FetchCase) *vt.Outcome {
	o := &vt.Outcome{NonTrivial: true}
	ctx := context.Background()
	store := memstore.NewStore()
	eng := memstore.New(store, memstore.Atomic)
	in := gen.SeqFromZSON(`{s:"a",n:1} {s:"b",n:2}`)
	data, err := vngBytes(in.Vals)
	if err != nil {
		o.Fail = fail("C09/setup", "%v", err)
		return o
	}
	uri := storage.MustParseURI("file:///lake/pool/data/object.vng")
	if err := storage.Put(ctx, eng, uri, strings.NewReader(string(data))); err != nil {
		o.Fail = fail("C09/setup", "put: %v", err)
		return o
	}
	g := &gate{entered: make(chan struct{}), release: make(chan struct{})}
	eng.Hook = g
	cache := vcache.NewCache(eng)
	var id ksuid.KSUID
	copy(id[:], "verif-object-id-0001")
	// callers left behind by an earlier (deadlocked) case of this process
	_, baseLock := goroutinesIn("vcache.(*Cache).lock")
	_, baseFetch := goroutinesIn("vcache.(*Cache).Fetch")
	var wg sync.WaitGroup
	var done atomic.Int32
	errs := make([]error, c.Fetchers)
	fetch := func(i int) {
		defer wg.Done()
		_, errs[i] = cache.Fetch(ctx, uri, id)
		done.Add(1)
	}
	wg.Add(1)
	go fetch(0)
	<-g.entered // the first caller holds the per-object lock and sits in the storage Get
	for i := 1; i < c.Fetchers; i++ {
		wg.Add(1)
		go fetch(i)
	}
	// wait until another caller has reached the per-object lock
	for spins := 0; ; spins++ {
		// (one caller can be inside Cache.lock at a time: it keeps Cache.mu while it waits, the others queue on Cache.mu)
		if _, blocked := goroutinesIn("vcache.(*Cache).lock"); blocked-baseLock >= 1 {
			break
		}
		if spins > 2000 {
			if os.Getenv("C09_DEBUG") != "" {
				buf := make([]byte, 1<<20)
				fmt.Println(string(buf[:goruntime.Stack(buf, true)]))
			}
			o.Skip = "callers did not reach Cache.lock"
			close(g.release)
			return o
		}
		time.Sleep(time.Millisecond)
	}
	close(g.release)
	// Either all callers return, or they are blocked for good: the first caller waits for the cache mutex inside
	// Fetch while a later caller holds that mutex and waits for the per-object lock the first caller holds.
	stuck := 0
	for spins := 0; spins < 60000; spins++ {
		if int(done.Load()) == c.Fetchers {
			wg.Wait()
			for i, err := range errs {
				if err != nil {
					o.Fail = fail("C09/vcache/fetch-error", "caller %d: %v", i, err)
					return o
				}
			}
			return o
		}
		remaining := c.Fetchers - int(done.Load())
		_, blocked := goroutinesIn("vcache.(*Cache).Fetch")
		blocked -= baseFetch
		if os.Getenv("C09_DEBUG") != "" && spins%100 == 0 {
			fmt.Println("spin", spins, "remaining", remaining, "blocked", blocked, "stuck", stuck)
		}
		if remaining > 0 && blocked == remaining {
			stuck++
		} else {
			stuck = 0
		}
		if stuck >= 40 {
			o.Fail = fail("C09/vcache/concurrent-fetch-deadlock", "%d concurrent Cache.Fetch calls for one uncached object: %d returned, the others are blocked on mutexes for good (the holder of the per-object lock waits for Cache.mu in Fetch, a caller inside Cache.lock holds Cache.mu while waiting for the per-object lock)", c.Fetchers, done.Load())
			return o
		}
		time.Sleep(5 * time.Millisecond)
	}
	o.Skip = fmt.Sprintf("inconclusive: %d of %d callers returned, no stable mutex cycle observed", done.Load(), c.Fetchers)
	return o
}

var fetchProp = &vt.Prop[FetchCase]{
	Name: "TestVcacheFetch",
	Rule: "the vector cache under two queries over the same pool: 2..4 goroutines call vcache.Cache.Fetch for one uncached object; the first is held inside the storage Get (harness engine hook) until the others have reached Cache.lock, then released. All calls must return. A stuck state is only reported when the goroutine dump shows, 40 times in a row, the remaining callers blocked on mutexes inside Cache.Fetch/Cache.lock (a lock cycle, not slowness).",
	Gen: func(t *rapid.T) FetchCase { return FetchCase{Fetchers: ir(t, 2, 4, "fetchers")} },
	Run: runFetchCase,
}
