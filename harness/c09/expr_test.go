package c09

import (
	"fmt"
	"math"
	"os"
	"sort"
	"strings"

	zed "github.com/brimdata/super"
	"pgregory.net/rapid"

	"verif/gen"
	"verif/oracle"
	"verif/vt"
)

// ---------- (a1) one expression, compared row by row, root cause localised

// Ex is an expression tree (so that sub-expressions can be evaluated on their own).
type Ex struct {
	Op   string `json:"op"`             // field lit + - * / % == != < <= > >= and or not call index record
	Text string `json:"text,omitempty"` // field path | literal text | function name | record field names (comma separated)
	Args []*Ex  `json:"args,omitempty"`
}

func (e *Ex) String() string {
	switch e.Op {
	case "field", "lit":
		return e.Text
	case "not":
		return "!(" + e.Args[0].String() + ")"
	case "call":
		var a []string
		for _, x := range e.Args {
			a = append(a, x.String())
		}
		return e.Text + "(" + strings.Join(a, ", ") + ")"
	case "index":
		return e.Args[0].String() + "[" + e.Args[1].String() + "]"
	case "record":
		names := strings.Split(e.Text, ",")
		var a []string
		for i, x := range e.Args {
			if names[i] == "..." {
				a = append(a, "..."+x.String())
			} else {
				a = append(a, names[i]+":"+x.String())
			}
		}
		return "{" + strings.Join(a, ",") + "}"
	default:
		return "(" + e.Args[0].String() + " " + e.Op + " " + e.Args[1].String() + ")"
	}
}

// opClass is the operator part of a signature.
func (e *Ex) opClass() string {
	switch e.Op {
	case "field":
		if strings.Contains(e.Text, ".") {
			return "dot"
		}
		return "field"
	case "lit":
		return "literal"
	case "call":
		return "call:" + e.Text
	case "+", "-", "*", "/", "%":
		return "arith:" + e.Op
	case "==", "!=":
		return "compare:eq"
	case "<", "<=", ">", ">=":
		return "compare:order"
	case "record":
		if strings.Contains(e.Text, "...") {
			return "record-spread"
		}
		return "record"
	default:
		return e.Op
	}
}

func fieldEx(name string) *Ex { return &Ex{Op: "field", Text: name} }
func litEx(text string) *Ex   { return &Ex{Op: "lit", Text: text} }

var numLits = []string{"1", "0", "2", "-1", "1.5", "0.", "3"}
var anyLits = []string{"1", "0", "2", "1.5", `"a"`, `"abc"`, `""`, "true", "false", "null"}

func genScalarEx(t *rapid.T, depth int) *Ex {
	switch ir(t, 0, 11, "scalar") {
	case 0, 1, 2:
		return fieldEx(pick(t, "f", "a", "b", "a", "b", "r.x", "zz"))
	case 3:
		return litEx(pickOf(t, "numlit", numLits))
	case 4:
		return litEx(pickOf(t, "anylit", anyLits))
	case 5:
		return fieldEx("s")
	case 6:
		return &Ex{Op: "index", Args: []*Ex{fieldEx("c"), litEx(pick(t, "idx", "0", "1", "-1", "2", "5"))}}
	case 7:
		if depth > 0 {
			return &Ex{Op: "call", Text: "len", Args: []*Ex{fieldEx(pick(t, "lenarg", "s", "c", "r", "a"))}}
		}
		return fieldEx("a")
	default:
		if depth > 0 {
			return &Ex{Op: pick(t, "arith", "+", "-", "*", "/", "%", "+", "-"), Args: []*Ex{genScalarEx(t, depth-1), genScalarEx(t, depth-1)}}
		}
		return fieldEx("b")
	}
}

func genBoolEx(t *rapid.T, depth int) *Ex {
	switch ir(t, 0, 7, "bool") {
	case 0, 1, 2, 3:
		return &Ex{Op: pick(t, "cmp", "==", "!=", "<", "<=", ">", ">="), Args: []*Ex{genScalarEx(t, depth-1), genScalarEx(t, depth-1)}}
	case 4:
		if depth > 0 {
			return &Ex{Op: pick(t, "logic", "and", "or"), Args: []*Ex{genBoolEx(t, depth-1), genBoolEx(t, depth-1)}}
		}
		return fieldEx("a")
	case 5:
		if depth > 0 {
			return &Ex{Op: "not", Args: []*Ex{genBoolEx(t, depth-1)}}
		}
		return litEx("true")
	default:
		return fieldEx(pick(t, "boolfield", "a", "b"))
	}
}

func genCallEx(t *rapid.T) *Ex {
	str := func() *Ex { return fieldEx(pick(t, "strarg", "s", "s", "s", "a", "r.y")) }
	anyf := func() *Ex { return fieldEx(pick(t, "anyarg", "a", "b", "s", "c", "r", "r.x", "zz")) }
	switch ir(t, 0, 15, "call") {
	case 0:
		return &Ex{Op: "call", Text: "len", Args: []*Ex{anyf()}}
	case 1:
		return &Ex{Op: "call", Text: "lower", Args: []*Ex{str()}}
	case 2:
		return &Ex{Op: "call", Text: "upper", Args: []*Ex{str()}}
	case 3:
		return &Ex{Op: "call", Text: "typeof", Args: []*Ex{anyf()}}
	case 4:
		return &Ex{Op: "call", Text: "kind", Args: []*Ex{anyf()}}
	case 5:
		return &Ex{Op: "call", Text: "coalesce", Args: []*Ex{anyf(), anyf()}}
	case 6:
		return &Ex{Op: "call", Text: "rune_len", Args: []*Ex{str()}}
	case 7:
		return &Ex{Op: "call", Text: "trim", Args: []*Ex{str()}}
	case 8:
		return &Ex{Op: "call", Text: "split", Args: []*Ex{str(), litEx(`","`)}}
	case 9:
		return &Ex{Op: "call", Text: "replace", Args: []*Ex{str(), litEx(`"a"`), litEx(`"z"`)}}
	case 10:
		return &Ex{Op: "call", Text: "hex", Args: []*Ex{str()}}
	case 11:
		return &Ex{Op: "call", Text: "base64", Args: []*Ex{str()}}
	case 12:
		return &Ex{Op: "call", Text: "levenshtein", Args: []*Ex{str(), litEx(`"abd"`)}}
	case 13:
		return &Ex{Op: "call", Text: "fields", Args: []*Ex{fieldEx(pick(t, "fieldsarg", "r", "this", "a"))}}
	case 14:
		return &Ex{Op: "call", Text: "join", Args: []*Ex{&Ex{Op: "call", Text: "split", Args: []*Ex{str(), litEx(`","`)}}, litEx(`"-"`)}}
	default:
		return &Ex{Op: "call", Text: "coalesce", Args: []*Ex{fieldEx("zz"), anyf(), litEx("1")}}
	}
}

func genEx(t *rapid.T) *Ex {
	switch ir(t, 0, 9, "ex") {
	case 0, 1, 2:
		return genScalarEx(t, 2)
	case 3, 4, 5:
		return genBoolEx(t, 2)
	case 6, 7:
		return genCallEx(t)
	case 8:
		return &Ex{Op: "index", Args: []*Ex{fieldEx(pick(t, "cont", "c", "c", "r", "s", "a")), pickOf(t, "ix", []*Ex{litEx("0"), litEx("-1"), litEx(`"x"`), fieldEx("a"), litEx("1")})}}
	default:
		if chance(t, 30, "spread") {
			return &Ex{Op: "record", Text: "...,z", Args: []*Ex{fieldEx(pick(t, "spreadarg", "r", "this")), genScalarEx(t, 1)}}
		}
		return &Ex{Op: "record", Text: "x,y", Args: []*Ex{genScalarEx(t, 1), genBoolEx(t, 1)}}
	}
}

type ExprCase struct {
	Input gen.Seq `json:"input"`
	Expr  *Ex     `json:"expr"`
	Text  string  `json:"text"` // rendering of Expr (informational)
}

func genExprCase(t *rapid.T) ExprCase {
	in, _ := genInput(t, inputOpts{})
	e := genEx(t)
	return ExprCase{Input: in, Expr: e, Text: e.String()}
}

type evalPair struct {
	sam    []zed.Value
	samErr error
	vam    vamResult
}

type exprRun struct {
	c     ExprCase
	data  []byte
	cache map[string]*evalPair
}

func (r *exprRun) eval(e *Ex) *evalPair {
	key := e.String()
	if p, ok := r.cache[key]; ok {
		return p
	}
	p := &evalPair{}
	prog := "yield " + key
	p.sam, p.samErr = runSam(r.c.Input.Zctx, r.c.Input.Vals, prog)
	p.vam = runVam(r.data, prog)
	r.cache[key] = p
	return p
}

// status of one sub-expression at one row: "" = both runtimes agree; otherwise the symptom
func (r *exprRun) symptom(e *Ex, row int) string {
	n := len(r.c.Input.Vals)
	p := r.eval(e)
	if p.samErr != nil || len(p.sam) != n {
		return "?" // no reference for this sub-expression on its own
	}
	switch {
	case p.vam.compileErr != nil:
		return "?"
	case p.vam.panicMsg != "":
		return "panic(" + sanitize(p.vam.panicMsg) + ")@" + normFrame(p.vam.panicFrame)
	case p.vam.runErr != nil:
		return "query-error(" + errClass(p.vam.runErr) + ")"
	case len(p.vam.vals) != n:
		return "row-count"
	}
	s, v := p.sam[row], p.vam.vals[row]
	if oracle.Key(s) == oracle.Key(v) {
		return ""
	}
	ks, kv := coarseSym(kindOf(s)), coarseSym(kindOf(v))
	if ks == kv {
		return ks + "-value-differs"
	}
	return ks + "->" + kv
}

// localise finds a minimal sub-expression of e that differs at row although all of its own arguments agree.
func (r *exprRun) localise(e *Ex, row int) (*Ex, string) {
	for _, a := range e.Args {
		if s := r.symptom(a, row); s != "" && s != "?" {
			return r.localise(a, row)
		}
	}
	return e, r.symptom(e, row)
}

func (r *exprRun) argKindsRaw(e *Ex, row int) []string {
	var ks []string
	for _, a := range e.Args {
		p := r.eval(a)
		if p.samErr != nil || len(p.sam) != len(r.c.Input.Vals) {
			ks = append(ks, "?")
			continue
		}
		ks = append(ks, coarse(kindOf(p.sam[row])))
	}
	if e.Op == "field" {
		// the kind of the value itself
		p := r.eval(e)
		if p.samErr == nil && len(p.sam) == len(r.c.Input.Vals) {
			ks = append(ks, coarse(kindOf(p.sam[row])))
		}
	}
	return ks
}

func (r *exprRun) argKinds(e *Ex, row int) string { return canonArgs(e, r.argKindsRaw(e, row)) }

// canonArgs canonicalises the argument kinds of binary operators (sorted).
func canonArgs(e *Ex, ks []string) string {
	ks = append([]string(nil), ks...)
	switch e.Op {
	case "+", "-", "*", "/", "%", "==", "!=", "<", "<=", ">", ">=", "and", "or":
		sort.Strings(ks)
	}
	return strings.Join(ks, ",")
}

func family(k string) string {
	switch k {
	case "int", "uint", "float", "int-narrow", "uint-narrow", "float-narrow":
		return "num"
	}
	return k
}

// rootCause maps (operator, argument kinds, symptom) to a root-cause class where the harness knows one;
// "" means: no rule, the detailed signature is used.  Every rule names the symptom it covers, so a
// different failure of the same operator keeps its own signature.
func rootCause(e *Ex, ks []string, sym string) string {
	oc := e.opClass()
	isArith := strings.HasPrefix(oc, "arith:")
	isCmp := strings.HasPrefix(oc, "compare:")
	isLogic := oc == "and" || oc == "or" || oc == "not"
	has := func(k string) bool {
		for _, x := range ks {
			if x == k {
				return true
			}
		}
		return false
	}
	from, to, _ := strings.Cut(sym, "->")
	grp := oc
	switch {
	case isArith:
		grp = "arith"
	case isCmp:
		grp = "compare"
	case isLogic:
		grp = "logic"
	}
	switch {
	case strings.HasPrefix(sym, "panic("):
		msg := sym[len("panic("):]
		switch {
		case strings.Contains(msg, "integer divide by zero"):
			return grp + "/panic-integer-divide-by-zero"
		case strings.Contains(msg, "kind mismatch after coerce"):
			return grp + "/panic-kind-mismatch-after-coerce"
		case strings.Contains(msg, "intToFloat invalid type"):
			return grp + "/panic-intToFloat-invalid-type"
		}
		if e.Op == "call" {
			return oc + "/" + sym
		}
		return ""
	case (isArith || isCmp) && (has("missing") || has("error")) && to == "error(incompatible types)" && (from == "missing" || strings.HasPrefix(from, "error")):
		return grp + "/error-operand-not-propagated"
	case isLogic && has("missing") && from == "missing" && to == "error(not type bool)":
		return "logic/missing-operand-not-propagated"
	case isLogic && from == "error{not type bool}" && to == "error(not type bool)":
		return "logic/non-bool-operand-error-shape"
	case isLogic && from == "bool" && to == "error(not type bool)":
		return "logic/column-not-uniformly-bool"
	case isCmp && has("null") && !has("missing") && !has("error"):
		return "compare/null-operand"
	case isArith && has("null") && !has("missing") && !has("error"):
		return "arith/null-operand"
	case isCmp && from == "bool" && to == "error(incompatible types)" && len(ks) == 2:
		if ks[0] == "bool" && ks[1] == "bool" {
			return "compare/bool-operands"
		}
		if family(ks[0]) != family(ks[1]) {
			return "compare/cross-family-operands"
		}
		return ""
	case isArith && strings.HasSuffix(from, "-narrow") && to == strings.TrimSuffix(from, "-narrow"):
		return "arith/narrow-result-widened"
	case isArith && from == "error(divide by zero)" && to == "float":
		return "arith/float-divide-by-zero"
	case isArith && strings.HasPrefix(from, "error(type ") && to == "error(incompatible types)":
		return "arith/non-numeric-operand-message"
	case e.Op == "call":
		return oc + "/" + sym
	}
	return ""
}

// bigUnsignedOperand: a comparison or arithmetic between a signed and an unsigned operand in which the unsigned value
// does not fit an int64 (checked on the operand values at that row).
func (r *exprRun) bigUnsignedOperand(e *Ex, row int, ks []string) bool {
	if len(e.Args) != 2 || len(ks) != 2 {
		return false
	}
	fam := func(k string) string { return strings.TrimSuffix(k, "-narrow") }
	if !(fam(ks[0]) == "int" && fam(ks[1]) == "uint" || fam(ks[0]) == "uint" && fam(ks[1]) == "int") {
		return false
	}
	for _, a := range e.Args {
		p := r.eval(a)
		if p.samErr != nil || len(p.sam) != len(r.c.Input.Vals) {
			return false
		}
		if v := p.sam[row]; zed.IsUnsigned(v.Type().ID()) && !v.IsNull() && v.Uint() > math.MaxInt64 {
			return true
		}
	}
	return false
}

func (r *exprRun) signature(e *Ex, row int, sym string) string {
	ks := r.argKindsRaw(e, row)
	if oc := e.opClass(); (strings.HasPrefix(oc, "compare:") || strings.HasPrefix(oc, "arith:")) && !strings.HasPrefix(sym, "panic(") && r.bigUnsignedOperand(e, row, ks) {
		// coerceVals/promoteToSigned convert the unsigned operand to int64 without an overflow check ("XXX overflow errors")
		return "C09/expr/" + oc[:strings.Index(oc, ":")] + "/unsigned-above-maxint64-coerced-to-signed"
	}
	if rc := rootCause(e, ks, sym); rc != "" {
		return "C09/expr/" + rc
	}
	return "C09/expr/" + e.opClass() + "(" + canonArgs(e, ks) + ")/" + sym
}

func runExprCase(c ExprCase) *vt.Outcome {
	o := &vt.Outcome{}
	vals := c.Input.Vals
	n := len(vals)
	data, err := vngBytes(vals)
	if err != nil {
		o.Fail = fail("C09/setup", "cannot write the input as VNG: %v", err)
		return o
	}
	r := &exprRun{c: c, data: data, cache: map[string]*evalPair{}}
	top := r.eval(c.Expr)
	if top.samErr != nil {
		o.Skip = "sam-error: " + errClass(top.samErr)
		return o
	}
	if top.vam.compileErr != nil {
		o.Skip = "vam-unsupported: " + errClass(top.vam.compileErr)
		return o
	}
	if len(top.sam) != n {
		o.Skip = "sam-not-one-value-per-row"
		return o
	}
	o.NonTrivial = true
	o.Label(describeInput(vals)...)
	o.Label("expr:" + c.Expr.opClass())
	known := map[string]bool{}
	var minimal any = c
	report := func(sig, msg string) bool {
		if vt.IsKnown(sig) || discover("TestVamExpr", sig, msg, minimal) {
			known[sig] = true
			return false
		}
		o.Fail = fail(sig, "%s", msg)
		return true
	}
	// whole-query failures first
	if top.vam.panicMsg != "" || top.vam.runErr != nil || len(top.vam.vals) != n {
		// localise over sub-expressions using row 0 as the probe row (these symptoms are not row specific)
		e, sym := r.localise(c.Expr, 0)
		colKinds := r.columnKinds(e)
		sig := r.signature(e, 0, sym)
		minimal = ExprCase{Input: c.Input, Expr: e, Text: e.String()}
		if report(sig, fmt.Sprintf("`yield %s` over %d values: vector runtime: %s (sub-expression `%s`, argument kinds in the input: %s); sequential runtime returns %d values, e.g. %s",
			c.Text, n, sym, e.String(), colKinds, len(top.sam), oracle.Show(top.sam[0]))) {
			return o
		}
		o.Known = sortedKeys(known)
		return o
	}
	differing := 0
	for row := 0; row < n; row++ {
		if oracle.Key(top.sam[row]) == oracle.Key(top.vam.vals[row]) {
			continue
		}
		differing++
		e, sym := r.localise(c.Expr, row)
		sig := r.signature(e, row, sym)
		if known[sig] {
			continue
		}
		p := r.eval(e)
		got := "?"
		want := "?"
		if len(p.vam.vals) == n {
			got = oracle.Show(p.vam.vals[row])
		}
		if len(p.sam) == n {
			want = oracle.Show(p.sam[row])
		}
		minimal = c
		if os.Getenv("C09_DISCOVER") != "" {
			// the smallest reproduction: the differing row alone with the minimal sub-expression (if it still shows the class)
			m := ExprCase{Input: gen.Seq{Zctx: c.Input.Zctx, Vals: vals[row : row+1]}, Expr: e, Text: e.String()}
			if firstSig(m) == sig {
				minimal = m
			} else if m2 := (ExprCase{Input: c.Input, Expr: e, Text: e.String()}); firstSig(m2) == sig {
				minimal = m2
			}
		}
		if report(sig, fmt.Sprintf("`yield %s` on %s: sub-expression `%s` (argument kinds %s): sequential runtime %s, vector runtime %s",
			c.Text, oracle.Show(vals[row]), e.String(), r.argKinds(e, row), want, got)) {
			return o
		}
	}
	if differing == 0 {
		o.Label("agree")
	} else {
		o.Label("differs-known-only")
	}
	o.Known = sortedKeys(known)
	return o
}

// firstSig runs a case outside discovery bookkeeping and returns the signature of its first difference ("" if none).
func firstSig(c ExprCase) string {
	vals := c.Input.Vals
	data, err := vngBytes(vals)
	if err != nil {
		return ""
	}
	r := &exprRun{c: c, data: data, cache: map[string]*evalPair{}}
	top := r.eval(c.Expr)
	n := len(vals)
	if top.samErr != nil || top.vam.compileErr != nil || len(top.sam) != n {
		return ""
	}
	if top.vam.panicMsg != "" || top.vam.runErr != nil || len(top.vam.vals) != n {
		e, sym := r.localise(c.Expr, 0)
		return r.signature(e, 0, sym)
	}
	for row := 0; row < n; row++ {
		if oracle.Key(top.sam[row]) != oracle.Key(top.vam.vals[row]) {
			e, sym := r.localise(c.Expr, row)
			return r.signature(e, row, sym)
		}
	}
	return ""
}

// columnKinds lists, per argument of e, the set of kinds that argument takes over the whole input.
func (r *exprRun) columnKinds(e *Ex) string {
	var out []string
	args := e.Args
	if e.Op == "field" {
		args = []*Ex{e}
	}
	for _, a := range args {
		p := r.eval(a)
		if p.samErr != nil {
			out = append(out, "?")
			continue
		}
		set := map[string]bool{}
		for _, v := range p.sam {
			set[kindOf(v)] = true
		}
		out = append(out, strings.Join(sortedKeys(set), "|"))
	}
	return strings.Join(out, ",")
}

var exprProp = &vt.Prop[ExprCase]{
	Name: "TestVamExpr",
	Rule: "file level, one expression: input = 1..25 (8%: 258..300, so that plain vectors occur) records {a,b,s,c,r} whose columns a and b mix 1..3 kinds of {int64,uint64,float64,string,bool,int32,uint8,float32,null(int64),null(string),missing} (several record types per input) and are drawn as const / dictionary / plain columns; s string|null|missing, c [int64]|null|empty|missing, r {x,y}|missing; " +
		"expression E of depth<=3 over field access (a, b, s, r.x, zz), literals, + - * / %, == != < <= > >=, and/or/!, indexing c[i] r[\"x\"], record expressions and spreads, and the functions the vector compiler implements (len lower upper typeof kind coalesce rune_len trim split join replace hex base64 levenshtein fields). " +
		"`yield E` runs through compiler.VectorCompile over the VNG object written from the input and through the sequential runtime on the same values; results are compared ROW BY ROW (identity = type value bytes + value bytes), every differing row is localised to a minimal differing sub-expression whose arguments agree, and classified as operator(argument kinds)/symptom. Cases the vector compiler rejects are skipped (counted). A case is non-trivial when the vector compiler accepted the program; distinct by case digest.",
	Gen: genExprCase,
	Run: runExprCase,
}
