package c09

import (
	"testing"

	"verif/vt"
)

func TestMain(m *testing.M) { vt.Main(m) }

func init() {
	exprProp.Register()
}

func TestVamExpr(t *testing.T) { exprProp.Check(t) }
func TestReplay(t *testing.T)  { vt.TestReplay(t) }
