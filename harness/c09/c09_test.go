package c09

import (
	"testing"

	"verif/vt"
)

func TestMain(m *testing.M) { vt.Main(m) }

func init() {
	exprProp.Register()
	opsProp.Register()
	lakeProp.Register()
	fetchProp.Register()
}

func TestVamExpr(t *testing.T) { exprProp.Check(t) }
func TestVamOps(t *testing.T)  { opsProp.Check(t) }
func TestVamLake(t *testing.T) { lakeProp.Check(t) }
func TestVcacheFetch(t *testing.T) { fetchProp.Check(t) }
func TestReplay(t *testing.T)  { vt.TestReplay(t) }
