package c09

import (
	"fmt"
	"os"
	"testing"
	"time"

	"verif/gen"
	"verif/oracle"
)

func TestProbe(t *testing.T) {
	prog := os.Getenv("C09_PROBE")
	if prog == "" {
		t.Skip()
	}
	in := gen.SeqFromZSON(os.Getenv("C09_INPUT"))
	data, err := vngBytes(in.Vals)
	if err != nil {
		t.Fatal(err)
	}
	sam, serr := runSam(in.Zctx, in.Vals, prog)
	fmt.Println("sam:", serr)
	for _, v := range sam {
		fmt.Print(oracle.Show(v), " ")
	}
	fmt.Println()
	t0 := time.Now()
	v := runVam(data, prog)
	fmt.Println("vam:", v.compileErr, v.runErr, v.panicMsg, v.panicFrame, time.Since(t0))
	for _, x := range v.vals {
		fmt.Print(oracle.Show(x), " ")
	}
	fmt.Println()
}
