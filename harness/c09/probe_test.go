package c09

import (
	"encoding/json"
	"strings"
	"fmt"
	"os"
	"testing"
	"time"

	"verif/gen"
	"verif/oracle"
)

func TestProbe(t *testing.T) {
	prog := os.Getenv("C09_PROBE")
	if prog == "" {
		t.Skip()
	}
	in := gen.SeqFromZSON(os.Getenv("C09_INPUT"))
	data, err := vngBytes(in.Vals)
	if err != nil {
		t.Fatal(err)
	}
	sam, serr := runSam(in.Zctx, in.Vals, prog)
	fmt.Println("sam:", serr)
	for _, v := range sam {
		fmt.Print(oracle.Show(v), " ")
	}
	fmt.Println()
	t0 := time.Now()
	v := runVam(data, prog)
	fmt.Println("vam:", v.compileErr, v.runErr, v.panicMsg, v.panicFrame, time.Since(t0))
	for _, x := range v.vals {
		fmt.Print(oracle.Show(x), " ")
	}
	fmt.Println()
}

// TestLakeProbe (development aid): C09_LAKEPROBE="<program>" C09_INPUT="<zson>" [C09_THRESH=n] runs one lake case.
func TestLakeProbe(t *testing.T) {
	prog := os.Getenv("C09_LAKEPROBE")
	if prog == "" {
		t.Skip()
	}
	shape, field := "countby", "s"
	if len(prog) > 12 && prog[9:12] == "sum" {
		shape, field = "sum", "n"
	}
	c := LakeCase{Pool: lakehPool(), Batches: []gen.Seq{gen.SeqFromZSON(os.Getenv("C09_INPUT"))},
		Progs: []LakeProg{{Text: prog, Shape: shape, Field: field}}, Some: []int{0}, Compact: true}
	o := runLakeCase(c)
	fmt.Println("labels:", o.Labels, "known:", o.Known, "skip:", o.Skip)
	if o.Fail != nil {
		fmt.Println("FAIL", o.Fail.Sig, o.Fail.Msg)
	}
}

// TestClassProbe (development aid): C09_OPS="op1 | op2" or C09_HEXFIELD=a with C09_INPUT runs one case through the
// classifying Run function (so that C09_DISCOVER records its signature and case).
func TestClassProbe(t *testing.T) {
	in := os.Getenv("C09_INPUT")
	if ops := os.Getenv("C09_OPS"); ops != "" {
		o := runOpsCase(OpsCase{Input: gen.SeqFromZSON(in), Ops: strings.Split(ops, " | ")})
		fmt.Println("ops:", o.Labels, o.Known, o.Skip, o.Fail)
	}
	if j := os.Getenv("C09_EXPRJSON"); j != "" {
		var e Ex
		if err := json.Unmarshal([]byte(j), &e); err != nil {
			t.Fatal(err)
		}
		o := runExprCase(ExprCase{Input: gen.SeqFromZSON(in), Expr: &e, Text: e.String()})
		fmt.Println("expr:", e.String(), o.Labels, o.Known, o.Skip, o.Fail)
	}
	if f := os.Getenv("C09_HEXFIELD"); f != "" {
		e := &Ex{Op: "call", Text: "hex", Args: []*Ex{fieldEx(f)}}
		o := runExprCase(ExprCase{Input: gen.SeqFromZSON(in), Expr: e, Text: e.String()})
		fmt.Println("expr:", o.Labels, o.Known, o.Skip, o.Fail)
	}
}
