package c09

import (
	"fmt"
	"strings"

	zed "github.com/brimdata/super"
	"pgregory.net/rapid"

	"github.com/brimdata/super/zcode"

	"verif/gen"
	"verif/oracle"
	"verif/vt"
)

// ---------- (a2) operator pipelines over expressions that the expression-level test found to agree

type OpsCase struct {
	Input gen.Seq  `json:"input"`
	Ops   []string `json:"ops"`
}

// genOpsInput: a is int64 and b is int64 or float64 - always present and never null, so arithmetic and comparisons on
// them stay clear of the expression-level findings; s is a string, m a column of 1..K kinds that is only moved around
// (cut, drop, rename, yield, sort key), c an array, r a record.  The input has at most K (1..4; long inputs 1..2) record
// types: every row follows one of K templates (which of s, m, c, r exist and which kind m has).  The bound matters: the
// vector runtime's record expressions rip every dynamic argument by every other one, so a cut/put/yield{} over K record
// types builds about K^2 vectors and a chain of them K^(2^depth) - with free-running type variety a four-operator
// program over 270 rows ran out of 8 GB.  That cost is not something an oracle here can judge, so it is kept bounded.
func genOpsInput(t *rapid.T) gen.Seq {
	n := ir(t, 1, 25, "nrows")
	long := chance(t, 6, "long")
	k := ir(t, 1, 4, "ntemplates")
	if long {
		n = ir(t, 258, 290, "nrows-long")
		k = ir(t, 1, 2, "ntemplates-long")
	}
	encOf := func(name string) string {
		if long && chance(t, 60, name+"-plain") {
			return "plain"
		}
		return pick(t, name+"-enc", "const", "dict", "dict")
	}
	a := newCol(t, "a", []string{"int64"}, encOf("a"))
	b := newCol(t, "b", []string{pick(t, "bkind", "int64", "float64")}, encOf("b"))
	s := newCol(t, "s", []string{"string"}, encOf("s"))
	type tmplRow struct {
		hasS, hasC, emptyC, hasR bool
		m                        *colGen
	}
	mkinds := []string{"int64", "uint64", "float64", "string", "bool", "nullint", "nullstr", "int32", "uint8", "float32"}
	var tmpls []tmplRow
	for i := 0; i < k; i++ {
		tr := tmplRow{hasS: chance(t, 80, "has-s"), hasC: chance(t, 60, "has-c"), emptyC: chance(t, 15, "empty-c"), hasR: chance(t, 60, "has-r")}
		if chance(t, 75, "has-m") {
			tr.m = newCol(t, "m", []string{pickOf(t, "mkind", mkinds)}, encOf("m"))
		}
		tmpls = append(tmpls, tr)
	}
	var sb strings.Builder
	for row := 0; row < n; row++ {
		tr := pickOf(t, "template", tmpls)
		var fields []string
		av, _ := a.value(t, row)
		bv, _ := b.value(t, row)
		fields = append(fields, "a:"+av, "b:"+bv)
		if tr.hasS {
			v, _ := s.value(t, row)
			fields = append(fields, "s:"+v)
		}
		if tr.m != nil {
			v, _ := tr.m.value(t, row)
			fields = append(fields, "m:"+v)
		}
		if tr.hasC {
			if tr.emptyC {
				fields = append(fields, "c:[]([int64])")
			} else {
				na := ir(t, 1, 3, "clen")
				var el []string
				for x := 0; x < na; x++ {
					el = append(el, fmt.Sprint(ir(t, 0, 4, "cel")))
				}
				fields = append(fields, "c:["+strings.Join(el, ",")+"]")
			}
		}
		if tr.hasR {
			fields = append(fields, fmt.Sprintf("r:{x:%d,y:%s}", ir(t, 0, 3, "rx"), pick(t, "ry", `"p"`, `"q"`)))
		}
		sb.WriteString("{" + strings.Join(fields, ",") + "} ")
	}
	return gen.SeqFromZSON(sb.String())
}

// opTmpl is an operator template: the fields it reads and what it does to the set of known fields.
type opTmpl struct {
	text  string
	reads []string
	eff   string   // keep | set (fields become out) | add (out added) | del (out removed) | prim (stream holds non-records afterwards)
	out   []string
}

func tmpl(text, reads, eff, out string) opTmpl {
	split := func(s string) []string {
		if s == "" {
			return nil
		}
		return strings.Split(s, ",")
	}
	return opTmpl{text, split(reads), eff, split(out)}
}

var recordOps = []opTmpl{
	tmpl("cut a,m", "a,m", "set", "a,m"), tmpl("cut s,a", "s,a", "set", "s,a"), tmpl("cut x:=a+b,s", "a,b,s", "set", "x,s"),
	tmpl("cut a", "a", "set", "a"), tmpl("cut m", "m", "set", "m"), tmpl("cut r.x,a", "r,a", "set", "r,a"), tmpl("cut a,zz", "a,zz", "set", "a,zz"),
	tmpl("cut b,c", "b,c", "set", "b,c"), tmpl("cut x:=a*2,y:=b", "a,b", "set", "x,y"),
	tmpl("drop m", "m", "del", "m"), tmpl("drop a,b", "a,b", "del", "a,b"), tmpl("drop r.x", "r", "keep", ""), tmpl("drop zz", "zz", "keep", ""),
	tmpl("drop s", "s", "del", "s"), tmpl("drop c,r", "c,r", "del", "c,r"),
	tmpl("put x:=a+1", "a", "add", "x"), tmpl("put a:=b", "a,b", "keep", ""), tmpl("put x:=a,y:=s", "a,s", "add", "x,y"), tmpl("put x:=a-b", "a,b", "add", "x"),
	tmpl("put r.z:=a", "a", "add", "r"), tmpl("put x:=a*K", "a", "add", "x"), tmpl("put x:=m", "m", "add", "x"), tmpl(`put x:="k"`, "", "add", "x"),
	tmpl("rename q:=a", "a", "del", "a"), tmpl("rename q:=m", "m", "del", "m"), tmpl("rename r.z:=r.x", "r", "keep", ""), tmpl("rename q:=s", "s", "del", "s"), tmpl("rename q:=zz", "zz", "keep", ""),
	tmpl("yield a", "a", "prim", ""), tmpl("yield m", "m", "prim", ""), tmpl("yield a, s", "a,s", "prim", ""), tmpl("yield {x:a,y:m}", "a,m", "set", "x,y"),
	tmpl("yield r", "r", "set", "x,y"), tmpl("yield this", "", "keep", ""), tmpl("yield a+b", "a,b", "prim", ""), tmpl("yield s", "s", "prim", ""),
	tmpl("yield {...this,z:a}", "a", "add", "z"), tmpl("yield c", "c", "prim", ""),
	tmpl("where a > K", "a", "keep", ""), tmpl("where a == b", "a,b", "keep", ""), tmpl(`where s == "a"`, "s", "keep", ""), tmpl("where b <= K", "b", "keep", ""),
	tmpl("where a > 100", "a", "keep", ""), tmpl("where a+b >= K", "a,b", "keep", ""), tmpl(`where s != "B"`, "s", "keep", ""), tmpl("where a != K", "a", "keep", ""), tmpl("where K < a", "a", "keep", ""),
	tmpl("where a > K", "a", "keep", ""), tmpl("where b <= K", "b", "keep", ""),
	tmpl("head N", "", "keep", ""), tmpl("head N", "", "keep", ""), tmpl("tail N", "", "keep", ""), tmpl("tail N", "", "keep", ""),
	tmpl("sort a", "a", "keep", ""), tmpl("sort -r a", "a", "keep", ""), tmpl("sort b, a", "a,b", "keep", ""), tmpl("sort m", "m", "keep", ""), tmpl("sort s", "s", "keep", ""),
	tmpl("sort -r m", "m", "keep", ""), tmpl("sort a, s", "a,s", "keep", ""), tmpl("sort -nulls first m", "m", "keep", ""), tmpl("sort zz", "zz", "keep", ""),
	tmpl("over c", "c", "prim", ""), tmpl("over c", "c", "prim", ""), tmpl("over r", "r", "set", "key,value"), tmpl("over c, c", "c", "prim", ""),
}

var valueOps = []opTmpl{
	tmpl("head N", "", "keep", ""), tmpl("tail N", "", "keep", ""), tmpl("sort this", "", "keep", ""), tmpl("sort -r this", "", "keep", ""),
	tmpl("where this > 1", "", "keep", ""), tmpl(`where this == "a"`, "", "keep", ""), tmpl("where this <= 3", "", "keep", ""),
	tmpl("yield {v:this}", "", "set", "v"), tmpl("yield {v:this}", "", "set", "v"), tmpl("yield this", "", "keep", ""),
	tmpl("cut a", "a", "set", "a"), tmpl("put x:=1", "", "keep", ""), tmpl("drop a", "a", "keep", ""),
	tmpl("rename q:=a", "a", "keep", ""), tmpl("over this", "", "keep", ""),
}

type opState struct {
	fields map[string]bool
	recs   bool
	// missBudget: how many more operators may read a field that does not exist.  Chains of operators over
	// missing fields make the vector runtime's nested dynamic/error vectors grow exponentially (minutes, gigabytes
	// for four cuts over ten rows), which no oracle here can judge and the shared machine cannot afford.
	missBudget int
	// recExprBudget: how many more record-building operators (cut, put, yield {...}) may follow before a sort
	// re-vectorises the stream (see genOpsInput)
	recExprBudget int
}

func genOp(t *rapid.T, st *opState) string {
	from := recordOps
	if !st.recs {
		from = valueOps
	}
	var tm opTmpl
	for try := 0; ; try++ {
		tm = pickOf(t, "tmpl", from)
		missing := 0
		for _, f := range tm.reads {
			if !st.fields[f] {
				missing++
			}
		}
		if buildsRecord(tm.text) && st.recExprBudget <= 0 {
			if try < 40 {
				continue
			}
			tm = tmpl("head N", "", "keep", "")
			break
		}
		if missing > 0 && computes(tm.text) {
			// arithmetic and comparisons on a missing operand are an expression-level finding (error operand not propagated)
			if try < 40 {
				continue
			}
			tm = tmpl("head N", "", "keep", "")
			break
		}
		if missing == 0 || try >= 8 && missing <= st.missBudget {
			st.missBudget -= min(missing, st.missBudget)
			break
		}
		if missing <= st.missBudget && chance(t, 12, "allow-missing") {
			st.missBudget -= missing
			break
		}
		if try >= 40 {
			tm = tmpl("head N", "", "keep", "")
			break
		}
	}
	if buildsRecord(tm.text) {
		st.recExprBudget--
	}
	if strings.HasPrefix(tm.text, "sort") {
		st.recExprBudget = 2
	}
	switch tm.eff {
	case "set":
		st.fields = map[string]bool{}
		for _, f := range tm.out {
			st.fields[f] = true
		}
		st.recs = true
	case "add":
		for _, f := range tm.out {
			st.fields[f] = true
		}
	case "del":
		for _, f := range tm.out {
			delete(st.fields, f)
		}
	case "prim":
		st.fields = map[string]bool{}
		st.recs = false
	}
	if strings.HasPrefix(tm.text, "rename q:=") && tm.eff == "del" {
		st.fields["q"] = true
	}
	text := strings.ReplaceAll(tm.text, "K", fmt.Sprint(ir(t, -3, 9, "k")))
	text = strings.ReplaceAll(text, "N", fmt.Sprint(ir(t, 1, 12, "n")))
	return text
}

func buildsRecord(text string) bool {
	return strings.HasPrefix(text, "cut ") || strings.HasPrefix(text, "put ") || strings.HasPrefix(text, "yield {")
}

func computes(text string) bool {
	return strings.HasPrefix(text, "where ") || strings.ContainsAny(text, "+*") || strings.Contains(text, "a-b")
}

func genOpsCase(t *rapid.T) OpsCase {
	c := OpsCase{Input: genOpsInput(t)}
	n := ir(t, 1, 4, "nops")
	st := &opState{fields: map[string]bool{"a": true, "b": true, "s": true, "m": true, "c": true, "r": true}, recs: true, missBudget: 1, recExprBudget: 2}
	for i := 0; i < n; i++ {
		c.Ops = append(c.Ops, genOp(t, st))
	}
	return c
}

func opKind(op string) string {
	k, _, _ := strings.Cut(op, " ")
	return k
}

// streamShape describes the input of an operator: records or primitives, one type or several.
func streamShape(vals []zed.Value) string {
	types := map[zed.Type]bool{}
	recs, prims := false, false
	for _, v := range vals {
		types[v.Type()] = true
		if zed.TypeRecordOf(v.Type()) != nil {
			recs = true
		} else {
			prims = true
		}
	}
	s := "empty"
	switch {
	case recs && prims:
		s = "mixed"
	case recs:
		s = "records"
	case prims:
		s = "values"
	}
	return s
}

// opsKind: record | value (any other non-error value) | missing | error(...)
func opsKind(v zed.Value) string {
	k := coarseSym(kindOf(v))
	switch {
	case k == "missing" || k == "quiet" || strings.HasPrefix(k, "error"):
		return k
	case k == "record":
		return "record"
	}
	return "value"
}

// diffSymptom classifies how two result sequences differ ("" = identical).
func diffSymptom(sam, vam []zed.Value) (string, string) {
	n := min(len(sam), len(vam))
	for i := 0; i < n; i++ {
		if oracle.Key(sam[i]) == oracle.Key(vam[i]) {
			continue
		}
		ks, kv := opsKind(sam[i]), opsKind(vam[i])
		detail := fmt.Sprintf("value %d: sequential %s, vector %s", i, oracle.Show(sam[i]), oracle.Show(vam[i]))
		if ks != kv {
			return ks + "->" + kv, detail
		}
		if oracle.SameMultiset(sam, vam) == "" {
			return "order-differs", detail
		}
		if string(sam[i].Bytes()) == string(vam[i].Bytes()) && sam[i].IsNull() == vam[i].IsNull() {
			return ks + "-type-differs", detail
		}
		return ks + "-value-differs", detail
	}
	switch {
	case len(sam) > len(vam):
		return "fewer-values", fmt.Sprintf("sequential %d values, vector %d; first missing: %s", len(sam), len(vam), oracle.Show(sam[n]))
	case len(sam) < len(vam):
		return "more-values", fmt.Sprintf("sequential %d values, vector %d; first extra: %s", len(sam), len(vam), oracle.Show(vam[n]))
	}
	return "", ""
}

// runVamOps runs the pipeline through the vector runtime.  The sort operator pulls its input in a goroutine of its
// own, where a panic of an upstream vector operator is not recoverable and would kill the process; so the part in
// front of every sort is run first on its own (in the calling goroutine) and its panic, if any, is the result.
func runVamOps(data []byte, ops []string) vamResult {
	for j, op := range ops {
		if opKind(op) == "sort" && j > 0 {
			if r := runVam(data, strings.Join(ops[:j], " | ")); r.panicMsg != "" || r.compileErr != nil {
				if r.panicMsg != "" {
					r.crash = true
				}
				return r
			}
		}
	}
	return runVam(data, strings.Join(ops, " | "))
}

// symFamily reduces a symptom to the family used in signatures: values-differ (same number of values, some value or
// its type differs), count-differs, order-differs, panic(...)@frame, query-error(...).
func symFamily(sym string) string {
	switch {
	case strings.HasPrefix(sym, "panic("), strings.HasPrefix(sym, "query-error("), sym == "order-differs":
		return sym
	case sym == "fewer-values" || sym == "more-values":
		return "count-differs"
	}
	return "values-differ"
}

// producesView: where with a partial selection, tail that truncates and head that reaches its limit hand a
// vector.View of their input downstream (otherwise the input vector itself).
func producesView(op string, in, out int) bool {
	if out == 0 {
		return false
	}
	switch opKind(op) {
	case "where", "tail":
		return out < in
	case "head":
		var n int
		fmt.Sscanf(op, "head %d", &n)
		return out == n
	}
	return false
}

// substituteIncompatible returns vals with every error("incompatible types") replaced by error("missing"): what the
// vector runtime would have returned had its arithmetic/comparison propagated the missing operand.
func substituteIncompatible(vals []zed.Value) []zed.Value {
	out := make([]zed.Value, len(vals))
	for i, v := range vals {
		out[i] = oracle.MapLeaves(v, func(typ zed.Type, body zcode.Bytes) zcode.Bytes {
			if typ == zed.TypeString && string(body) == "incompatible types" {
				return zcode.Bytes("missing")
			}
			return body
		}).Copy()
	}
	return out
}

// singleOpRootCause classifies the difference of ONE operator on fresh input by root cause, each verified by a
// recheck; "" = no rule (the operator(shape)/symptom signature is used).  It returns complete signatures.
func singleOpRootCause(zctx *zed.Context, op, shape string, in, sam []zed.Value, vam vamResult) string {
	if vam.panicMsg != "" || vam.runErr != nil {
		return ""
	}
	// 1. the expression-level finding reached through an operator: an arithmetic or comparison operand is missing (or
	// another error) and the vector runtime answers error("incompatible types") instead of propagating it.  Verified
	// by substituting the propagated error into the vector result.
	if computes(op) && oracle.Same(sam, substituteIncompatible(vam.vals)) == "" {
		if strings.ContainsAny(op, "+*") || strings.Contains(op, "a-b") {
			return "C09/expr/arith/error-operand-not-propagated"
		}
		return "C09/expr/compare/error-operand-not-propagated"
	}
	// 2. over: a value whose over-expression is missing contributes error("missing") instead of nothing.  Verified by
	// removing those from the vector result.
	if opKind(op) == "over" {
		var kept []zed.Value
		for _, v := range vam.vals {
			if !v.IsMissing() {
				kept = append(kept, v)
			}
		}
		if len(kept) < len(vam.vals) && oracle.Same(sam, kept) == "" {
			return "C09/ops/over/missing-input-emits-error-missing"
		}
	}
	// 3. a record operator applied to values that are not records.  Verified by running it on the records alone.
	switch opKind(op) {
	case "drop", "rename", "put", "cut":
		if shape == "values" || shape == "mixed" {
			var recs []zed.Value
			for _, v := range in {
				if zed.TypeRecordOf(v.Type()) != nil && !v.IsNull() {
					recs = append(recs, v)
				}
			}
			ok := true
			if len(recs) > 0 {
				s, serr := runSam(zctx, recs, op)
				data, derr := vngBytes(recs)
				if serr != nil || derr != nil {
					ok = false
				} else if v := runVamOps(data, []string{op}); v.panicMsg != "" || v.runErr != nil || v.compileErr != nil || oracle.Same(s, v.vals) != "" {
					ok = false
				}
			}
			if ok {
				return "C09/ops/record-operator-on-non-record(" + opKind(op) + ")"
			}
		}
	}
	return ""
}

func runOpsCase(c OpsCase) *vt.Outcome {
	o := &vt.Outcome{}
	vals := c.Input.Vals
	data, err := vngBytes(vals)
	if err != nil {
		o.Fail = fail("C09/setup", "cannot write the input as VNG: %v", err)
		return o
	}
	prog := strings.Join(c.Ops, " | ")
	sam, samErr := runSam(c.Input.Zctx, vals, prog)
	if samErr != nil {
		o.Skip = "sam-error: " + errClass(samErr)
		return o
	}
	vam := runVamOps(data, c.Ops)
	if vam.compileErr != nil {
		o.Skip = "vam-unsupported: " + errClass(vam.compileErr)
		return o
	}
	o.NonTrivial = true
	o.Label(describeInput(vals)...)
	for _, op := range c.Ops {
		o.Label("op:" + opKind(op))
	}
	o.Labels = dedupe(o.Labels)
	whole := func(v vamResult, s []zed.Value) (string, string) {
		switch {
		case v.panicMsg != "":
			return "panic(" + sanitize(v.panicMsg) + ")@" + normFrame(v.panicFrame), v.panicMsg
		case v.runErr != nil:
			return "query-error(" + errClass(v.runErr) + ")", v.runErr.Error()
		}
		return diffSymptom(s, v.vals)
	}
	sym, _ := whole(vam, sam)
	if sym == "" {
		o.Label("agree")
		return o
	}
	// localise: the first operator whose prefix differs
	at, shape, detail := len(c.Ops)-1, streamShape(vals), ""
	prev := vals
	lens := []int{len(vals)} // lens[j] = number of values entering operator j
	var samAt, vamAt []zed.Value
	found := false
	for j := range c.Ops {
		p := strings.Join(c.Ops[:j+1], " | ")
		s, serr := runSam(c.Input.Zctx, vals, p)
		if serr != nil {
			break
		}
		v := runVamOps(data, c.Ops[:j+1])
		if v.compileErr != nil {
			break
		}
		if ps, d := whole(v, s); ps != "" {
			at, sym, shape, detail = j, ps, streamShape(prev), d
			samAt, vamAt, found = s, v.vals, true
			break
		}
		lens = append(lens, len(s))
		prev = s
	}
	op := c.Ops[at]
	sig := "C09/ops/" + opKind(op) + "(" + shape + ")/" + symFamily(sym)
	var minimal any = c
	how := ""
	if !strings.HasPrefix(sym, "panic(") && !strings.HasPrefix(sym, "query-error(") && found {
		// Root cause by a neutralise-and-recheck step: feed the failing operator ALONE, through the vector runtime, the
		// values that entered it (the agreed output of the prefix, re-vectorised from a fresh VNG object).
		inData, err := vngBytes(prev)
		if err != nil || len(prev) == 0 {
			// cannot stage: classify the operator's difference in the pipeline itself
			if rc := singleOpRootCause(c.Input.Zctx, op, shape, prev, samAt, vamResult{vals: vamAt}); rc != "" {
				sig = rc
			}
		} else {
			staged := runVamOps(inData, c.Ops[at:at+1])
			ssym, sdetail := whole(staged, samAt)
			switch {
			case staged.compileErr != nil:
			case ssym == "":
				// the operator is right on a fresh vector: the difference comes from the FORM of the vector its
				// predecessor handed over (a view after where/head/tail, stale types after rename, ...)
				sig = "C09/ops/stale-vector-form(" + opKind(op) + ")"
				how = "the operator alone agrees on the same values re-vectorised"
				for j := at - 1; j >= 0 && opKind(c.Ops[j]) != "sort"; j-- {
					if j+1 < len(lens) && producesView(c.Ops[j], lens[j], lens[j+1]) {
						sig = "C09/ops/field-access-after-subset(" + opKind(op) + ")"
						how += "; `" + c.Ops[j] + "` handed on a subset (vector view)"
						break
					}
				}
			default:
				// the operator alone differs on these values: a one-operator reproduction
				single := OpsCase{Input: gen.Seq{Zctx: c.Input.Zctx, Vals: prev}, Ops: c.Ops[at : at+1]}
				minimal = single
				sym, detail = ssym, sdetail
				how = "the operator alone differs on the same values re-vectorised"
				sig = "C09/ops/" + opKind(op) + "(" + shape + ")/" + symFamily(ssym)
				if rc := singleOpRootCause(c.Input.Zctx, op, shape, prev, samAt, staged); rc != "" {
					sig = rc
				}
			}
		}
	}
	msg := fmt.Sprintf("`%s` over %d values (e.g. %s): the vector runtime differs from the sequential runtime from operator %d (`%s`, input %s; %s) on: %s: %s",
		prog, len(vals), oracle.Show(vals[0]), at+1, op, shape, how, sym, detail)
	if vt.IsKnown(sig) || discover("TestVamOps", sig, msg, minimal) {
		o.Known = append(o.Known, sig)
		return o
	}
	o.Fail = fail(sig, "%s", msg)
	return o
}

var opsProp = &vt.Prop[OpsCase]{
	Name: "TestVamOps",
	Rule: "file level, operator pipelines: input = 1..25 (6%: 258..290) records {a:int64, b:int64|float64 (always present, never null), s:string, m: a column of up to 4 kinds (only moved, never computed on), c:[int64], r:{x,y}} following 1..4 row templates (so at most 4 record types per input; at most 2 record-building operators between sorts - the vector runtime's record expressions cost K^(2^depth) for K record types) with const/dict/plain columns; " +
		"program = 1..4 operators of cut (paths, assignments, missing fields), drop, put (new, overwrite, nested), rename, yield (field, several expressions, record expression, spread), where (comparisons and arithmetic on a, b, s that the expression-level test found to agree), head, tail, sort (-r, several keys, mixed-type key, -nulls first), over (array, record, two expressions), and value-level operators once the stream holds primitives. " +
		"The whole output of compiler.VectorCompile over the VNG object of the input must be identical (sequence; identity = type value bytes + value bytes) to the sequential runtime's; a difference is localised to the first operator whose prefix program differs; then that operator is run ALONE through the vector runtime on the values that entered it (re-vectorised): if it agrees there, the cause is the form of the vector handed over (view after where/head/tail -> field-access-after-subset(op), otherwise stale-vector-form(op)); if it differs, the one-operator case is classified by verified root-cause rules (missing/error operand not propagated - checked by substituting the propagated error; over on missing input; record operator on non-records - checked on the records alone) or as operator(input shape)/symptom family. Programs the vector compiler rejects are skipped (counted). Non-trivial = accepted by the vector compiler.",
	Gen: genOpsCase,
	Run: runOpsCase,
}
