package c09

import (
	"fmt"
	"strings"

	zed "github.com/brimdata/super"
	"pgregory.net/rapid"

	"verif/gen"
	"verif/oracle"
	"verif/vt"
)

// ---------- (a2) operator pipelines over expressions that the expression-level test found to agree

type OpsCase struct {
	Input gen.Seq  `json:"input"`
	Ops   []string `json:"ops"`
}

// genOpsInput: a is int64 and b is int64 or float64 - always present and never null, so arithmetic and comparisons on
// them stay clear of the expression-level findings; s is a string (sometimes absent), m mixes kinds freely and is only
// moved around (cut, drop, rename, yield, sort key), c is an array, r a record.  Record types vary through m, s, c, r.
func genOpsInput(t *rapid.T) gen.Seq {
	n := ir(t, 1, 25, "nrows")
	long := chance(t, 6, "long")
	if long {
		n = ir(t, 258, 290, "nrows-long")
	}
	encOf := func(name string) string {
		if long && chance(t, 60, name+"-plain") {
			return "plain"
		}
		return pick(t, name+"-enc", "const", "dict", "dict")
	}
	a := newCol(t, "a", []string{"int64"}, encOf("a"))
	b := newCol(t, "b", []string{pick(t, "bkind", "int64", "float64")}, encOf("b"))
	s := newCol(t, "s", pickOf(t, "s-kinds", [][]string{{"string"}, {"string"}, {"string", "missing"}}), encOf("s"))
	m := newCol(t, "m", drawKinds(t, "m", inputOpts{}), encOf("m"))
	hasM := chance(t, 70, "has-m")
	hasC := chance(t, 60, "has-c")
	hasR := chance(t, 60, "has-r")
	var sb strings.Builder
	for row := 0; row < n; row++ {
		var fields []string
		av, _ := a.value(t, row)
		bv, _ := b.value(t, row)
		fields = append(fields, "a:"+av, "b:"+bv)
		if v, ok := s.value(t, row); ok {
			fields = append(fields, "s:"+v)
		}
		if hasM {
			if v, ok := m.value(t, row); ok {
				fields = append(fields, "m:"+v)
			}
		}
		if hasC {
			switch ir(t, 0, 7, "ckind") {
			case 0:
			case 1:
				fields = append(fields, "c:[]([int64])")
			default:
				na := ir(t, 1, 3, "clen")
				var el []string
				for x := 0; x < na; x++ {
					el = append(el, fmt.Sprint(ir(t, 0, 4, "cel")))
				}
				fields = append(fields, "c:["+strings.Join(el, ",")+"]")
			}
		}
		if hasR && ir(t, 0, 5, "rkind") > 0 {
			fields = append(fields, fmt.Sprintf("r:{x:%d,y:%s}", ir(t, 0, 3, "rx"), pick(t, "ry", `"p"`, `"q"`)))
		}
		sb.WriteString("{" + strings.Join(fields, ",") + "} ")
	}
	return gen.SeqFromZSON(sb.String())
}

func genOp(t *rapid.T, recs *bool) string {
	k := ir(t, -3, 9, "k")
	if !*recs {
		// the stream holds primitives: only value-level operators make sense (an occasional field operator is kept)
		switch ir(t, 0, 6, "primop") {
		case 0:
			return fmt.Sprintf("head %d", ir(t, 1, 12, "headn"))
		case 1:
			return fmt.Sprintf("tail %d", ir(t, 1, 12, "tailn"))
		case 2:
			return pick(t, "psort", "sort this", "sort -r this")
		case 3:
			return pick(t, "pwhere", "where this > 1", `where this == "a"`, "where this <= 3")
		case 4:
			return pick(t, "pyield", "yield {v:this}", "yield this")
		case 5:
			*recs = true
			return "yield {v:this}"
		default:
			return pick(t, "pfield", "cut a", "put x:=1", "drop a")
		}
	}
	switch ir(t, 0, 10, "op") {
	case 0:
		return "cut " + pick(t, "cut", "a,m", "s,a", "x:=a+b,s", "a", "m", "r.x,a", "a,zz", "b,c", "x:=a*2,y:=b")
	case 1:
		return "drop " + pick(t, "drop", "m", "a,b", "r.x", "zz", "s", "c,r")
	case 2:
		return "put " + pick(t, "put", "x:=a+1", "a:=b", "x:=a,y:=s", "x:=a-b", "r.z:=a", fmt.Sprintf("x:=a*%d", k), "x:=m", `x:="k"`)
	case 3:
		return "rename " + pick(t, "rename", "q:=a", "q:=m", "r.z:=r.x", "q:=s", "q:=zz")
	case 4:
		y := pick(t, "yield", "a", "m", "a, s", "{x:a,y:m}", "r", "this", "a+b", "s", "{...this,z:a}", "c")
		if !strings.HasPrefix(y, "{") && y != "this" && y != "r" {
			*recs = false
		}
		return "yield " + y
	case 5, 6:
		return "where " + pick(t, "where", fmt.Sprintf("a > %d", k), "a == b", `s == "a"`, fmt.Sprintf("b <= %d", k), "a > 100", fmt.Sprintf("a+b >= %d", k), `s != "B"`, fmt.Sprintf("a != %d", k), fmt.Sprintf("%d < a", k))
	case 7:
		return fmt.Sprintf("head %d", ir(t, 1, 12, "headn"))
	case 8:
		return fmt.Sprintf("tail %d", ir(t, 1, 12, "tailn"))
	case 9:
		return "sort " + pick(t, "sort", "a", "-r a", "b, a", "m", "s", "-r m", "a, s", "-nulls first m", "zz")
	default:
		o := pick(t, "over", "c", "c", "r", "c, c")
		*recs = o == "r"
		return "over " + o
	}
}

func genOpsCase(t *rapid.T) OpsCase {
	c := OpsCase{Input: genOpsInput(t)}
	n := ir(t, 1, 4, "nops")
	recs := true
	for i := 0; i < n; i++ {
		c.Ops = append(c.Ops, genOp(t, &recs))
	}
	return c
}

func opKind(op string) string {
	k, _, _ := strings.Cut(op, " ")
	return k
}

// streamShape describes the input of an operator: records or primitives, one type or several.
func streamShape(vals []zed.Value) string {
	types := map[zed.Type]bool{}
	recs, prims := false, false
	for _, v := range vals {
		types[v.Type()] = true
		if zed.TypeRecordOf(v.Type()) != nil {
			recs = true
		} else {
			prims = true
		}
	}
	s := "empty"
	switch {
	case recs && prims:
		s = "mixed"
	case recs:
		s = "records"
	case prims:
		s = "values"
	}
	if len(types) > 1 {
		s += ":several-types"
	} else if len(types) == 1 {
		s += ":one-type"
	}
	return s
}

// diffSymptom classifies how two result sequences differ ("" = identical).
func diffSymptom(sam, vam []zed.Value) (string, string) {
	n := min(len(sam), len(vam))
	for i := 0; i < n; i++ {
		if oracle.Key(sam[i]) == oracle.Key(vam[i]) {
			continue
		}
		ks, kv := coarseSym(kindOf(sam[i])), coarseSym(kindOf(vam[i]))
		detail := fmt.Sprintf("value %d: sequential %s, vector %s", i, oracle.Show(sam[i]), oracle.Show(vam[i]))
		if ks != kv {
			return ks + "->" + kv, detail
		}
		if oracle.SameMultiset(sam, vam) == "" {
			return "order-differs", detail
		}
		if string(sam[i].Bytes()) == string(vam[i].Bytes()) && sam[i].IsNull() == vam[i].IsNull() {
			return ks + "-type-differs", detail
		}
		return ks + "-value-differs", detail
	}
	switch {
	case len(sam) > len(vam):
		return "fewer-values", fmt.Sprintf("sequential %d values, vector %d; first missing: %s", len(sam), len(vam), oracle.Show(sam[n]))
	case len(sam) < len(vam):
		return "more-values", fmt.Sprintf("sequential %d values, vector %d; first extra: %s", len(sam), len(vam), oracle.Show(vam[n]))
	}
	return "", ""
}

// runVamOps runs the pipeline through the vector runtime.  The sort operator pulls its input in a goroutine of its
// own, where a panic of an upstream vector operator is not recoverable and would kill the process; so the part in
// front of every sort is run first on its own (in the calling goroutine) and its panic, if any, is the result.
func runVamOps(data []byte, ops []string) vamResult {
	for j, op := range ops {
		if opKind(op) == "sort" && j > 0 {
			if r := runVam(data, strings.Join(ops[:j], " | ")); r.panicMsg != "" || r.compileErr != nil {
				if r.panicMsg != "" {
					r.crash = true
				}
				return r
			}
		}
	}
	return runVam(data, strings.Join(ops, " | "))
}

func referencesField(op string) bool {
	switch opKind(op) {
	case "head", "tail":
		return false
	}
	return !strings.HasSuffix(op, " this") && op != "yield {v:this}"
}

// opsRootCause recognises root causes that show up under many operator/symptom combinations.
func opsRootCause(ops []string, at int, lens []int, sym string, sam, vam []zed.Value) string {
	if strings.HasPrefix(sym, "panic(") || strings.HasPrefix(sym, "query-error(") {
		return ""
	}
	// 1. over: a value whose over-expression is missing contributes error("missing") instead of nothing
	if opKind(ops[at]) == "over" && vam != nil {
		var kept []zed.Value
		for _, v := range vam {
			if !v.IsMissing() {
				kept = append(kept, v)
			}
		}
		if len(kept) < len(vam) && oracle.Same(sam, kept) == "" {
			return "over/missing-input-emits-error-missing"
		}
	}
	// 2. field access on the output of an operator that selected a subset (where, head, tail produce vector views;
	// sort materialises and re-vectorises)
	if referencesField(ops[at]) && strings.Contains(sym, "missing") || strings.HasSuffix(sym, "-value-differs") || sym == "fewer-values" || sym == "more-values" {
		for j := at - 1; j >= 0; j-- {
			k := opKind(ops[j])
			if k == "sort" {
				break
			}
			if (k == "where" || k == "head" || k == "tail") && j+1 < len(lens) && lens[j+1] < lens[j] && lens[j+1] > 0 {
				return "field-access-after-subset(" + opKind(ops[at]) + ")"
			}
		}
	}
	return ""
}

func runOpsCase(c OpsCase) *vt.Outcome {
	o := &vt.Outcome{}
	vals := c.Input.Vals
	data, err := vngBytes(vals)
	if err != nil {
		o.Fail = fail("C09/setup", "cannot write the input as VNG: %v", err)
		return o
	}
	prog := strings.Join(c.Ops, " | ")
	sam, samErr := runSam(c.Input.Zctx, vals, prog)
	if samErr != nil {
		o.Skip = "sam-error: " + errClass(samErr)
		return o
	}
	vam := runVamOps(data, c.Ops)
	if vam.compileErr != nil {
		o.Skip = "vam-unsupported: " + errClass(vam.compileErr)
		return o
	}
	o.NonTrivial = true
	o.Label(describeInput(vals)...)
	for _, op := range c.Ops {
		o.Label("op:" + opKind(op))
	}
	o.Labels = dedupe(o.Labels)
	whole := func(v vamResult, s []zed.Value) (string, string) {
		switch {
		case v.panicMsg != "":
			return "panic(" + sanitize(v.panicMsg) + ")@" + normFrame(v.panicFrame), v.panicMsg
		case v.runErr != nil:
			return "query-error(" + errClass(v.runErr) + ")", v.runErr.Error()
		}
		return diffSymptom(s, v.vals)
	}
	sym, _ := whole(vam, sam)
	if sym == "" {
		o.Label("agree")
		return o
	}
	// localise: the first operator whose prefix differs
	at, shape, detail := len(c.Ops)-1, streamShape(vals), ""
	prev := vals
	lens := []int{len(vals)} // lens[j] = number of values entering operator j
	var samAt, vamAt []zed.Value
	for j := range c.Ops {
		p := strings.Join(c.Ops[:j+1], " | ")
		s, serr := runSam(c.Input.Zctx, vals, p)
		if serr != nil {
			break
		}
		v := runVamOps(data, c.Ops[:j+1])
		if v.compileErr != nil {
			break
		}
		if ps, d := whole(v, s); ps != "" {
			at, sym, shape, detail = j, ps, streamShape(prev), d
			samAt, vamAt = s, v.vals
			break
		}
		lens = append(lens, len(s))
		prev = s
	}
	sig := "C09/ops/" + opKind(c.Ops[at]) + "(" + shape + ")/" + sym
	if rc := opsRootCause(c.Ops, at, lens, sym, samAt, vamAt); rc != "" {
		sig = "C09/ops/" + rc
	}
	msg := fmt.Sprintf("`%s` over %d values (e.g. %s): the vector runtime differs from the sequential runtime from operator %d (`%s`, input %s) on: %s: %s",
		prog, len(vals), oracle.Show(vals[0]), at+1, c.Ops[at], shape, sym, detail)
	if vt.IsKnown(sig) || discover("TestVamOps", sig, msg, c) {
		o.Known = append(o.Known, sig)
		return o
	}
	o.Fail = fail(sig, "%s", msg)
	return o
}

var opsProp = &vt.Prop[OpsCase]{
	Name: "TestVamOps",
	Rule: "file level, operator pipelines: input = 1..25 (6%: 258..290) records {a:int64, b:int64|float64 (always present, never null), s:string|null|missing, m: a column mixing 1..3 kinds (only moved, never computed on), c:[int64], r:{x,y}} with several record types per input and const/dict/plain columns; " +
		"program = 1..4 operators of cut (paths, assignments, missing fields), drop, put (new, overwrite, nested), rename, yield (field, several expressions, record expression, spread), where (comparisons and arithmetic on a, b, s that the expression-level test found to agree), head, tail, sort (-r, several keys, mixed-type key, -nulls first), over (array, record, two expressions), and value-level operators once the stream holds primitives. " +
		"The whole output of compiler.VectorCompile over the VNG object of the input must be identical (sequence; identity = type value bytes + value bytes) to the sequential runtime's; a difference is localised to the first operator whose prefix program differs and classified as operator(input shape)/symptom. Programs the vector compiler rejects are skipped (counted). Non-trivial = accepted by the vector compiler.",
	Gen: genOpsCase,
	Run: runOpsCase,
}
