PROP = dict(
    level="exploration",
    rule="C09: the vector runtime (compiler.VectorCompile over a VNG object; auto-vectorized lake plans) vs the sequential runtime on the same data",
    level_text="Exploration by differential property-based testing at three levels: single expressions compared row by row with the difference localised to a minimal sub-expression (TestVamExpr), operator pipelines compared as whole sequences with the difference localised to the first differing operator (TestVamOps), and lake queries of the auto-vectorized shapes executed at parallelism 2 in four vector states - none, some, all, after delete (TestVamLake); plus one deterministic concurrency construction for the vector cache (TestVcacheFetch). Programs, inputs and states are sampled, not enumerated. The vector runtime is prototype grade: 61 open findings are listed; each is recognised by a root-cause rule or a narrow signature and neutralised (row-wise for expressions), so the search continues behind them.",
    level_note="Trusted: the sequential runtime as reference (its own semantics are C07/C10's business), the harness's in-memory storage engine, VNG writing/reading of the input (C03). Not covered: vector programs whose record-building operators meet many record types (cost K^(2^depth) in the vector runtime - bounded in the generator to keep the shared machine alive), chains of operators over missing fields (same blow-up), lateral over-bodies, unions under nulls and signalling NaNs (C03 findings), vam operators the compiler rejects (skipped and counted).",
    technique="differential property-based testing (rapid) with root-cause localisation; one deterministic lock-cycle construction",
    assumptions=["the in-memory storage engine stands in for file/S3 storage", "float inputs of sum() are quarter-valued so that sums are exact in any order (no tolerance needed)"],
    tests=[dict(name="TestVamExpr", quick=(3, 350), thorough=(6, 3000)),
           dict(name="TestVamOps", quick=(3, 350), thorough=(6, 3000)),
           dict(name="TestVamLake", quick=(3, 40), thorough=(4, 300)),
           dict(name="TestVcacheFetch", quick=(1, 2), thorough=(1, 6))],
)
