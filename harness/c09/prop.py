PROP = dict(
    level="exploration",
    rule="C09: vector runtime vs sequential runtime on the same data (file level and lake level)",
    level_text="Exploration by differential property-based testing; see per-test rules.",
    level_note="Trusted: the sequential runtime as reference.",
    technique="differential property-based testing (rapid)",
    assumptions=[],
    tests=[dict(name="TestVamExpr", quick=(8, 150), thorough=(16, 2000))],
)
