package c09

import (
	"bytes"
	"context"
	"encoding/json"
	"fmt"
	"os"
	"regexp"
	"runtime/debug"
	"sort"
	"strings"
	"sync"

	zed "github.com/brimdata/super"
	"github.com/brimdata/super/compiler"
	"github.com/brimdata/super/runtime"
	"github.com/brimdata/super/runtime/vcache"
	"github.com/brimdata/super/vng"
	"github.com/brimdata/super/zbuf"
	"github.com/brimdata/super/zio"
	"github.com/brimdata/super/zio/vngio"
	"github.com/brimdata/super/zson"
	"pgregory.net/rapid"

	"verif/qh"
	"verif/vt"
)

func fail(sig, format string, args ...any) *vt.Failure { return vt.Failf(sig, format, args...) }

// ---- uniform choices (rapid's integer generators favour small values)

func mix64(z uint64) uint64 {
	z ^= z >> 30
	z *= 0xbf58476d1ce4e5b9
	z ^= z >> 27
	z *= 0x94d049bb133111eb
	z ^= z >> 31
	return z
}

func ir(t *rapid.T, lo, hi int, label string) int {
	if hi <= lo {
		return lo
	}
	return lo + int(mix64(rapid.Uint64().Draw(t, label))%uint64(hi-lo+1))
}

func pickOf[T any](t *rapid.T, label string, list []T) T { return list[ir(t, 0, len(list)-1, label)] }

func pick(t *rapid.T, label string, list ...string) string { return pickOf(t, label, list) }

func chance(t *rapid.T, pct int, label string) bool { return ir(t, 0, 99, label) < pct }

// ---- running a program in both runtimes

func pullAll(p zbuf.Puller) ([]zed.Value, error) {
	var out []zed.Value
	for {
		b, err := p.Pull(false)
		if err != nil {
			return out, err
		}
		if b == nil {
			return out, nil
		}
		for _, v := range b.Values() {
			out = append(out, v.Copy())
		}
		b.Unref()
	}
}

// vngBytes writes vals as one VNG object.
func vngBytes(vals []zed.Value) ([]byte, error) {
	var buf bytes.Buffer
	w := vngio.NewWriter(zio.NopCloser(&buf))
	for _, v := range vals {
		if err := w.Write(v); err != nil {
			return nil, err
		}
	}
	if err := w.Close(); err != nil {
		return nil, err
	}
	return buf.Bytes(), nil
}

type vamResult struct {
	vals       []zed.Value
	compileErr error  // VectorCompile refused the program
	runErr     error  // the flowgraph returned an error
	panicMsg   string // the vector runtime panicked (in the calling goroutine)
	panicFrame string
	crash      bool // the panic would have happened in a goroutine without recover (process death)
}

var framesRE = regexp.MustCompile(`github\.com/brimdata/super/([^\s(]+(?:\([^)]*\))?[^\s(]*)\(`)

func panicFrame(stack string) string {
	for _, l := range strings.Split(stack, "\n") {
		l = strings.TrimSpace(l)
		if strings.HasPrefix(l, "github.com/brimdata/super") && !strings.Contains(l, "/runtime/sam/op.(*Catcher)") {
			if i := strings.LastIndex(l, "("); i > 0 {
				l = l[:i]
			}
			return strings.TrimPrefix(l, "github.com/brimdata/super/")
		}
	}
	return "?"
}

// runVam executes prog over the VNG object data through compiler.VectorCompile.
func runVam(data []byte, prog string) (res vamResult) {
	o, err := vng.NewObject(bytes.NewReader(data))
	if err != nil {
		res.runErr = fmt.Errorf("vng.NewObject: %w", err)
		return res
	}
	obj := vcache.NewObjectFromVNG(o)
	defer obj.Close()
	ctx, cancel := context.WithCancel(context.Background())
	defer cancel()
	rctx := runtime.NewContext(ctx, zed.NewContext())
	defer rctx.Cancel()
	defer func() {
		if r := recover(); r != nil {
			stack := string(debug.Stack())
			res.panicMsg = fmt.Sprint(r)
			res.panicFrame = panicFrame(stack)
			if res.panicFrame == "?" {
				panic(fmt.Sprintf("harness panic: %v\n%s", r, stack))
			}
		}
	}()
	p, err := compiler.VectorCompile(rctx, prog, obj)
	if err != nil {
		res.compileErr = err
		return res
	}
	res.vals, res.runErr = pullAll(p)
	return res
}

func runSam(zctx *zed.Context, vals []zed.Value, prog string) ([]zed.Value, error) {
	return qh.Run(zctx, vals, prog)
}

// ---- kinds

// kindOf is the coarse class of a value used in signatures.
func kindOf(v zed.Value) string {
	if v.IsMissing() {
		return "missing"
	}
	if v.IsQuiet() {
		return "quiet"
	}
	typ := v.Type()
	if et, ok := zed.TypeUnder(typ).(*zed.TypeError); ok {
		if v.IsNull() {
			return "null(error)"
		}
		inner := zed.NewValue(et.Type, v.Bytes())
		if et.Type == zed.TypeString {
			return "error(" + sanitize(zed.DecodeString(inner.Bytes())) + ")"
		}
		if rt := zed.TypeRecordOf(et.Type); rt != nil {
			if m := inner.Deref("message"); m != nil && m.Type() == zed.TypeString {
				return "error{" + sanitize(zed.DecodeString(m.Bytes())) + "}"
			}
		}
		return "error(" + typeKind(et.Type) + ")"
	}
	if v.IsNull() {
		return "null(" + typeKind(typ) + ")"
	}
	return typeKind(typ)
}

var numRE = regexp.MustCompile(`[0-9]+`)

func sanitize(s string) string {
	s = numRE.ReplaceAllString(s, "N")
	if len(s) > 48 {
		s = s[:48]
	}
	return s
}

func typeKind(typ zed.Type) string {
	switch typ := zed.TypeUnder(typ).(type) {
	case *zed.TypeRecord:
		return "record"
	case *zed.TypeArray:
		return "array"
	case *zed.TypeSet:
		return "set"
	case *zed.TypeMap:
		return "map"
	case *zed.TypeUnion:
		return "union"
	case *zed.TypeEnum:
		return "enum"
	case *zed.TypeError:
		return "error"
	default:
		return zson.FormatType(typ)
	}
}

// coarse reduces a kind to the granularity used in signatures.
func coarse(k string) string {
	switch k {
	case "int64":
		return "int"
	case "int8", "int16", "int32":
		return "int-narrow"
	case "uint64":
		return "uint"
	case "uint8", "uint16", "uint32":
		return "uint-narrow"
	case "float64":
		return "float"
	case "float16", "float32":
		return "float-narrow"
	case "missing", "quiet", "?":
		return k
	}
	if strings.HasPrefix(k, "null(") {
		return "null"
	}
	if strings.HasPrefix(k, "error") {
		return "error"
	}
	return k
}

// coarseSym keeps error messages (they are a fixed vocabulary) but reduces types.
func coarseSym(k string) string {
	if strings.HasPrefix(k, "error") {
		return k
	}
	return coarse(k)
}

var formSuffixRE = regexp.MustCompile(`((Const|Dict|Flat|View){2})$`)

func normFrame(f string) string { return formSuffixRE.ReplaceAllString(f, "") }

func errClass(err error) string {
	if err == nil {
		return ""
	}
	s := err.Error()
	if i := strings.IndexByte(s, '\n'); i >= 0 {
		s = s[:i]
	}
	// drop source positions and quoted program fragments
	s = regexp.MustCompile(` at line \d+, column \d+.*`).ReplaceAllString(s, "")
	s = regexp.MustCompile(`&dag\.\w+\{.*`).ReplaceAllString(s, "dag op")
	s = sanitize(s)
	return s
}

func dedupe(l []string) []string {
	seen := map[string]bool{}
	var out []string
	for _, x := range l {
		if !seen[x] {
			seen[x] = true
			out = append(out, x)
		}
	}
	return out
}

// ---- discovery aid (development only): with C09_DISCOVER=<file> unknown
// signatures are written to the file instead of failing the case, so that one
// run lists all classes; ./check never sets it.

var discoverMu sync.Mutex
var discovered = map[string]bool{}

type discovery struct {
	Test string          `json:"test"`
	Sig  string          `json:"sig"`
	Msg  string          `json:"msg"`
	Case json.RawMessage `json:"case"`
}

// unknown handles a failure signature that is not a listed finding: in
// discovery mode it is logged and treated like a known one.
func discover(test, sig, msg string, c any) bool {
	path := os.Getenv("C09_DISCOVER")
	if path == "" {
		return false
	}
	discoverMu.Lock()
	defer discoverMu.Unlock()
	if discovered[sig] {
		return true
	}
	discovered[sig] = true
	raw, _ := json.Marshal(c)
	b, _ := json.Marshal(discovery{Test: test, Sig: sig, Msg: msg, Case: raw})
	f, err := os.OpenFile(path, os.O_APPEND|os.O_CREATE|os.O_WRONLY, 0o644)
	if err == nil {
		f.Write(append(b, '\n'))
		f.Close()
	}
	return true
}

func sortedKeys(m map[string]bool) []string {
	var out []string
	for k := range m {
		out = append(out, k)
	}
	sort.Strings(out)
	return out
}
