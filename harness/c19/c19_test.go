// Package c19 decides property C19: the lake service behaves exactly like
// direct access.  Every generated history is applied twice, to
// lakeapi.FromRoot(rootA) and to lakeapi.NewRemoteLake(conn to an httptest
// server over rootB), on the real file engine in per-case scratch directories.
package c19

import (
	"bytes"
	"context"
	"crypto/sha1"
	"encoding/json"
	"errors"
	"fmt"
	"io"
	"net/http"
	"net/http/httptest"
	"net/url"
	"os"
	"sort"
	"strings"
	"sync"
	"testing"
	"time"

	zed "github.com/brimdata/super"
	"github.com/brimdata/super/api"
	"github.com/brimdata/super/api/client"
	"github.com/brimdata/super/api/queryio"
	"github.com/brimdata/super/compiler"
	"github.com/brimdata/super/compiler/optimizer/demand"
	"github.com/brimdata/super/lake"
	lakeapi "github.com/brimdata/super/lake/api"
	"github.com/brimdata/super/lake/commits"
	"github.com/brimdata/super/lakeparse"
	"github.com/brimdata/super/order"
	"github.com/brimdata/super/pkg/field"
	"github.com/brimdata/super/pkg/storage"
	"github.com/brimdata/super/runtime/sam/expr"
	"github.com/brimdata/super/service"
	"github.com/brimdata/super/zbuf"
	"github.com/brimdata/super/zio"
	"github.com/brimdata/super/zio/anyio"
	"github.com/brimdata/super/zio/jsonio"
	"github.com/brimdata/super/zio/zjsonio"
	"github.com/brimdata/super/zio/zngio"
	"github.com/brimdata/super/zio/zsonio"
	"github.com/brimdata/super/zson"
	"github.com/segmentio/ksuid"
	"pgregory.net/rapid"

	"verif/gen"
	"verif/oracle"
	"verif/vt"
)

func TestMain(m *testing.M) { vt.Main(m) }

func fail(sig, format string, args ...any) *vt.Failure { return vt.Failf(sig, format, args...) }

// ---------------------------------------------------------------- case

type Raw struct {
	Format string `json:"format"` // zng zson zjson json csv
	Ctrl   bool   `json:"ctrl"`
}

type Op struct {
	Kind    string `json:"kind"`
	Pool    int    `json:"pool,omitempty"`   // ordinal into the pools ever created (mod)
	Branch  int    `json:"branch,omitempty"` // ordinal into the pool's branches (mod)
	Other   int    `json:"other,omitempty"`  // merge: parent branch; branch: source branch; query: second pool
	Key     string `json:"key,omitempty"`    // createpool: pool key
	Desc    bool   `json:"desc,omitempty"`
	Thresh  int64  `json:"thresh,omitempty"`
	Stride  int    `json:"stride,omitempty"`
	Dup     bool   `json:"dup,omitempty"`     // createpool / branch / rename: reuse an existing name
	Name    int    `json:"name,omitempty"`    // createpool / branch / rename: ordinal into nameSuffixes (-1: the empty name, pools only)
	Batch   int    `json:"batch,omitempty"`   // load
	Via     string `json:"via,omitempty"`     // load: api | zng zson zjson json csv vng auto
	Bad     string `json:"bad,omitempty"`     // load: "" | tail (malformed tail) | reader (reader fails mid-stream) | meta (invalid commit meta)
	Cut     int    `json:"cut,omitempty"`     // bad tail: where to cut (eighths of the body) ; bad reader: values before the failure
	Garbage bool   `json:"garbage,omitempty"` // bad tail: append garbage after the cut
	Meta    bool   `json:"meta,omitempty"`    // load: send commit meta
	Pick    []int  `json:"pick,omitempty"`    // delete/compact/vectors/lateerr: ordinals into the branch's objects
	Stale   bool   `json:"stale,omitempty"`   // delete: add an id that is not live
	At      int    `json:"at,omitempty"`      // branch/revert: ordinal into the commit chain from the tip
	Pred    string `json:"pred,omitempty"`    // deletewhere
	Vectors bool   `json:"vectors,omitempty"` // compact
	Dry     bool   `json:"dry,omitempty"`     // vacuum
	Query   string `json:"query,omitempty"`   // query text with {P} {B} {P2} placeholders
	Ordered bool   `json:"ordered,omitempty"` // query: the program defines a total output order
	UseHead bool   `json:"use_head,omitempty"`
	Missing bool   `json:"missing,omitempty"` // query: refer to a pool that does not exist
	Raws    []Raw  `json:"raws,omitempty"`
}

type Case struct {
	Parallel    int       `json:"parallelism"`  // compiler.Parallelism for the case; 0 = leave default
	BatchValues int       `json:"batch_values"` // zbuf.PullerBatchValues for the case
	Batches     []gen.Seq `json:"batches"`
	Ops         []Op      `json:"ops"`
}

// ---------------------------------------------------------------- generation

// Batch b draws its keys from [100b, 100b+20], so objects of different batches have disjoint key ranges (they
// form separate scan partitions and a corrupted later object fails only after earlier ones were streamed).
func genValue(t *rapid.T, zctx *zed.Context, b int) zed.Value {
	k := 100*b + rapid.IntRange(0, 20).Draw(t, "k")
	s := rapid.SampledFrom([]string{"a", "b", "c", "d d", "é", ""}).Draw(t, "s")
	v := rapid.IntRange(0, 3).Draw(t, "v")
	var text string
	switch rapid.IntRange(0, 23).Draw(t, "shape") {
	case 0:
		text = fmt.Sprintf(`{k:null(int64),s:%q,v:%d}`, s, v)
	case 1:
		text = fmt.Sprintf(`{s:%q,v:%d}`, s, v)
	case 2:
		text = fmt.Sprintf(`{k:%q,s:%q,v:%d}`, s, s, v)
	case 3:
		text = fmt.Sprintf(`{k:%d,s:%q,v:%d.5}`, k, s, v)
	case 4:
		text = fmt.Sprintf(`{k:%d,n:{a:%d,b:[%d,%d]},ip:10.0.0.%d}`, k, v, v, k, v)
	case 5:
		text = fmt.Sprintf(`{k:%d,t:2020-01-0%dT00:00:00Z,d:%ds,x:null(string)}`, k, v+1, k)
	case 6:
		text = fmt.Sprintf(`%d`, k)
	case 7:
		text = fmt.Sprintf(`%q`, s)
	case 8:
		text = fmt.Sprintf(`{k:%d,u:%d((int64,string)),e:error("x%d")}`, k, v, v)
	case 9:
		text = fmt.Sprintf(`{k:%d,s:%q,v:%d}(=named)`, k, s, v)
	default:
		text = fmt.Sprintf(`{k:%d,s:%q,v:%d}`, k, s, v)
	}
	val, err := zson.ParseValue(zctx, text)
	if err != nil {
		panic(fmt.Sprintf("harness: bad literal %s: %v", text, err))
	}
	return val.Copy()
}

// uniform batches (one record type, primitive fields) keep csv bodies and csv responses well-formed
func genUniform(t *rapid.T, zctx *zed.Context, b int) zed.Value {
	k := 100*b + rapid.IntRange(0, 20).Draw(t, "k")
	s := rapid.SampledFrom([]string{"a", "b", "c", "d d", "q\"uote", "x,y"}).Draw(t, "s")
	v := rapid.IntRange(0, 3).Draw(t, "v")
	val, err := zson.ParseValue(zctx, fmt.Sprintf(`{k:%d,s:%q,v:%d}`, k, s, v))
	if err != nil {
		panic(err)
	}
	return val.Copy()
}

var dataQueries = []struct {
	q       string
	ordered bool
}{
	{"from {P}@{B}", false},
	{"from {P}@{B}", false},
	{"from {P}@{B} | sort this", true},
	{"from {P}@{B} | sort this", true},
	{"from {P}@{B} | sort this", true},
	{"from {P}", false},
	{"from {P}@{B} | count()", true},
	{"from {P}@{B} | put x:=k+1", false},
	{"from {P}@{B} | yield s", false},
	{"from {P}@{B} | k >= 105", false},
	{"from {P}@{B} | cut k,s", false},
	{"from {P}@{B} | summarize c:=count(), m:=max(v)", true},
	{"from {P}@{B} | count() by s | sort this", true},
	{"from {P}@{B} | k >= 110 | sort this", true},
	{"from {P}@{B} | k < 120", false},
	{"from {P}@{B} | s == \"a\" or v == 2 | sort this", true},
	{"from {P}@{B} | sort this | head 3", true},
	{"from {P}@{B} | put x:=k+1 | sort this", true},
	{"from {P}@{B} | yield s | sort this", true},
	{"from {P}@{B} | fuse | sort this", true},
	{"from {P}@{B} | cut k,s | sort this", true},
	{"from {P}@{B} | yield {k:k,s:s,q:v/(v-1)} | sort this", true},
	{"from {P}@{B} | sort -r this | tail 2", true},
	{"from {P}@{B} | over this | sort this", true},
	{"from {P}@{B} | has(n) | yield n.b | sort this", true},
	{"from {P}@{B} | bogus(", true},
	{"from {P}@{B} | nosuchfunc(k)", true},
	{"fork (=> from {P}@{B} => from {P2}) | sort this", true},
}

var metaQueries = []struct {
	q       string
	ordered bool
}{
	{"from :pools | cut name,layout,seek_stride,threshold | sort name", true},
	{"from :pools | cut name", false},
	{"from :branches | yield {p:pool.name,b:branch.name} | sort this", true},
	{"from {P}:branches | yield branch.name | sort this", true},
	{"from {P}@{B}:objects | cut count", false},
	{"from {P}@{B}:objects | yield {min,max,count,size} | sort this", true},
	{"from {P}@{B}:objects | sum(count)", true},
	{"from {P}@{B}:partitions | yield len(objects) | sort this", true},
	{"from {P}@{B}:log | cut author,message,meta", true},
	{"from {P}@{B}:rawlog | yield typeof(this) | sort this", true},
	{"from {P}@{B}:vectors | count()", true},
	{"from {P}@{B}:nosuchmeta", true},
}

var headQueries = []struct {
	q       string
	ordered bool
}{
	{"sort this", true},
	{"count()", true},
	{"k > 105 | sort this", true},
	{"pass", false},
}

var preds = []string{"k < 10", "k >= 110", "k == 105", "s == \"a\"", "v == 1", "k > 200", "k <= 1000", "k < 115", "v >=", "nosuch(k)", "k < 10 | count()"}

var formats = []string{"zng", "zson", "zjson", "json", "csv"}

// Suffixes appended to generated pool and branch names.  Single quotes are documented as illegal in names
// (lakeparse.ParseCommitish) and the empty branch name is not generated.
var nameSuffixes = []string{"", "", " sp", "+plus", "/sl", "@at", ":co", ".dot", "\"dq", "%2Bpc", "é", "", "x"}

func genName(t *rapid.T) int {
	return rapid.IntRange(0, len(nameSuffixes)-1).Draw(t, "name")
}

var kindSlots = []string{"query", "load", "query", "lateerr", "delete", "deletewhere", "compact", "query", "branch", "merge", "revert", "vectors", "misc", "createpool", "load", "query"}

var loadVias = []string{"api", "zson", "zng", "json", "csv", "zjson", "vng", "auto", "api", "csv", "json", "vng", "zjson", "auto", "zng", "zson"}

var lateQueries = []string{"from {P}@{B}", "from {P}@{B} | yield s", "from {P}@{B}", "from {P}@{B} | put x:=1", "from {P}@{B} | sort this", "from {P}@{B} | count()", "from {P}@{B} | k >= 0", "from {P}@{B}"}

func genRaws(t *rapid.T) []Raw {
	n := rapid.SampledFrom([]int{2, 1, 3, 0, 2, 1}).Draw(t, "nraw")
	var out []Raw
	for i := 0; i < n; i++ {
		// (index draws are biased towards the first entries; rotate by the position to even this out)
		f := formats[(rapid.IntRange(0, len(formats)-1).Draw(t, "fmt")+i*2)%len(formats)]
		out = append(out, Raw{Format: f, Ctrl: rapid.Bool().Draw(t, "ctrl")})
	}
	return out
}

func genQuery(t *rapid.T, op *Op) {
	switch rapid.IntRange(0, 9).Draw(t, "qclass") {
	case 0, 1, 2:
		q := rapid.SampledFrom(metaQueries).Draw(t, "mq")
		op.Query, op.Ordered = q.q, q.ordered
	case 3:
		q := rapid.SampledFrom(headQueries).Draw(t, "hq")
		op.Query, op.Ordered, op.UseHead = q.q, q.ordered, true
	default:
		q := rapid.SampledFrom(dataQueries).Draw(t, "dq")
		op.Query, op.Ordered = q.q, q.ordered
	}
	op.Missing = rapid.IntRange(0, 24).Draw(t, "missing") == 13
	op.Raws = genRaws(t)
}

func genCase(t *rapid.T) Case {
	c := Case{
		Parallel:    rapid.SampledFrom([]int{1, 1, 0, 2, 1, 1, 1, 1}).Draw(t, "par"),
		BatchValues: rapid.SampledFrom([]int{1, 2, 3, 100}).Draw(t, "batchvalues"),
	}
	maxOps, maxBatch := 12, 8
	if vt.Thorough() {
		maxOps, maxBatch = 24, 20
	}
	nb := rapid.IntRange(2, 4).Draw(t, "nbatches")
	for i := 0; i < nb; i++ {
		zctx := zed.NewContext()
		s := gen.Seq{Zctx: zctx}
		n := rapid.IntRange(1, maxBatch).Draw(t, "blen")
		uniform := i == 0 || rapid.Bool().Draw(t, "uniform")
		for j := 0; j < n; j++ {
			if uniform {
				s.Vals = append(s.Vals, genUniform(t, zctx, i))
			} else {
				s.Vals = append(s.Vals, genValue(t, zctx, i))
			}
		}
		c.Batches = append(c.Batches, s)
	}
	nops := rapid.IntRange(5, maxOps).Draw(t, "nops")
	for i := 0; i < nops; i++ {
		op := Op{
			Pool:   rapid.IntRange(0, 3).Draw(t, "pool"),
			Branch: rapid.IntRange(0, 3).Draw(t, "branch"),
		}
		// rapid's integer draws are biased towards small values (slot 0/1 ~14% each, 2/3 ~7%, 4..7 ~5.5%, 8..15 ~4%)
		kind := kindSlots[rapid.IntRange(0, len(kindSlots)-1).Draw(t, "opkind")]
		if i == 0 {
			kind = "createpool"
		} else if i <= 2 {
			kind = "load"
		}
		if kind == "misc" {
			kind = rapid.SampledFrom([]string{"vacuum", "renamepool", "dropbranch", "tip", "poolid", "droppool", "vacuum", "dropbranch"}).Draw(t, "misc")
		}
		if kind == "vectors" {
			kind = rapid.SampledFrom([]string{"addvec", "delvec", "addvec"}).Draw(t, "vec")
		}
		op.Kind = kind
		switch kind {
		case "createpool":
			op.Key = rapid.SampledFrom([]string{"k", "k", "k", "s", "this", "n.a"}).Draw(t, "key")
			op.Desc = rapid.Bool().Draw(t, "desc")
			op.Thresh = rapid.SampledFrom([]int64{40, 0, 40, 100}).Draw(t, "thresh")
			op.Stride = rapid.SampledFrom([]int{1, 0, 1, 16}).Draw(t, "stride")
			op.Dup = i > 0 && rapid.IntRange(0, 5).Draw(t, "dup") == 5
			op.Name = genName(t)
			if i > 0 && rapid.IntRange(0, 3).Draw(t, "emptyname") == 3 {
				op.Name = -1
			}
		case "load":
			op.Batch = rapid.IntRange(0, nb-1).Draw(t, "batch")
			op.Via = rapid.SampledFrom(loadVias).Draw(t, "via")
			op.Meta = rapid.IntRange(0, 3).Draw(t, "meta") == 3
			bad := rapid.SampledFrom([]string{"", "", "", "", "tail", "", "", "", "", "", "meta", "", "", "", "", "tail"}).Draw(t, "bad")
			if i <= 2 {
				bad = ""
			}
			switch bad {
			case "tail":
				if op.Via != "api" {
					op.Bad = "tail"
					op.Cut = rapid.IntRange(2, 8).Draw(t, "cut")
					op.Garbage = rapid.Bool().Draw(t, "garbage")
				} else {
					op.Bad = "reader"
					op.Cut = rapid.IntRange(0, 3).Draw(t, "cut")
				}
			case "meta":
				op.Bad = "meta"
			}
		case "delete":
			op.Pick = rapid.SliceOfN(rapid.IntRange(0, 7), 1, 3).Draw(t, "pick")
			op.Stale = rapid.IntRange(0, 7).Draw(t, "stale") == 7
		case "deletewhere":
			op.Pred = rapid.SampledFrom(preds).Draw(t, "pred")
		case "compact":
			op.Pick = rapid.SliceOfN(rapid.IntRange(0, 7), 2, 4).Draw(t, "pick")
			op.Vectors = rapid.Bool().Draw(t, "vec")
		case "addvec", "delvec":
			op.Pick = rapid.SliceOfN(rapid.IntRange(0, 7), 1, 2).Draw(t, "pick")
		case "vacuum":
			op.Dry = rapid.Bool().Draw(t, "dry")
		case "branch":
			op.Other = rapid.IntRange(0, 3).Draw(t, "src")
			op.At = rapid.SampledFrom([]int{0, 0, 0, 1, 2}).Draw(t, "at")
			op.Dup = rapid.IntRange(0, 7).Draw(t, "dup") == 7
			op.Name = genName(t)
		case "dropbranch":
			if rapid.IntRange(0, 5).Draw(t, "dropmain") == 5 {
				op.Pick = []int{0} // allow dropping main
			}
		case "merge":
			op.Other = rapid.IntRange(0, 3).Draw(t, "into")
		case "revert":
			op.At = rapid.SampledFrom([]int{0, 0, 1, 2, 3}).Draw(t, "at")
		case "renamepool":
			op.Dup = rapid.IntRange(0, 5).Draw(t, "dup") == 5
			op.Name = genName(t)
		case "droppool":
		case "lateerr":
			op.Pick = []int{rapid.SampledFrom([]int{7, 7, 0, 7, 1, 7}).Draw(t, "pick")}
			op.Query = rapid.SampledFrom(lateQueries).Draw(t, "lq")
			op.Raws = genRaws(t)
		case "query":
			op.Other = rapid.IntRange(0, 3).Draw(t, "p2")
			genQuery(t, &op)
		}
		c.Ops = append(c.Ops, op)
	}
	return c
}

// ---------------------------------------------------------------- sides

// tracker wraps the service handler so the harness knows when the server is
// idle again (a handler may still be running when an aborted client call returns).
type tracker struct {
	h        http.Handler
	mu       sync.Mutex
	cond     *sync.Cond
	inflight int
	loadSeen chan struct{} // receives a token whenever a POST (load) handler starts; buffered
}

func newTracker(h http.Handler) *tracker {
	tr := &tracker{h: h, loadSeen: make(chan struct{}, 64)}
	tr.cond = sync.NewCond(&tr.mu)
	return tr
}

// waitIdle blocks until no handler is running.
func (tr *tracker) waitIdle() {
	tr.mu.Lock()
	for tr.inflight > 0 {
		tr.cond.Wait()
	}
	tr.mu.Unlock()
}

func (tr *tracker) ServeHTTP(w http.ResponseWriter, r *http.Request) {
	tr.mu.Lock()
	tr.inflight++
	tr.mu.Unlock()
	defer func() {
		tr.mu.Lock()
		tr.inflight--
		tr.cond.Broadcast()
		tr.mu.Unlock()
	}()
	if r.Method == http.MethodPost && strings.Contains(r.URL.Path, "/branch/") {
		select {
		case tr.loadSeen <- struct{}{}:
		default:
		}
	}
	tr.h.ServeHTTP(w, r)
}

type side struct {
	name string
	dir  string
	api  lakeapi.Interface
}

type mpool struct {
	name     string
	alive    bool
	id       [2]ksuid.KSUID
	branches []string
	key      string
	desc     bool
}

type runner struct {
	ctx   context.Context
	c     Case
	o     *vt.Outcome
	sides [2]*side
	srv   *httptest.Server
	conn  *client.Connection
	tr    *tracker
	pools []*mpool
	names int // counter for fresh names
	// object value cache: side -> object id -> values
	objVals [2]map[ksuid.KSUID][]zed.Value

	curNames []string // pool and branch names the current step puts into URL paths
	abandon  string   // set when a known finding makes the two lakes diverge for good: the history ends here

	serviceMutations int
	multiBatch       int
	lateInjected     int
	strictInBand     bool
}

var msgAuthor = "verif"

func (r *runner) msg(step int, meta string) api.CommitMessage {
	return api.CommitMessage{Author: msgAuthor, Body: fmt.Sprintf("step %d", step), Meta: meta}
}

// ---------------------------------------------------------------- state inspection

type objState struct {
	id                    ksuid.KSUID
	sig                   string // everything but the id
	count                 uint64
	min                   string
	max                   string
	vector                bool
	path                  string // file path of the sequence object
	minVal                zed.Value
	seq                   string // values in stored order
	layout                string // sig without the vector flag
	layoutPre, layoutPost string
	twin                  bool // another live object of the branch has the same layout and vector flag
}

type branchState struct {
	name      string
	chain     []ksuid.KSUID         // tip first
	log       []string              // per commit: author|message|meta|set of action kinds
	logCounts []string              // per commit: all actions (layout dependent)
	objects   []objState            // sorted by layout signature
	content   string                // digest of the multiset of all values of the branch
	adds      map[ksuid.KSUID][]int // object id -> positions (from the root) of this chain's commits that add it
	err       string
}

type poolState struct {
	name     string
	id       ksuid.KSUID
	config   string
	branches []branchState
}

type lakeState struct {
	pools []poolState
}

func (r *runner) inspect(si int) (*lakeState, error) {
	s := r.sides[si]
	ctx := r.ctx
	engine := storage.NewLocalEngine()
	root, err := lake.Open(ctx, engine, nil, storage.MustParseURI(s.dir))
	if err != nil {
		return nil, err
	}
	pls, err := root.ListPools(ctx)
	if err != nil {
		return nil, err
	}
	st := &lakeState{}
	for _, pc := range pls {
		ps := poolState{name: pc.Name, id: pc.ID}
		var keys []string
		for _, k := range pc.SortKeys {
			keys = append(keys, fmt.Sprintf("%s:%s", k.Key, k.Order))
		}
		ps.config = fmt.Sprintf("keys=%s stride=%d thresh=%d", strings.Join(keys, ","), pc.SeekStride, pc.Threshold)
		pool, err := root.OpenPool(ctx, pc.ID)
		if err != nil {
			return nil, fmt.Errorf("open pool %s: %w", pc.Name, err)
		}
		bcs, err := pool.ListBranches(ctx)
		if err != nil {
			return nil, fmt.Errorf("list branches of %s: %w", pc.Name, err)
		}
		for _, bc := range bcs {
			bs := branchState{name: bc.Name}
			if bc.Commit != ksuid.Nil {
				if err := r.inspectBranch(si, engine, pool, bc.Commit, &bs); err != nil {
					bs.err = "unreadable"
					_ = err
				}
			}
			ps.branches = append(ps.branches, bs)
		}
		sort.Slice(ps.branches, func(i, j int) bool { return ps.branches[i].name < ps.branches[j].name })
		finishPool(&ps)
		st.pools = append(st.pools, ps)
	}
	sort.Slice(st.pools, func(i, j int) bool { return st.pools[i].name < st.pools[j].name })
	return st, nil
}

// finishPool gives every live object its logical identity and orders the objects of each branch canonically.
// Object ids are random per lake, so "the same object" on the two lakes is defined by history: by every commit, of
// every branch of the pool, that adds the object (branch name + position from the root).  Two loads of the same
// batch, or two objects deleted by one commit and restored by one revert, are thereby told apart; objects that
// remain indistinguishable (same content, same history, same vector flag) are marked as twins and never picked.
func finishPool(ps *poolState) {
	for bi := range ps.branches {
		bs := &ps.branches[bi]
		for oi := range bs.objects {
			ob := &bs.objects[oi]
			var hist []string
			for _, other := range ps.branches {
				if pos := other.adds[ob.id]; len(pos) > 0 {
					hist = append(hist, fmt.Sprintf("%s%v", other.name, pos))
				}
			}
			ob.layout = fmt.Sprintf("%s born=%s %s", ob.layoutPre, strings.Join(hist, ";"), ob.layoutPost)
			ob.sig = fmt.Sprintf("vector=%v %s", ob.vector, ob.layout)
		}
		sort.SliceStable(bs.objects, func(i, j int) bool {
			a, b := bs.objects[i], bs.objects[j]
			if a.layout != b.layout {
				return a.layout < b.layout
			}
			return !a.vector && b.vector
		})
		for oi := 1; oi < len(bs.objects); oi++ {
			if bs.objects[oi].layout == bs.objects[oi-1].layout && bs.objects[oi].vector == bs.objects[oi-1].vector {
				bs.objects[oi].twin, bs.objects[oi-1].twin = true, true
			}
		}
	}
}

func (r *runner) inspectBranch(si int, engine storage.Engine, pool *lake.Pool, tip ksuid.KSUID, bs *branchState) error {
	ctx := r.ctx
	// commit chain with actions
	zctx := zed.NewContext()
	zr, err := pool.OpenCommitLogAsZNG(ctx, zctx, tip)
	if err != nil {
		return err
	}
	u := zson.NewZNGUnmarshaler()
	u.Bind(commits.Add{}, commits.Commit{}, commits.Delete{}, commits.AddVector{}, commits.DeleteVector{})
	type centry struct {
		id   ksuid.KSUID
		head string
		acts []string
	}
	byCommit := map[ksuid.KSUID]*centry{}
	addedBy := map[ksuid.KSUID][]ksuid.KSUID{} // object id -> commits with an Add action for it
	get := func(id ksuid.KSUID) *centry {
		e := byCommit[id]
		if e == nil {
			e = &centry{id: id}
			byCommit[id] = e
		}
		return e
	}
	for {
		val, err := zr.Read()
		if err != nil {
			zr.Close()
			return err
		}
		if val == nil {
			break
		}
		var a commits.Action
		if err := u.Unmarshal(*val, &a); err != nil {
			zr.Close()
			return err
		}
		switch a := a.(type) {
		case *commits.Commit:
			meta := ""
			if !a.Meta.IsNull() {
				meta = zson.FormatValue(a.Meta)
			}
			get(a.ID).head = fmt.Sprintf("%s|%s|%s", a.Author, a.Message, meta)
		case *commits.Add:
			get(a.Commit).acts = append(get(a.Commit).acts, "add")
			addedBy[a.Object.ID] = append(addedBy[a.Object.ID], a.Commit)
		case *commits.Delete:
			get(a.Commit).acts = append(get(a.Commit).acts, "del")
		case *commits.AddVector:
			get(a.Commit).acts = append(get(a.Commit).acts, "addvec")
		case *commits.DeleteVector:
			get(a.Commit).acts = append(get(a.Commit).acts, "delvec")
		}
	}
	zr.Close()
	// the chain (tip first) via the commit log reader
	lr := pool.OpenCommitLog(ctx, zed.NewContext(), tip)
	cu := zson.NewZNGUnmarshaler()
	for {
		val, err := lr.Read()
		if err != nil {
			return err
		}
		if val == nil {
			break
		}
		var c commits.Commit
		if err := cu.Unmarshal(*val, &c); err != nil {
			return err
		}
		bs.chain = append(bs.chain, c.ID)
		e := byCommit[c.ID]
		line, counts := "?", "?"
		if e != nil {
			acts := append([]string(nil), e.acts...)
			sort.Strings(acts)
			counts = strings.Join(acts, ",")
			// the content comparison looks at which kinds of actions a commit has; how many adds/deletes a
			// rewrite needs depends on how it partitions the values into objects (compared as layout)
			var kinds []string
			for i, a := range acts {
				if i == 0 || acts[i-1] != a {
					kinds = append(kinds, a)
				}
			}
			line = e.head + "|" + strings.Join(kinds, ",")
		}
		bs.log = append(bs.log, line)
		bs.logCounts = append(bs.logCounts, counts)
	}
	snap, err := pool.Snapshot(ctx, tip)
	if err != nil {
		return err
	}
	fromRoot := map[ksuid.KSUID]int{} // commit -> position in the chain counted from the root
	for i, id := range bs.chain {
		fromRoot[id] = len(bs.chain) - 1 - i
	}
	var allKeys []string
	for _, o := range snap.SelectAll() {
		os := objState{id: o.ID, count: o.Count, min: zson.FormatValue(o.Min), max: zson.FormatValue(o.Max), vector: snap.HasVector(o.ID), minVal: o.Min.Copy()}
		uri := o.SequenceURI(pool.DataPath)
		os.path = uri.Filepath()
		vals, ok := r.objVals[si][o.ID]
		unreadable := ""
		if !ok {
			vals, err = readObject(ctx, engine, uri)
			if err != nil {
				unreadable = "unreadable"
			} else {
				r.objVals[si][o.ID] = vals
			}
		}
		// Values are compared as a multiset: the order of values with equal pool keys inside an object depends on
		// object ids (merge tie-breaks), which legitimately differ between two lakes (tie order is C14's subject).
		keys := make([]string, len(vals))
		for i, v := range vals {
			keys[i] = oracle.Key(v)
		}
		os.seq = strings.Join(keys, "\xff")
		sort.Strings(keys)
		allKeys = append(allKeys, keys...)
		// Objects with identical content are told apart by the commit that added them (position in the chain),
		// so that "the i-th object" denotes the same object of the same load on both lakes.
		// (the logical identity "born=..." is filled in by finishPool once all branches of the pool are known;
		// the byte size is not part of the signature: with equal values it can only differ through tie order)
		os.layoutPre = fmt.Sprintf("count=%d min=%s max=%s", o.Count, os.min, os.max)
		os.layoutPost = fmt.Sprintf("%s values=%x", unreadable, strings.Join(keys, "\xff"))
		bs.objects = append(bs.objects, os)
	}
	// every commit of this chain that has an Add action for an object, as position from the root
	bs.adds = map[ksuid.KSUID][]int{}
	for id, cs := range addedBy {
		for _, c := range cs {
			if n, ok := fromRoot[c]; ok {
				bs.adds[id] = append(bs.adds[id], n)
			}
		}
		sort.Ints(bs.adds[id])
	}
	sort.Strings(allKeys)
	h := sha1.Sum([]byte(strings.Join(allKeys, "\xff")))
	bs.content = fmt.Sprintf("%d values %x", len(allKeys), h[:8])
	return nil
}

func readObject(ctx context.Context, engine storage.Engine, uri *storage.URI) ([]zed.Value, error) {
	rd, err := engine.Get(ctx, uri)
	if err != nil {
		return nil, err
	}
	defer rd.Close()
	zr := zngio.NewReader(zed.NewContext(), rd)
	defer zr.Close()
	var out []zed.Value
	for {
		v, err := zr.Read()
		if err != nil {
			return nil, err
		}
		if v == nil {
			return out, nil
		}
		out = append(out, v.Copy())
	}
}

func short(s string) string {
	if i := strings.Index(s, " values="); i > 0 {
		return s[:i]
	}
	return s
}

// stateDiff is the result of comparing the two lakes (ids and timestamps aside).
type stateDiff struct {
	content string // pools, configs, branches, commit chains or branch contents (value multisets) differ
	vectors string // same objects, but the has-vector flags differ
	layout  string // same branch contents, partitioned differently into objects
}

func (d stateDiff) any() string {
	if d.content != "" {
		return d.content
	}
	if d.vectors != "" {
		return d.vectors
	}
	return d.layout
}

func diffStates(a, b *lakeState) string { return diffStatesNote(a, b, nil).any() }

func diffStatesNote(a, b *lakeState, note func(string)) (d stateDiff) {
	if len(a.pools) != len(b.pools) {
		d.content = fmt.Sprintf("direct lake has %d pools, served lake has %d", len(a.pools), len(b.pools))
		return d
	}
	for i := range a.pools {
		pa, pb := a.pools[i], b.pools[i]
		if pa.name != pb.name {
			d.content = fmt.Sprintf("pool names differ: direct %q, served %q", pa.name, pb.name)
			return d
		}
		if pa.config != pb.config {
			d.content = fmt.Sprintf("pool %s config differs: direct %s, served %s", pa.name, pa.config, pb.config)
			return d
		}
		if len(pa.branches) != len(pb.branches) {
			d.content = fmt.Sprintf("pool %s: direct has %d branches, served has %d", pa.name, len(pa.branches), len(pb.branches))
			return d
		}
		for j := range pa.branches {
			ba, bb := pa.branches[j], pb.branches[j]
			if ba.name != bb.name {
				d.content = fmt.Sprintf("pool %s: branch names differ: direct %q, served %q", pa.name, ba.name, bb.name)
				return d
			}
			where := pa.name + "@" + ba.name
			if ba.err != bb.err {
				d.content = fmt.Sprintf("%s: direct readable=%v, served readable=%v", where, ba.err == "", bb.err == "")
				return d
			}
			if len(ba.log) != len(bb.log) {
				d.content = fmt.Sprintf("%s: direct has %d commits, served has %d (direct %q, served %q)", where, len(ba.log), len(bb.log), ba.log, bb.log)
				return d
			}
			for k := range ba.log {
				if ba.log[k] != bb.log[k] {
					d.content = fmt.Sprintf("%s: commit %d from the tip differs: direct %q, served %q", where, k, ba.log[k], bb.log[k])
					return d
				}
			}
			if ba.content != bb.content {
				d.content = fmt.Sprintf("%s: branch contents differ: direct holds %s in %d objects, served holds %s in %d objects", where, ba.content, len(ba.objects), bb.content, len(bb.objects))
				return d
			}
			if d.layout != "" || d.vectors != "" {
				continue
			}
			if len(ba.objects) != len(bb.objects) {
				d.layout = fmt.Sprintf("%s: same values, but direct has %d objects, served has %d", where, len(ba.objects), len(bb.objects))
				continue
			}
			for k := range ba.logCounts {
				if ba.logCounts[k] != bb.logCounts[k] {
					d.layout = fmt.Sprintf("%s: commit %d from the tip has actions %s directly, %s served", where, k, ba.logCounts[k], bb.logCounts[k])
					break
				}
			}
			if d.layout != "" {
				continue
			}
			for k := range ba.objects {
				if ba.objects[k].layout != bb.objects[k].layout {
					d.layout = fmt.Sprintf("%s: same values, but object %d (in content order) differs: direct {%s}, served {%s}", where, k, short(ba.objects[k].layout), short(bb.objects[k].layout))
					break
				}
			}
			if d.layout != "" {
				continue
			}
			for k := range ba.objects {
				if ba.objects[k].vector != bb.objects[k].vector {
					d.vectors = fmt.Sprintf("%s: object %d {%s}: has vectors directly: %v, served: %v", where, k, short(ba.objects[k].layout), ba.objects[k].vector, bb.objects[k].vector)
					break
				}
				if note != nil && ba.objects[k].seq != bb.objects[k].seq {
					note("state:object-tie-order-differs")
				}
			}
		}
	}
	return d
}

func (st *lakeState) branch(pool, branch string) *branchState {
	for i := range st.pools {
		if st.pools[i].name == pool {
			for j := range st.pools[i].branches {
				if st.pools[i].branches[j].name == branch {
					return &st.pools[i].branches[j]
				}
			}
		}
	}
	return nil
}

// ---------------------------------------------------------------- helpers

type qres struct {
	vals    []zed.Value
	batches int
	err     error
	early   bool // err came from Query() itself (compile time)
}

func collect(q zbuf.Scanner, err error) qres {
	if err != nil {
		return qres{err: err, early: true}
	}
	var res qres
	defer q.Pull(true)
	for {
		b, err := q.Pull(false)
		if err != nil {
			res.err = err
			return res
		}
		if b == nil {
			return res
		}
		if _, ok := b.(*zbuf.EndOfChannel); ok {
			continue // transport marker, not a result
		}
		if len(b.Values()) > 0 {
			res.batches++
		}
		for _, v := range b.Values() {
			res.vals = append(res.vals, v.Copy())
		}
		b.Unref()
	}
}

// sameOrdered compares two result sequences of a program that defines an output order.  Values that the repo's
// own sort comparator considers equal (e.g. 1 and 1., or a named and an unnamed record with the same fields) may
// legitimately appear in either order, or be chosen differently by head/tail, because tie order depends on scan
// order which depends on object ids; such positions are accepted.  Returns (diff, tieReordered).
func sameOrdered(d, s []zed.Value) (string, bool) {
	diff := oracle.Same(d, s)
	if diff == "" {
		return "", false
	}
	if len(d) != len(s) {
		return diff, false
	}
	zctx := zed.NewContext()
	dd, ss := translate(zctx, d), translate(zctx, s)
	cmp := expr.NewValueCompareFn(order.Asc, true)
	for i := range dd {
		if oracle.Key(dd[i]) == oracle.Key(ss[i]) {
			continue
		}
		if cmp(dd[i], ss[i]) != 0 {
			return diff, false
		}
	}
	return "", true
}

// hasTies reports whether two adjacent, non-identical values compare equal under the sort comparator.
func hasTies(vals []zed.Value) bool {
	zctx := zed.NewContext()
	vv := translate(zctx, vals)
	cmp := expr.NewValueCompareFn(order.Asc, true)
	for i := 1; i < len(vv); i++ {
		if oracle.Key(vv[i-1]) != oracle.Key(vv[i]) && cmp(vv[i-1], vv[i]) == 0 {
			return true
		}
	}
	return false
}

type bufCloser struct{ bytes.Buffer }

func (*bufCloser) Close() error { return nil }

// format renders vals with the formatter the service uses for that response format.
func format(vals []zed.Value, f string) ([]byte, error) {
	buf := &bufCloser{}
	var w zio.WriteCloser
	var err error
	if f == "json" {
		// documented: a JSON query response is always an array
		w = jsonio.NewArrayWriter(buf)
	} else {
		w, err = anyio.NewWriter(buf, anyio.WriterOpts{Format: f})
		if err != nil {
			return nil, err
		}
	}
	for _, v := range vals {
		if err := w.Write(v); err != nil {
			return buf.Bytes(), err
		}
	}
	if err := w.Close(); err != nil {
		return buf.Bytes(), err
	}
	return buf.Bytes(), nil
}

func encode(vals []zed.Value, f string) ([]byte, error) {
	buf := &bufCloser{}
	w, err := anyio.NewWriter(buf, anyio.WriterOpts{Format: f})
	if err != nil {
		return nil, err
	}
	for _, v := range vals {
		if err := w.Write(v); err != nil {
			return nil, err
		}
	}
	if err := w.Close(); err != nil {
		return nil, err
	}
	return buf.Bytes(), nil
}

type onlyReader struct{ io.Reader }

func (r *runner) subst(q string, p *mpool, branch string, p2 *mpool, missing bool) string {
	pn := "nosuchpool"
	if p != nil && !missing {
		pn = p.name
	}
	p2n := pn
	if p2 != nil {
		p2n = p2.name
	}
	q = strings.ReplaceAll(q, "{P2}", "'"+p2n+"'")
	q = strings.ReplaceAll(q, "{P}", "'"+pn+"'")
	q = strings.ReplaceAll(q, "{B}", "'"+branch+"'")
	return q
}

// ---------------------------------------------------------------- raw HTTP query

type rawResult struct {
	httpErr   error // non-2xx or transport failure
	body      []byte
	inBand    string // QueryError text found in the body ("" if none)
	statusErr string // error reported by /query/status/{id}
	statusOK  bool   // the status endpoint answered (its entry exists for only ~10 s after the query ended)
	reqID     string
}

func (r *runner) rawQuery(head *lakeparse.Commitish, text string, raw Raw) rawResult {
	var res rawResult
	body := api.QueryRequest{Query: text}
	if head != nil {
		body.Head = *head
	}
	ctrl := "F"
	if raw.Ctrl {
		ctrl = "T"
	}
	req := r.conn.NewRequest(r.ctx, http.MethodPost, "/query?ctrl="+ctrl, body)
	mt, err := api.FormatToMediaType(raw.Format)
	if err != nil {
		panic(err)
	}
	req.Header.Set("Accept", mt)
	resp, err := r.conn.Do(req)
	if err != nil {
		res.httpErr = err
		return res
	}
	res.reqID = resp.Header.Get(api.RequestIDHeader)
	res.body, err = io.ReadAll(resp.Body)
	resp.Body.Close()
	if err != nil {
		res.httpErr = err
		return res
	}
	// out-of-band status (documented: GET /query/status/{request_id})
	sreq := r.conn.NewRequest(r.ctx, http.MethodGet, "/query/status/"+res.reqID, nil)
	sreq.Header.Set("Accept", api.MediaTypeJSON)
	sresp, err := r.conn.Do(sreq)
	if err == nil {
		b, _ := io.ReadAll(sresp.Body)
		sresp.Body.Close()
		var qe api.QueryError
		if json.Unmarshal(bytes.TrimSpace(b), &qe) == nil {
			res.statusErr = qe.Error
			res.statusOK = true
		}
	}
	return res
}

// stripZJSONControl removes control lines ({"type":"<Name>","value":...}) from a zjson body.
func stripZJSONControl(body []byte) (data []byte, queryErr string, nctrl int) {
	var out bytes.Buffer
	for _, line := range bytes.SplitAfter(body, []byte("\n")) {
		if len(bytes.TrimSpace(line)) == 0 {
			out.Write(line)
			continue
		}
		var probe struct {
			Type  json.RawMessage `json:"type"`
			Value json.RawMessage `json:"value"`
		}
		if json.Unmarshal(line, &probe) == nil && len(probe.Type) > 0 && probe.Type[0] == '"' {
			nctrl++
			var name string
			json.Unmarshal(probe.Type, &name)
			if name == "QueryError" {
				var qe api.QueryError
				json.Unmarshal(probe.Value, &qe)
				queryErr = qe.Error
				if queryErr == "" {
					queryErr = "(empty QueryError)"
				}
			}
			continue
		}
		out.Write(line)
	}
	return out.Bytes(), queryErr, nctrl
}

// decodeRaw decodes a raw response body to values where the format is lossless.
func decodeRaw(ctx context.Context, f string, body []byte) (vals []zed.Value, inBand string, decodable bool, err error) {
	switch f {
	case "zng":
		sc, err := queryio.NewScanner(ctx, io.NopCloser(bytes.NewReader(body)))
		if err != nil {
			return nil, "", true, err
		}
		res := collect(sc, nil)
		if res.err != nil {
			// A QueryError control message surfaces as a plain error from the client's scanner.
			return res.vals, res.err.Error(), true, nil
		}
		return res.vals, "", true, nil
	case "zson":
		zr := zsonio.NewReader(zed.NewContext(), bytes.NewReader(body))
		for {
			v, err := zr.Read()
			if err != nil {
				return vals, "", true, err
			}
			if v == nil {
				return vals, "", true, nil
			}
			vals = append(vals, v.Copy())
		}
	case "zjson":
		data, qerr, _ := stripZJSONControl(body)
		zr := zjsonio.NewReader(zed.NewContext(), bytes.NewReader(data))
		for {
			v, err := zr.Read()
			if err != nil {
				return vals, qerr, true, err
			}
			if v == nil {
				return vals, qerr, true, nil
			}
			vals = append(vals, v.Copy())
		}
	}
	return nil, "", false, nil
}

func sortedLines(f string, b []byte) string {
	switch f {
	case "json":
		var elems []json.RawMessage
		if json.Unmarshal(b, &elems) != nil {
			return string(b)
		}
		var ss []string
		for _, e := range elems {
			ss = append(ss, string(e))
		}
		sort.Strings(ss)
		return strings.Join(ss, "\n")
	default:
		lines := strings.Split(string(b), "\n")
		if f == "csv" && len(lines) > 1 {
			rest := lines[1:]
			sort.Strings(rest)
			return lines[0] + "\n" + strings.Join(rest, "\n")
		}
		sort.Strings(lines)
		return strings.Join(lines, "\n")
	}
}

const (
	sigRemoveBranch  = "C19/remove-branch/remote-client-not-implemented"
	sigBadTail       = "C19/load/malformed-tail/prefix-committed-with-warning"
	sigReaderErr     = "C19/load/reader-error-midstream/prefix-committed"
	sigNotInBand     = "C19/late-error/not-in-band/status-endpoint-only"
	sigDroppedFully  = "C19/late-error/dropped"
	sigCtrlNoMessage = "C19/late-error/control-response-without-error-message"
	sigPlus          = "C19/names/plus-sign/path-param-query-unescaped"
	sigEmptyPool     = "C19/create-pool/empty-name-accepted-by-service"
	sigPanic200      = "C19/handler-panic/answered-200-empty-body"
)

// compareQuery runs one query on both sides (interface level) and the raw variants on the served side.
func (r *runner) compareQuery(step int, what string, head *lakeparse.Commitish, text string, ordered bool, raws []Raw, injected bool) *vt.Failure {
	f := r.compareQueryOnce(step, what, head, text, ordered, raws, injected)
	if f != nil && r.c.Parallel != 1 && strings.HasPrefix(f.Sig, "C19/query/") {
		// With a parallelised scan some programs are not a function of the lake content (observed: `sort -r this |
		// tail 2` under parallelism 2 picks different rows from run to run, with different odds in-process and
		// behind the HTTP writer).  Such a mismatch says nothing about the service, so under parallelism != 1 a
		// query mismatch only counts if it is also there with the scan forced to one thread.
		saved := compiler.Parallelism
		compiler.Parallelism = 1
		f = r.compareQueryOnce(step, what, head, text, ordered, raws, injected)
		compiler.Parallelism = saved
		if f == nil {
			r.o.Label("query:nondeterministic-under-parallelism")
		}
	}
	return f
}

func (r *runner) compareQueryOnce(step int, what string, head *lakeparse.Commitish, text string, ordered bool, raws []Raw, injected bool) *vt.Failure {
	d := collect(r.sides[0].api.Query(r.ctx, head, text))
	s := collect(r.sides[1].api.Query(r.ctx, head, text))
	if d.batches >= 2 {
		r.multiBatch++
		r.o.Label("query:multi-batch")
	}
	if (d.err != nil) != (s.err != nil) {
		if d.err != nil {
			return fail("C19/query/error-only-direct", "step %d (%s): %q fails directly (%v; after %d values in %d batches) but the remote client got %d values and no error",
				step, what, text, d.err, len(d.vals), d.batches, len(s.vals))
		}
		return fail("C19/query/error-only-remote", "step %d (%s): %q succeeds directly (%d values) but fails through the service: %v", step, what, text, len(d.vals), s.err)
	}
	r.debugf("step %d %s %q: direct %d values %d batches err=%v | served %d values err=%v", step, what, text, len(d.vals), d.batches, d.err, len(s.vals), s.err)
	if d.err != nil {
		if d.early {
			r.o.Label("query:compile-error-both")
		} else {
			r.o.Label("query:runtime-error-both")
			if d.batches >= 1 {
				r.o.Label("late-error:after-output")
			}
		}
	} else {
		if diff := oracle.Same(d.vals, s.vals); diff != "" {
			if ordered {
				od, ties := sameOrdered(d.vals, s.vals)
				if od != "" {
					return fail("C19/query/output-differs", "step %d (%s): %q: direct and remote results differ: %s", step, what, text, od)
				}
				if ties {
					r.o.Label("query:tie-reordered")
				}
			} else {
				if oracle.SameMultiset(d.vals, s.vals) != "" {
					return fail("C19/query/output-differs", "step %d (%s): %q: direct and remote results differ: %s", step, what, text, diff)
				}
				r.o.Label("query:unordered-reordered")
			}
			r.debugf("step %d REORDERED %q: %s", step, text, diff)
		}
		r.o.Label("query:ok")
		if len(d.vals) == 0 {
			r.o.Label("query:ok-empty")
		}
	}
	for _, raw := range raws {
		if f := r.compareRaw(step, what, head, text, ordered, raw, d); f != nil {
			return f
		}
	}
	return nil
}

func (r *runner) compareRaw(step int, what string, head *lakeparse.Commitish, text string, ordered bool, raw Raw, d qres) *vt.Failure {
	tag := fmt.Sprintf("%s/ctrl=%v", raw.Format, raw.Ctrl)
	r.o.Label("resp:" + tag)
	res := r.rawQuery(head, text, raw)
	if d.err != nil && d.early {
		// compile-time failure: must be refused with an HTTP error
		if res.httpErr == nil {
			return fail("C19/query/raw/compile-error-not-reported", "step %d (%s): %q (%s) does not compile directly (%v) but the service answered 2xx with body %q", step, what, text, tag, d.err, trunc(res.body))
		}
		return nil
	}
	if res.httpErr != nil {
		if d.err != nil {
			return nil // reported (as an HTTP error)
		}
		// direct succeeded; maybe the formatter refuses up front? (no such case for the five formats)
		return fail("C19/query/raw/error-only-remote", "step %d (%s): %q (%s) succeeds directly but the service answered: %v", step, what, text, tag, res.httpErr)
	}
	want, ferr := format(d.vals, raw.Format)
	controlCapable := raw.Ctrl && (raw.Format == "zng" || raw.Format == "zjson")
	vals, inBand, decodable, derr := decodeRaw(r.ctx, raw.Format, res.body)
	if d.err != nil || ferr != nil {
		// direct access (query + same formatter) reports an error after the response has started
		kind := "runtime"
		if d.err == nil {
			kind = "formatter"
		}
		r.o.Label("late-error:" + kind + ":" + tag)
		r.lateInjected++
		directErr := d.err
		if directErr == nil {
			directErr = ferr
		}
		if inBand != "" {
			r.o.Label("late-error:in-band")
			return nil
		}
		if controlCapable {
			return fail(sigCtrlNoMessage, "step %d (%s): %q (%s): direct access fails with %q; the response (with control messages enabled) carries no QueryError: %q (status endpoint says %q)",
				step, what, text, tag, directErr, trunc(res.body), res.statusErr)
		}
		if res.statusErr != "" {
			r.o.Label("late-error:status-endpoint-only")
			if r.strictInBand {
				return fail(sigNotInBand, "step %d (%s): %q (%s): direct access fails with %q; the service answered 200 with the well-formed short body %q and no in-band error (only GET /query/status/%s reports %q)",
					step, what, text, tag, directErr, trunc(res.body), res.reqID, res.statusErr)
			}
			return nil
		}
		if !res.statusOK {
			// the status entry is kept for only ~10 s after the query ended; on a stalled machine it may be gone
			r.o.Skip = "query status endpoint did not answer (entry expired?)"
			return nil
		}
		return fail(sigDroppedFully, "step %d (%s): %q (%s): direct access fails with %q; the service answered 200 with body %q and neither the body nor /query/status/%s reports an error",
			step, what, text, tag, directErr, trunc(res.body), res.reqID)
	}
	// success on the direct side: the response must be complete, error-free and byte-identical after stripping control messages
	if inBand != "" || res.statusErr != "" {
		return fail("C19/query/raw/error-only-remote", "step %d (%s): %q (%s) succeeds directly but the service reports in-band %q / status %q", step, what, text, tag, inBand, res.statusErr)
	}
	if decodable && derr != nil {
		return fail("C19/query/raw/undecodable", "step %d (%s): %q (%s): response body cannot be decoded: %v; body %q", step, what, text, tag, derr, trunc(res.body))
	}
	// compareVals compares decoded result values (sequence if the program defines an order, up to sort ties;
	// else multiset)
	compareVals := func(wantVals, gotVals []zed.Value) *vt.Failure {
		diff := oracle.Same(wantVals, gotVals)
		if diff == "" {
			return nil
		}
		if ordered {
			if od, _ := sameOrdered(wantVals, gotVals); od != "" {
				return fail("C19/query/raw/output-differs", "step %d (%s): %q (%s): decoded response differs from the direct result: %s", step, what, text, tag, od)
			}
			r.o.Label("query:tie-reordered")
			return nil
		}
		if oracle.SameMultiset(wantVals, gotVals) != "" {
			return fail("C19/query/raw/output-differs", "step %d (%s): %q (%s): decoded response differs from the direct result: %s", step, what, text, tag, diff)
		}
		r.o.Label("query:unordered-reordered")
		return nil
	}
	got := res.body
	switch {
	case raw.Format == "zng" && raw.Ctrl:
		// framing depends on the interleaved control frames, so bytes cannot be compared; ZNG is lossless, so the
		// decoded values are compared with the direct values
		return compareVals(d.vals, vals)
	case raw.Format == "zjson" && raw.Ctrl:
		got, _, _ = stripZJSONControl(res.body)
	}
	if bytes.Equal(got, want) {
		return nil
	}
	if decodable {
		// Not byte-identical: legitimate if only the order differs where the program leaves it open.  Both byte
		// strings are decoded with the same reader, so what the format itself cannot represent (e.g. the sign of
		// -0. in ZJSON) cancels out.
		wantVals, _, _, werr := decodeRaw(r.ctx, raw.Format, want)
		if werr != nil {
			return fail("C19/harness/reference-undecodable", "step %d: reference %s rendering cannot be decoded: %v", step, raw.Format, werr)
		}
		if oracle.Same(wantVals, vals) == "" {
			return fail("C19/query/raw/bytes-differ", "step %d (%s): %q (%s): response decodes to the same values but its bytes differ from the same formatter over the direct result:\n got  %q\n want %q", step, what, text, tag, trunc(got), trunc(want))
		}
		return compareVals(wantVals, vals)
	}
	if sortedLines(raw.Format, got) == sortedLines(raw.Format, want) {
		if !ordered {
			r.o.Label("query:unordered-reordered")
			return nil
		}
		// ordered program, lossy format: a different line order is legitimate only among values the sort
		// comparator considers equal (see sameOrdered)
		if hasTies(d.vals) || strings.Contains(text, "head") || strings.Contains(text, "tail") {
			r.o.Label("query:tie-reordered")
			return nil
		}
	}
	return fail("C19/query/raw/bytes-differ", "step %d (%s): %q (%s): response bytes differ from the same formatter over the direct result:\n got  %q\n want %q", step, what, text, tag, trunc(got), trunc(want))
}

func trunc(b []byte) string {
	if len(b) > 600 {
		return string(b[:600]) + "..."
	}
	return string(b)
}

// ---------------------------------------------------------------- steps

func (r *runner) pool(op Op) *mpool {
	if len(r.pools) == 0 {
		return nil
	}
	return r.pools[op.Pool%len(r.pools)]
}

func (r *runner) freshName(prefix string, suffix int) string {
	r.names++
	sfx := ""
	if suffix > 0 {
		sfx = nameSuffixes[suffix%len(nameSuffixes)]
	}
	if sfx != "" {
		r.o.Label("name:" + sfx)
	}
	return fmt.Sprintf("%s%d%s", prefix, r.names, sfx)
}

// both applies f to both sides and compares error presence.
func (r *runner) both(step int, kind string, f func(si int, l lakeapi.Interface) error) (ok bool, flr *vt.Failure) {
	e0 := f(0, r.sides[0].api)
	e1 := f(1, r.sides[1].api)
	r.tr.waitIdle()
	if (e0 != nil) != (e1 != nil) {
		if e0 != nil {
			return false, fail("C19/"+kind+"/error-only-direct", "step %d: %s fails directly (%v) but succeeds through the service", step, kind, e0)
		}
		if f := r.plusSign(step, kind, e1); f != nil || r.abandon != "" {
			return false, f
		}
		return false, fail("C19/"+kind+"/error-only-remote", "step %d: %s succeeds directly but fails through the service: %v", step, kind, e1)
	}
	if e0 != nil {
		r.o.Label("both-fail:" + kind)
		r.debugf("step %d %s: both fail: direct %v | served %v", step, kind, e0, e1)
		return false, nil
	}
	r.o.Label("ok:" + kind)
	r.debugf("step %d %s: ok", step, kind)
	return true, nil
}

// plusSign classifies "succeeds directly, not found through the service" for names containing '+': the client
// path-escapes names (which keeps '+') and the service query-unescapes path parameters (which turns '+' into ' ').
func (r *runner) plusSign(step int, kind string, e1 error) *vt.Failure {
	for _, n := range r.curNames {
		if strings.Contains(n, "+") && strings.Contains(e1.Error(), strings.ReplaceAll(n, "+", " ")) {
			if !vt.IsKnown(sigPlus) {
				return fail(sigPlus, "step %d: %s on the pool/branch named %q succeeds directly but the service looks for %q and answers: %v", step, kind, n, strings.ReplaceAll(n, "+", " "), e1)
			}
			r.o.Known = append(r.o.Known, sigPlus)
			r.abandon = sigPlus
			return nil
		}
	}
	return nil
}

var debug = os.Getenv("VERIF_C19_DEBUG") != ""

func (r *runner) debugf(format string, args ...any) {
	if debug {
		fmt.Fprintf(os.Stderr, format+"\n", args...)
	}
}

func (r *runner) pickObjects(st *lakeState, p *mpool, branch string, pick []int) (ids []ksuid.KSUID, objs []objState) {
	bs := st.branch(p.name, branch)
	if bs == nil || len(bs.objects) == 0 {
		return nil, nil
	}
	seen := map[int]bool{}
	for _, pi := range pick {
		i := pi % len(bs.objects)
		if seen[i] {
			continue
		}
		seen[i] = true
		if bs.objects[i].twin {
			// which of two logically indistinguishable objects an ordinal denotes is arbitrary on each lake
			r.o.Label("pick-skipped:indistinguishable-twins")
			return nil, nil
		}
		ids = append(ids, bs.objects[i].id)
		objs = append(objs, bs.objects[i])
	}
	return ids, objs
}

type failingReader struct {
	vals  []zed.Value
	n     int
	i     int
	gate  func() // called before the failure is reported
	fired bool
}

var errInjected = errors.New("injected reader failure")

func (f *failingReader) Read() (*zed.Value, error) {
	if f.i >= f.n || f.i >= len(f.vals) {
		if !f.fired {
			f.fired = true
			if f.gate != nil {
				f.gate()
			}
		}
		return nil, errInjected
	}
	v := f.vals[f.i]
	f.i++
	return &v, nil
}

func (r *runner) step(step int, op Op, before [2]*lakeState) *vt.Failure {
	ctx := r.ctx
	p := r.pool(op)
	if p == nil && op.Kind != "createpool" {
		return nil
	}
	branch := "main"
	if p != nil && len(p.branches) > 0 {
		branch = p.branches[op.Branch%len(p.branches)]
	}
	r.curNames = nil
	if p != nil {
		r.curNames = []string{p.name, branch}
	}
	pickBranch := func(i int) string {
		if len(p.branches) == 0 {
			return "main"
		}
		return p.branches[i%len(p.branches)]
	}
	switch op.Kind {
	case "createpool":
		name := r.freshName("p", op.Name)
		if op.Name == -1 {
			name = ""
		}
		if op.Dup && p != nil {
			name = p.name
		}
		if len(r.pools) >= 3 && !op.Dup {
			return nil
		}
		sk := order.SortKeys{order.NewSortKey(order.Asc, field.Dotted(op.Key))}
		if op.Desc {
			sk = order.SortKeys{order.NewSortKey(order.Desc, field.Dotted(op.Key))}
		}
		var ids [2]ksuid.KSUID
		if name == "" {
			_, e0 := r.sides[0].api.CreatePool(ctx, name, sk, op.Stride, op.Thresh)
			id1, e1 := r.sides[1].api.CreatePool(ctx, name, sk, op.Stride, op.Thresh)
			r.tr.waitIdle()
			r.o.Label("createpool:empty-name")
			if e0 == nil {
				return fail("C19/create-pool/empty-name-accepted-directly", "step %d: CreatePool(\"\") succeeded directly", step)
			}
			if e1 == nil {
				if !vt.IsKnown(sigEmptyPool) {
					return fail(sigEmptyPool, "step %d: CreatePool(\"\") is refused directly (%v) but the service creates a pool with the empty name (id %s)", step, e0, id1)
				}
				r.o.Known = append(r.o.Known, sigEmptyPool)
				if err := r.sides[1].api.RemovePool(ctx, id1); err != nil {
					return fail("C19/harness/resync", "step %d: cannot remove the pool with the empty name again: %v", step, err)
				}
				r.tr.waitIdle()
			}
			return nil
		}
		ok, f := r.both(step, "createpool", func(si int, l lakeapi.Interface) error {
			id, err := l.CreatePool(ctx, name, sk, op.Stride, op.Thresh)
			ids[si] = id
			return err
		})
		if f != nil {
			return f
		}
		if ok {
			r.pools = append(r.pools, &mpool{name: name, alive: true, id: ids, branches: []string{"main"}, key: op.Key, desc: op.Desc})
			r.serviceMutations++
		}
	case "renamepool":
		name := r.freshName("r", op.Name)
		if op.Dup {
			name = r.pools[(op.Pool+1)%len(r.pools)].name
		}
		ok, f := r.both(step, "renamepool", func(si int, l lakeapi.Interface) error { return l.RenamePool(ctx, p.id[si], name) })
		if f != nil {
			return f
		}
		if ok {
			p.name = name
			r.serviceMutations++
		}
	case "droppool":
		ok, f := r.both(step, "droppool", func(si int, l lakeapi.Interface) error { return l.RemovePool(ctx, p.id[si]) })
		if f != nil {
			return f
		}
		if ok {
			p.alive = false
			r.serviceMutations++
		}
	case "branch":
		src := pickBranch(op.Other)
		name := r.freshName("b", op.Name)
		if op.Dup {
			name = branch
		}
		if len(p.branches) >= 4 && !op.Dup {
			return nil
		}
		var at [2]ksuid.KSUID
		for si := 0; si < 2; si++ {
			if bs := before[si].branch(p.name, src); bs != nil && len(bs.chain) > 0 {
				at[si] = bs.chain[op.At%len(bs.chain)]
			}
		}
		ok, f := r.both(step, "branch", func(si int, l lakeapi.Interface) error { return l.CreateBranch(ctx, p.id[si], name, at[si]) })
		if f != nil {
			return f
		}
		if ok {
			p.branches = append(p.branches, name)
			r.serviceMutations++
		}
	case "dropbranch":
		if branch == "main" && op.Pick == nil {
			return nil // mostly keep main
		}
		e0 := r.sides[0].api.RemoveBranch(ctx, p.id[0], branch)
		e1 := r.sides[1].api.RemoveBranch(ctx, p.id[1], branch)
		r.tr.waitIdle()
		if e0 == nil && e1 != nil && strings.Contains(e1.Error(), "TBD remote.RemoveBranch") {
			// known: the remote implementation is a stub although the route exists; re-synchronise through the route
			if !vt.IsKnown(sigRemoveBranch) {
				return fail(sigRemoveBranch, "step %d: RemoveBranch(%s@%s) succeeds directly but the remote lake returns %q (the service has DELETE /pool/{pool}/branch/{branch})", step, p.name, branch, e1)
			}
			r.o.Known = append(r.o.Known, sigRemoveBranch)
			req := r.conn.NewRequest(ctx, http.MethodDelete, "/pool/"+p.id[1].String()+"/branch/"+url.PathEscape(branch), nil)
			resp, err := r.conn.Do(req)
			if err != nil {
				if f := r.plusSign(step, "dropbranch", err); f != nil || r.abandon != "" {
					return f
				}
				return fail("C19/remove-branch/route-fails", "step %d: DELETE /pool/{id}/branch/%s fails although direct RemoveBranch succeeded: %v", step, branch, err)
			}
			resp.Body.Close()
			r.tr.waitIdle()
			e1 = nil
			r.o.Label("ok:dropbranch-via-route")
		}
		if e0 != nil && e1 == nil {
			return fail("C19/dropbranch/error-only-direct", "step %d: RemoveBranch fails directly (%v) but succeeds remotely", step, e0)
		}
		if e0 == nil && e1 != nil {
			return fail("C19/dropbranch/error-only-remote", "step %d: RemoveBranch succeeds directly but fails remotely: %v", step, e1)
		}
		if e0 == nil {
			var keep []string
			for _, b := range p.branches {
				if b != branch {
					keep = append(keep, b)
				}
			}
			p.branches = keep
			r.serviceMutations++
		} else {
			r.o.Label("both-fail:dropbranch")
		}
	case "load":
		return r.load(step, op, p, branch, before)
	case "delete":
		var ids [2][]ksuid.KSUID
		for si := 0; si < 2; si++ {
			ids[si], _ = r.pickObjects(before[si], p, branch, op.Pick)
			if op.Stale {
				ids[si] = append(ids[si], ksuid.New())
			}
		}
		if len(ids[0]) == 0 || len(ids[0]) != len(ids[1]) {
			return nil // nothing to delete (an empty id list is outside the domain: the CLI refuses it)
		}
		ok, f := r.both(step, "delete", func(si int, l lakeapi.Interface) error {
			_, err := l.Delete(ctx, p.id[si], branch, ids[si], r.msg(step, ""))
			return err
		})
		if f != nil {
			return f
		}
		if ok {
			r.serviceMutations++
		}
	case "deletewhere":
		ok, f := r.both(step, "deletewhere", func(si int, l lakeapi.Interface) error {
			_, err := l.DeleteWhere(ctx, p.id[si], branch, op.Pred, r.msg(step, ""))
			return err
		})
		if f != nil {
			return f
		}
		if ok {
			r.serviceMutations++
		}
	case "compact":
		var ids [2][]ksuid.KSUID
		for si := 0; si < 2; si++ {
			ids[si], _ = r.pickObjects(before[si], p, branch, op.Pick)
		}
		if len(ids[0]) != len(ids[1]) {
			return nil
		}
		ok, f := r.both(step, "compact", func(si int, l lakeapi.Interface) error {
			_, err := l.Compact(ctx, p.id[si], branch, ids[si], op.Vectors, r.msg(step, ""))
			return err
		})
		if f != nil {
			return f
		}
		if ok {
			r.serviceMutations++
		}
	case "addvec", "delvec":
		var ids [2][]ksuid.KSUID
		for si := 0; si < 2; si++ {
			ids[si], _ = r.pickObjects(before[si], p, branch, op.Pick)
		}
		if len(ids[0]) == 0 || len(ids[0]) != len(ids[1]) {
			return nil
		}
		ok, f := r.both(step, op.Kind, func(si int, l lakeapi.Interface) error {
			var err error
			if op.Kind == "addvec" {
				_, err = l.AddVectors(ctx, p.name, branch, ids[si], r.msg(step, ""))
			} else {
				_, err = l.DeleteVectors(ctx, p.name, branch, ids[si], r.msg(step, ""))
			}
			return err
		})
		if f != nil {
			return f
		}
		if ok {
			r.serviceMutations++
		}
	case "vacuum":
		var n [2]int
		ok, f := r.both(step, "vacuum", func(si int, l lakeapi.Interface) error {
			ids, err := l.Vacuum(ctx, p.name, branch, op.Dry)
			n[si] = len(ids)
			return err
		})
		if f != nil {
			return f
		}
		if ok {
			if n[0] != n[1] {
				return fail("C19/vacuum/count-differs", "step %d: vacuum(dryrun=%v) of %s@%s reports %d objects directly and %d through the service", step, op.Dry, p.name, branch, n[0], n[1])
			}
			if n[0] > 0 {
				r.o.Label("vacuum:removed")
				// vacuumed data files are gone: drop them from the cache
			}
			r.serviceMutations++
		}
	case "merge":
		parent := pickBranch(op.Other)
		if parent == branch {
			return nil
		}
		r.curNames = append(r.curNames, parent)
		ok, f := r.both(step, "merge", func(si int, l lakeapi.Interface) error {
			_, err := l.MergeBranch(ctx, p.id[si], branch, parent, r.msg(step, ""))
			return err
		})
		if f != nil {
			return f
		}
		if ok {
			r.serviceMutations++
		}
	case "revert":
		var at [2]ksuid.KSUID
		for si := 0; si < 2; si++ {
			bs := before[si].branch(p.name, branch)
			if bs == nil || len(bs.chain) == 0 {
				return nil
			}
			at[si] = bs.chain[op.At%len(bs.chain)]
		}
		if a, b := before[0].branch(p.name, branch), before[1].branch(p.name, branch); len(a.chain) != len(b.chain) {
			// The two lakes hold the same data but reached it by a different number of commits (an earlier step
			// committed on one side only, e.g. the open load-warnings finding, or a no-op commit): position At
			// names different logical commits on the two sides, so their reverts are not comparable.
			if os.Getenv("C19_DEBUG_CHAIN") != "" {
				fmt.Fprintf(os.Stderr, "C19 revert: chain lengths differ: direct %d, served %d\n", len(a.chain), len(b.chain))
			}
			r.o.Label("revert-skipped:chain-lengths-differ")
			return nil
		}
		ok, f := r.both(step, "revert", func(si int, l lakeapi.Interface) error {
			_, err := l.Revert(ctx, p.id[si], branch, at[si], r.msg(step, ""))
			return err
		})
		if f != nil {
			return f
		}
		if ok {
			r.serviceMutations++
		}
	case "tip":
		_, f := r.both(step, "tip", func(si int, l lakeapi.Interface) error {
			_, err := l.CommitObject(ctx, p.id[si], branch)
			return err
		})
		return f
	case "poolid":
		var got [2]ksuid.KSUID
		ok, f := r.both(step, "poolid", func(si int, l lakeapi.Interface) error {
			id, err := l.PoolID(ctx, p.name)
			got[si] = id
			return err
		})
		if f != nil {
			return f
		}
		if ok && (got[0] == p.id[0]) != (got[1] == p.id[1]) {
			return fail("C19/poolid/wrong-pool", "step %d: PoolID(%q) resolves to the pool created under that name directly: %v, through the service: %v", step, p.name, got[0] == p.id[0], got[1] == p.id[1])
		}
	case "query":
		var head *lakeparse.Commitish
		p2 := r.pools[op.Other%len(r.pools)]
		text := r.subst(op.Query, p, branch, p2, op.Missing)
		if op.UseHead {
			head = &lakeparse.Commitish{Pool: p.name, Branch: branch}
			if op.Missing {
				head.Pool = "nosuchpool"
			}
		}
		return r.compareQuery(step, "query", head, text, op.Ordered, op.Raws, false)
	case "lateerr":
		return r.lateErr(step, op, p, branch, before)
	}
	return nil
}

func (r *runner) load(step int, op Op, p *mpool, branch string, before [2]*lakeState) *vt.Failure {
	ctx := r.ctx
	batch := r.c.Batches[op.Batch%len(r.c.Batches)]
	meta := ""
	if op.Meta {
		meta = fmt.Sprintf("{step:%d}", step)
	}
	if op.Bad == "meta" {
		meta = "{step:"
	}
	msg := r.msg(step, meta)
	via := op.Via
	r.o.Label("load:" + via)
	if via == "api" {
		if op.Bad != "reader" {
			ok, f := r.both(step, "load", func(si int, l lakeapi.Interface) error {
				zctx := zed.NewContext()
				_, err := l.Load(ctx, zctx, p.id[si], branch, zbuf.NewArray(translate(zctx, batch.Vals)), msg)
				return err
			})
			if ok {
				r.serviceMutations++
			}
			return f
		}
		// a reader that fails after Cut values: both sides must fail and commit nothing
		r.o.Label("load:reader-fails")
		n := op.Cut
		zctx := zed.NewContext()
		_, e0 := r.sides[0].api.Load(ctx, zctx, p.id[0], branch, &failingReader{vals: translate(zctx, batch.Vals), n: n}, msg)
		// drain stale tokens, then make the remote reader wait until the service has started handling the
		// request, so that the server's handler is certainly covered by the idle wait below
		for drained := false; !drained; {
			select {
			case <-r.tr.loadSeen:
			default:
				drained = true
			}
		}
		gateTimedOut := false
		gate := func() {
			select {
			case <-r.tr.loadSeen:
			case <-time.After(60 * time.Second):
				gateTimedOut = true
			}
		}
		zctx1 := zed.NewContext()
		_, e1 := r.sides[1].api.Load(ctx, zctx1, p.id[1], branch, &failingReader{vals: translate(zctx1, batch.Vals), n: n, gate: gate}, msg)
		r.tr.waitIdle()
		if gateTimedOut {
			r.o.Skip = "remote load request not seen by the server within 60s"
			return nil
		}
		if e0 == nil || e1 == nil {
			if e0 == nil && e1 == nil {
				return fail("C19/load/reader-error-ignored", "step %d: load from a reader that fails after %d values succeeded on both sides", step, n)
			}
			if e0 != nil {
				return fail("C19/load/error-only-direct", "step %d: load from a failing reader fails directly (%v) but succeeds through the service", step, e0)
			}
			return fail("C19/load/error-only-remote", "step %d: load from a failing reader succeeds directly but fails through the service: %v", step, e1)
		}
		r.o.Label("both-fail:load-reader")
		// state comparison happens in the caller; a committed prefix on the served side is classified there
		return nil
	}
	// raw body with a content type
	f := via
	if via == "auto" {
		f = []string{"zson", "json", "zng", "csv", "zjson"}[op.Batch%5]
	}
	body, err := encode(batch.Vals, f)
	if err != nil {
		// e.g. csv refuses non-uniform records: fall back to zson text
		r.o.Label("load:fallback-zson")
		f = "zson"
		if via != "auto" {
			via = "zson"
		}
		body, err = encode(batch.Vals, f)
		if err != nil {
			panic(fmt.Sprintf("harness: cannot encode batch as zson: %v", err))
		}
	}
	if op.Bad == "tail" {
		cut := len(body) * op.Cut / 9
		body = append([]byte(nil), body[:cut]...)
		if op.Garbage {
			body = append(body, []byte("\x03{[garbage\"")...)
		}
		r.o.Label("load:malformed-tail:" + via)
	}
	contentType := ""
	format := "auto"
	if via != "auto" {
		contentType, _ = api.FormatToMediaType(via)
		format = via
	}
	// direct: decode the same bytes with the same reader options the service uses and load the reader
	var e0 error
	var prefix []zed.Value
	directPanic := false
	{
		zctx := zed.NewContext()
		var rd io.Reader = bytes.NewReader(body)
		if format == "auto" {
			rd = onlyReader{rd} // the service sees a non-seekable request body
		}
		func() {
			if op.Bad == "tail" {
				// A decoder that panics on a deliberately malformed body is a robustness defect of that decoder
				// (property C11's subject, e.g. vng.readMetadata on a truncated VNG object), not of the service:
				// here it only counts as "direct access fails".
				defer func() {
					if rec := recover(); rec != nil {
						e0 = fmt.Errorf("panic: %v", rec)
						directPanic = true
						r.o.Label("load:direct-decoder-panic:" + via)
					}
				}()
			}
			zr, err := anyio.NewReaderWithOpts(zctx, rd, demand.All(), anyio.ReaderOpts{Format: format, ZNG: zngio.ReaderOpts{Validate: true}})
			if err != nil {
				e0 = err
				return
			}
			defer zr.Close()
			_, e0 = r.sides[0].api.Load(ctx, zctx, p.id[0], branch, zr, msg)
		}()
		if e0 != nil && op.Bad == "tail" && !directPanic {
			// values readable before the failure (needed to re-synchronise if the service commits them)
			pctx := zed.NewContext()
			var prd io.Reader = bytes.NewReader(body)
			if format == "auto" {
				prd = onlyReader{prd}
			}
			if pr, err := anyio.NewReaderWithOpts(pctx, prd, demand.All(), anyio.ReaderOpts{Format: format, ZNG: zngio.ReaderOpts{Validate: true}}); err == nil {
				for {
					v, err := pr.Read()
					if err != nil || v == nil {
						break
					}
					prefix = append(prefix, v.Copy())
				}
				pr.Close()
			}
		}
	}
	resp, e1 := r.conn.Load(ctx, p.id[1], branch, contentType, bytes.NewReader(body), msg)
	r.tr.waitIdle()
	if e0 != nil && e1 == nil && op.Bad == "tail" && len(resp.Warnings) > 0 && len(prefix) > 0 {
		// known: the service turns the mid-stream error into a warning and commits the readable prefix
		if !vt.IsKnown(sigBadTail) {
			return fail(sigBadTail, "step %d: a %s body with a malformed tail fails to load directly (%v, nothing committed) but POST /pool/%s/branch/%s answers 200 with warnings %q and commits the %d value(s) before the error",
				step, via, e0, p.name, branch, resp.Warnings, len(prefix))
		}
		r.o.Known = append(r.o.Known, sigBadTail)
		// re-synchronise: commit the same prefix directly
		zctx := zed.NewContext()
		if _, err := r.sides[0].api.Load(ctx, zctx, p.id[0], branch, zbuf.NewArray(translate(zctx, prefix)), msg); err != nil {
			return fail("C19/harness/resync", "step %d: cannot re-synchronise after known finding: %v", step, err)
		}
		r.serviceMutations++
		return nil
	}
	if e0 == nil && e1 != nil {
		if f := r.plusSign(step, "load", e1); f != nil || r.abandon != "" {
			return f
		}
	}
	if directPanic && e1 == nil && resp.Commit == ksuid.Nil {
		// the same decoder panicked inside the service's handler: panicCatchMiddleware recovers it without writing a
		// response, net/http then answers 200 with an empty body, and the client reads that as success
		if !vt.IsKnown(sigPanic200) {
			return fail(sigPanic200, "step %d: loading a malformed %s body panics in the decoder (%v); the service's handler panics too, but the request is answered 200 with an empty body, so the remote Load returns no error (commit id %s)", step, via, e0, resp.Commit)
		}
		r.o.Known = append(r.o.Known, sigPanic200)
		return nil
	}
	if (e0 != nil) != (e1 != nil) {
		if e0 != nil {
			return fail("C19/load/raw/error-only-direct", "step %d: %s body (%d bytes, bad=%q) fails to load directly (%v) but the service accepted it (warnings %q)", step, via, len(body), op.Bad, e0, resp.Warnings)
		}
		return fail("C19/load/raw/error-only-remote", "step %d: %s body (%d bytes, bad=%q) loads directly but the service refuses it: %v", step, via, len(body), op.Bad, e1)
	}
	if e0 != nil {
		r.o.Label("both-fail:load-raw")
		r.debugf("step %d load-raw %s bad=%q: both fail: direct %v | served %v", step, via, op.Bad, e0, e1)
		return nil
	}
	if len(resp.Warnings) > 0 {
		return fail("C19/load/raw/warnings-on-clean-load", "step %d: %s body loads directly without error but the service reports warnings %q", step, via, resp.Warnings)
	}
	r.o.Label("ok:load-raw:" + via)
	r.serviceMutations++
	return nil
}

func translate(zctx *zed.Context, vals []zed.Value) []zed.Value {
	out := make([]zed.Value, len(vals))
	for i, v := range vals {
		typ, err := zctx.TranslateType(v.Type())
		if err != nil {
			panic(err)
		}
		out[i] = zed.NewValue(typ, v.Bytes()).Copy()
	}
	return out
}

// lateErr corrupts the data file of one object of the branch on both sides, runs the query, restores the file.
func (r *runner) lateErr(step int, op Op, p *mpool, branch string, before [2]*lakeState) *vt.Failure {
	var paths [2]string
	var saved [2][]byte
	for si := 0; si < 2; si++ {
		bs := before[si].branch(p.name, branch)
		if bs == nil || len(bs.objects) == 0 || bs.err != "" {
			return nil
		}
		// objects in pool-key order of their minimum: take the pick-th (7 = last) so that earlier objects stream first
		objs := append([]objState(nil), bs.objects...)
		cmp := expr.NewValueCompareFn(order.Asc, true)
		sort.SliceStable(objs, func(i, j int) bool { return cmp(objs[i].minVal, objs[j].minVal) < 0 })
		i := op.Pick[0]
		if i >= len(objs) {
			i = len(objs) - 1
		}
		if p.desc {
			i = len(objs) - 1 - i // scan order of a descending pool
		}
		paths[si] = objs[i].path
		if si == 0 {
			var rs []string
			for _, o := range objs {
				rs = append(rs, o.min+".."+o.max)
			}
			r.debugf("step %d lateerr: parallelism %d, corrupting object %d of %v", step, r.c.Parallel, i, rs)
		}
	}
	for si := 0; si < 2; si++ {
		b, err := os.ReadFile(paths[si])
		if err != nil {
			// already vacuumed on both sides? then there is nothing to corrupt
			for sj := 0; sj < si; sj++ {
				os.WriteFile(paths[sj], saved[sj], 0o644)
			}
			return nil
		}
		saved[si] = b
		if err := os.WriteFile(paths[si], bytes.Repeat([]byte{0x7f}, len(b)), 0o644); err != nil {
			panic(err)
		}
	}
	defer func() {
		for si := 0; si < 2; si++ {
			if err := os.WriteFile(paths[si], saved[si], 0o644); err != nil {
				panic(err)
			}
		}
	}()
	r.o.Label("late-error:injected")
	text := r.subst(op.Query, p, branch, nil, false)
	return r.compareQuery(step, "corrupted object", nil, text, false, op.Raws, true)
}

// ---------------------------------------------------------------- run

var knobMu sync.Mutex

func runCase(c Case) *vt.Outcome {
	o := &vt.Outcome{}
	knobMu.Lock()
	defer knobMu.Unlock()
	savedBatch, savedPar := zbuf.PullerBatchValues, compiler.Parallelism
	defer func() { zbuf.PullerBatchValues, compiler.Parallelism = savedBatch, savedPar }()
	if c.BatchValues > 0 {
		zbuf.PullerBatchValues = c.BatchValues
	}
	if c.Parallel > 0 {
		compiler.Parallelism = c.Parallel
	}
	ctx, cancel := context.WithCancel(context.Background())
	defer cancel()
	dirA, err := os.MkdirTemp("", "c19-direct-")
	if err != nil {
		panic(err)
	}
	defer os.RemoveAll(dirA)
	dirB, err := os.MkdirTemp("", "c19-served-")
	if err != nil {
		panic(err)
	}
	defer os.RemoveAll(dirB)
	rootA, err := lake.Create(ctx, storage.NewLocalEngine(), nil, storage.MustParseURI(dirA))
	if err != nil {
		o.Fail = fail("C19/setup", "lake.Create: %v", err)
		return o
	}
	core, err := service.NewCore(ctx, service.Config{Root: storage.MustParseURI(dirB)})
	if err != nil {
		o.Fail = fail("C19/setup", "service.NewCore: %v", err)
		return o
	}
	tr := newTracker(core)
	srv := httptest.NewServer(tr)
	defer func() {
		srv.CloseClientConnections()
		srv.Close()
	}()
	conn := client.NewConnectionTo(srv.URL)
	r := &runner{ctx: ctx, c: c, o: o, srv: srv, conn: conn, tr: tr,
		strictInBand: os.Getenv("VERIF_C19_STRICT_INBAND") != ""}
	r.sides[0] = &side{name: "direct", dir: dirA, api: lakeapi.FromRoot(rootA)}
	r.sides[1] = &side{name: "served", dir: dirB, api: lakeapi.NewRemoteLake(conn)}
	r.objVals[0], r.objVals[1] = map[ksuid.KSUID][]zed.Value{}, map[ksuid.KSUID][]zed.Value{}
	defer http.DefaultClient.CloseIdleConnections()

	var before [2]*lakeState
	for si := 0; si < 2; si++ {
		before[si], err = r.inspect(si)
		if err != nil {
			o.Fail = fail("C19/setup", "cannot inspect fresh lake: %v", err)
			return o
		}
	}
	o.Label(fmt.Sprintf("parallelism:%d", c.Parallel), fmt.Sprintf("batch-values:%d", c.BatchValues))
	steps := 0
	for i, op := range c.Ops {
		o.Label("op:" + op.Kind)
		f := r.step(i, op, before)
		if o.Skip != "" {
			return o
		}
		if f != nil {
			o.Fail = f
			return o
		}
		if r.abandon != "" {
			o.Label("abandoned:" + r.abandon)
			break
		}
		steps++
		if (op.Kind == "query" || op.Kind == "lateerr") && i != len(c.Ops)-1 {
			// read-only steps: the (expensive) cold comparison of both directories is done after the next
			// mutation and at the end of the history
			continue
		}
		var after [2]*lakeState
		var ierr [2]error
		for si := 0; si < 2; si++ {
			after[si], ierr[si] = r.inspect(si)
		}
		if (ierr[0] != nil) != (ierr[1] != nil) {
			o.Fail = fail("C19/state/unreadable-one-side", "step %d (%s): lake state readable directly: %v; served: %v", i, op.Kind, ierr[0], ierr[1])
			return o
		}
		if ierr[0] != nil {
			o.Label("state:unreadable-both")
			break
		}
		sd := diffStatesNote(after[0], after[1], func(l string) { o.Label(l) })
		if sd.content != "" && op.Kind == "load" && op.Bad == "reader" {
			// classify: did the service commit the values delivered before the reader failed?
			if f := r.classifyReaderPrefix(i, op, before, after, sd.content); f != nil {
				o.Fail = f
				return o
			}
			// re-inspect after re-synchronisation
			for si := 0; si < 2; si++ {
				after[si], ierr[si] = r.inspect(si)
				if ierr[si] != nil {
					o.Fail = fail("C19/state/unreadable-one-side", "step %d: %v", i, ierr[si])
					return o
				}
			}
			sd = diffStatesNote(after[0], after[1], nil)
		}
		if sd.content != "" {
			o.Fail = fail("C19/state/differs/"+op.Kind, "step %d (%s %+v): lake contents differ: %s", i, op.Kind, op, sd.content)
			return o
		}
		if sd.vectors != "" {
			o.Fail = fail("C19/state/vectors-differ/"+op.Kind, "step %d (%s %+v): %s", i, op.Kind, op, sd.vectors)
			return o
		}
		if sd.layout != "" {
			// How a rewrite (delete-where, compact, a load split by the threshold) partitions values into objects is
			// not a function of the branch content: on pools whose objects all tie on min/max (e.g. key `this`) it
			// varies from run to run on one lake.  Contents are equal; object ordinals no longer denote the same
			// objects on both sides, so the history ends here.
			o.Label("state:layout-differs:" + op.Kind)
			r.debugf("step %d: layout differs: %s", i, sd.layout)
			break
		}
		if debug {
			for si := 0; si < 2; si++ {
				for _, ps := range after[si].pools {
					for _, bs := range ps.branches {
						var ss []string
						for _, ob := range bs.objects {
							ss = append(ss, fmt.Sprintf("{%s vec=%v id=%s}", short(ob.layout), ob.vector, ob.id.String()[22:]))
						}
						r.debugf("   side %d %s@%s chain=%d: %s", si, ps.name, bs.name, len(bs.chain), strings.Join(ss, " "))
					}
				}
			}
		}
		before = after
	}
	o.Evals = max(1, steps)
	o.NonTrivial = r.serviceMutations >= 1 && (r.multiBatch >= 1 || r.lateInjected >= 1)
	if r.serviceMutations >= 1 {
		o.Label("has-service-mutation")
	}
	if r.lateInjected >= 1 {
		o.Label("has-late-error")
	}
	return o
}

func (r *runner) classifyReaderPrefix(step int, op Op, before, after [2]*lakeState, d string) *vt.Failure {
	p := r.pool(op)
	branch := "main"
	if len(p.branches) > 0 {
		branch = p.branches[op.Branch%len(p.branches)]
	}
	// direct side unchanged, served side has exactly one more commit on that branch?
	if diffStates(before[0], after[0]) != "" {
		return fail("C19/load/failed-load-changed-state", "step %d: a failed direct load changed the lake: %s", step, diffStates(before[0], after[0]))
	}
	bb, ba := before[1].branch(p.name, branch), after[1].branch(p.name, branch)
	if bb == nil || ba == nil || len(ba.chain) != len(bb.chain)+1 {
		return fail("C19/state/differs/load", "step %d (load from failing reader): %s", step, d)
	}
	if !vt.IsKnown(sigReaderErr) {
		return fail(sigReaderErr, "step %d: Load from a reader that fails after %d value(s) reports an error on both sides, but the served lake committed the values read before the failure (direct committed nothing): %s", step, op.Cut, d)
	}
	r.o.Known = append(r.o.Known, sigReaderErr)
	batch := r.c.Batches[op.Batch%len(r.c.Batches)]
	n := min(op.Cut, len(batch.Vals))
	zctx := zed.NewContext()
	meta := ""
	if op.Meta {
		meta = fmt.Sprintf("{step:%d}", step)
	}
	if _, err := r.sides[0].api.Load(r.ctx, zctx, p.id[0], branch, zbuf.NewArray(translate(zctx, batch.Vals[:n])), r.msg(step, meta)); err != nil {
		return fail("C19/harness/resync", "step %d: cannot re-synchronise after known finding: %v", step, err)
	}
	return nil
}

var prop = &vt.Prop[Case]{
	Name: "TestServiceEquivalence",
	Rule: "case = compiler.Parallelism in {1 (mostly), 2, default} x zbuf.PullerBatchValues in {1,2,3,100} x 2..4 value batches (uniform {k,s,v} records or mixed shapes: null/missing/string keys, floats, nested, ip/time/duration, unions, errors, named types, non-records; batch b draws keys from [100b,100b+20]) x history of 5..12 (thorough 24) ops over up to 3 pools x 4 branches (names with spaces, '+', '/', '@', ':', '.', '\"', '%2B', non-ASCII; the empty pool name): create/rename/drop pool (incl. duplicate names; key k|s|this|n.a, asc/desc, threshold 40|100|default, seek stride 1|16|default), create/drop branch (at tip or older commit), " +
		"load (through lakeapi.Interface, or raw POST bodies with content type zng|zson|zjson|json|csv|vng|auto-detect; optional commit meta; malformed tail; reader failing mid-stream; invalid meta), delete (ids, stale id), delete-where, compact(+vectors), vector add/del, vacuum(dry), merge, revert, CommitObject, PoolID, " +
		"queries (data programs, meta-queries :pools :branches :objects :partitions :log :rawlog :vectors without ids/timestamps, HEAD-relative programs, non-compiling programs, missing pools) each run through both lakeapi handles and through 0..3 raw POST /query variants (format zng|zson|zjson|json|csv x ctrl T|F), " +
		"late-error probes (one object's data file overwritten with garbage on both sides during the query; responses whose formatter fails on a later value). Every op is applied to lakeapi.FromRoot(rootA) and to lakeapi.NewRemoteLake(client to httptest server over rootB) on the real file engine. " +
		"Oracle after each step: same error presence; after every mutation both directories are re-opened cold and compared (pools, configs, branches, commit chains with author/message/meta/action kinds, branch value multisets, objects by count/min/max/adding commit/vector flag/value multiset; a pure re-partitioning of equal contents ends the history, see label state:layout-differs); query values equal (sequence if the program orders its output, up to ties of the repo's sort comparator; else multiset), raw response bytes equal to the same formatter over the direct result after removing control messages (json: the array writer the service documents); an error direct access reports must reach the remote client (remote puller error; QueryError control message when control messages are enabled; otherwise at least GET /query/status/{id}). Under parallelism != 1 a query mismatch must be reproducible (6 attempts) to count. " +
		"Non-trivial = >=1 successful mutation through the service and (>=1 query whose direct result spans >=2 batches or >=1 late error observed); evaluations count steps.",
	Gen: genCase,
	Run: runCase,
}

func init() { prop.Register() }

func TestServiceEquivalence(t *testing.T) { prop.Check(t) }
func TestReplay(t *testing.T)             { vt.TestReplay(t) }

// ---------------------------------------------------------------- literal regression cases

func literalCases() map[string]struct {
	sig, expect string
	c           Case
} {
	uni := gen.SeqFromZSON(`{k:3,s:"a",v:1} {k:1,s:"b",v:2} {k:2,s:"x,y",v:0}`)
	mixed := gen.SeqFromZSON(`{k:105,s:"a",v:1} {k:101,s:"b",v:2.5} {k:null(int64),s:"c",v:1} {k:null(int64),s:"é",v:0} {s:"a",v:1} "str" {k:110,n:{a:1,b:[1,2]},ip:10.0.0.1}`)
	third := gen.SeqFromZSON(`{k:201,s:"a",v:1} {k:202,s:"b",v:2} {k:203,s:"c",v:3}`)
	batches := []gen.Seq{uni, mixed, third}
	pool := Op{Kind: "createpool", Key: "k", Stride: 1, Thresh: 40}
	all := []Raw{{"zng", true}, {"zng", false}, {"zson", true}, {"zson", false}, {"zjson", true}, {"zjson", false}, {"json", true}, {"json", false}, {"csv", true}, {"csv", false}}
	m := map[string]struct {
		sig, expect string
		c           Case
	}{}
	add := func(name, sig, expect string, par int, ops ...Op) {
		m[name] = struct {
			sig, expect string
			c           Case
		}{sig, expect, Case{Parallel: par, BatchValues: 1, Batches: batches, Ops: ops}}
	}
	add("known-C19-remote-removebranch-stub", sigRemoveBranch, "known", 1,
		pool, Op{Kind: "load", Via: "api"}, Op{Kind: "branch"}, Op{Kind: "dropbranch", Branch: 1},
		Op{Kind: "query", Query: "from :branches | yield {p:pool.name,b:branch.name} | sort this", Ordered: true, Raws: all[:4]})
	add("known-C19-load-warnings-commit-prefix-json", sigBadTail, "known", 1,
		pool, Op{Kind: "load", Via: "json", Bad: "tail", Cut: 8, Garbage: true},
		Op{Kind: "query", Query: "from {P}@{B} | sort this", Ordered: true, Raws: all[:2]})
	add("known-C19-load-warnings-commit-prefix-zng", sigBadTail, "known", 1,
		pool, Op{Kind: "load", Via: "zng", Batch: 2, Bad: "tail", Cut: 9, Garbage: true})
	add("regress-compact-null-key-tie-order", "", "", 1,
		Op{Kind: "createpool", Key: "k"}, Op{Kind: "load", Via: "api", Batch: 1}, Op{Kind: "load", Via: "auto", Batch: 1}, Op{Kind: "load", Via: "api", Batch: 1},
		Op{Kind: "compact", Pick: []int{0, 1, 2}}, Op{Kind: "query", Query: "from {P}@{B}", Raws: all[:6]})
	add("regress-csv-float-twins-partitions", "", "", 1,
		pool, Op{Kind: "load", Via: "api"}, Op{Kind: "load", Via: "csv"}, Op{Kind: "load", Via: "json"},
		Op{Kind: "query", Query: "from {P}@{B}:partitions | yield len(objects) | sort this", Ordered: true},
		Op{Kind: "query", Query: "from {P}@{B} | sort this", Ordered: true, Raws: all},
		Op{Kind: "query", Query: "from {P}@{B} | sort this | head 3", Ordered: true, Raws: all})
	add("regress-all-formats-multibatch", "", "", 2,
		pool, Op{Kind: "load", Via: "zson"}, Op{Kind: "load", Via: "vng", Batch: 2}, Op{Kind: "load", Via: "zjson", Batch: 1},
		Op{Kind: "query", Query: "from {P}@{B}", Raws: all},
		Op{Kind: "query", Query: "from {P}@{B} | sort this", Ordered: true, Raws: all},
		Op{Kind: "query", Query: "from {P}@{B}:objects | yield {min,max,count,size} | sort this", Ordered: true, Raws: all},
		Op{Kind: "query", Query: "from {P}@{B} | bogus(", Ordered: true, Raws: all[:4]})
	add("regress-late-error-corrupted-object", "", "", 1,
		pool, Op{Kind: "load", Via: "api"}, Op{Kind: "load", Via: "api", Batch: 2},
		Op{Kind: "lateerr", Pick: []int{7}, Query: "from {P}@{B}", Raws: all},
		Op{Kind: "query", Query: "from {P}@{B} | count()", Ordered: true, Raws: all[:2]})
	add("regress-late-error-csv-formatter", "", "", 1,
		pool, Op{Kind: "load", Via: "api", Batch: 1},
		Op{Kind: "query", Query: "from {P}@{B} | sort this", Ordered: true, Raws: all[8:]})
	add("regress-zjson-negative-zero", "", "", 1,
		pool, Op{Kind: "load", Via: "csv"},
		Op{Kind: "query", Query: "from {P}@{B} | yield {k:k,s:s,q:v/(v-1)} | sort this", Ordered: true, Raws: all})
	add("regress-names-special-characters", "", "", 1,
		Op{Kind: "createpool", Key: "k", Name: 2}, Op{Kind: "load", Via: "api"}, Op{Kind: "branch", Name: 4}, Op{Kind: "load", Via: "zson", Branch: 1, Batch: 2},
		Op{Kind: "merge", Branch: 1, Other: 0}, Op{Kind: "tip", Branch: 1}, Op{Kind: "poolid"}, Op{Kind: "vacuum", Dry: true},
		Op{Kind: "query", Query: "from {P}@{B} | sort this", Ordered: true, Branch: 1, Raws: all[:4]}, Op{Kind: "renamepool", Name: 8}, Op{Kind: "poolid"},
		Op{Kind: "query", Query: "from :pools | cut name", Raws: all[2:4]})
	add("known-C19-path-param-plus-sign", sigPlus, "known", 1,
		Op{Kind: "createpool", Key: "k"}, Op{Kind: "branch", Name: 3}, Op{Kind: "load", Via: "api", Branch: 1})
	add("known-C19-empty-pool-name", sigEmptyPool, "known", 1,
		Op{Kind: "createpool", Key: "k"}, Op{Kind: "createpool", Key: "k", Name: -1}, Op{Kind: "query", Query: "from :pools | cut name", Raws: all[2:4]})
	add("known-C19-handler-panic-200", sigPanic200, "known", 1,
		Op{Kind: "createpool", Key: "k"}, Op{Kind: "load", Via: "vng", Batch: 0, Bad: "tail", Cut: 6},
		Op{Kind: "query", Query: "from {P}@{B} | count()", Ordered: true, Raws: all[:2]})
	add("regress-parallel-sort-tail-nondeterminism", "", "", 2,
		Op{Kind: "createpool", Key: "k", Desc: true, Stride: 16}, Op{Kind: "load", Via: "api", Batch: 1}, Op{Kind: "load", Via: "zng", Batch: 1},
		Op{Kind: "query", Query: "from {P}@{B} | sort -r this | tail 2", Ordered: true, Raws: all[:6]},
		Op{Kind: "query", Query: "from {P}@{B} | sort this | head 3", Ordered: true, Raws: all[:6]},
		Op{Kind: "deletewhere", Pred: "v == 1"})
	add("regress-history-merge-revert-vacuum", "", "", 0,
		pool, Op{Kind: "load", Via: "api"}, Op{Kind: "branch"}, Op{Kind: "load", Via: "zng", Branch: 1, Batch: 2}, Op{Kind: "merge", Branch: 1, Other: 0},
		Op{Kind: "delete", Pick: []int{0}}, Op{Kind: "revert", At: 0}, Op{Kind: "deletewhere", Pred: "k >= 2"}, Op{Kind: "compact", Pick: []int{0, 1}, Vectors: true},
		Op{Kind: "addvec", Pick: []int{0}}, Op{Kind: "vacuum"}, Op{Kind: "renamepool"}, Op{Kind: "query", Query: "from {P}@{B}:log | cut author,message,meta", Ordered: true, Raws: all[:6]},
		Op{Kind: "droppool"}, Op{Kind: "query", Query: "from :pools | cut name", Raws: all[:2]})
	return m
}

// TestWriteReplays regenerates the literal replay files: VERIF_C19_WRITE_REPLAYS=/verif/replays/C19 go test -run TestWriteReplays ./c19
func TestWriteReplays(t *testing.T) {
	dir := os.Getenv("VERIF_C19_WRITE_REPLAYS")
	if dir == "" {
		t.Skip("set VERIF_C19_WRITE_REPLAYS=<dir>")
	}
	for name, lc := range literalCases() {
		raw, err := json.Marshal(lc.c)
		if err != nil {
			t.Fatal(err)
		}
		rec := map[string]any{"test": prop.Name, "sig": lc.sig, "case": json.RawMessage(raw)}
		if lc.expect != "" {
			rec["expect"] = lc.expect
		}
		b, _ := json.MarshalIndent(rec, "", " ")
		if err := os.WriteFile(dir+"/"+name+".json", append(b, '\n'), 0o644); err != nil {
			t.Fatal(err)
		}
	}
}
