package c19

import (
	"bytes"
	"context"
	"fmt"
	"io"
	"net/http"
	"net/http/httptest"
	"os"
	"path/filepath"
	"strings"
	"testing"

	zed "github.com/brimdata/super"
	"github.com/brimdata/super/api"
	"github.com/brimdata/super/api/client"
	"github.com/brimdata/super/lake"
	lakeapi "github.com/brimdata/super/lake/api"
	"github.com/brimdata/super/order"
	"github.com/brimdata/super/pkg/field"
	"github.com/brimdata/super/pkg/storage"
	"github.com/brimdata/super/service"
	"github.com/brimdata/super/zbuf"
	"github.com/brimdata/super/zio/zsonio"
	"github.com/brimdata/super/zson"
)

func pullAll(q zbuf.Scanner) (n int, batches int, out []string, err error) {
	defer q.Pull(true)
	for {
		b, err := q.Pull(false)
		if err != nil {
			return n, batches, out, err
		}
		if b == nil {
			return n, batches, out, nil
		}
		if _, ok := b.(*zbuf.EndOfChannel); ok {
			out = append(out, "<EOC>")
			continue
		}
		batches++
		for _, v := range b.Values() {
			n++
			out = append(out, zson.FormatValue(v))
		}
		b.Unref()
	}
}

func TestProbe(t *testing.T) {
	ctx := context.Background()
	dirA, _ := os.MkdirTemp("", "c19a")
	dirB, _ := os.MkdirTemp("", "c19b")
	defer os.RemoveAll(dirA)
	defer os.RemoveAll(dirB)
	rootA, err := lake.Create(ctx, storage.NewLocalEngine(), nil, storage.MustParseURI(dirA))
	if err != nil {
		t.Fatal(err)
	}
	A := lakeapi.FromRoot(rootA)
	core, err := service.NewCore(ctx, service.Config{Root: storage.MustParseURI(dirB)})
	if err != nil {
		t.Fatal(err)
	}
	srv := httptest.NewServer(core)
	defer srv.Close()
	conn := client.NewConnectionTo(srv.URL)
	B := lakeapi.NewRemoteLake(conn)
	sk := order.SortKeys{order.NewSortKey(order.Asc, field.Path{"k"})}
	msg := api.CommitMessage{Author: "a", Body: "b"}
	var pid [2]any
	for i, l := range []lakeapi.Interface{A, B} {
		id, err := l.CreatePool(ctx, "p", sk, 0, 0)
		fmt.Println("create", i, id, err)
		pid[i] = id
		for _, src := range []string{"{k:1,s:\"a\"} {k:2,s:\"b\"}", "{k:11,s:\"c\"} {k:12,t:1}"} {
			zctx := zed.NewContext()
			c, err := l.Load(ctx, zctx, id, "main", zsonio.NewReader(zctx, strings.NewReader(src)), msg)
			fmt.Println("load", i, c, err)
		}
		err = l.CreateBranch(ctx, id, "b1", [20]byte{})
		fmt.Println("createbranch", i, err)
		err = l.RemoveBranch(ctx, id, "b1")
		fmt.Println("removebranch", i, err)
		_, err = l.DeleteWhere(ctx, id, "main", "k ==", msg)
		fmt.Println("deletewhere-bad", i, err)
		_, err = l.DeleteWhere(ctx, id, "main", "k == 99", msg)
		fmt.Println("deletewhere-none", i, err)
		_, err = l.Delete(ctx, id, "main", nil, msg)
		fmt.Println("delete-empty", i, err)
		for _, qs := range []string{"from p", "from p | sort this", "from :pools | cut name", "from p@main:objects | cut count", "from p | bad(", "from nosuch", "from p@main:log | cut author"} {
			q, err := l.Query(ctx, nil, qs)
			if err != nil {
				fmt.Println("query", i, qs, "ERR", err)
				continue
			}
			n, nb, out, err := pullAll(q)
			fmt.Println("query", i, qs, n, nb, out, err)
		}
	}
	// raw queries
	for _, f := range []string{"zng", "zson", "zjson", "json", "csv"} {
		for _, ctrl := range []string{"T", "F"} {
			mt, _ := api.FormatToMediaType(f)
			req, _ := http.NewRequest("POST", srv.URL+"/query?ctrl="+ctrl, strings.NewReader(`{"query":"from p | sort this"}`))
			req.Header.Set("Accept", mt)
			req.Header.Set("Content-Type", "application/json")
			res, err := http.DefaultClient.Do(req)
			if err != nil {
				t.Fatal(err)
			}
			body, _ := io.ReadAll(res.Body)
			res.Body.Close()
			fmt.Printf("raw %s ctrl=%s status=%d ct=%s id=%s body=%q\n", f, ctrl, res.StatusCode, res.Header.Get("Content-Type"), res.Header.Get("X-Request-Id"), body)
		}
	}
	// late error: remove data file of second object on both
	for i, dir := range []string{dirA, dirB} {
		var files []string
		filepath.Walk(dir, func(p string, info os.FileInfo, err error) error {
			if err == nil && !info.IsDir() && strings.Contains(p, "/data/") && strings.HasSuffix(p, ".zng") && !strings.Contains(p, "seek") {
				files = append(files, p)
			}
			return nil
		})
		fmt.Println("files", i, files)
	}
	_ = bytes.NewReader
}
