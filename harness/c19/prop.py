PROP = dict(
    level="exploration",
    rule="C19: operation/query histories applied to a direct lake handle and to a remote handle over a served copy, compared after every step",
    level_text="Exploration by stateful differential property testing: generated histories are executed twice (lakeapi.FromRoot over one scratch directory, lakeapi.NewRemoteLake + raw HTTP requests against an httptest server over another) and error presence, on-disk lake content and query output are compared after every step; sampled, not exhaustive.",
    level_note="Trusted: the harness's cold re-open of both directories (lake.Open) as the state observer; the repo's own format writers as the reference formatter for raw responses (jsonio.NewArrayWriter for json, as documented for the service). Error text and HTTP status kinds are not compared, only error presence. Not covered: auth, S3 roots, events, concurrency of several clients, response formats outside {zng,zson,zjson,json,csv}.",
    technique="stateful differential property-based testing (rapid) with late-error injection",
    assumptions=[
        "both lakes live on the real file engine in per-case scratch directories under TMPDIR",
        "a late query error counts as reported when the remote puller returns it, when a QueryError control message is present (ctrl=T with zng/zjson), or - for responses that cannot carry control messages - when GET /query/status/{id} reports it (documented API contract); set VERIF_C19_STRICT_INBAND=1 to treat status-endpoint-only reporting as a violation",
        "empty id lists for Delete and sort-key-less CreatePool are outside the generated domain (the CLI never issues them)",
    ],
    tests=[dict(name="TestServiceEquivalence", quick=(8, 40), thorough=(16, 500))],
)
