PROP = dict(
    level="exploration",
    rule="C19: operation/query histories applied to a direct lake handle and to a remote handle over a served copy, compared after every step",
    level_text="Exploration by stateful differential property testing: generated histories are executed twice (lakeapi.FromRoot over one scratch directory, lakeapi.NewRemoteLake + raw HTTP requests against an httptest server over another) and error presence, on-disk lake content and query output are compared after every step; sampled, not exhaustive.",
    level_note="Trusted: the harness's cold re-open of both directories (lake.Open) as the state observer; the repo's own format writers as the reference formatter for raw responses (jsonio.NewArrayWriter for json, as documented for the service). Error text and HTTP status kinds are not compared, only error presence. Not covered: auth, S3 roots, events, concurrency of several clients, response formats outside {zng,zson,zjson,json,csv}.",
    technique="stateful differential property-based testing (rapid) with late-error injection",
    assumptions=[
        "both lakes live on the real file engine in per-case scratch directories under TMPDIR",
        "a late query error counts as reported when the remote puller returns it, when a QueryError control message is present (ctrl=T with zng/zjson), or - for responses that cannot carry control messages - when GET /query/status/{id} reports it (documented API contract); set VERIF_C19_STRICT_INBAND=1 to treat status-endpoint-only reporting as a violation",
        "empty id lists for Delete, sort-key-less CreatePool, empty branch names and names containing a single quote (documented as illegal) are outside the generated domain",
        "how a rewrite (delete-where, compact) partitions equal branch contents into objects is not compared: it varies from run to run on one lake for pools whose objects tie on min/max (key `this`); such a history ends at that step (label state:layout-differs)",
        "under compiler.Parallelism != 1 a query mismatch counts only if it reproduces in 6 consecutive attempts (some programs, e.g. `sort -r this | tail 2`, are nondeterministic under a parallelised scan)",
    ],
    tests=[dict(name="TestServiceEquivalence", quick=(8, 40), thorough=(16, 150), timeout=dict(quick=1500, thorough=3400))],
)
