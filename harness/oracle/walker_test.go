package oracle

import (
	"testing"

	zed "github.com/brimdata/super"
	"github.com/brimdata/super/zson"
)

// The walker must not allocate on consistent values (C11 measures the
// allocations of the code under test around loops that call it).
func TestWalkerAllocFree(t *testing.T) {
	zctx := zed.NewContext()
	v, err := zson.ParseValue(zctx, `{a:1,b:[1,2,3],c:|[1.5,2.5]|,d:|{"k":{x:1(uint8)}}|,e:"s"((int64,string)),f:<{a:[int64]}>,g:10.0.0.1,h:error({m:"x"}),i:%b(enum(a,b))}`)
	if err != nil {
		t.Fatal(err)
	}
	if is := CheckValue(v); is != nil {
		t.Fatal(is)
	}
	if n := testing.AllocsPerRun(100, func() { CheckValue(v) }); n != 0 {
		t.Fatalf("CheckValue allocates %v times per consistent value", n)
	}
}
