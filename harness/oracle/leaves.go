package oracle

import (
	"bytes"
	"fmt"
	"sort"
	"strings"

	zed "github.com/brimdata/super"
	"github.com/brimdata/super/zcode"
)

// This file holds the "information content" view of a value used by C20 (fuse
// is lossless) and available to C03 (projections): what a value says once
// type names and union tags are removed.
//
//   - Leaves(v) is the flat form: the multiset of non-null leaves
//     (path, leaf type, bytes).
//   - InfoOf(v) / SameInfo(in, out) is the structural form that additionally
//     keeps elements grouped per container, so that "elements are compared as
//     a multiset per container, in order when both sides are arrays" can be
//     decided exactly.

// Leaf is one non-null leaf of a value.  Path steps are ".name" for a record
// field, "[]" for an element of an array or set, "{<key>}" for the value of a
// map entry (key rendered canonically), "{}" for the key itself and "!" for the
// payload of an error value.  Type is the canonical type value bytes of the
// leaf's type with names removed (one byte for primitives; enums keep their
// symbol list).
type Leaf struct {
	Path  string
	Type  string
	Bytes string
}

func (l Leaf) String() string {
	return fmt.Sprintf("%s type=%x bytes=%x", l.Path, l.Type, l.Bytes)
}

// Leaves returns the non-null leaves of v in a deterministic order (sorted).
func Leaves(v zed.Value) []Leaf {
	var out []Leaf
	collectLeaves(&out, "", InfoOf(v))
	sort.Slice(out, func(i, j int) bool {
		a, b := out[i], out[j]
		if a.Path != b.Path {
			return a.Path < b.Path
		}
		if a.Type != b.Type {
			return a.Type < b.Type
		}
		return a.Bytes < b.Bytes
	})
	return out
}

func collectLeaves(out *[]Leaf, path string, n *Info) {
	if n == nil {
		return
	}
	switch n.Kind {
	case KindPrim:
		*out = append(*out, Leaf{Path: path, Type: n.Type, Bytes: string(n.Bytes)})
	case KindRecord:
		for i, name := range n.Names {
			collectLeaves(out, path+"."+name, n.Elems[i])
		}
	case KindArray, KindSet:
		for _, e := range n.Elems {
			collectLeaves(out, path+"[]", e)
		}
	case KindMap:
		for i := 0; i+1 < len(n.Elems); i += 2 {
			collectLeaves(out, path+"{}", n.Elems[i])
			collectLeaves(out, path+"{"+n.Elems[i].Canon()+"}", n.Elems[i+1])
		}
	case KindError:
		collectLeaves(out, path+"!", n.Elems[0])
	}
}

// SameLeaves compares the flat leaf multisets of two values.
func SameLeaves(in, out zed.Value) string {
	a, b := Leaves(in), Leaves(out)
	cnt := map[Leaf]int{}
	for _, l := range a {
		cnt[l]++
	}
	for _, l := range b {
		cnt[l]--
	}
	var diffs []string
	for l, n := range cnt {
		if n > 0 {
			diffs = append(diffs, fmt.Sprintf("lost leaf %s (x%d)", l, n))
		} else if n < 0 {
			diffs = append(diffs, fmt.Sprintf("extra leaf %s (x%d)", l, -n))
		}
	}
	sort.Strings(diffs)
	if len(diffs) > 4 {
		diffs = append(diffs[:4], fmt.Sprintf("... %d more", len(diffs)-4))
	}
	return strings.Join(diffs, "; ")
}

type InfoKind byte

const (
	KindPrim   InfoKind = 'p'
	KindRecord InfoKind = 'r'
	KindArray  InfoKind = 'a'
	KindSet    InfoKind = 's'
	KindMap    InfoKind = 'm'
	KindError  InfoKind = 'e'
)

// Info is the structural normal form of a non-null value with names and union
// tags removed.  A null value (of any type) is the nil *Info.
type Info struct {
	Kind  InfoKind
	Type  string   // KindPrim: canonical bytes of the leaf type (names removed)
	Bytes []byte   // KindPrim
	Names []string // KindRecord: field names, parallel to Elems
	// KindRecord: field infos (nil for null fields); KindArray/KindSet:
	// elements; KindMap: key0,val0,key1,val1,...; KindError: the payload.
	Elems []*Info
}

// InfoOf computes the normal form of v.
func InfoOf(v zed.Value) *Info {
	return infoOf(v.Type(), v.Bytes())
}

func leafTypeKey(typ zed.Type) string {
	return string(zed.EncodeTypeValue(typ))
}

func infoOf(typ zed.Type, body zcode.Bytes) *Info {
	if body == nil {
		return nil
	}
	switch typ := typ.(type) {
	case *zed.TypeNamed:
		return infoOf(typ.Type, body)
	case *zed.TypeUnion:
		it := body.Iter()
		tag := int(zed.DecodeInt(it.Next()))
		if tag < 0 || tag >= len(typ.Types) {
			panic(fmt.Sprintf("oracle.InfoOf: union tag %d out of range", tag))
		}
		return infoOf(typ.Types[tag], it.Next())
	case *zed.TypeError:
		return &Info{Kind: KindError, Elems: []*Info{infoOf(typ.Type, body)}}
	case *zed.TypeRecord:
		n := &Info{Kind: KindRecord}
		it := body.Iter()
		for _, f := range typ.Fields {
			n.Names = append(n.Names, f.Name)
			n.Elems = append(n.Elems, infoOf(f.Type, it.Next()))
		}
		return n
	case *zed.TypeArray:
		n := &Info{Kind: KindArray}
		for it := body.Iter(); !it.Done(); {
			n.Elems = append(n.Elems, infoOf(typ.Type, it.Next()))
		}
		return n
	case *zed.TypeSet:
		n := &Info{Kind: KindSet}
		for it := body.Iter(); !it.Done(); {
			n.Elems = append(n.Elems, infoOf(typ.Type, it.Next()))
		}
		return n
	case *zed.TypeMap:
		n := &Info{Kind: KindMap}
		for it := body.Iter(); !it.Done(); {
			n.Elems = append(n.Elems, infoOf(typ.KeyType, it.Next()))
			n.Elems = append(n.Elems, infoOf(typ.ValType, it.Next()))
		}
		return n
	default:
		// primitives and enums
		return &Info{Kind: KindPrim, Type: leafTypeKey(typ), Bytes: append([]byte{}, body...)}
	}
}

// HasLeaves reports whether n contains at least one non-null leaf.
func (n *Info) HasLeaves() bool {
	if n == nil {
		return false
	}
	if n.Kind == KindPrim {
		return true
	}
	for _, e := range n.Elems {
		if e.HasLeaves() {
			return true
		}
	}
	return false
}

func (n *Info) isContainer() bool {
	return n != nil && (n.Kind == KindArray || n.Kind == KindSet || n.Kind == KindMap)
}

// Canon renders n canonically: record fields sorted by name with leafless
// fields dropped, set elements and map entries sorted, array order kept.  Two
// infos with the same Canon carry the same information (the converse holds up
// to array-vs-set, which Canon distinguishes).
func (n *Info) Canon() string {
	var b strings.Builder
	n.canon(&b)
	return b.String()
}

func (n *Info) canon(b *strings.Builder) {
	if n == nil {
		b.WriteString("~")
		return
	}
	switch n.Kind {
	case KindPrim:
		fmt.Fprintf(b, "p%x:%x", n.Type, n.Bytes)
	case KindError:
		b.WriteString("e(")
		n.Elems[0].canon(b)
		b.WriteString(")")
	case KindRecord:
		idx := make([]int, 0, len(n.Names))
		for i := range n.Names {
			if n.Elems[i].HasLeaves() || n.Elems[i].isContainer() {
				idx = append(idx, i)
			}
		}
		sort.Slice(idx, func(i, j int) bool { return n.Names[idx[i]] < n.Names[idx[j]] })
		b.WriteString("r{")
		for _, i := range idx {
			fmt.Fprintf(b, "%q=", n.Names[i])
			n.Elems[i].canon(b)
			b.WriteString(",")
		}
		b.WriteString("}")
	case KindArray:
		b.WriteString("a[")
		for _, e := range n.Elems {
			e.canon(b)
			b.WriteString(",")
		}
		b.WriteString("]")
	case KindSet:
		var parts []string
		for _, e := range n.Elems {
			parts = append(parts, e.Canon())
		}
		sort.Strings(parts)
		b.WriteString("s[" + strings.Join(parts, ",") + "]")
	case KindMap:
		var parts []string
		for i := 0; i+1 < len(n.Elems); i += 2 {
			parts = append(parts, n.Elems[i].Canon()+"=>"+n.Elems[i+1].Canon())
		}
		sort.Strings(parts)
		b.WriteString("m[" + strings.Join(parts, ",") + "]")
	}
}

// SameInfo decides whether out carries exactly the information of in:
//
//   - every non-null leaf of in is in out at the same path with the same leaf
//     type and bytes, and out has no other non-null leaf;
//   - elements of an array/set are compared per container: pairwise in order
//     when both sides are arrays; as a set (duplicates after normalisation
//     collapse) when both sides are sets; as a multiset otherwise;
//   - map entries are matched by the canonical rendering of their keys;
//   - a non-null empty container of in must not become a non-empty container;
//   - a part of in without any leaf only requires out to have no leaf there
//     (null, a record of nulls and an empty container are interchangeable in
//     that position, which is all "everything else is null" promises).
//
// It returns "" or a description of the first difference.
func SameInfo(in, out *Info) string {
	return sameInfo("", in, out)
}

func sameInfo(path string, in, out *Info) string {
	if path == "" {
		path = "this"
	}
	if !in.HasLeaves() {
		if out.HasLeaves() {
			return fmt.Sprintf("at %s: input has no non-null leaf, output has %s", path, out.Canon())
		}
		if in.isContainer() && len(in.Elems) == 0 && out.isContainer() && len(out.Elems) > 0 {
			return fmt.Sprintf("at %s: empty container became non-empty: %s", path, out.Canon())
		}
		return ""
	}
	if out == nil {
		return fmt.Sprintf("at %s: input %s became null", path, in.Canon())
	}
	switch in.Kind {
	case KindPrim:
		if out.Kind != KindPrim || out.Type != in.Type || !bytes.Equal(out.Bytes, in.Bytes) {
			return fmt.Sprintf("at %s: leaf %s became %s", path, in.Canon(), out.Canon())
		}
		return ""
	case KindError:
		if out.Kind != KindError {
			return fmt.Sprintf("at %s: error value %s became %s", path, in.Canon(), out.Canon())
		}
		return sameInfo(path+"!", in.Elems[0], out.Elems[0])
	case KindRecord:
		if out.Kind != KindRecord {
			return fmt.Sprintf("at %s: record %s became %s", path, in.Canon(), out.Canon())
		}
		outIdx := map[string]int{}
		for i, name := range out.Names {
			outIdx[name] = i
		}
		seen := map[string]bool{}
		for i, name := range in.Names {
			seen[name] = true
			var o *Info
			if j, ok := outIdx[name]; ok {
				o = out.Elems[j]
			}
			if d := sameInfo(path+"."+name, in.Elems[i], o); d != "" {
				return d
			}
		}
		for j, name := range out.Names {
			if !seen[name] && out.Elems[j].HasLeaves() {
				return fmt.Sprintf("at %s.%s: field absent from the input is not null in the output: %s", path, name, out.Elems[j].Canon())
			}
		}
		return ""
	case KindArray, KindSet:
		if out.Kind != KindArray && out.Kind != KindSet {
			return fmt.Sprintf("at %s: %s became %s", path, in.Canon(), out.Canon())
		}
		if in.Kind == KindArray && out.Kind == KindArray {
			if len(in.Elems) != len(out.Elems) {
				return fmt.Sprintf("at %s: array of %d elements became array of %d elements", path, len(in.Elems), len(out.Elems))
			}
			for i := range in.Elems {
				if d := sameInfo(fmt.Sprintf("%s[%d]", path, i), in.Elems[i], out.Elems[i]); d != "" {
					return d
				}
			}
			return ""
		}
		return sameUnordered(path+"[]", in.Elems, out.Elems, 1, in.Kind == KindSet && out.Kind == KindSet)
	case KindMap:
		if out.Kind != KindMap {
			return fmt.Sprintf("at %s: map %s became %s", path, in.Canon(), out.Canon())
		}
		return sameUnordered(path+"{}", in.Elems, out.Elems, 2, false)
	}
	panic("oracle.SameInfo: unknown kind")
}

// sameUnordered matches groups of `stride` infos (1: elements; 2: key,value
// entries) without regard to order.  Leafless groups are ignored on both sides.
// With asSet every input group needs some matching output group and vice versa;
// otherwise the matching must be one-to-one.
func sameUnordered(path string, in, out []*Info, stride int, asSet bool) string {
	has := func(g []*Info) bool {
		for _, e := range g {
			if e.HasLeaves() {
				return true
			}
		}
		return false
	}
	var ins, outs [][]*Info
	for i := 0; i+stride <= len(in); i += stride {
		if has(in[i : i+stride]) {
			ins = append(ins, in[i:i+stride])
		}
	}
	for i := 0; i+stride <= len(out); i += stride {
		if has(out[i : i+stride]) {
			outs = append(outs, out[i:i+stride])
		}
	}
	match := func(a, b []*Info) bool {
		if stride == 2 {
			// map entry: keys are matched by their rendering
			if a[0].Canon() != b[0].Canon() {
				return false
			}
			return sameInfo(path, a[1], b[1]) == ""
		}
		return sameInfo(path, a[0], b[0]) == ""
	}
	used := make([]bool, len(outs))
	for _, a := range ins {
		found := false
		for j, b := range outs {
			if (asSet || !used[j]) && match(a, b) {
				used[j] = true
				found = true
				if !asSet {
					break
				}
			}
		}
		if !found {
			return fmt.Sprintf("at %s: input element %s has no counterpart in the output (%d input, %d output elements with leaves)", path, canonGroup(a), len(ins), len(outs))
		}
	}
	for j, b := range outs {
		if !used[j] {
			return fmt.Sprintf("at %s: output element %s has no counterpart in the input (%d input, %d output elements with leaves)", path, canonGroup(b), len(ins), len(outs))
		}
	}
	return ""
}

func canonGroup(g []*Info) string {
	var parts []string
	for _, e := range g {
		parts = append(parts, e.Canon())
	}
	return strings.Join(parts, "=>")
}
