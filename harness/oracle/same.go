// Package oracle holds the comparison predicates shared by the properties.
// Identity of a value is (canonical type value bytes, value bytes) — never
// pointer identity, because values may live in different contexts.
package oracle

import (
	"bytes"
	"fmt"
	"math"
	"sort"

	zed "github.com/brimdata/super"
	"github.com/brimdata/super/zcode"
	"github.com/brimdata/super/zson"
)

// Key returns the identity of v as a string: type value bytes, a separator
// distinguishing null from empty, and the value bytes.
func Key(v zed.Value) string {
	tv := zed.EncodeTypeValue(v.Type())
	var b []byte
	b = append(b, byte(len(tv)>>16), byte(len(tv)>>8), byte(len(tv)))
	b = append(b, tv...)
	if v.IsNull() {
		b = append(b, 0)
	} else {
		b = append(b, 1)
		b = append(b, v.Bytes()...)
	}
	return string(b)
}

func Show(v zed.Value) (s string) {
	defer func() {
		if r := recover(); r != nil {
			s = fmt.Sprintf("<unformattable %v type=%x bytes=%x>", r, zed.EncodeTypeValue(v.Type()), v.Bytes())
		}
	}()
	s = zson.FormatValue(v)
	if len(s) > 300 {
		s = s[:300] + "..."
	}
	return s
}

// Same reports the first difference between two sequences, or "" if they are
// pairwise identical.
func Same(a, b []zed.Value) string {
	n := min(len(a), len(b))
	for i := 0; i < n; i++ {
		if Key(a[i]) != Key(b[i]) {
			return fmt.Sprintf("value %d differs: want %s (bytes %x) got %s (bytes %x)", i, Show(a[i]), a[i].Bytes(), Show(b[i]), b[i].Bytes())
		}
	}
	if len(a) != len(b) {
		return fmt.Sprintf("length differs: want %d got %d", len(a), len(b))
	}
	return ""
}

// SameMultiset reports a difference between the two multisets or "".
func SameMultiset(a, b []zed.Value) string {
	ca := map[string]int{}
	rep := map[string]zed.Value{}
	for _, v := range a {
		k := Key(v)
		ca[k]++
		rep[k] = v
	}
	for _, v := range b {
		k := Key(v)
		ca[k]--
		rep[k] = v
	}
	var keys []string
	for k, n := range ca {
		if n != 0 {
			keys = append(keys, k)
		}
	}
	if len(keys) == 0 {
		return ""
	}
	sort.Strings(keys)
	k := keys[0]
	if ca[k] > 0 {
		return fmt.Sprintf("%d multiset differences (want %d values, got %d); first: %s missing %d time(s)", len(keys), len(a), len(b), Show(rep[k]), ca[k])
	}
	return fmt.Sprintf("%d multiset differences (want %d values, got %d); first: %s extra %d time(s)", len(keys), len(a), len(b), Show(rep[k]), -ca[k])
}

// CopyAll deep-copies values (so they survive batch recycling).
func CopyAll(vals []zed.Value) []zed.Value {
	out := make([]zed.Value, len(vals))
	for i, v := range vals {
		out[i] = v.Copy()
	}
	return out
}

// MapLeaves returns a copy of v in which every primitive leaf body has been
// passed through f (which receives the leaf's primitive type and body and
// returns the replacement body).  Used to neutralise known defects ("compare
// after replacing -0 by +0").  Sets and maps are re-normalised.
func MapLeaves(v zed.Value, f func(typ zed.Type, body zcode.Bytes) zcode.Bytes) zed.Value {
	var b zcode.Builder
	mapLeaves(&b, v.Type(), v.Bytes(), f)
	return zed.NewValue(v.Type(), b.Bytes().Body())
}

func mapLeaves(b *zcode.Builder, typ zed.Type, body zcode.Bytes, f func(zed.Type, zcode.Bytes) zcode.Bytes) {
	if body == nil {
		b.Append(nil)
		return
	}
	switch typ := typ.(type) {
	case *zed.TypeNamed:
		mapLeaves(b, typ.Type, body, f)
	case *zed.TypeError:
		mapLeaves(b, typ.Type, body, f)
	case *zed.TypeRecord:
		b.BeginContainer()
		it := body.Iter()
		for _, fld := range typ.Fields {
			mapLeaves(b, fld.Type, it.Next(), f)
		}
		b.EndContainer()
	case *zed.TypeArray:
		b.BeginContainer()
		for it := body.Iter(); !it.Done(); {
			mapLeaves(b, typ.Type, it.Next(), f)
		}
		b.EndContainer()
	case *zed.TypeSet:
		b.BeginContainer()
		for it := body.Iter(); !it.Done(); {
			mapLeaves(b, typ.Type, it.Next(), f)
		}
		b.TransformContainer(zed.NormalizeSet)
		b.EndContainer()
	case *zed.TypeMap:
		b.BeginContainer()
		for it := body.Iter(); !it.Done(); {
			mapLeaves(b, typ.KeyType, it.Next(), f)
			mapLeaves(b, typ.ValType, it.Next(), f)
		}
		b.TransformContainer(zed.NormalizeMap)
		b.EndContainer()
	case *zed.TypeUnion:
		it := body.Iter()
		tagBytes := it.Next()
		tag := int(zed.DecodeInt(tagBytes))
		b.BeginContainer()
		b.Append(tagBytes)
		mapLeaves(b, typ.Types[tag], it.Next(), f)
		b.EndContainer()
	default:
		out := f(typ, body)
		if out == nil {
			b.Append(nil)
		} else {
			b.Append(out)
		}
	}
}

// CanonNaN maps every NaN payload of a float leaf to one canonical NaN.
func CanonNaN(typ zed.Type, body zcode.Bytes) zcode.Bytes {
	switch typ.ID() {
	case zed.IDFloat16:
		if f := zed.DecodeFloat16(body); f != f {
			return zed.EncodeFloat16(float32(math.NaN()))
		}
	case zed.IDFloat32:
		if f := zed.DecodeFloat32(body); f != f {
			return zed.EncodeFloat32(float32(math.NaN()))
		}
	case zed.IDFloat64:
		if f := zed.DecodeFloat64(body); f != f {
			return zed.EncodeFloat64(math.NaN())
		}
	}
	return body
}

// HasLeaf reports whether some non-null primitive leaf of v satisfies pred.
func HasLeaf(v zed.Value, pred func(typ zed.Type, body zcode.Bytes) bool) bool {
	found := false
	MapLeaves(v, func(typ zed.Type, body zcode.Bytes) zcode.Bytes {
		if pred(typ, body) {
			found = true
		}
		return body
	})
	return found
}

// TypeHas reports whether pred holds for typ or any type nested in it.
func TypeHas(typ zed.Type, pred func(zed.Type) bool) bool {
	if pred(typ) {
		return true
	}
	switch typ := typ.(type) {
	case *zed.TypeNamed:
		return TypeHas(typ.Type, pred)
	case *zed.TypeError:
		return TypeHas(typ.Type, pred)
	case *zed.TypeRecord:
		for _, f := range typ.Fields {
			if TypeHas(f.Type, pred) {
				return true
			}
		}
	case *zed.TypeArray:
		return TypeHas(typ.Type, pred)
	case *zed.TypeSet:
		return TypeHas(typ.Type, pred)
	case *zed.TypeMap:
		return TypeHas(typ.KeyType, pred) || TypeHas(typ.ValType, pred)
	case *zed.TypeUnion:
		for _, m := range typ.Types {
			if TypeHas(m, pred) {
				return true
			}
		}
	}
	return false
}

func IsComplex(typ zed.Type) bool { return !zed.IsPrimitiveType(typ) }

var _ = bytes.Equal
