package oracle

// An independent structural walker for Zed values: it decides whether the
// bytes of a value are structurally consistent with the value's type without
// calling zed.Walk, zed.Value.Validate, zcode.Iter or Context.DecodeTypeValue
// (the code under test).  It never panics on any input.
//
// "Structurally consistent" is what docs/formats/zng.md section 2.2/3/4
// prescribes for the body of a value of a given type:
//   - a container body is a concatenation of well-formed tag-encoded values
//     (uvarint tag, 0 = null, else length+1, length within the body);
//   - record: exactly one element per field and nothing after the last one;
//     union: exactly two elements, a non-null tag in range (counted varint,
//     any byte length, wrapping like the code base decodes it) and the member
//     value; map: an even number of
//     elements, keys strictly increasing (bytes of tag+body); set: elements
//     strictly increasing (bytes of tag+body); enum: selector in range;
//   - primitives of fixed size have that size (bool 1, float16/32/64 2/4/8,
//     ip 4|16, net 8|32); a value of type `type` is a complete well-formed
//     type value with nothing after it;
//   - recursion into every interior, including the elements of sets.
//
// Content-level properties (UTF-8 validity of strings, integer width versus
// the declared integer type, contiguity of net masks, sortedness of union
// member types inside a type value) are deliberately NOT checked.

import (
	"bytes"
	"encoding/binary"
	"fmt"
	"unicode/utf8"

	zed "github.com/brimdata/super"
	"github.com/brimdata/super/zcode"
)

// Issue describes the first structural inconsistency found.
type Issue struct {
	Class  string // short class name, e.g. "framing", "prim-length", "record-arity"
	InSet  bool   // the offending node lies inside an element of a set
	Path   string // e.g. ".f2[]{}k"
	Detail string
}

func (i *Issue) String() string {
	if i == nil {
		return "<consistent>"
	}
	s := i.Class
	if i.InSet {
		s += " (inside a set element)"
	}
	return fmt.Sprintf("%s at %q: %s", s, i.Path, i.Detail)
}

// CheckValue returns nil when v is structurally consistent with its type.
func CheckValue(v zed.Value) *Issue {
	if v.Type() == nil {
		return &Issue{Class: "nil-type", Detail: "value has a nil type"}
	}
	var body zcode.Bytes
	if !v.IsNull() {
		body = v.Bytes()
		if body == nil {
			body = zcode.Bytes{}
		}
	}
	w := walker{}
	return w.check(v.Type(), body, false, 0)
}

type walker struct{}

type elem struct {
	body []byte // nil for null
	raw  []byte // tag + body
}

// split parses a container body into its tag-encoded elements.
func split(body []byte) ([]elem, string) {
	var out []elem
	for len(body) > 0 {
		tag, n := binary.Uvarint(body)
		if n <= 0 {
			return nil, fmt.Sprintf("bad tag uvarint (%d) with %d bytes left", n, len(body))
		}
		if tag == 0 {
			out = append(out, elem{nil, body[:n]})
			body = body[n:]
			continue
		}
		l := tag - 1
		if l > uint64(len(body)-n) {
			return nil, fmt.Sprintf("element length %d exceeds the %d bytes left in the container", l, len(body)-n)
		}
		end := n + int(l)
		out = append(out, elem{body[n:end:end], body[:end]})
		body = body[end:]
	}
	return out, ""
}

// first parses the first tag-encoded element of body and returns it with its
// encoded length.
func first(body []byte) (elem, int, string) {
	tag, n := binary.Uvarint(body)
	if n <= 0 {
		return elem{}, 0, fmt.Sprintf("bad tag uvarint (%d) with %d bytes left", n, len(body))
	}
	if tag == 0 {
		return elem{nil, body[:n]}, n, ""
	}
	l := tag - 1
	if l > uint64(len(body)-n) {
		return elem{}, 0, fmt.Sprintf("element length %d exceeds the %d bytes left in the container", l, len(body)-n)
	}
	end := n + int(l)
	return elem{body[n:end:end], body[:end]}, end, ""
}

const maxDepth = 10000

// check is allocation-free as long as the value is consistent (the harness
// measures the allocations of the code under test around loops that call it):
// paths are assembled only while an Issue travels back up.
func (w *walker) check(typ zed.Type, body []byte, inSet bool, depth int) *Issue {
	if depth > maxDepth {
		return &Issue{Class: "depth", InSet: inSet, Detail: "type nesting too deep"}
	}
	if typ == nil {
		return &Issue{Class: "nil-type", InSet: inSet, Detail: "nil type inside the value's type"}
	}
	switch typ := typ.(type) {
	case *zed.TypeNamed:
		return w.check(typ.Type, body, inSet, depth+1)
	case *zed.TypeError:
		return under(w.check(typ.Type, body, inSet, depth+1), "!")
	}
	if body == nil {
		return nil // null of any type
	}
	switch typ := typ.(type) {
	case *zed.TypeRecord:
		// one element per field, then nothing
		rest := body
		for i, f := range typ.Fields {
			if len(rest) == 0 {
				return bad(inSet, "record-arity", "record body has %d elements, type has %d fields", i, len(typ.Fields))
			}
			e, n, msg := first(rest)
			if msg != "" {
				return bad(inSet, "framing", "record body, field %d: %s", i, msg)
			}
			rest = rest[n:]
			if is := w.check(f.Type, e.body, inSet, depth+1); is != nil {
				return under(is, fmt.Sprintf(".%d", i))
			}
		}
		if len(rest) != 0 {
			return bad(inSet, "record-trailing", "%d bytes follow the last of the %d fields in the record body", len(rest), len(typ.Fields))
		}
		return nil
	case *zed.TypeArray:
		for rest := body; len(rest) > 0; {
			e, n, msg := first(rest)
			if msg != "" {
				return bad(inSet, "framing", "array body: %s", msg)
			}
			rest = rest[n:]
			if is := w.check(typ.Type, e.body, inSet, depth+1); is != nil {
				return under(is, "[]")
			}
		}
		return nil
	case *zed.TypeSet:
		// framing and order of the whole set first, then the interiors
		var prev []byte
		i := 0
		for rest := body; len(rest) > 0; i++ {
			e, n, msg := first(rest)
			if msg != "" {
				return bad(inSet, "framing", "set body: %s", msg)
			}
			rest = rest[n:]
			if prev != nil {
				switch c := bytes.Compare(prev, e.raw); {
				case c == 0:
					return bad(inSet, "set-dup", "set elements %d and %d are identical", i-1, i)
				case c > 0:
					return bad(inSet, "set-order", "set element %d sorts before element %d", i, i-1)
				}
			}
			prev = e.raw
		}
		for rest := body; len(rest) > 0; {
			e, n, _ := first(rest)
			rest = rest[n:]
			if is := w.check(typ.Type, e.body, true, depth+1); is != nil {
				return under(is, "|[]|")
			}
		}
		return nil
	case *zed.TypeMap:
		var prev []byte
		i := 0
		for rest := body; len(rest) > 0; i++ {
			k, n, msg := first(rest)
			if msg != "" {
				return bad(inSet, "framing", "map body: %s", msg)
			}
			rest = rest[n:]
			if len(rest) == 0 {
				return bad(inSet, "map-odd", "map body has an odd number (%d) of elements", 2*i+1)
			}
			_, n, msg = first(rest)
			if msg != "" {
				return bad(inSet, "framing", "map body: %s", msg)
			}
			rest = rest[n:]
			if prev != nil {
				switch c := bytes.Compare(prev, k.raw); {
				case c == 0:
					return bad(inSet, "map-order", "map keys %d and %d are identical", i-1, i)
				case c > 0:
					return bad(inSet, "map-order", "map key %d sorts before key %d", i, i-1)
				}
			}
			prev = k.raw
		}
		for rest := body; len(rest) > 0; {
			k, n, _ := first(rest)
			rest = rest[n:]
			v, n, _ := first(rest)
			rest = rest[n:]
			if is := w.check(typ.KeyType, k.body, inSet, depth+1); is != nil {
				return under(is, "{k}")
			}
			if is := w.check(typ.ValType, v.body, inSet, depth+1); is != nil {
				return under(is, "{v}")
			}
		}
		return nil
	case *zed.TypeUnion:
		if len(body) == 0 {
			return bad(inSet, "union-arity", "union body has 0 elements, want 2")
		}
		t, n, msg := first(body)
		if msg != "" {
			return bad(inSet, "framing", "union body: %s", msg)
		}
		rest := body[n:]
		if len(rest) == 0 {
			return bad(inSet, "union-arity", "union body has 1 element, want 2")
		}
		v, n, msg := first(rest)
		if msg != "" {
			return bad(inSet, "framing", "union body: %s", msg)
		}
		if len(rest[n:]) != 0 {
			return bad(inSet, "union-arity", "union body has more than 2 elements")
		}
		// A null tag decodes as 0 everywhere in the code base (DecodeInt(nil)
		// is 0); it is accepted here as tag 0 rather than called an
		// inconsistency.
		tag := countedVarint(t.body)
		if tag < 0 || tag >= int64(len(typ.Types)) {
			return bad(inSet, "union-tag", "union tag %d out of range for %d member types", tag, len(typ.Types))
		}
		if is := w.check(typ.Types[tag], v.body, inSet, depth+1); is != nil {
			return under(is, fmt.Sprintf("(%d)", tag))
		}
		return nil
	case *zed.TypeEnum:
		if sel := countedUvarint(body); sel >= uint64(len(typ.Symbols)) {
			return bad(inSet, "enum-selector", "enum selector %d out of range for %d symbols", sel, len(typ.Symbols))
		}
		return nil
	}
	ok := true
	switch typ.ID() {
	case zed.IDBool:
		ok = len(body) == 1
	case zed.IDFloat16:
		ok = len(body) == 2
	case zed.IDFloat32:
		ok = len(body) == 4
	case zed.IDFloat64:
		ok = len(body) == 8
	case zed.IDIP:
		ok = len(body) == 4 || len(body) == 16
	case zed.IDNet:
		ok = len(body) == 8 || len(body) == 32
	case zed.IDType:
		var tv typeValue
		rest, msg := tv.parse(body, 0)
		if msg != "" {
			return bad(inSet, "type-value", "%s", msg)
		}
		if len(rest) != 0 {
			return bad(inSet, "type-value", "%d bytes after the end of the type value", len(rest))
		}
		return nil
	}
	if !ok {
		return bad(inSet, "prim-length", "%s body is %d bytes", primName(typ.ID()), len(body))
	}
	return nil
}

func bad(inSet bool, class, format string, args ...any) *Issue {
	return &Issue{Class: class, InSet: inSet, Detail: fmt.Sprintf(format, args...)}
}

// under prefixes the path of an issue found below a node.
func under(is *Issue, seg string) *Issue {
	if is != nil {
		is.Path = seg + is.Path
	}
	return is
}

func primName(id int) string {
	switch id {
	case zed.IDBool:
		return "bool"
	case zed.IDFloat16:
		return "float16"
	case zed.IDFloat32:
		return "float32"
	case zed.IDFloat64:
		return "float64"
	case zed.IDIP:
		return "ip"
	case zed.IDNet:
		return "net"
	}
	return fmt.Sprintf("primitive#%d", id)
}

func countedUvarint(b []byte) uint64 {
	var u uint64
	for i := len(b) - 1; i >= 0; i-- {
		u = u<<8 | uint64(b[i])
	}
	return u
}

func countedVarint(b []byte) int64 {
	u := countedUvarint(b)
	if u&1 != 0 {
		u >>= 1
		if u == 0 {
			return -1 << 63
		}
		return -int64(u)
	}
	return int64(u >> 1)
}

// implemented primitive type IDs (docs/formats/zng.md section 3; the 128/256
// bit and decimal types are not implemented by the code base).
var primitiveIDs = map[byte]bool{0: true, 1: true, 2: true, 3: true, 6: true, 7: true, 8: true, 9: true, 12: true, 13: true,
	14: true, 15: true, 16: true, 23: true, 24: true, 25: true, 26: true, 27: true, 28: true, 29: true}

var primitiveNames = map[string]bool{"uint8": true, "uint16": true, "uint32": true, "uint64": true, "uint128": true, "uint256": true,
	"int8": true, "int16": true, "int32": true, "int64": true, "int128": true, "int256": true, "duration": true, "time": true,
	"float16": true, "float32": true, "float64": true, "float128": true, "float256": true, "decimal32": true, "decimal64": true,
	"decimal128": true, "decimal256": true, "bool": true, "bytes": true, "string": true, "ip": true, "net": true, "type": true, "null": true}

type typeValue struct {
	defs map[string]bool
}

func (t *typeValue) length(b []byte) (int, []byte, string) {
	u, n := binary.Uvarint(b)
	if n <= 0 {
		return 0, nil, "truncated or overlong length in type value"
	}
	if u > uint64(len(b)-n) {
		// every counted item (name byte, field, member, symbol) needs at least one byte
		return 0, nil, fmt.Sprintf("count %d in type value exceeds the %d bytes left", u, len(b)-n)
	}
	return int(u), b[n:], ""
}

func (t *typeValue) name(b []byte) (string, []byte, string) {
	n, b, msg := t.length(b)
	if msg != "" {
		return "", nil, msg
	}
	if n > len(b) {
		return "", nil, "name in type value is truncated"
	}
	return string(b[:n]), b[n:], ""
}

// parse consumes one type value and returns the remaining bytes.
func (t *typeValue) parse(b []byte, depth int) ([]byte, string) {
	if depth > maxDepth {
		return nil, "type value nested too deep"
	}
	if len(b) == 0 {
		return nil, "truncated type value"
	}
	id := b[0]
	b = b[1:]
	var msg string
	switch id {
	case zed.TypeValueNameDef:
		var name string
		if name, b, msg = t.name(b); msg != "" {
			return nil, msg
		}
		if !utf8.ValidString(name) || primitiveNames[name] {
			return nil, fmt.Sprintf("illegal type name %q in type value", name)
		}
		if b, msg = t.parse(b, depth+1); msg != "" {
			return nil, msg
		}
		if t.defs == nil {
			t.defs = map[string]bool{}
		}
		t.defs[name] = true
		return b, ""
	case zed.TypeValueNameRef:
		var name string
		if name, b, msg = t.name(b); msg != "" {
			return nil, msg
		}
		if !t.defs[name] {
			return nil, fmt.Sprintf("reference to type name %q that the type value does not define before", name)
		}
		return b, ""
	case zed.TypeValueRecord:
		var n int
		if n, b, msg = t.length(b); msg != "" {
			return nil, msg
		}
		seen := map[string]bool{}
		for i := 0; i < n; i++ {
			var name string
			if name, b, msg = t.name(b); msg != "" {
				return nil, msg
			}
			if seen[name] {
				return nil, fmt.Sprintf("duplicate field %q in record type value", name)
			}
			seen[name] = true
			if b, msg = t.parse(b, depth+1); msg != "" {
				return nil, msg
			}
		}
		return b, ""
	case zed.TypeValueArray, zed.TypeValueSet, zed.TypeValueError:
		return t.parse(b, depth+1)
	case zed.TypeValueMap:
		if b, msg = t.parse(b, depth+1); msg != "" {
			return nil, msg
		}
		return t.parse(b, depth+1)
	case zed.TypeValueUnion:
		var n int
		if n, b, msg = t.length(b); msg != "" {
			return nil, msg
		}
		if n == 0 {
			return nil, "union type value with zero member types"
		}
		for i := 0; i < n; i++ {
			if b, msg = t.parse(b, depth+1); msg != "" {
				return nil, msg
			}
		}
		return b, ""
	case zed.TypeValueEnum:
		var n int
		if n, b, msg = t.length(b); msg != "" {
			return nil, msg
		}
		for i := 0; i < n; i++ {
			if _, b, msg = t.name(b); msg != "" {
				return nil, msg
			}
		}
		return b, ""
	}
	if !primitiveIDs[id] {
		return nil, fmt.Sprintf("unknown type id %d in type value", id)
	}
	return b, ""
}

// TypeLeaves collects the bodies of all non-null leaves of primitive type
// `type` in v, in depth-first order.  It is tolerant: a container whose body is
// not well-framed is skipped, everything else is still visited (arity, order
// and tag problems are ignored; an out-of-range union tag ends that branch).
func TypeLeaves(v zed.Value) [][]byte {
	var out [][]byte
	if v.Type() == nil || v.IsNull() {
		return nil
	}
	body := v.Bytes()
	if body == nil {
		body = zcode.Bytes{}
	}
	typeLeaves(v.Type(), body, 0, &out)
	return out
}

// splitPrefix returns the well-framed elements at the start of body (all of
// them when the body is well-framed).
func splitPrefix(body []byte) []elem {
	var out []elem
	for len(body) > 0 {
		e, n, msg := first(body)
		if msg != "" {
			break
		}
		out = append(out, e)
		body = body[n:]
	}
	return out
}

func typeLeaves(typ zed.Type, body []byte, depth int, out *[][]byte) {
	if depth > maxDepth || typ == nil || body == nil {
		return
	}
	switch typ := typ.(type) {
	case *zed.TypeNamed:
		typeLeaves(typ.Type, body, depth+1, out)
	case *zed.TypeError:
		typeLeaves(typ.Type, body, depth+1, out)
	case *zed.TypeRecord:
		elems := splitPrefix(body)
		for i, e := range elems {
			if i < len(typ.Fields) {
				typeLeaves(typ.Fields[i].Type, e.body, depth+1, out)
			}
		}
	case *zed.TypeArray:
		elems := splitPrefix(body)
		for _, e := range elems {
			typeLeaves(typ.Type, e.body, depth+1, out)
		}
	case *zed.TypeSet:
		elems := splitPrefix(body)
		for _, e := range elems {
			typeLeaves(typ.Type, e.body, depth+1, out)
		}
	case *zed.TypeMap:
		elems := splitPrefix(body)
		for i, e := range elems {
			if i%2 == 0 {
				typeLeaves(typ.KeyType, e.body, depth+1, out)
			} else {
				typeLeaves(typ.ValType, e.body, depth+1, out)
			}
		}
	case *zed.TypeUnion:
		elems := splitPrefix(body)
		if len(elems) < 2 || elems[0].body == nil || len(elems[0].body) > 8 {
			return
		}
		tag := countedVarint(elems[0].body)
		if tag < 0 || tag >= int64(len(typ.Types)) {
			return
		}
		typeLeaves(typ.Types[tag], elems[1].body, depth+1, out)
	default:
		if typ.ID() == zed.IDType {
			*out = append(*out, body)
		}
	}
}

// TypeValueOK reports whether tv is a complete well-formed type value by the
// walker's own parser.
func TypeValueOK(tv []byte) bool {
	var t typeValue
	rest, msg := t.parse(tv, 0)
	return msg == "" && len(rest) == 0
}

// HasNullUnion reports whether some node of v whose type (under names) is a
// union is null.  Tolerant like TypeLeaves.
func HasNullUnion(v zed.Value) bool {
	if v.Type() == nil {
		return false
	}
	var body []byte
	if !v.IsNull() {
		if body = v.Bytes(); body == nil {
			body = zcode.Bytes{}
		}
	}
	return hasNullUnion(v.Type(), body, 0)
}

func hasNullUnion(typ zed.Type, body []byte, depth int) bool {
	if depth > maxDepth || typ == nil {
		return false
	}
	switch typ := typ.(type) {
	case *zed.TypeNamed:
		return hasNullUnion(typ.Type, body, depth+1)
	case *zed.TypeError:
		return hasNullUnion(typ.Type, body, depth+1)
	case *zed.TypeUnion:
		if body == nil {
			return true
		}
		elems := splitPrefix(body)
		if len(elems) < 2 {
			return false
		}
		tag := countedVarint(elems[0].body)
		if tag < 0 || tag >= int64(len(typ.Types)) {
			return false
		}
		return hasNullUnion(typ.Types[tag], elems[1].body, depth+1)
	}
	if body == nil {
		return false
	}
	switch typ := typ.(type) {
	case *zed.TypeRecord:
		for i, e := range splitPrefix(body) {
			if i < len(typ.Fields) && hasNullUnion(typ.Fields[i].Type, e.body, depth+1) {
				return true
			}
		}
	case *zed.TypeArray:
		for _, e := range splitPrefix(body) {
			if hasNullUnion(typ.Type, e.body, depth+1) {
				return true
			}
		}
	case *zed.TypeSet:
		for _, e := range splitPrefix(body) {
			if hasNullUnion(typ.Type, e.body, depth+1) {
				return true
			}
		}
	case *zed.TypeMap:
		for i, e := range splitPrefix(body) {
			t := typ.KeyType
			if i%2 == 1 {
				t = typ.ValType
			}
			if hasNullUnion(t, e.body, depth+1) {
				return true
			}
		}
	}
	return false
}
