// Package memstore is an in-memory storage.Engine for the lake with two write
// semantics (idealised atomic object store; a model of pkg/storage/file.go),
// operation-level hooks for counting, fault/crash injection and scheduling.
package memstore

import (
	"bytes"
	"context"
	"errors"
	"fmt"
	"io"
	"io/fs"
	"regexp"
	"sort"
	"strings"
	"sync"
	"sync/atomic"

	"github.com/brimdata/super/pkg/storage"
)

type Mode int

const (
	// Atomic: Put becomes visible at Close, PutIfNotExists is one atomic step.
	Atomic Mode = iota
	// File mirrors pkg/storage/file.go: Put truncates at open and is visible
	// write call by write call; PutIfNotExists = exclusive create, then fill.
	File
)

func (m Mode) String() string {
	if m == File {
		return "file"
	}
	return "atomic"
}

// Store is the shared state: path -> bytes.  Directories are implicit.
type Store struct {
	mu    sync.Mutex
	files map[string][]byte
}

func NewStore() *Store { return &Store{files: map[string][]byte{}} }

func (s *Store) Clone() *Store {
	s.mu.Lock()
	defer s.mu.Unlock()
	c := NewStore()
	for k, v := range s.files {
		c.files[k] = append([]byte(nil), v...)
	}
	return c
}

// Dump returns a copy of all files (for replay files and diagnostics).
func (s *Store) Dump() map[string][]byte {
	return s.Clone().files
}

func LoadStore(files map[string][]byte) *Store {
	s := NewStore()
	for k, v := range files {
		s.files[k] = append([]byte(nil), v...)
	}
	return s
}

func (s *Store) Paths() []string {
	s.mu.Lock()
	defer s.mu.Unlock()
	var out []string
	for k := range s.files {
		out = append(out, k)
	}
	sort.Strings(out)
	return out
}

func (s *Store) Get(path string) ([]byte, bool) {
	s.mu.Lock()
	defer s.mu.Unlock()
	b, ok := s.files[path]
	return append([]byte(nil), b...), ok
}

func (s *Store) Set(path string, b []byte) {
	s.mu.Lock()
	defer s.mu.Unlock()
	s.files[path] = append([]byte(nil), b...)
}

func (s *Store) Remove(path string) {
	s.mu.Lock()
	defer s.mu.Unlock()
	delete(s.files, path)
}

// Op describes one storage step.  In File mode a Put is several steps
// (put-open, put-write*, put-close) and PutIfNotExists is two (putx-create,
// putx-fill); in Atomic mode only put-close and putx have an effect.
type Op struct {
	Client int
	Seq    int // per-engine sequence number, from 1
	Kind   string
	Path   string
	Class  string
	N      int // bytes for writes
}

func (o Op) String() string {
	tail := o.Path
	if i := strings.LastIndexByte(tail, '/'); i >= 0 {
		tail = tail[i+1:]
	}
	if len(tail) > 14 {
		tail = tail[len(tail)-14:]
	}
	return fmt.Sprintf("c%d#%d %s %s(%s)", o.Client, o.Seq, o.Kind, o.Class, tail)
}

type Verdict int

const (
	Proceed Verdict = iota
	Fail            // the step fails with an injected error and has no effect
	Crash           // the step has no effect and the engine turns dead
)

// Hook observes and controls every step.  Before may block (scheduling).
type Hook interface {
	Before(op *Op) Verdict
	After(op *Op)
}

var ErrCrashed = errors.New("memstore: process crashed (injected)")
var ErrInjected = errors.New("memstore: injected storage failure")

// Engine is one client's view of a Store.
type Engine struct {
	Store  *Store
	Mode   Mode
	Hook   Hook
	Client int
	seq    atomic.Int64
	dead   atomic.Bool
	// DataBytesRead / DataGets count bytes actually read from, and opens of, data object files.
	DataBytesRead atomic.Int64
	DataGets      atomic.Int64
}

var _ storage.Engine = (*Engine)(nil)

func New(store *Store, mode Mode) *Engine { return &Engine{Store: store, Mode: mode} }

func (e *Engine) Dead() bool { return e.dead.Load() }

var (
	reJournalEntry = regexp.MustCompile(`/(branches|pools)/\d+\.zng$`)
	reCommitSnap   = regexp.MustCompile(`/commits/[0-9A-Za-z]+\.snap\.zng$`)
	reCommit       = regexp.MustCompile(`/commits/[0-9A-Za-z]+\.zng$`)
	reSeek         = regexp.MustCompile(`/data/[0-9A-Za-z]+-seek\.zng$`)
	reData         = regexp.MustCompile(`/data/[0-9A-Za-z]+\.zng$`)
	reVector       = regexp.MustCompile(`/data/[0-9A-Za-z]+\.vng$`)
)

// Classify names the role of a path in the lake layout.
func Classify(path string) string {
	switch {
	case strings.HasSuffix(path, "/HEAD"):
		return "HEAD"
	case strings.HasSuffix(path, "/TAIL"):
		return "TAIL"
	case strings.HasSuffix(path, "/snap.zng"):
		return "journal-snap"
	case reJournalEntry.MatchString(path):
		return "journal-entry"
	case reCommitSnap.MatchString(path):
		return "commit-snap"
	case reCommit.MatchString(path):
		return "commit-object"
	case reSeek.MatchString(path):
		return "seek"
	case reData.MatchString(path):
		return "data"
	case reVector.MatchString(path):
		return "vector"
	case strings.HasSuffix(path, "lake.zng"):
		return "magic"
	}
	return "other"
}

func (e *Engine) step(kind, path string, n int) (*Op, error) {
	if e.dead.Load() {
		return nil, ErrCrashed
	}
	op := &Op{Client: e.Client, Seq: int(e.seq.Add(1)), Kind: kind, Path: path, Class: Classify(path), N: n}
	if e.Hook != nil {
		switch e.Hook.Before(op) {
		case Fail:
			e.Hook.After(op)
			return nil, fmt.Errorf("%s %s: %w", kind, path, ErrInjected)
		case Crash:
			e.dead.Store(true)
			e.Hook.After(op)
			return nil, ErrCrashed
		}
	}
	if e.dead.Load() {
		// another goroutine of this client crashed the engine while we were blocked
		if e.Hook != nil {
			e.Hook.After(op)
		}
		return nil, ErrCrashed
	}
	return op, nil
}

func (e *Engine) done(op *Op) {
	if e.Hook != nil && op != nil {
		e.Hook.After(op)
	}
}

func notExist(u *storage.URI) error { return fmt.Errorf("%s: %w", u, fs.ErrNotExist) }

type reader struct {
	*bytes.Reader
	size int64
	e    *Engine
	data bool
}

func (r *reader) Close() error         { return nil }
func (r *reader) Size() (int64, error) { return r.size, nil }

func (r *reader) Read(p []byte) (int, error) {
	n, err := r.Reader.Read(p)
	if r.data {
		r.e.DataBytesRead.Add(int64(n))
	}
	return n, err
}

func (r *reader) ReadAt(p []byte, off int64) (int, error) {
	n, err := r.Reader.ReadAt(p, off)
	if r.data {
		r.e.DataBytesRead.Add(int64(n))
	}
	return n, err
}

func (e *Engine) isDir(path string) bool {
	prefix := strings.TrimSuffix(path, "/") + "/"
	for k := range e.Store.files {
		if strings.HasPrefix(k, prefix) {
			return true
		}
	}
	return false
}

func (e *Engine) Get(_ context.Context, u *storage.URI) (storage.Reader, error) {
	op, err := e.step("get", u.Path, 0)
	if err != nil {
		return nil, err
	}
	defer e.done(op)
	e.Store.mu.Lock()
	defer e.Store.mu.Unlock()
	b, ok := e.Store.files[u.Path]
	if !ok {
		return nil, notExist(u)
	}
	c := append([]byte(nil), b...)
	if op.Class == "data" {
		e.DataGets.Add(1)
	}
	return &reader{Reader: bytes.NewReader(c), size: int64(len(c)), e: e, data: op.Class == "data"}, nil
}

type putWriter struct {
	e      *Engine
	path   string
	buf    []byte
	closed bool
	failed bool // a Write failed: an atomic put is then never installed
}

func (w *putWriter) Write(p []byte) (int, error) {
	op, err := w.e.step("put-write", w.path, len(p))
	if err != nil {
		w.failed = true
		return 0, err
	}
	defer w.e.done(op)
	if w.e.Mode == File {
		w.e.Store.mu.Lock()
		w.e.Store.files[w.path] = append(w.e.Store.files[w.path], p...)
		w.e.Store.mu.Unlock()
	} else {
		w.buf = append(w.buf, p...)
	}
	return len(p), nil
}

func (w *putWriter) Close() error {
	if w.closed {
		return nil
	}
	w.closed = true
	op, err := w.e.step("put-close", w.path, 0)
	if err != nil {
		return err
	}
	defer w.e.done(op)
	if w.e.Mode == Atomic {
		if w.failed {
			// idealised object store: an upload whose body failed is aborted, nothing becomes visible
			return fmt.Errorf("put %s: %w", w.path, ErrInjected)
		}
		w.e.Store.mu.Lock()
		w.e.Store.files[w.path] = append([]byte{}, w.buf...)
		w.e.Store.mu.Unlock()
	}
	return nil
}

func (e *Engine) Put(_ context.Context, u *storage.URI) (io.WriteCloser, error) {
	op, err := e.step("put-open", u.Path, 0)
	if err != nil {
		return nil, err
	}
	defer e.done(op)
	if e.Mode == File {
		e.Store.mu.Lock()
		e.Store.files[u.Path] = []byte{}
		e.Store.mu.Unlock()
	}
	return &putWriter{e: e, path: u.Path}, nil
}

func existsErr(u *storage.URI) error {
	return &fs.PathError{Op: "open", Path: u.Path, Err: fs.ErrExist}
}

func (e *Engine) PutIfNotExists(_ context.Context, u *storage.URI, b []byte) error {
	if e.Mode == Atomic {
		op, err := e.step("putx", u.Path, len(b))
		if err != nil {
			return err
		}
		defer e.done(op)
		e.Store.mu.Lock()
		defer e.Store.mu.Unlock()
		if _, ok := e.Store.files[u.Path]; ok {
			return existsErr(u)
		}
		e.Store.files[u.Path] = append([]byte{}, b...)
		return nil
	}
	op, err := e.step("putx-create", u.Path, 0)
	if err != nil {
		return err
	}
	e.Store.mu.Lock()
	if _, ok := e.Store.files[u.Path]; ok {
		e.Store.mu.Unlock()
		e.done(op)
		return existsErr(u)
	}
	e.Store.files[u.Path] = []byte{}
	e.Store.mu.Unlock()
	e.done(op)
	op, err = e.step("putx-fill", u.Path, len(b))
	if err != nil {
		return err
	}
	defer e.done(op)
	e.Store.mu.Lock()
	e.Store.files[u.Path] = append([]byte{}, b...)
	e.Store.mu.Unlock()
	return nil
}

func (e *Engine) Delete(_ context.Context, u *storage.URI) error {
	op, err := e.step("delete", u.Path, 0)
	if err != nil {
		return err
	}
	defer e.done(op)
	e.Store.mu.Lock()
	defer e.Store.mu.Unlock()
	if _, ok := e.Store.files[u.Path]; !ok {
		return notExist(u)
	}
	delete(e.Store.files, u.Path)
	return nil
}

// DeleteByPrefix: in File mode like os.RemoveAll (exactly that path or the
// subtree under it); in Atomic mode like an object store (every key with the
// prefix).
func (e *Engine) DeleteByPrefix(_ context.Context, u *storage.URI) error {
	op, err := e.step("delprefix", u.Path, 0)
	if err != nil {
		return err
	}
	defer e.done(op)
	e.Store.mu.Lock()
	defer e.Store.mu.Unlock()
	dir := strings.TrimSuffix(u.Path, "/") + "/"
	for k := range e.Store.files {
		switch {
		case k == u.Path, strings.HasPrefix(k, dir):
			delete(e.Store.files, k)
		case e.Mode == Atomic && strings.HasPrefix(k, u.Path):
			delete(e.Store.files, k)
		}
	}
	return nil
}

func (e *Engine) Exists(_ context.Context, u *storage.URI) (bool, error) {
	op, err := e.step("exists", u.Path, 0)
	if err != nil {
		return false, err
	}
	defer e.done(op)
	e.Store.mu.Lock()
	defer e.Store.mu.Unlock()
	if _, ok := e.Store.files[u.Path]; ok {
		return true, nil
	}
	return e.isDir(u.Path), nil
}

func (e *Engine) Size(_ context.Context, u *storage.URI) (int64, error) {
	op, err := e.step("size", u.Path, 0)
	if err != nil {
		return 0, err
	}
	defer e.done(op)
	e.Store.mu.Lock()
	defer e.Store.mu.Unlock()
	b, ok := e.Store.files[u.Path]
	if !ok {
		return 0, notExist(u)
	}
	return int64(len(b)), nil
}

func (e *Engine) List(_ context.Context, u *storage.URI) ([]storage.Info, error) {
	op, err := e.step("list", u.Path, 0)
	if err != nil {
		return nil, err
	}
	defer e.done(op)
	e.Store.mu.Lock()
	defer e.Store.mu.Unlock()
	dir := strings.TrimSuffix(u.Path, "/") + "/"
	seen := map[string]int64{}
	found := false
	for k, v := range e.Store.files {
		if !strings.HasPrefix(k, dir) {
			continue
		}
		found = true
		rest := k[len(dir):]
		if i := strings.IndexByte(rest, '/'); i >= 0 {
			seen[rest[:i]] = 0
		} else {
			seen[rest] = int64(len(v))
		}
	}
	if !found {
		return nil, notExist(u)
	}
	var names []string
	for n := range seen {
		names = append(names, n)
	}
	sort.Strings(names)
	out := make([]storage.Info, len(names))
	for i, n := range names {
		out[i] = storage.Info{Name: n, Size: seen[n]}
	}
	return out, nil
}
