package memstore

import (
	"fmt"
	"sync"
)

// Counter records every step.
type Counter struct {
	mu  sync.Mutex
	Ops []Op
}

func (c *Counter) Before(op *Op) Verdict {
	c.mu.Lock()
	c.Ops = append(c.Ops, *op)
	c.mu.Unlock()
	return Proceed
}
func (c *Counter) After(*Op) {}

func (c *Counter) Len() int {
	c.mu.Lock()
	defer c.mu.Unlock()
	return len(c.Ops)
}

func (c *Counter) Snapshot() []Op {
	c.mu.Lock()
	defer c.mu.Unlock()
	return append([]Op(nil), c.Ops...)
}

// Mutating reports whether the step can change the store.
func (o Op) Mutating() bool {
	switch o.Kind {
	case "get", "exists", "size", "list":
		return false
	}
	return true
}

// CrashAt crashes the engine just before its K-th step (1-based, counted over
// all steps of this hook).  K beyond the last step never fires.
type CrashAt struct {
	mu    sync.Mutex
	K     int
	n     int
	Fired *Op
}

func (c *CrashAt) Before(op *Op) Verdict {
	c.mu.Lock()
	defer c.mu.Unlock()
	c.n++
	if c.n == c.K {
		cp := *op
		c.Fired = &cp
		return Crash
	}
	return Proceed
}
func (c *CrashAt) After(*Op) {}

// HasFired reports whether the crash point was reached.
func (c *CrashAt) HasFired() *Op {
	c.mu.Lock()
	defer c.mu.Unlock()
	return c.Fired
}

// FailAt makes the K-th step matching Match fail (one-shot or sticky).
type FailAt struct {
	mu     sync.Mutex
	K      int
	Sticky bool
	Match  func(*Op) bool
	n      int
	Fired  int
}

func (f *FailAt) Before(op *Op) Verdict {
	f.mu.Lock()
	defer f.mu.Unlock()
	if f.Match != nil && !f.Match(op) {
		return Proceed
	}
	f.n++
	if f.n == f.K || (f.Sticky && f.n > f.K && f.K > 0) {
		f.Fired++
		return Fail
	}
	return Proceed
}
func (f *FailAt) After(*Op) {}

// Gate is a deterministic scheduler for several clients sharing a Store.
// Every step of every client blocks in Before until the driver grants it.
type Gate struct {
	mu      sync.Mutex
	cond    *sync.Cond
	pending map[int][]*gateReq
	running map[int]int // steps granted and not yet completed, per client
	done    map[int]bool
	Trace   []string
}

type gateReq struct {
	op    *Op
	grant chan struct{}
}

func NewGate() *Gate {
	g := &Gate{pending: map[int][]*gateReq{}, running: map[int]int{}, done: map[int]bool{}}
	g.cond = sync.NewCond(&g.mu)
	return g
}

func (g *Gate) Before(op *Op) Verdict {
	r := &gateReq{op: op, grant: make(chan struct{})}
	g.mu.Lock()
	g.pending[op.Client] = append(g.pending[op.Client], r)
	g.cond.Broadcast()
	g.mu.Unlock()
	<-r.grant
	return Proceed
}

func (g *Gate) After(op *Op) {
	g.mu.Lock()
	g.running[op.Client]--
	g.cond.Broadcast()
	g.mu.Unlock()
}

// Start marks client as having an operation in flight.
func (g *Gate) Start(client int) {
	g.mu.Lock()
	g.done[client] = false
	g.mu.Unlock()
}

// Finish is called by the client's goroutine when its API call returned.
func (g *Gate) Finish(client int) {
	g.mu.Lock()
	g.done[client] = true
	g.cond.Broadcast()
	g.mu.Unlock()
}

// Step grants one pending storage step of client and waits until it has
// completed.  It returns the step, or nil if the client's operation finished
// without issuing another step.
func (g *Gate) Step(client int) *Op {
	g.mu.Lock()
	for len(g.pending[client]) == 0 && !g.done[client] {
		g.cond.Wait()
	}
	if len(g.pending[client]) == 0 {
		g.mu.Unlock()
		return nil
	}
	r := g.pending[client][0]
	g.pending[client] = g.pending[client][1:]
	g.running[client]++
	g.Trace = append(g.Trace, r.op.String())
	g.mu.Unlock()
	close(r.grant)
	g.mu.Lock()
	for g.running[client] > 0 {
		g.cond.Wait()
	}
	g.mu.Unlock()
	return r.op
}

// Done reports whether client's current operation has finished and has no pending step.
func (g *Gate) Done(client int) bool {
	g.mu.Lock()
	defer g.mu.Unlock()
	return g.done[client] && len(g.pending[client]) == 0
}

// Drain grants everything client still wants until its operation finishes.
func (g *Gate) Drain(client int) int {
	n := 0
	for g.Step(client) != nil {
		n++
	}
	return n
}

func (g *Gate) String() string { return fmt.Sprintf("gate trace (%d grants)", len(g.Trace)) }
