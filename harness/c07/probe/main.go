// temporary probe tool (removed before hand-in)
package main

import (
	"context"
	"encoding/json"
	"flag"
	"fmt"
	"os"
	"strings"

	"bytes"
	zed "github.com/brimdata/super"
	"github.com/brimdata/super/compiler"
	"github.com/brimdata/super/compiler/data"
	"github.com/brimdata/super/order"
	"github.com/brimdata/super/pkg/field"
	"github.com/brimdata/super/runtime"
	"github.com/brimdata/super/zbuf"
	"github.com/brimdata/super/zio"
	"github.com/brimdata/super/zio/zngio"
	"github.com/brimdata/super/zio/zsonio"
	"github.com/brimdata/super/zson"
)

type plain struct{ r zio.Reader }

func (p *plain) Read() (*zed.Value, error) { return p.r.Read() }

func main() {
	noopt := flag.Bool("n", false, "no optimize")
	dag := flag.Bool("d", false, "print dag")
	key := flag.String("k", "", "sort key")
	desc := flag.Bool("desc", false, "desc")
	batch := flag.Int("b", 0, "values per batch")
	zngIn := flag.String("zng", "", "read input from this ZNG file")
	dump := flag.Bool("dump", false, "dump input as ZSON and exit")
	flag.Parse()
	if *batch > 0 {
		zbuf.PullerBatchValues = *batch
	}
	prog := flag.Arg(0)
	input := flag.Arg(1)
	if input == "-" {
		b, _ := os.ReadFile("/dev/stdin")
		input = string(b)
	}
	zctx := zed.NewContext()
	ctx, cancel := context.WithCancel(context.Background())
	defer cancel()
	rctx := runtime.NewContext(ctx, zctx)
	seq, _, err := compiler.Parse(prog)
	if err != nil {
		fmt.Println("PARSE ERROR:", err)
		return
	}
	job, err := compiler.NewJob(rctx, seq, data.NewSource(nil, nil), nil)
	if err != nil {
		fmt.Println("ANALYZE ERROR:", err)
		return
	}
	if *key != "" {
		scan, ok := job.DefaultScan()
		if ok {
			o := order.Asc
			if *desc {
				o = order.Desc
			}
			scan.SortKeys = order.SortKeys{order.NewSortKey(o, field.Dotted(*key))}
		}
	}
	if !*noopt {
		if err := job.Optimize(); err != nil {
			fmt.Println("OPTIMIZE ERROR:", err)
			return
		}
	}
	if *dag {
		b, _ := json.MarshalIndent(job.Entry(), "", " ")
		fmt.Println(string(b))
	}
	var r zio.Reader = zsonio.NewReader(zctx, strings.NewReader(input))
	if *zngIn != "" {
		b, _ := os.ReadFile(*zngIn)
		r = &plain{zngio.NewReader(zctx, bytes.NewReader(b))}
	}
	if *dump {
		for {
			v, err := r.Read()
			if v == nil || err != nil {
				return
			}
			fmt.Println(zson.FormatValue(*v))
		}
	}
	if err := job.Build(r); err != nil {
		fmt.Println("BUILD ERROR:", err)
		return
	}
	p := job.Puller()
	for {
		b, err := p.Pull(false)
		if err != nil {
			fmt.Println("RUN ERROR:", err)
			return
		}
		if b == nil {
			break
		}
		for _, v := range b.Values() {
			fmt.Println(zson.FormatValue(v))
		}
		b.Unref()
	}
	var _ zbuf.Puller = p
}
