PROP = dict(
        pkg="c07", level="exploration",
        rule="C07: unoptimized vs optimized plan of the same compiled job over generated (program, input, declared sort order, reader) cases",
        assumptions=[
            "a declared sort key means: the input is sorted by the comparator the lake uses for pool keys (zbuf.NewComparatorNullsMax: nulls and missing keys last for asc, first for desc); the harness really sorts the input that way",
            "order-sensitive operators (head, tail, uniq, fuse, key-less sort, collect/any/...) are only generated on streams with a defined order (after `sort typeof(this), this` when needed); fork legs are never nested and uniq/fuse/lateral over stay out of fork legs because the runtime deadlocks on such shapes with or without the optimizer",
            "optimized plans that hold a summarize with both an input sort direction and a group limit are not executed (they can crash the process: open finding C07-streaming-summarize-limit-crash); counted under skipped",
            "a deadlock is a statement about goroutine states (every flowgraph goroutine blocked on a channel operation, stacks unchanged over five observations), not a time limit; a one-sided deadlock outside the known join class must repeat three times to count",
            "lake (`from pool`) inputs are covered by a separate test added later",
        ],
        level_text="Property-based differential test: the plan exactly as analysed is the reference for the optimized plan of the same compiler.Job; programs and inputs are sampled by rapid from a typed grammar and from the repo's own program corpus.",
        level_note="Trusted: the unoptimized execution path (kernel builder on the analysed DAG), the harness's order/determinism metadata (conservative: order is only claimed where the operators define one). Not covered here: Parallelize/Vectorize, lake scans.",
        technique="property-based testing (rapid), differential oracle with sequence/multiset comparison chosen by program metadata, flowgraph deadlock detection by goroutine-state inspection",
        tests=[dict(name="TestOptimizerPreservesMeaning", quick=(8, 300), thorough=(16, 1500))],
)
