package c07

import (
	"bytes"
	"encoding/json"
	"errors"
	"fmt"
	"os"
	"regexp"
	"sort"
	"strings"
	"testing"

	zed "github.com/brimdata/super"
	"github.com/brimdata/super/compiler"
	"github.com/brimdata/super/compiler/ast"
	"github.com/brimdata/super/compiler/ast/dag"
	"github.com/brimdata/super/compiler/data"
	"github.com/brimdata/super/order"
	"github.com/brimdata/super/pkg/field"
	"github.com/brimdata/super/runtime/sam/expr"
	"github.com/brimdata/super/zbuf"
	"github.com/brimdata/super/zcode"
	"github.com/brimdata/super/zio"
	"github.com/brimdata/super/zio/zngio"
	"github.com/brimdata/super/zio/zsonio"
	"pgregory.net/rapid"

	"verif/gen"
	"verif/oracle"
	"verif/prog"
	"verif/vt"
)

func TestMain(m *testing.M) { vt.Main(m) }

// Case is one (program, input, declared input order, reader configuration).
type Case struct {
	Program string    `json:"program"`
	Meta    prog.Meta `json:"meta"`   // for generated programs; corpus programs are classified from their DAG in Run
	Source  string    `json:"source"` // "grammar" or the corpus file the text came from
	Input   gen.Seq   `json:"input"`  // already sorted by (SortKey, Desc) when SortKey != ""
	SortKey string    `json:"sort_key"`
	Desc    bool      `json:"desc"`
	Reader  string    `json:"reader"`  // "zng": zngio reader (scanner pushdown incl. buffer filter); "plain": opaque zio.Reader
	Frame   int       `json:"frame"`   // zng: frame threshold in bytes (one batch per frame)
	Threads int       `json:"threads"` // zng: scanner threads
	Batch   int       `json:"batch"`   // plain: values per batch (zbuf.PullerBatchValues)
}

func sortKeys(key string, desc bool) order.SortKeys {
	if key == "" {
		return nil
	}
	return order.SortKeys{order.NewSortKey(order.Which(desc), field.Dotted(key))}
}

// sortInput really sorts vals the way a declared sort key promises: with the
// comparator the lake uses to write data sorted by a pool key (nulls and
// missing keys are maximal; descending order is the exact reverse, so they
// come first).
func sortInput(zctx *zed.Context, vals []zed.Value, key string, desc bool) {
	if key == "" {
		return
	}
	zbuf.NewComparatorNullsMax(zctx, sortKeys(key, desc)).SortStable(vals)
}

func isSorted(zctx *zed.Context, vals []zed.Value, key string, desc bool) bool {
	if key == "" {
		return true
	}
	cmp := expr.NewComparator(true, expr.NewSortEvaluator(expr.NewDottedExpr(zctx, field.Dotted(key)), order.Which(desc))).WithMissingAsNull()
	for i := 1; i < len(vals); i++ {
		if cmp.Compare(vals[i-1], vals[i]) > 0 {
			return false
		}
	}
	return true
}

func genCase(t *rapid.T) Case {
	maxLen := 30
	if vt.Thorough() {
		maxLen = 80
	}
	c := Case{
		Reader:  prog.Pick(t, []string{"zng", "zng", "plain"}, "reader"),
		Frame:   prog.Pick(t, []int{1, 40, 200, 1000, 100000}, "frame"),
		Threads: prog.Pick(t, []int{1, 1, 2, 4}, "threads"),
		Batch:   prog.Pick(t, []int{1, 2, 3, 7, 100}, "batch"),
	}
	corpus := prog.Chance(t, 15, "corpus?")
	var entry prog.CorpusEntry
	if corpus {
		entry = prog.DrawCorpus(t)
	}
	if corpus && entry.Input != "" && prog.Chance(t, 66, "owninput") {
		c.Input = gen.SeqFromZSON(entry.Input)
	} else {
		c.Input = prog.DrawInput(t, prog.InputOpts{MaxLen: maxLen, Rich: prog.Chance(t, 25, "rich"),
			CleanKey: prog.Chance(t, 50, "cleankey")})
	}
	schema := prog.Summarize(c.Input.Vals)
	if prog.Chance(t, 55, "sortkey?") && len(schema.Fields) > 0 {
		c.SortKey = schema.Fields[prog.Uniform(t, len(schema.Fields), "sortkey")].Name
		if prog.Chance(t, 50, "numkey") {
			// prefer a numeric key (order-preserving functions, mixed signs)
			var num []string
			for _, f := range schema.Fields {
				if f.NumOnly {
					num = append(num, f.Name)
				}
			}
			if len(num) > 0 {
				c.SortKey = prog.Pick(t, num, "numsortkey")
			}
		}
		c.Desc = prog.Chance(t, 40, "desc")
		sortInput(c.Input.Zctx, c.Input.Vals, c.SortKey, c.Desc)
	}
	if corpus {
		c.Program, c.Source = entry.Text, entry.Source
		return c
	}
	p := prog.Gen(t, schema, prog.Options{SortKey: c.SortKey, MaxOps: 5})
	c.Program, c.Meta, c.Source = p.Text, p.Meta, "grammar"
	return c
}

// ---- input sources

// A source supplies what one execution of a compiled program needs.  (The
// lake variant plugs in here: data source and head for NewJob, no readers.)
type source interface {
	newJob(rt *prog.Runtime, seq ast.Seq) (*compiler.Job, error)
	readers(zctx *zed.Context) ([]zio.Reader, func())
}

type fileSource struct {
	zng     []byte
	keys    order.SortKeys
	reader  string
	threads int
	batch   int
}

func newFileSource(c Case) (*fileSource, error) {
	var buf bytes.Buffer
	w := zngio.NewWriterWithOpts(zio.NopCloser(&buf), zngio.WriterOpts{FrameThresh: max(1, c.Frame)})
	for _, v := range c.Input.Vals {
		if err := w.Write(v); err != nil {
			return nil, err
		}
	}
	if err := w.Close(); err != nil {
		return nil, err
	}
	return &fileSource{zng: buf.Bytes(), keys: sortKeys(c.SortKey, c.Desc), reader: c.Reader, threads: max(1, c.Threads), batch: c.Batch}, nil
}

func (s *fileSource) newJob(rt *prog.Runtime, seq ast.Seq) (*compiler.Job, error) {
	job, err := compiler.NewJob(rt.Context, seq, data.NewSource(nil, nil), nil)
	if err != nil {
		return nil, err
	}
	scan, ok := job.DefaultScan()
	if !ok {
		return nil, errNoDefaultScan
	}
	// exactly what compiler.CompileWithSortKey does
	if len(s.keys) > 0 {
		scan.SortKeys = order.SortKeys{s.keys[0]}
	}
	return job, nil
}

var errNoDefaultScan = errors.New("program has a source of its own")

// opaque hides the scanner interface of a reader so that the generic scanner is used.
type opaque struct{ r zio.Reader }

func (o *opaque) Read() (*zed.Value, error) { return o.r.Read() }

func (s *fileSource) readers(zctx *zed.Context) ([]zio.Reader, func()) {
	r := zngio.NewReaderWithOpts(zctx, bytes.NewReader(s.zng), zngio.ReaderOpts{Threads: s.threads})
	if s.reader == "plain" {
		old := zbuf.PullerBatchValues
		if s.batch > 0 {
			zbuf.PullerBatchValues = s.batch
		}
		return []zio.Reader{&opaque{r}}, func() { r.Close(); zbuf.PullerBatchValues = old }
	}
	return []zio.Reader{r}, func() { r.Close() }
}

// ---- running both plans

type result struct {
	stage string // "" ok, else "analyze", "optimize", "build", "run", "deadlock"
	err   error
	vals  []zed.Value
	dag   string // JSON of the plan that ran
	meta  prog.Meta
	use   bool
	// the plan holds a summarize with >1 keys and an input sort direction
	multiKeyStreaming bool
	scanFilter        dag.Expr // the filter pushed into the scan, if any
	// identities (keys, aggregates, limit) of the summarizes that carry an input sort direction
	streamSigs map[string]bool
}

// dropErrorFilters rewrites every filter operator `where F` of an analysed
// DAG into `where is_error(F) ? false : F`, i.e. a filter that drops the values
// for which its predicate is an error (the documented behaviour of where).
func dropErrorFilters(seq dag.Seq) {
	for _, op := range seq {
		switch op := op.(type) {
		case *dag.Filter:
			op.Expr = &dag.Conditional{Kind: "Conditional",
				Cond: &dag.Call{Kind: "Call", Name: "is_error", Args: []dag.Expr{op.Expr}},
				Then: &dag.Literal{Kind: "Literal", Value: "false"},
				Else: op.Expr}
		case *dag.Fork:
			for _, p := range op.Paths {
				dropErrorFilters(p)
			}
		case *dag.Switch:
			for _, c := range op.Cases {
				dropErrorFilters(c.Path)
			}
		case *dag.Over:
			dropErrorFilters(op.Body)
		case *dag.Scope:
			dropErrorFilters(op.Body)
		case *dag.Mirror:
			dropErrorFilters(op.Main)
			dropErrorFilters(op.Mirror)
		}
	}
}

// walkSeqs calls f on seq and on every nested sequence of its operators.
func walkSeqs(seq dag.Seq, f func(dag.Seq)) {
	f(seq)
	for _, op := range seq {
		switch op := op.(type) {
		case *dag.Fork:
			for _, p := range op.Paths {
				walkSeqs(p, f)
			}
		case *dag.Switch:
			for _, c := range op.Cases {
				walkSeqs(c.Path, f)
			}
		case *dag.Over:
			walkSeqs(op.Body, f)
		case *dag.Scope:
			walkSeqs(op.Body, f)
		case *dag.Mirror:
			walkSeqs(op.Main, f)
			walkSeqs(op.Mirror, f)
		}
	}
}

// noStreamingMultiKeySummarize is applied to an OPTIMIZED plan: it takes the
// input sort direction back out of every summarize with more than one key.
func noStreamingMultiKeySummarize(seq dag.Seq) {
	walkSeqs(seq, func(seq dag.Seq) {
		for _, op := range seq {
			if s, ok := op.(*dag.Summarize); ok && len(s.Keys) > 1 {
				s.InputSortDir = 0
			}
		}
	})
}

// noStreamingSummarize takes the input sort direction out of every summarize of an optimized plan.
func noStreamingSummarize(seq dag.Seq) {
	walkSeqs(seq, func(seq dag.Seq) {
		for _, op := range seq {
			if s, ok := op.(*dag.Summarize); ok {
				s.InputSortDir = 0
			}
		}
	})
}

// noJoinDirs takes the input directions out of every join of an optimized plan (both sides get sorted again).
func noJoinDirs(seq dag.Seq) {
	walkSeqs(seq, func(seq dag.Seq) {
		for _, op := range seq {
			if j, ok := op.(*dag.Join); ok {
				j.LeftDir, j.RightDir = order.Unknown, order.Unknown
			}
		}
	})
}

// summarizeSig identifies a summarize by its keys, aggregates and limit (a
// copy lifted into a fork leg as a partial summarize keeps them).
func summarizeSig(s *dag.Summarize) string {
	b, _ := json.Marshal(struct {
		K, A []dag.Assignment
		L    int
	}{s.Keys, s.Aggs, s.Limit})
	return string(b)
}

// noStreamingAfterCombine is applied to an OPTIMIZED plan: it takes the input
// sort direction out of the summarizes that are fed through a combine, i.e.
// that follow a fork or switch with several branches without a merge, join or
// sort in between (several parents reach an operator interleaved in arrival
// order, whatever order each of them has).  It reports how many it changed.
func noStreamingAfterCombine(n *int) func(dag.Seq) {
	var walk func(seq dag.Seq, combined bool) bool
	walk = func(seq dag.Seq, combined bool) bool {
		for _, op := range seq {
			switch op := op.(type) {
			case *dag.Fork:
				for _, p := range op.Paths {
					walk(p, combined)
				}
				combined = combined || len(op.Paths) > 1
			case *dag.Switch:
				for _, c := range op.Cases {
					walk(c.Path, combined)
				}
				combined = combined || len(op.Cases) > 1
			case *dag.Scope:
				combined = walk(op.Body, combined)
			case *dag.Over:
				walk(op.Body, false)
			case *dag.Merge, *dag.Join, *dag.Sort:
				combined = false
			case *dag.Summarize:
				if combined && op.InputSortDir != 0 {
					op.InputSortDir = 0
					*n++
				}
				combined = false
			}
		}
		return combined
	}
	return func(seq dag.Seq) { walk(seq, false) }
}

var keyFunctionRE = regexp.MustCompile(`"kind":"Summarize","limit":\d+,"keys":\[\{"kind":"Assignment","lhs":\{[^{}]*\},"rhs":\{"kind":"Call","name":"(floor|ceil|round|bucket|every)"`)

// keyFunctionPresent: some summarize of the plan has a key function as its first key.
func keyFunctionPresent(dagJSON string) bool { return keyFunctionRE.MatchString(dagJSON) }

// bothCausesAgree runs the optimized plan with the missing keys put into the
// null group AND the direction taken out of the combine-fed summarizes, and
// compares it with pm (the plan as analysed with the same key rewrite).
func bothCausesAgree(seq ast.Seq, src source, pm result, compare func(a, b []zed.Value) string, dropFunc bool) bool {
	var n1, n2 int
	f1, f2 := rewriteFirstKey(nil, true, dropFunc, &n1), noStreamingAfterCombine(&n2)
	r := runOnePost(seq, src, true, nil, func(seq dag.Seq) { f1(seq); f2(seq) })
	return r.stage == "" && compare(pm.vals, r.vals) == ""
}

// missingKeyAsNull rewrites the FIRST key k (or f(k) for a key function f) of
// the selected summarizes into `missing(k) ? null : k` (`... : f(k)`), so that
// a missing key falls into the null group.  Selected are the summarizes with
// an input sort direction (streaming, for an optimized plan) or those whose
// identity is in sigs (for the plan as analysed).  It reports how many it rewrote.
func missingKeyAsNull(sigs map[string]bool, streaming bool, n *int) func(dag.Seq) {
	return rewriteFirstKey(sigs, streaming, false, n)
}

// keyFunctionRemoved is missingKeyAsNull that also replaces a key function f(k)
// by its argument k (a non-monotone f is then out of the picture in both plans).
func keyFunctionRemoved(sigs map[string]bool, streaming bool, n *int) func(dag.Seq) {
	return rewriteFirstKey(sigs, streaming, true, n)
}

func rewriteFirstKey(sigs map[string]bool, streaming, dropFunc bool, n *int) func(dag.Seq) {
	wrap := func(k, e dag.Expr) dag.Expr {
		// is_error(k) and under(k)=="missing" (missing(k) itself answers other
		// error values of k with that error)
		return &dag.Conditional{Kind: "Conditional",
			Cond: dag.NewBinaryExpr("and",
				&dag.Call{Kind: "Call", Name: "is_error", Args: []dag.Expr{k}},
				dag.NewBinaryExpr("==", &dag.Call{Kind: "Call", Name: "under", Args: []dag.Expr{k}}, &dag.Literal{Kind: "Literal", Value: `"missing"`})),
			Then: &dag.Literal{Kind: "Literal", Value: "null"},
			Else: e}
	}
	return func(seq dag.Seq) {
		walkSeqs(seq, func(seq dag.Seq) {
			for _, op := range seq {
				s, ok := op.(*dag.Summarize)
				if !ok || len(s.Keys) == 0 || !(streaming && s.InputSortDir != 0 || !streaming && sigs[summarizeSig(s)]) {
					continue
				}
				switch rhs := s.Keys[0].RHS.(type) {
				case *dag.This:
					if len(rhs.Path) > 0 {
						s.Keys[0].RHS = wrap(rhs, rhs)
						*n++
					}
				case *dag.Call:
					// f(k): the group of the values without k becomes null as well
					if rhs.Name == "every" {
						// every(d) is bucket(this.ts, d)
						ts := &dag.This{Kind: "This", Path: field.Path{"ts"}}
						if dropFunc {
							s.Keys[0].RHS = wrap(ts, ts)
						} else {
							s.Keys[0].RHS = wrap(ts, rhs)
						}
						*n++
					} else if len(rhs.Args) > 0 {
						if this, ok := rhs.Args[0].(*dag.This); ok && len(this.Path) > 0 {
							if dropFunc {
								s.Keys[0].RHS = wrap(this, this)
							} else {
								s.Keys[0].RHS = wrap(this, rhs)
							}
							*n++
						}
					}
				}
			}
		})
	}
}

func hasStreamingSummarizeWithLimit(seq dag.Seq) (found bool) {
	walkSeqs(seq, func(seq dag.Seq) {
		for _, op := range seq {
			if s, ok := op.(*dag.Summarize); ok && s.Limit > 0 && s.InputSortDir != 0 {
				found = true
			}
		}
	})
	return found
}

func hasStreamingMultiKeySummarize(seq dag.Seq) (found bool) {
	walkSeqs(seq, func(seq dag.Seq) {
		for _, op := range seq {
			if s, ok := op.(*dag.Summarize); ok && len(s.Keys) > 1 && s.InputSortDir != 0 {
				found = true
			}
		}
	})
	return found
}

func runOne(seq ast.Seq, src source, optimize bool, prep func(dag.Seq)) result {
	return runOnePost(seq, src, optimize, prep, nil)
}

func runOnePost(seq ast.Seq, src source, optimize bool, prep, post func(dag.Seq)) result {
	rt := prog.NewRuntime(zed.NewContext())
	job, err := src.newJob(rt, seq)
	if err != nil {
		rt.Cancel()
		return result{stage: "analyze", err: err}
	}
	var res result
	res.meta, res.use = prog.Classify(job.Entry())
	if prep != nil {
		prep(job.Entry())
	}
	if optimize {
		if err := optimizeJob(job); err != nil {
			rt.Cancel()
			return result{stage: "optimize", err: err}
		}
	}
	res.multiKeyStreaming = hasStreamingMultiKeySummarize(job.Entry())
	res.streamSigs = map[string]bool{}
	walkSeqs(job.Entry(), func(seq dag.Seq) {
		for _, op := range seq {
			if s, ok := op.(*dag.Summarize); ok && s.InputSortDir != 0 {
				res.streamSigs[summarizeSig(s)] = true
			}
		}
	})
	if scan, ok := job.DefaultScan(); ok {
		res.scanFilter = scan.Filter
	}
	if post != nil {
		post(job.Entry())
	}
	b, _ := json.Marshal(job.Entry())
	res.dag = string(b)
	readers, done := src.readers(rt.Zctx)
	defer done()
	res.vals, res.err = prog.Exec(rt, job, readers...)
	switch {
	case res.err == nil:
	case errors.Is(res.err, prog.ErrDeadlock):
		res.stage = "deadlock"
	default:
		var be *prog.BuildError
		if errors.As(res.err, &be) {
			res.stage = "build"
		} else {
			res.stage = "run"
		}
	}
	return res
}

// optimizeJob runs the optimizer and turns a panic inside it into an error.
func optimizeJob(job *compiler.Job) (err error) {
	defer func() {
		if r := recover(); r != nil {
			err = fmt.Errorf("panic: %v", r)
		}
	}()
	return job.Optimize()
}

// runBoth executes the plan exactly as analysed and the optimized plan.
func runBoth(seq ast.Seq, src source, prep func(dag.Seq)) (plain, opt result) {
	return runOne(seq, src, false, prep), runOne(seq, src, true, prep)
}

// fixpointOfSort runs the single operator sortText (as analysed, over an
// opaque reader) on vals and reports how the result differs from vals ("" if not at all).
func fixpointOfSort(sortText string, vals []zed.Value) string {
	seq, _, err := compiler.Parse(sortText)
	if err != nil {
		return ""
	}
	src, err := newFileSource(Case{Input: gen.Seq{Vals: vals}, Reader: "plain", Frame: 100000, Threads: 1, Batch: 100})
	if err != nil {
		return ""
	}
	r := runOne(seq, src, false, nil)
	if r.stage != "" {
		return ""
	}
	return oracle.Same(vals, r.vals)
}

// ---- plan comparison (what did the optimizer do)

func countRE(s, re string) int { return len(regexp.MustCompile(re).FindAllStringIndex(s, -1)) }

var forkPathsRE = regexp.MustCompile(`"kind":"Fork"`)

func rewriteLabels(before, after string) []string {
	var l []string
	nf := func(s string) int { return countRE(s, `"kind":"Filter"`) }
	scanFilter := strings.Contains(after, `"kind":"DefaultScan","filter":{`)
	if scanFilter {
		l = append(l, "filter-pushed")
	}
	pushed := 0
	if scanFilter {
		pushed = 1
	}
	if nf(after)+pushed < nf(before) {
		l = append(l, "filter-merged")
	}
	if countRE(after, `"kind":"Pass"`) < countRE(before, `"kind":"Pass"`) {
		l = append(l, "pass-removed")
	}
	if strings.Contains(after, `"partials_out":true`) {
		l = append(l, "lifted-into-fork", "summarize-partials")
	} else if forkPathsRE.MatchString(before) && opsInPaths(after) > opsInPaths(before) {
		l = append(l, "lifted-into-fork")
	}
	if countRE(after, `"input_sort_dir":-?1`) > 0 {
		l = append(l, "sortkey→summarize")
	}
	if countRE(after, `"(left|right)_dir":"(asc|desc)"`) > 0 {
		l = append(l, "sortkey→join")
	}
	if strings.Contains(after, `"kind":"Merge"`) && !strings.Contains(before, `"kind":"Merge"`) {
		l = append(l, "sort→merge")
	}
	return l
}

// opsInPaths counts the operators that sit inside fork paths.
func opsInPaths(dagJSON string) int {
	var v any
	if json.Unmarshal([]byte(dagJSON), &v) != nil {
		return 0
	}
	n := 0
	var walk func(v any, inPath bool)
	walk = func(v any, inPath bool) {
		switch v := v.(type) {
		case []any:
			for _, e := range v {
				walk(e, inPath)
			}
		case map[string]any:
			if _, ok := v["kind"]; ok && inPath {
				if k, _ := v["kind"].(string); k != "" && !strings.HasSuffix(k, "Expr") && k != "This" && k != "Literal" && k != "Call" && k != "Assignment" {
					n++
				}
			}
			keys := make([]string, 0, len(v))
			for k := range v {
				keys = append(keys, k)
			}
			sort.Strings(keys)
			for _, k := range keys {
				walk(v[k], inPath || k == "paths")
			}
		}
	}
	walk(v, false)
	return n
}

// ---- oracle

func weirdFloat(typ zed.Type, body zcode.Bytes) bool {
	if !zed.IsFloat(typ.ID()) {
		return false
	}
	f := zed.DecodeFloat(body)
	return f != f || (f == 0 && 1/f < 0)
}

func hasWeirdFloat(vals []zed.Value) bool {
	for _, v := range vals {
		if oracle.HasLeaf(v, weirdFloat) {
			return true
		}
	}
	return false
}

var joinDirRE = regexp.MustCompile(`"left_dir":"(asc|desc|unknown)","right_key":\{[^{}]*(\{[^{}]*\}[^{}]*)*\},"right_dir":"(asc|desc|unknown)"`)

// joinDirs returns the (left, right) directions of the joins of a plan.
func joinDirs(dagJSON string) [][2]string {
	var out [][2]string
	for _, m := range joinDirRE.FindAllStringSubmatch(dagJSON, -1) {
		out = append(out, [2]string{m[1], m[3]})
	}
	return out
}

// keyNullMissing reports whether the declared sort key is null in some input value and missing in some.
func keyNullMissing(c Case) (hasNull, hasMissing bool) {
	if c.SortKey == "" {
		return false, false
	}
	e := expr.NewDottedExpr(c.Input.Zctx, field.Dotted(c.SortKey))
	ectx := expr.NewContext()
	for _, v := range c.Input.Vals {
		k := e.Eval(ectx, v)
		if k.IsMissing() {
			hasMissing = true
		} else if k.IsNull() {
			hasNull = true
		}
	}
	return hasNull, hasMissing
}

// keyIsFloat reports whether the declared sort key holds a float (possibly null) in some input value.
func keyIsFloat(c Case) bool {
	e := expr.NewDottedExpr(c.Input.Zctx, field.Dotted(c.SortKey))
	ectx := expr.NewContext()
	for _, v := range c.Input.Vals {
		if k := e.Eval(ectx, v); zed.IsFloat(k.Type().ID()) {
			return true
		}
	}
	return false
}

func inputHasUnion(c Case) bool {
	for _, v := range c.Input.Vals {
		if oracle.TypeHas(v.Type(), func(t zed.Type) bool { _, ok := t.(*zed.TypeUnion); return ok }) {
			return true
		}
	}
	return false
}

func keyHasNullOrMissing(c Case) bool {
	n, m := keyNullMissing(c)
	return n || m
}

func runCase(c Case) *vt.Outcome {
	o := &vt.Outcome{}
	seq, _, err := compiler.Parse(c.Program)
	if err != nil {
		return &vt.Outcome{Skip: "parse-error:" + srcKind(c)}
	}
	if !isSorted(c.Input.Zctx, c.Input.Vals, c.SortKey, c.Desc) {
		return &vt.Outcome{Skip: "input-not-sorted-as-declared"}
	}
	src, err := newFileSource(c)
	if err != nil {
		return &vt.Outcome{Skip: "input-not-writable"}
	}
	// A summarize that gets BOTH an input sort direction (from the optimizer)
	// and a group limit can take the whole process down (nil dereference in
	// groupby.Aggregator.readSpills, in an operator goroutine, so it cannot be
	// recovered here): such optimized plans are not executed unless asked for.
	if os.Getenv("VERIF_C07_RUN_CRASHERS") == "" {
		probe := prog.NewRuntime(zed.NewContext())
		if job, err := src.newJob(probe, seq); err == nil && optimizeJob(job) == nil && hasStreamingSummarizeWithLimit(job.Entry()) {
			probe.Cancel()
			return &vt.Outcome{Skip: "excluded:C07-streaming-summarize-with-limit-crash"}
		}
		probe.Cancel()
	}
	plain, opt := runBoth(seq, src, nil)
	if plain.stage == "analyze" {
		if errors.Is(plain.err, errNoDefaultScan) {
			return &vt.Outcome{Skip: "own-source:" + srcKind(c)}
		}
		return &vt.Outcome{Skip: "compile-error:" + srcKind(c)}
	}
	if !plain.use {
		return &vt.Outcome{Skip: "own-source:" + srcKind(c)}
	}
	meta := c.Meta
	if c.Source != "grammar" {
		meta = plain.meta
	}
	o.Label("source:"+srcKind(c), "reader:"+c.Reader)
	if c.SortKey != "" {
		o.Label("declared-sortkey")
		if c.Desc {
			o.Label("declared-sortkey-desc")
		}
	}
	for _, f := range meta.Features {
		o.Label("feature:" + f)
	}
	switch {
	case meta.Ordered:
		o.Label("compare:sequence")
	case meta.Deterministic:
		o.Label("compare:multiset")
	default:
		o.Label("compare:none")
	}
	if plain.dag != opt.dag && opt.stage != "optimize" {
		o.NonTrivial = true
		labels := rewriteLabels(plain.dag, opt.dag)
		if len(labels) == 0 {
			labels = []string{"other"}
		}
		for _, l := range labels {
			o.Label("rewrite:" + l)
		}
	} else {
		o.Label("rewrite:none")
	}
	// failures of one side only
	if plain.stage != opt.stage {
		if opt.stage == "deadlock" {
			sig := "C07/optimized-plan-deadlocks"
			for _, d := range joinDirs(opt.dag) {
				if d[0] != "unknown" || d[1] != "unknown" {
					sig = "C07/sortkey-join/presorted-side-deadlock"
				}
			}
			if sig == "C07/optimized-plan-deadlocks" {
				// Only a deadlock that the optimized plan shows every time is laid
				// at the optimizer's door; one that comes and goes with the goroutine
				// schedule belongs to the runtime's end-of-stream protocol.
				for i := 0; i < 2; i++ {
					if r := runOne(seq, src, true, nil); r.stage != "deadlock" {
						return &vt.Outcome{Skip: "intermittent-deadlock"}
					}
				}
			}
			o.Fail = vt.Failf(sig, "the plan as analysed completes (%d values) but the optimized plan deadlocks\nprogram: %s\nsort key: %q desc=%v\noptimized plan: %s",
				len(plain.vals), c.Program, c.SortKey, c.Desc, opt.dag)
			return o
		}
		if plain.stage == "deadlock" {
			if r := runOne(seq, src, false, nil); r.stage != "deadlock" {
				return &vt.Outcome{Skip: "intermittent-deadlock"}
			}
			return &vt.Outcome{Skip: "unoptimized-plan-deadlocks"}
		}
		if opt.stage == "optimize" && plain.stage == "" && strings.Contains(opt.err.Error(), "panic: Duplicate op value") {
			o.Fail = vt.Failf("C07/optimize-panics/duplicate-pass-op", "Optimize panics (%v) on a program whose plan as analysed runs (%d values)\nprogram: %s", opt.err, len(plain.vals), c.Program)
			return o
		}
		o.Fail = vt.Failf("C07/one-side-fails/"+plain.stage+"-vs-"+opt.stage,
			"as analysed: stage=%q err=%v; optimized: stage=%q err=%v\nprogram: %s\nsort key: %q desc=%v", plain.stage, plain.err, opt.stage, opt.err, c.Program, c.SortKey, c.Desc)
		return o
	}
	if plain.stage != "" {
		reason := plain.stage + "-fails-on-both"
		if prog.IsPanic(plain.err) {
			reason = "panic-on-both:" + panicFrame(plain.err)
		}
		return &vt.Outcome{Skip: reason}
	}
	if meta.FinalSort != "" {
		// The program ends in a keyed sort: the output of either plan must be in
		// that order (a stable re-sort by the plain sort operator leaves it unchanged).
		o.Label("final-sort-checked")
		if d := fixpointOfSort(meta.FinalSort, plain.vals); d == "" {
			if d := fixpointOfSort(meta.FinalSort, opt.vals); d != "" {
				sig := "C07/final-sort-order-violated"
				if strings.Contains(opt.dag, `"kind":"Merge"`) && !strings.Contains(plain.dag, `"kind":"Merge"`) {
					sig = "C07/sort-lifted-into-fork/merge-order-differs-from-sort"
				}
				o.Fail = vt.Failf(sig, "the optimized plan's output is not in the order of the final `%s`: %s\nprogram: %s\noptimized plan: %s", meta.FinalSort, d, c.Program, opt.dag)
				return o
			}
		} else {
			o.Label("final-sort-not-a-fixpoint-in-reference")
		}
	}
	if !meta.Deterministic {
		return o
	}
	compare := func(a, b []zed.Value) string {
		if meta.Ordered {
			return oracle.Same(a, b)
		}
		return oracle.SameMultiset(a, b)
	}
	diff := compare(plain.vals, opt.vals)
	if diff == "" {
		return o
	}
	if meta.Ordered && oracle.SameMultiset(plain.vals, opt.vals) == "" && (hasWeirdFloat(plain.vals) || hasWeirdFloat(opt.vals)) {
		// -0/NaN compare equal to 0/NaN in sorts: ties between distinct values
		return &vt.Outcome{Skip: "float-tie-corner"}
	}
	sig := "C07/output-differs"
	if meta.Ordered && oracle.SameMultiset(plain.vals, opt.vals) == "" {
		sig = "C07/order-differs"
	}
	// known classes (narrow)
	if strings.Contains(opt.dag, `"partials_out":true`) && strings.Contains(opt.dag, `"kind":"Agg","name":"union"`) && inputHasUnion(c) {
		sig = "C07/summarize-partials/union-agg-over-union-typed-values"
	}
	presorted := false
	for _, d := range joinDirs(opt.dag) {
		if d[0] != "unknown" || d[1] != "unknown" {
			presorted = true
		}
	}
	if presorted {
		// Is the omitted sort of a join side the cause?  Run the optimized plan with the directions taken out.
		if r := runOnePost(seq, src, true, nil, noJoinDirs); r.stage == "" && compare(plain.vals, r.vals) == "" {
			known := "C07/sortkey-join/presorted-side-differs"
			switch {
			case countRE(opt.dag, `"input_sort_dir":-?1`) > 0:
				known = "C07/sortkey-join/streaming-summarize-output-taken-for-sorted"
			case strings.Contains(opt.dag, `"nullsfirst":true`):
				known = "C07/sortkey-join/sort-nulls-first-taken-for-sorted"
			case strings.Contains(opt.dag, `_dir":"desc"`) && keyHasNullOrMissing(c):
				known = "C07/sortkey-join/desc-null-keys"
			}
			if vt.IsKnown(known) {
				o.Known = append(o.Known, known)
				return o
			}
			sig = known
		}
	}
	// (C07-sortkey-summarize-not-first-key, fixed in e7acaf73a, was classified here
	// by re-running with the direction taken out of multi-key summarizes only.)
	if countRE(opt.dag, `"input_sort_dir":-?1`) > 0 {
		// Is the streaming group-by (Summarize.InputSortDir) the cause?  Run the
		// optimized plan with the direction taken out again.
		if r := runOnePost(seq, src, true, nil, noStreamingSummarize); r.stage == "" && compare(plain.vals, r.vals) == "" {
			known := "C07/sortkey-summarize/streaming-differs"
			hasNull, _ := keyNullMissing(c)
			// Root cause "the producers of the order (declared input order, sort,
			// merge) take a missing key for null, the streaming group-by keeps
			// error(\"missing\") apart from null and orders it elsewhere": put the
			// missing keys into the null group in BOTH plans (streaming left on in
			// the optimized one); if they then agree, that is the cause.
			// Root cause "the input order is assumed to survive a fork whose branches
			// are combined": take the direction out of the combine-fed summarizes only.
			var nc int
			if rc := runOnePost(seq, src, true, nil, noStreamingAfterCombine(&nc)); nc > 0 && rc.stage == "" && compare(plain.vals, rc.vals) == "" {
				const combineSig = "C07/sortkey-summarize/input-order-assumed-through-fork-combine"
				if vt.IsKnown(combineSig) {
					o.Known = append(o.Known, combineSig)
					return o
				}
				sig = combineSig
				o.Fail = vt.Failf(sig, "%s\nprogram: %s\nsort key: %q desc=%v reader=%s\noptimized plan: %s", diff, c.Program, c.SortKey, c.Desc, c.Reader, opt.dag)
				return o
			}
			var np, no int
			pm := runOnePost(seq, src, false, missingKeyAsNull(opt.streamSigs, false, &np), nil)
			om := runOnePost(seq, src, true, nil, missingKeyAsNull(nil, true, &no))
			switch {
			case np > 0 && no > 0 && pm.stage == "" && om.stage == "" && compare(pm.vals, om.vals) == "":
				known = "C07/sortkey-summarize/null-and-missing-keys-interleaved"
			case np > 0 && no > 0 && nc > 0 && pm.stage == "" && bothCausesAgree(seq, src, pm, compare, false):
				// both root causes at once
				const combineSig = "C07/sortkey-summarize/input-order-assumed-through-fork-combine"
				known = "C07/sortkey-summarize/null-and-missing-keys-interleaved"
				if vt.IsKnown(combineSig) {
					o.Known = append(o.Known, combineSig)
				} else {
					known = combineSig
				}
			default:
				// Root cause "a key function that the optimizer takes for order
				// preserving (floor, ceil, round, bucket, every) is not, on the values
				// at hand": floor(null float) is 0., and for a missing, null or
				// non-numeric argument the result is an error value that embeds the
				// argument and is ordered by its encoding.  Group by the argument
				// itself (missing keys in the null group) in both plans: if they then
				// agree, the function was the cause.
				var fp, fo int
				pf := runOnePost(seq, src, false, keyFunctionRemoved(opt.streamSigs, false, &fp), nil)
				of := runOnePost(seq, src, true, nil, keyFunctionRemoved(nil, true, &fo))
				if fp > 0 && fo > 0 && pf.stage == "" && of.stage == "" && keyFunctionPresent(opt.dag) &&
					(compare(pf.vals, of.vals) == "" || nc > 0 && bothCausesAgree(seq, src, pf, compare, true)) {
					known = "C07/sortkey-summarize/order-preserving-function-of-non-numeric-key"
					if hasNull && keyIsFloat(c) {
						known = "C07/sortkey-summarize/rounding-function-of-null-float-key"
					}
				}
			}
			if vt.IsKnown(known) {
				// everything but the streaming release has been checked by r
				o.Known = append(o.Known, known)
				return o
			}
			sig = known
		}
	}
	if c.Reader == "zng" && strings.Contains(opt.dag, `"kind":"DefaultScan","filter":{`) {
		// Is the ZNG scanner's pushdown the cause?  Run the same optimized plan over an opaque reader.
		alt := *src
		alt.reader = "plain"
		if r := runOne(seq, &alt, true, nil); r.stage == "" && compare(plain.vals, r.vals) == "" {
			sig = "C07/zng-scanner-pushdown"
			// Which input values does the scanner lose?  Run only the leading filters over both readers.
			lp, lz := runOne(seq, &alt, true, leadingFiltersOnly), runOne(seq, src, true, leadingFiltersOnly)
			if lp.stage == "" && lz.stage == "" && len(prog.MultisetMinus(lz.vals, lp.vals)) == 0 {
				if class := prog.BufferFilterLossClass(lz.scanFilter, prog.MultisetMinus(lp.vals, lz.vals)); class != "" {
					// Known false negatives of the ZNG buffer filter.  The optimized
					// plan over the opaque reader agrees with the plan as analysed, so
					// everything but the buffer filter has been checked.
					sig = "C07/zng-bufferfilter/" + class
					if vt.IsKnown(sig) {
						o.Known = append(o.Known, sig)
						return o
					}
				}
			}
		}
	}
	if sig == "C07/output-differs" || sig == "C07/order-differs" {
		// Known: a filter operator emits the error value of an error-valued
		// predicate, a filter pushed into the scanner (or and-ed into an earlier
		// filter) drops the value.  With every filter rewritten to drop such
		// values both plans must agree; everything else is still checked.
		p2, o2 := runBoth(seq, src, dropErrorFilters)
		if p2.stage == "" && o2.stage == "" && compare(p2.vals, o2.vals) == "" {
			const known = "C07/filter-error-predicate/operator-emits-error-scanner-drops"
			if vt.IsKnown(known) {
				o.Known = append(o.Known, known)
				return o
			}
			sig = known
		}
	}
	o.Fail = vt.Failf(sig, "%s\nprogram: %s\nsort key: %q desc=%v reader=%s\nas analysed -> %d values, optimized -> %d values\noptimized plan: %s",
		diff, c.Program, c.SortKey, c.Desc, c.Reader, len(plain.vals), len(opt.vals), opt.dag)
	return o
}

// leadingFiltersOnly reduces an analysed DAG to its source and the filters
// that directly follow it (everything else becomes pass).
func leadingFiltersOnly(seq dag.Seq) {
	i := 1
	for i < len(seq) {
		// (pass operators are removed before adjacent filters are merged)
		_, isFilter := seq[i].(*dag.Filter)
		_, isPass := seq[i].(*dag.Pass)
		if !isFilter && !isPass {
			break
		}
		i++
	}
	for ; i < len(seq); i++ {
		if _, ok := seq[i].(*dag.Output); ok && i == len(seq)-1 {
			break
		}
		seq[i] = dag.PassOp
	}
	if n := len(seq); n > 0 {
		if _, ok := seq[n-1].(*dag.Output); !ok {
			seq[n-1] = &dag.Output{Kind: "Output", Name: "main"}
		}
	}
}

var frameRE = regexp.MustCompile(`github.com/brimdata/super/([A-Za-z0-9_/.]+\.\(?\*?[A-Za-z0-9_]+\)?\.[A-Za-z0-9_]+)`)

// panicFrame names the first frame of the code under test below the recover point of a recovered panic.
func panicFrame(err error) string {
	s := err.Error()
	if i := strings.Index(s, "panic({"); i >= 0 {
		s = s[i:]
	}
	for _, m := range frameRE.FindAllStringSubmatch(s, -1) {
		if !strings.Contains(m[1], "Catcher") {
			return m[1]
		}
	}
	return "?"
}

func srcKind(c Case) string {
	if c.Source == "grammar" {
		return "grammar"
	}
	return "corpus"
}

var prop = &vt.Prop[Case]{
	Name: "TestOptimizerPreservesMeaning",
	Rule: "case = (program: 85% grammar-directed (prog.Gen over where/search, cut, drop, put, rename, yield, sort, head, tail, uniq, fuse, summarize(by, every, -limit), fork, switch, over, join, pass, merge; steered by the declared sort key), 15% repo corpus (valid.zed + ztest zed: programs, own or generated input); " +
		"input: generated heterogeneous records (nulls, missing and duplicate keys); declared sort key/order: none or a top-level field asc/desc with the input really sorted by the lake's sort comparator; reader: zngio (frame threshold, threads) or an opaque reader (batch size)). " +
		"The same compiler.NewJob is built and run twice: as analysed, and after Optimize. Sequence equality when the program defines an order, multiset equality when deterministic. " +
		"Non-trivial = the optimized DAG differs from the analysed one (labels rewrite:*).",
	Gen: genCase,
	Run: runCase,
}

func init() { prop.Register() }

func TestOptimizerPreservesMeaning(t *testing.T) { prop.Check(t) }
func TestReplay(t *testing.T)                    { vt.TestReplay(t) }

var _ = fmt.Sprintf
var _ = zsonio.NewReader
