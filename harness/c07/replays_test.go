package c07

import (
	"encoding/json"
	"os"
	"path/filepath"
	"testing"

	"verif/gen"
	"verif/prog"
)

// literal minimal cases of the findings (written to /verif/replays/C07 by
// VERIF_WRITE_REPLAYS=1 go test -run TestWriteKnownReplays; the replay files
// themselves are what ./check runs)
var literalCases = map[string]struct {
	sig    string
	expect string
	c      Case
}{
	"known-C07-filter-error-predicate": {
		sig: "C07/filter-error-predicate/operator-emits-error-scanner-drops", expect: "known",
		c: Case{Program: "where len(k)<0", Meta: prog.Meta{Ordered: true, Deterministic: true}, Source: "grammar",
			Input: gen.SeqFromZSON(`{k:2}`), Reader: "plain", Batch: 100, Frame: 1000, Threads: 1},
	},
	"known-C07-sortkey-join-deadlock": {
		sig: "C07/sortkey-join/presorted-side-deadlock", expect: "known",
		c: Case{Program: "fork (=> pass => put a:=a) | join on a=a b2:=b", Meta: prog.Meta{Ordered: false, Deterministic: true}, Source: "grammar",
			Input: gen.SeqFromZSON(`{a:1,b:1} {a:2,b:2} {a:3,b:3} {a:4,b:4}`), SortKey: "a", Reader: "zng", Frame: 1, Threads: 1, Batch: 100},
	},
	"known-C07-bufferfilter-nested-fieldname": {
		sig: "C07/zng-bufferfilter/search-fieldname-inside-container", expect: "known",
		c: Case{Program: "foo", Meta: prog.Meta{Ordered: true, Deterministic: true}, Source: "grammar",
			Input: gen.SeqFromZSON(`{a:[{foo:1}]} {a:[{bar:2}]}`), Reader: "zng", Frame: 1, Threads: 1, Batch: 100},
	},
	"known-C07-sortkey-summarize-null-missing": {
		sig: "C07/sortkey-summarize/null-and-missing-keys-interleaved", expect: "known",
		c: Case{Program: "count() by bar", Meta: prog.Meta{Ordered: false, Deterministic: true}, Source: "grammar",
			Input: gen.SeqFromZSON(`{bar:null(int64)} {a:1} {bar:null(int64)}`), SortKey: "bar", Desc: true, Reader: "plain", Frame: 1, Threads: 1, Batch: 1},
	},
	"known-C07-optimize-duplicate-pass": {
		sig: "C07/optimize-panics/duplicate-pass-op", expect: "known",
		c: Case{Program: "fork (=> pass => pass) | put b:=1 | fork (=> pass => pass) | put c:=2", Meta: prog.Meta{Ordered: false, Deterministic: true}, Source: "grammar",
			Input: gen.SeqFromZSON(`{a:1}`), Reader: "plain", Frame: 1000, Threads: 1, Batch: 100},
	},
	"known-C07-sortkey-summarize-not-first-key": {
		sig: "C07/sortkey-summarize/sort-key-not-first-groupby-key", expect: "known",
		c: Case{Program: "count() by k, c", Meta: prog.Meta{Ordered: false, Deterministic: true}, Source: "grammar",
			Input: gen.SeqFromZSON(`{k:1,c:1} {k:2,c:1} {k:1,c:1}`), SortKey: "c", Reader: "plain", Frame: 1, Threads: 1, Batch: 1},
	},
	"known-C07-sortkey-summarize-round-null": {
		sig: "C07/sortkey-summarize/rounding-function-of-null-float-key", expect: "known",
		c: Case{Program: "count() by bar:=floor(bar)", Meta: prog.Meta{Ordered: false, Deterministic: true}, Source: "grammar",
			Input: gen.SeqFromZSON(`{bar:0.} {bar:1.} {bar:null(float64)}`), SortKey: "bar", Reader: "plain", Frame: 1, Threads: 1, Batch: 1},
	},
	"known-C07-sortkey-join-nulls-first": {
		sig: "C07/sortkey-join/sort-nulls-first-taken-for-sorted", expect: "known",
		c: Case{Program: "fork (=> sort -nulls first n => pass) | join on n=n", Meta: prog.Meta{Ordered: false, Deterministic: true}, Source: "grammar",
			Input: gen.SeqFromZSON(`{n:2,b:2} {n:null(int64),b:0} {n:1,b:1}`), Reader: "plain", Frame: 100000, Threads: 1, Batch: 100},
	},
	"known-C07-sort-lifted-merge-order": {
		sig: "C07/sort-lifted-into-fork/merge-order-differs-from-sort", expect: "known",
		c: Case{Program: "fork (=> pass => pass) | sort -r n", Meta: prog.Meta{Ordered: false, Deterministic: true, FinalSort: "sort -r n"}, Source: "grammar",
			Input: gen.SeqFromZSON(`{n:1} {n:3} {n:2} {n:null(int64)}`), Reader: "plain", Frame: 100000, Threads: 1, Batch: 100},
	},
	"known-C07-partials-union-agg": {
		sig: "C07/summarize-partials/union-agg-over-union-typed-values", expect: "known",
		c: Case{Program: "fork (=> pass => pass) | union(n) by k", Meta: prog.Meta{Ordered: false, Deterministic: true}, Source: "grammar",
			Input: gen.SeqFromZSON(`{k:1,n:5(int32)((int32,int64))}`), Reader: "plain", Frame: 100000, Threads: 1, Batch: 100},
	},
	"known-C07-sortkey-join-after-streaming-summarize": {
		sig: "C07/sortkey-join/streaming-summarize-output-taken-for-sorted", expect: "known",
		// (the order of the final flush is map order: reproduces about every other run)
		c: Case{Program: "count() by x:=bucket(x, 3) | fork (=> sort this => pass) | join on x=x c:=count", Meta: prog.Meta{Ordered: false, Deterministic: true}, Source: "grammar",
			Input: gen.SeqFromZSON(`{x:null} {k:1}`), SortKey: "x", Reader: "plain", Frame: 100000, Threads: 1, Batch: 100},
	},
	"known-C07-bufferfilter-null-equals-false": {
		sig: "C07/zng-bufferfilter/null-equals-false-literal", expect: "known",
		c: Case{Program: "where j==false", Meta: prog.Meta{Ordered: true, Deterministic: true}, Source: "grammar",
			Input: gen.SeqFromZSON(`{j:null(bool),a:1} {j:true,a:1}`), Reader: "zng", Frame: 1, Threads: 1, Batch: 100},
	},
	"known-C07-sortkey-summarize-fork-combine": {
		sig: "C07/sortkey-summarize/input-order-assumed-through-fork-combine", expect: "known",
		c: Case{Program: "fork (=> pass => pass) | count() by n", Meta: prog.Meta{Ordered: false, Deterministic: true}, Source: "grammar",
			Input: gen.SeqFromZSON(`{n:1} {n:2} {n:3} {n:4} {n:5} {n:6}`), SortKey: "n", Reader: "plain", Frame: 1, Threads: 1, Batch: 1},
	},
	"known-C07-sortkey-summarize-keyfunc-nonnumeric": {
		sig: "C07/sortkey-summarize/order-preserving-function-of-non-numeric-key", expect: "known",
		c: Case{Program: "count() by bar:=floor(bar)", Meta: prog.Meta{Ordered: false, Deterministic: true}, Source: "grammar",
			Input: gen.SeqFromZSON(`{a:1} {bar:null(error(uint64))} {a:2} {bar:null(error(uint64))}`), SortKey: "bar", Desc: true, Reader: "plain", Frame: 1, Threads: 1, Batch: 1},
	},
	"known-C07-sortkey-join-desc-nulls": {
		sig: "C07/sortkey-join/desc-null-keys", expect: "known",
		c: Case{Program: "fork (=> pass => put a:=a) | join on a=a b2:=b", Meta: prog.Meta{Ordered: false, Deterministic: true}, Source: "grammar",
			Input: gen.SeqFromZSON(`{a:null(int64),b:0} {a:2,b:2} {a:1,b:1}`), SortKey: "a", Desc: true, Reader: "plain", Frame: 100000, Threads: 1, Batch: 100},
	},
}

func TestWriteKnownReplays(t *testing.T) {
	for name, lc := range literalCases {
		o := runCase(lc.c)
		got := ""
		if o.Fail != nil {
			got = o.Fail.Sig
		}
		for _, k := range o.Known {
			got = k
		}
		t.Logf("%s: skip=%q sig=%q (want %q) labels=%v", name, o.Skip, got, lc.sig, o.Labels)
		// (some of the defects depend on map iteration order inside the code under
		// test, so a literal case may also pass; it must never fail differently)
		if got != lc.sig && got != "" {
			t.Errorf("%s does not reproduce %s", name, lc.sig)
		}
		if os.Getenv("VERIF_WRITE_REPLAYS") == "" {
			continue
		}
		if only := os.Getenv("VERIF_WRITE_ONLY"); only != "" && only != name {
			continue
		}
		raw, _ := json.Marshal(lc.c)
		b, _ := json.MarshalIndent(map[string]any{"test": prop.Name, "sig": lc.sig, "expect": lc.expect, "case": json.RawMessage(raw)}, "", " ")
		os.MkdirAll("/verif/replays/C07", 0o755)
		if err := os.WriteFile(filepath.Join("/verif/replays/C07", name+".json"), append(b, '\n'), 0o644); err != nil {
			t.Fatal(err)
		}
	}
}
