// Package gen holds the rapid generators shared by all properties: types,
// values, sequences.  Every random choice is a rapid draw.
package gen

import (
	"fmt"

	zed "github.com/brimdata/super"
	"pgregory.net/rapid"
)

var Primitives = []zed.Type{
	zed.TypeUint8, zed.TypeUint16, zed.TypeUint32, zed.TypeUint64,
	zed.TypeInt8, zed.TypeInt16, zed.TypeInt32, zed.TypeInt64,
	zed.TypeDuration, zed.TypeTime,
	zed.TypeFloat16, zed.TypeFloat32, zed.TypeFloat64,
	zed.TypeBool, zed.TypeBytes, zed.TypeString, zed.TypeIP, zed.TypeNet,
	zed.TypeType, zed.TypeNull,
}

// FieldNames deliberately contains keywords, quoted and non-ASCII names.
var FieldNames = []string{
	"a", "b", "c", "k", "v", "s", "n", "x", "y",
	"", "a.b", "type", "null", "true", "error", "1x", "é", "日本", "with space", "q\"uote", "$", "_", "map", "in",
}

// SimpleFieldNames is the identifier-only subset (for program-oriented generators).
var SimpleFieldNames = []string{"a", "b", "c", "k", "v", "s", "n", "x", "y"}

var TypeNames = []string{"foo", "bar", "a.b", "日本", "0x", "port", "my type"}

var SimpleTypeNames = []string{"foo", "bar", "port"}

var SimpleEnumSymbols = []string{"A", "B", "C", "foo", "bar"}

var EnumSymbols = []string{"A", "B", "C", "foo", "bar baz", "null", "1", "é"}

// TypeOpts tunes the type generator.
type TypeOpts struct {
	MaxDepth    int
	SimpleNames bool // identifier field names only
	NoNamed     bool
	NoUnion     bool
	NoEnum      bool
	NoError     bool
	NoMap       bool
	NoSet       bool
	NoTypeType  bool // exclude the primitive `type`
	NoNullType  bool // exclude the primitive `null` as a leaf type
	NullInUnion bool // opt-in corner: unions may contain the null type
	Prims       []zed.Type
}

type TypeGen struct {
	Zctx *zed.Context
	Opts TypeOpts
}

func (g *TypeGen) prims() []zed.Type {
	if g.Opts.Prims != nil {
		return g.Opts.Prims
	}
	return Primitives
}

func (g *TypeGen) Prim(t *rapid.T) zed.Type {
	for {
		p := rapid.SampledFrom(g.prims()).Draw(t, "prim")
		if g.Opts.NoTypeType && p == zed.TypeType {
			continue
		}
		if g.Opts.NoNullType && p == zed.TypeNull {
			continue
		}
		return p
	}
}

func (g *TypeGen) fieldNames() []string {
	if g.Opts.SimpleNames {
		return SimpleFieldNames
	}
	return FieldNames
}

// Draw draws a type of nesting depth <= depth.
func (g *TypeGen) Draw(t *rapid.T, depth int) zed.Type {
	if depth <= 0 || rapid.IntRange(0, 9).Draw(t, "leaf?") < 4 {
		return g.Prim(t)
	}
	depth--
	for {
		switch rapid.IntRange(0, 7).Draw(t, "kind") {
		case 0, 1: // record (weighted)
			return g.Record(t, depth)
		case 2:
			return g.Zctx.LookupTypeArray(g.Draw(t, depth))
		case 3:
			if g.Opts.NoSet {
				continue
			}
			return g.Zctx.LookupTypeSet(g.Draw(t, depth))
		case 4:
			if g.Opts.NoMap {
				continue
			}
			return g.Zctx.LookupTypeMap(g.Draw(t, depth), g.Draw(t, depth))
		case 5:
			if g.Opts.NoUnion {
				continue
			}
			return g.Union(t, depth)
		case 6:
			switch rapid.IntRange(0, 1).Draw(t, "enum/error") {
			case 0:
				if g.Opts.NoEnum {
					continue
				}
				n := rapid.IntRange(1, 5).Draw(t, "nsym")
				syms := EnumSymbols
				if g.Opts.SimpleNames {
					syms = SimpleEnumSymbols
				}
				perm := rapid.Permutation(syms).Draw(t, "syms")
				return g.Zctx.LookupTypeEnum(append([]string(nil), perm[:n]...))
			default:
				if g.Opts.NoError {
					continue
				}
				return g.Zctx.LookupTypeError(g.Draw(t, depth))
			}
		case 7:
			if g.Opts.NoNamed {
				continue
			}
			tnames := TypeNames
			if g.Opts.SimpleNames {
				tnames = SimpleTypeNames
			}
			name := rapid.SampledFrom(tnames).Draw(t, "tname")
			inner := g.Draw(t, depth)
			named, err := g.Zctx.LookupTypeNamed(name, inner)
			if err != nil {
				panic(fmt.Sprintf("harness: LookupTypeNamed(%q): %v", name, err))
			}
			return named
		}
	}
}

func (g *TypeGen) Record(t *rapid.T, depth int) zed.Type {
	n := rapid.IntRange(0, 5).Draw(t, "nfields")
	names := rapid.Permutation(g.fieldNames()).Draw(t, "fnames")
	fields := make([]zed.Field, n)
	for i := range fields {
		fields[i] = zed.NewField(names[i], g.Draw(t, depth))
	}
	typ, err := g.Zctx.LookupTypeRecord(fields)
	if err != nil {
		panic(fmt.Sprintf("harness: LookupTypeRecord: %v", err))
	}
	return typ
}

func (g *TypeGen) Union(t *rapid.T, depth int) zed.Type {
	n := rapid.IntRange(2, 4).Draw(t, "nunion")
	var types []zed.Type
	for tries := 0; len(types) < n && tries < 12; tries++ {
		m := g.Draw(t, depth)
		if m == zed.TypeNull && !g.Opts.NullInUnion {
			continue
		}
		// Unions directly nested in unions are legal but the
		// formatter/parsers treat them specially; keep them (they are part
		// of the type system) but avoid duplicates, which LookupTypeUnion
		// does not remove.
		dup := false
		for _, x := range types {
			if x == m {
				dup = true
			}
		}
		if !dup {
			types = append(types, m)
		}
	}
	if len(types) < 2 {
		return g.Prim(t)
	}
	return g.Zctx.LookupTypeUnion(types)
}
