package gen

import (
	"math"
	"net/netip"
	"strings"

	zed "github.com/brimdata/super"
	"github.com/brimdata/super/pkg/nano"
	"github.com/brimdata/super/zcode"
	"golang.org/x/text/unicode/norm"
	"pgregory.net/rapid"
)

var boundaryInts = []int64{0, 1, -1, 2, 127, 128, -128, -129, 255, 256, 32767, -32768, 65535, 65536,
	1<<31 - 1, 1 << 31, -(1 << 31), 1<<32 - 1, 1 << 32, 1 << 53, 1<<53 + 1, 1<<53 - 1, -(1 << 53), -(1<<53 + 1),
	math.MaxInt64, math.MaxInt64 - 1, math.MinInt64, math.MinInt64 + 1}

var boundaryUints = []uint64{0, 1, 2, 127, 128, 255, 256, 65535, 65536, 1<<32 - 1, 1 << 32, 1 << 53, 1<<53 + 1,
	1<<63 - 1, 1 << 63, 1<<63 + 1, math.MaxUint64, math.MaxUint64 - 1}

var boundaryFloats = []float64{0, math.Copysign(0, -1), 1, -1, 0.5, 0.1, 1.5, 2, 100, 1e21, 1e-7, 1 << 53, 1<<53 + 2, 1 << 63, -(1 << 63),
	math.MaxFloat64, -math.MaxFloat64, math.SmallestNonzeroFloat64, math.Inf(1), math.Inf(-1), math.NaN(),
	math.MaxFloat32, math.SmallestNonzeroFloat32, 65504, 6e-8, 3.14159, 1e15, 1e16, 123456789}

var stringPool = []string{"", "a", "b", "foo", "bar", "hello world", "A", "Foo", "null", "true", "1", "1.5", "-",
	"\"", "\\", "\n", "\t", "\x00", "\x7f", "é", "日本語", "😀", "a\"b\\c", "${x}", "'", "*", "a*b", "?", " ", "  lead",
	"x=1", "[", "{", "(", "/re/", "<", ">", "10.0.0.1", "2001:db8::1", "1s", "2020-01-01T00:00:00Z",
	strings.Repeat("x", 127), strings.Repeat("y", 128), strings.Repeat("z", 300)}

var ipPool = []string{"0.0.0.0", "10.0.0.1", "255.255.255.255", "127.0.0.1", "192.168.1.255",
	"::", "::1", "2001:db8::1", "ffff:ffff:ffff:ffff:ffff:ffff:ffff:ffff", "::ffff:10.0.0.1", "fe80::1", "1:2:3:4:5:6:7:8"}

// ValOpts tunes the value generator.
type ValOpts struct {
	NoNulls     bool // never generate nulls (except for the null type)
	NonNFC      bool // allow non-NFC strings (opt-in corner)
	MaxLen      int  // max container length (default 4)
	NullPercent int  // default 12
	Small       bool // only small, readable primitives
}

type ValGen struct {
	Zctx  *zed.Context
	Opts  ValOpts
	Types *TypeGen // for type values
}

func nonNil(b []byte) []byte {
	if b == nil {
		return []byte{}
	}
	return b
}

func (g *ValGen) maxLen() int {
	if g.Opts.MaxLen > 0 {
		return g.Opts.MaxLen
	}
	return 4
}

// Value draws a value of type typ.
func (g *ValGen) Value(t *rapid.T, typ zed.Type) zed.Value {
	var b zcode.Builder
	g.Append(t, &b, typ, true)
	return zed.NewValue(typ, b.Bytes().Body())
}

func (g *ValGen) isNull(t *rapid.T) bool {
	if g.Opts.NoNulls {
		return false
	}
	p := g.Opts.NullPercent
	if p == 0 {
		p = 12
	}
	return rapid.IntRange(0, 99).Draw(t, "null?") >= 100-p
}

func (g *ValGen) String(t *rapid.T) string {
	var s string
	switch rapid.IntRange(0, 9).Draw(t, "strkind") {
	case 0, 1, 2, 3, 4, 5:
		s = rapid.SampledFrom(stringPool).Draw(t, "str")
	case 6, 7:
		s = rapid.StringN(0, 12, 40).Draw(t, "rstr")
	case 8:
		s = rapid.StringOfN(rapid.RuneFrom([]rune("abAB01 _-é")), 0, 8, 20).Draw(t, "astr")
	default:
		if g.Opts.Small {
			s = "long"
		} else {
			n := rapid.SampledFrom([]int{126, 127, 128, 129, 1000, 20000}).Draw(t, "longlen")
			s = strings.Repeat(rapid.SampledFrom([]string{"a", "é", "ab"}).Draw(t, "unit"), n)
		}
	}
	if g.Opts.Small && len(s) > 16 {
		s = s[:0]
	}
	if !g.Opts.NonNFC {
		s = norm.NFC.String(s)
	}
	return strings.ToValidUTF8(s, "?")
}

// Append appends a value of type typ to b.  top tells whether this is a
// top-level value (nulls allowed there too).
func (g *ValGen) Append(t *rapid.T, b *zcode.Builder, typ zed.Type, top bool) {
	if typ == zed.TypeNull {
		b.Append(nil)
		return
	}
	if g.isNull(t) {
		b.Append(nil)
		return
	}
	switch typ := typ.(type) {
	case *zed.TypeNamed:
		g.appendNonNull(t, b, typ.Type)
	default:
		g.appendNonNull(t, b, typ)
	}
}

func (g *ValGen) drawInt(t *rapid.T, lo, hi int64) int64 {
	switch rapid.IntRange(0, 3).Draw(t, "intkind") {
	case 0, 1:
		for tries := 0; tries < 4; tries++ {
			v := rapid.SampledFrom(boundaryInts).Draw(t, "bint")
			if v >= lo && v <= hi {
				return v
			}
		}
		return lo
	case 2:
		return rapid.Int64Range(max(lo, -5), min(hi, 5)).Draw(t, "sint")
	default:
		return rapid.Int64Range(lo, hi).Draw(t, "rint")
	}
}

func (g *ValGen) drawUint(t *rapid.T, hi uint64) uint64 {
	switch rapid.IntRange(0, 3).Draw(t, "uintkind") {
	case 0, 1:
		for tries := 0; tries < 4; tries++ {
			v := rapid.SampledFrom(boundaryUints).Draw(t, "buint")
			if v <= hi {
				return v
			}
		}
		return hi
	case 2:
		return rapid.Uint64Range(0, min(hi, 5)).Draw(t, "suint")
	default:
		return rapid.Uint64Range(0, hi).Draw(t, "ruint")
	}
}

func (g *ValGen) drawFloat(t *rapid.T) float64 {
	if g.Opts.Small {
		return rapid.SampledFrom([]float64{0, 1, -1, 0.5, 1.5, 2, 100, 3.25}).Draw(t, "sfloat")
	}
	switch rapid.IntRange(0, 3).Draw(t, "floatkind") {
	case 0, 1:
		return rapid.SampledFrom(boundaryFloats).Draw(t, "bfloat")
	case 2:
		return float64(rapid.IntRange(-5, 5).Draw(t, "ifloat"))
	default:
		return rapid.Float64().Draw(t, "rfloat")
	}
}

func (g *ValGen) appendNonNull(t *rapid.T, b *zcode.Builder, typ zed.Type) {
	small := g.Opts.Small
	switch typ {
	case zed.TypeUint8:
		b.Append(zed.EncodeUint(g.drawUint(t, math.MaxUint8)))
	case zed.TypeUint16:
		b.Append(zed.EncodeUint(g.drawUint(t, math.MaxUint16)))
	case zed.TypeUint32:
		b.Append(zed.EncodeUint(g.drawUint(t, math.MaxUint32)))
	case zed.TypeUint64:
		if small {
			b.Append(zed.EncodeUint(g.drawUint(t, 10)))
		} else {
			b.Append(zed.EncodeUint(g.drawUint(t, math.MaxUint64)))
		}
	case zed.TypeInt8:
		b.Append(zed.EncodeInt(g.drawInt(t, math.MinInt8, math.MaxInt8)))
	case zed.TypeInt16:
		b.Append(zed.EncodeInt(g.drawInt(t, math.MinInt16, math.MaxInt16)))
	case zed.TypeInt32:
		b.Append(zed.EncodeInt(g.drawInt(t, math.MinInt32, math.MaxInt32)))
	case zed.TypeInt64:
		if small {
			b.Append(zed.EncodeInt(g.drawInt(t, -10, 10)))
		} else {
			b.Append(zed.EncodeInt(g.drawInt(t, math.MinInt64, math.MaxInt64)))
		}
	case zed.TypeDuration:
		b.Append(zed.EncodeDuration(nano.Duration(g.drawInt(t, math.MinInt64, math.MaxInt64))))
	case zed.TypeTime:
		b.Append(zed.EncodeTime(nano.Ts(g.drawInt(t, math.MinInt64, math.MaxInt64))))
	case zed.TypeFloat16:
		b.Append(zed.EncodeFloat16(float32(g.drawFloat(t))))
	case zed.TypeFloat32:
		b.Append(zed.EncodeFloat32(float32(g.drawFloat(t))))
	case zed.TypeFloat64:
		b.Append(zed.EncodeFloat64(g.drawFloat(t)))
	case zed.TypeBool:
		b.Append(zed.EncodeBool(rapid.Bool().Draw(t, "bool")))
	case zed.TypeBytes:
		switch rapid.IntRange(0, 2).Draw(t, "byteskind") {
		case 0:
			b.Append([]byte{})
		case 1:
			b.Append(nonNil([]byte(rapid.SampledFrom(stringPool).Draw(t, "bstr"))))
		default:
			b.Append(nonNil(rapid.SliceOfN(rapid.Byte(), 0, 20).Draw(t, "bytes")))
		}
	case zed.TypeString:
		b.Append(nonNil([]byte(g.String(t))))
	case zed.TypeIP:
		b.Append(zed.EncodeIP(g.ip(t)))
	case zed.TypeNet:
		ip := g.ip(t)
		bits := rapid.IntRange(0, ip.BitLen()).Draw(t, "netbits")
		p, err := ip.Prefix(bits)
		if err != nil {
			panic(err)
		}
		b.Append(zed.EncodeNet(p))
	case zed.TypeType:
		var tt zed.Type = zed.TypeInt64
		if g.Types != nil {
			tt = g.Types.Draw(t, 2)
		}
		b.Append(zed.EncodeTypeValue(tt))
	case zed.TypeNull:
		b.Append(nil)
	default:
		switch typ := typ.(type) {
		case *zed.TypeNamed:
			g.appendNonNull(t, b, typ.Type)
		case *zed.TypeRecord:
			b.BeginContainer()
			for _, f := range typ.Fields {
				g.Append(t, b, f.Type, false)
			}
			b.EndContainer()
		case *zed.TypeArray:
			b.BeginContainer()
			n := rapid.IntRange(0, g.maxLen()).Draw(t, "alen")
			for i := 0; i < n; i++ {
				g.Append(t, b, typ.Type, false)
			}
			b.EndContainer()
		case *zed.TypeSet:
			b.BeginContainer()
			n := rapid.IntRange(0, g.maxLen()).Draw(t, "slen")
			for i := 0; i < n; i++ {
				g.Append(t, b, typ.Type, false)
			}
			b.TransformContainer(zed.NormalizeSet)
			b.EndContainer()
		case *zed.TypeMap:
			b.BeginContainer()
			n := rapid.IntRange(0, g.maxLen()).Draw(t, "mlen")
			for i := 0; i < n; i++ {
				g.Append(t, b, typ.KeyType, false)
				g.Append(t, b, typ.ValType, false)
			}
			b.TransformContainer(zed.NormalizeMap)
			b.EndContainer()
		case *zed.TypeUnion:
			tag := rapid.IntRange(0, len(typ.Types)-1).Draw(t, "utag")
			b.BeginContainer()
			b.Append(zed.EncodeInt(int64(tag)))
			// The member value of a union is never null in the main
			// stream (a null member is indistinguishable from a null
			// union in the text format; opt-in corner).
			member := typ.Types[tag]
			if member == zed.TypeNull {
				b.Append(nil)
			} else {
				g.appendNonNull(t, b, member)
			}
			b.EndContainer()
		case *zed.TypeEnum:
			b.Append(zed.EncodeUint(uint64(rapid.IntRange(0, len(typ.Symbols)-1).Draw(t, "esel"))))
		case *zed.TypeError:
			g.Append(t, b, typ.Type, false)
		default:
			panic("harness: unknown type kind")
		}
	}
}

func (g *ValGen) ip(t *rapid.T) netip.Addr {
	if rapid.IntRange(0, 3).Draw(t, "ipkind") > 0 || g.Opts.Small {
		return netip.MustParseAddr(rapid.SampledFrom(ipPool).Draw(t, "ip"))
	}
	if rapid.Bool().Draw(t, "v4") {
		var a [4]byte
		copy(a[:], rapid.SliceOfN(rapid.Byte(), 4, 4).Draw(t, "ip4"))
		return netip.AddrFrom4(a)
	}
	var a [16]byte
	copy(a[:], rapid.SliceOfN(rapid.Byte(), 16, 16).Draw(t, "ip6"))
	return netip.AddrFrom16(a)
}
