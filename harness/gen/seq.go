package gen

import (
	"bytes"
	"encoding/base64"
	"encoding/json"
	"fmt"
	"strings"

	zed "github.com/brimdata/super"
	"github.com/brimdata/super/zio"
	"github.com/brimdata/super/zio/zngio"
	"github.com/brimdata/super/zio/zsonio"
	"github.com/brimdata/super/zson"
	"pgregory.net/rapid"
)

// Seq is a sequence of values living in its own context.  It serialises to
// JSON as base64 ZNG (the replayable form) plus a truncated ZSON rendering
// (for humans).
type Seq struct {
	Zctx *zed.Context
	Vals []zed.Value
}

type seqJSON struct {
	ZNG  string   `json:"zng"`
	N    int      `json:"n"`
	ZSON []string `json:"zson,omitempty"`
}

func SafeZSON(v zed.Value) (s string) {
	defer func() {
		if r := recover(); r != nil {
			s = fmt.Sprintf("<unformattable: %v>", r)
		}
	}()
	return zson.FormatValue(v)
}

func (s Seq) MarshalJSON() ([]byte, error) {
	var buf bytes.Buffer
	w := zngio.NewWriterWithOpts(zio.NopCloser(&buf), zngio.WriterOpts{})
	for _, v := range s.Vals {
		if err := w.Write(v); err != nil {
			return nil, err
		}
	}
	if err := w.Close(); err != nil {
		return nil, err
	}
	j := seqJSON{ZNG: base64.StdEncoding.EncodeToString(buf.Bytes()), N: len(s.Vals)}
	for i, v := range s.Vals {
		if i >= 12 {
			j.ZSON = append(j.ZSON, "...")
			break
		}
		z := SafeZSON(v)
		if len(z) > 400 {
			z = z[:400] + "..."
		}
		j.ZSON = append(j.ZSON, z)
	}
	return json.Marshal(j)
}

func (s *Seq) UnmarshalJSON(b []byte) error {
	var j seqJSON
	if err := json.Unmarshal(b, &j); err != nil {
		return err
	}
	raw, err := base64.StdEncoding.DecodeString(j.ZNG)
	if err != nil {
		return err
	}
	s.Zctx = zed.NewContext()
	s.Vals = nil
	r := zngio.NewReader(s.Zctx, bytes.NewReader(raw))
	defer r.Close()
	for {
		v, err := r.Read()
		if err != nil {
			return err
		}
		if v == nil {
			return nil
		}
		s.Vals = append(s.Vals, v.Copy())
	}
}

// SeqFromZSON parses values (newline or space separated) into a Seq; for literal regression cases.
func SeqFromZSON(text string) Seq {
	zctx := zed.NewContext()
	s := Seq{Zctx: zctx}
	r := zsonio.NewReader(zctx, strings.NewReader(text))
	for {
		v, err := r.Read()
		if err != nil {
			panic(err)
		}
		if v == nil {
			return s
		}
		s.Vals = append(s.Vals, v.Copy())
	}
}

// SeqOpts tunes the sequence generator.
type SeqOpts struct {
	MaxLen   int // default 40
	MaxTypes int // default 6
	Types    TypeOpts
	Vals     ValOpts
	Records  bool // only record-typed top-level values
}

// DrawSeq draws a sequence of 0..MaxLen values over 1..MaxTypes top-level
// types with run structure.
func DrawSeq(t *rapid.T, o SeqOpts) Seq {
	zctx := zed.NewContext()
	if o.MaxLen == 0 {
		o.MaxLen = 40
	}
	if o.MaxTypes == 0 {
		o.MaxTypes = 6
	}
	if o.Types.MaxDepth == 0 {
		o.Types.MaxDepth = 3
	}
	tg := &TypeGen{Zctx: zctx, Opts: o.Types}
	vg := &ValGen{Zctx: zctx, Opts: o.Vals, Types: tg}
	ntypes := rapid.IntRange(1, o.MaxTypes).Draw(t, "ntypes")
	types := make([]zed.Type, ntypes)
	for i := range types {
		if o.Records {
			types[i] = tg.Record(t, o.Types.MaxDepth-1)
		} else {
			types[i] = tg.Draw(t, o.Types.MaxDepth)
		}
	}
	n := rapid.IntRange(0, o.MaxLen).Draw(t, "nvals")
	s := Seq{Zctx: zctx}
	cur := 0
	for len(s.Vals) < n {
		// run structure: stay on the same type with probability 2/3
		if rapid.IntRange(0, 2).Draw(t, "switch?") == 0 {
			cur = rapid.IntRange(0, ntypes-1).Draw(t, "which")
		}
		s.Vals = append(s.Vals, vg.Value(t, types[cur]))
	}
	return s
}
