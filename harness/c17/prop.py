PROP = dict(
    level="fault_enumeration",
    rule="C17: every storage step of the last operation of a generated history is a crash point",
    level_text="Fault enumeration: for each generated (storage mode, history, victim operation) case, the victim is re-executed once per storage step with the process dying just before that step (file mode: including every individual write call and between create and fill of put-if-absent), then the surviving store is reopened cold and checked for readability, before/after atomicity and usability. Histories and victims are sampled by rapid.",
    level_note="Trusted: the harness's in-memory storage engine as a model of crashes (a dead engine ignores everything after the crash point; file mode mirrors pkg/storage/file.go, atomic mode is an idealised object store). A crash is modelled as fail-stop of one process between storage steps; torn single writes and lost fsyncs are not modelled. Double crashes are covered only in the thorough tier.",
    technique="property-based testing (rapid) with exhaustive crash-point enumeration per generated case",
    assumptions=["crash = fail-stop between storage steps of an in-memory model of the storage engine", "state is compared as pool/branch names plus per-branch value multisets and vector counts"],
    tests=[dict(name="TestCrashPoints", quick=(8, 20), thorough=(16, 40), timeout=dict(quick=1500, thorough=3400))],
)
