package c17

import (
	"context"
	"errors"
	"fmt"
	"os"
	"sort"
	"strings"
	"testing"
	"time"

	zed "github.com/brimdata/super"
	"github.com/brimdata/super/lake"
	"github.com/brimdata/super/lakeparse"
	"github.com/segmentio/ksuid"
	"pgregory.net/rapid"

	"verif/gen"
	"verif/lakeh"
	"verif/memstore"
	"verif/oracle"
	"verif/vt"
)

func TestMain(m *testing.M) { vt.Main(m) }

func fail(sig, format string, args ...any) *vt.Failure { return vt.Failf(sig, format, args...) }

// Op is one lake operation, addressed by names and ordinals so that it can be
// replayed on any copy of the store.
type Op struct {
	Kind   string `json:"kind"` // init createpool renamepool droppool createbranch dropbranch load delete deletewhere compact merge revert addvec delvec vacuum query
	Pool   string `json:"pool,omitempty"`
	Branch string `json:"branch,omitempty"`
	Other  string `json:"other,omitempty"` // merge: parent; renamepool: new name; createbranch: source branch
	Batch  int    `json:"batch,omitempty"`
	Pick   []int  `json:"pick,omitempty"`
	At     int    `json:"at,omitempty"` // revert: commit ordinal from the tip backwards
	Pred   string `json:"pred,omitempty"`
}

func (o Op) String() string {
	return strings.TrimSpace(fmt.Sprintf("%s %s %s %s %v %s", o.Kind, o.Pool, o.Branch, o.Other, o.Pick, o.Pred))
}

type Case struct {
	File    bool      `json:"file_mode"`
	Batches []gen.Seq `json:"batches"`
	Prefix  []Op      `json:"prefix"`
	Victim  Op        `json:"victim"`
}

var victims = []string{"init", "createpool", "renamepool", "droppool", "createbranch", "dropbranch", "load", "delete", "deletewhere",
	"compact", "merge", "revert", "addvec", "delvec", "vacuum", "query"}

func genCase(t *rapid.T) Case {
	c := Case{File: rapid.Bool().Draw(t, "file")}
	for i := 0; i < 3; i++ {
		var sb strings.Builder
		n := rapid.IntRange(1, 5).Draw(t, "n")
		for j := 0; j < n; j++ {
			fmt.Fprintf(&sb, "{k:%d,b:%d} ", rapid.IntRange(0, 9).Draw(t, "k"), i)
		}
		c.Batches = append(c.Batches, gen.SeqFromZSON(sb.String()))
	}
	v := rapid.SampledFrom(victims).Draw(t, "victim")
	if v == "init" {
		c.Victim = Op{Kind: "init"}
		return c
	}
	add := func(o Op) { c.Prefix = append(c.Prefix, o) }
	add(Op{Kind: "init"})
	add(Op{Kind: "createpool", Pool: "p"})
	if rapid.Bool().Draw(t, "second-pool") {
		add(Op{Kind: "createpool", Pool: "q"})
		add(Op{Kind: "load", Pool: "q", Branch: "main", Batch: 2})
	}
	// enough commits to cross the journal's 10-entry snapshot threshold in some cases
	nload := rapid.SampledFrom([]int{1, 2, 2, 3, 5, 11, 12}).Draw(t, "nload")
	for i := 0; i < nload; i++ {
		add(Op{Kind: "load", Pool: "p", Branch: "main", Batch: rapid.IntRange(0, 2).Draw(t, "batch")})
	}
	if rapid.Bool().Draw(t, "prefix-delete") {
		add(Op{Kind: "delete", Pool: "p", Branch: "main", Pick: []int{rapid.IntRange(0, 5).Draw(t, "pd")}})
	}
	if rapid.Bool().Draw(t, "prefix-query") {
		add(Op{Kind: "query", Pool: "p", Branch: "main"})
	}
	pick := func(n int) []int { return rapid.SliceOfN(rapid.IntRange(0, 7), n, n+1).Draw(t, "pick") }
	switch v {
	case "createpool":
		c.Victim = Op{Kind: "createpool", Pool: "n"}
	case "renamepool":
		c.Victim = Op{Kind: "renamepool", Pool: "p", Other: "r"}
	case "droppool":
		c.Victim = Op{Kind: "droppool", Pool: "p"}
	case "createbranch":
		c.Victim = Op{Kind: "createbranch", Pool: "p", Branch: "b", Other: "main"}
	case "dropbranch":
		add(Op{Kind: "createbranch", Pool: "p", Branch: "b", Other: "main"})
		if rapid.Bool().Draw(t, "branch-load") {
			add(Op{Kind: "load", Pool: "p", Branch: "b", Batch: 1})
		}
		c.Victim = Op{Kind: "dropbranch", Pool: "p", Branch: "b"}
	case "load":
		c.Victim = Op{Kind: "load", Pool: "p", Branch: "main", Batch: rapid.IntRange(0, 2).Draw(t, "vb")}
	case "delete":
		c.Victim = Op{Kind: "delete", Pool: "p", Branch: "main", Pick: pick(1)}
	case "deletewhere":
		c.Victim = Op{Kind: "deletewhere", Pool: "p", Branch: "main", Pred: fmt.Sprintf("k >= %d", rapid.IntRange(0, 9).Draw(t, "c"))}
	case "compact":
		add(Op{Kind: "load", Pool: "p", Branch: "main", Batch: 1})
		c.Victim = Op{Kind: "compact", Pool: "p", Branch: "main", Pick: pick(2)}
	case "merge":
		add(Op{Kind: "createbranch", Pool: "p", Branch: "b", Other: "main"})
		add(Op{Kind: "load", Pool: "p", Branch: "b", Batch: 1})
		if rapid.Bool().Draw(t, "child-delete") {
			add(Op{Kind: "delete", Pool: "p", Branch: "b", Pick: pick(1)})
		}
		if rapid.Bool().Draw(t, "parent-load") {
			add(Op{Kind: "load", Pool: "p", Branch: "main", Batch: 2})
		}
		c.Victim = Op{Kind: "merge", Pool: "p", Branch: "b", Other: "main"}
	case "revert":
		c.Victim = Op{Kind: "revert", Pool: "p", Branch: "main", At: rapid.IntRange(0, 3).Draw(t, "at")}
	case "addvec":
		c.Victim = Op{Kind: "addvec", Pool: "p", Branch: "main", Pick: pick(1)}
	case "delvec":
		add(Op{Kind: "addvec", Pool: "p", Branch: "main", Pick: []int{0, 1}})
		c.Victim = Op{Kind: "delvec", Pool: "p", Branch: "main", Pick: []int{0}}
	case "vacuum":
		add(Op{Kind: "delete", Pool: "p", Branch: "main", Pick: pick(1)})
		c.Victim = Op{Kind: "vacuum", Pool: "p", Branch: "main"}
	case "query":
		c.Victim = Op{Kind: "query", Pool: "p", Branch: "main"}
	}
	return c
}

// ---------- executing operations

var errInapplicable = errors.New("inapplicable")

func liveObjects(ctx context.Context, lk *lakeh.Lake, pool ksuid.KSUID, branch string) ([]ksuid.KSUID, error) {
	tip, err := lk.Tip(ctx, pool, branch)
	if err != nil {
		return nil, err
	}
	objs, _, err := lk.Objects(ctx, pool, tip)
	if err != nil {
		return nil, err
	}
	var ids []ksuid.KSUID
	for _, o := range objs {
		ids = append(ids, o.ID)
	}
	sort.Slice(ids, func(i, j int) bool { return ids[i].String() < ids[j].String() })
	return ids, nil
}

func pickIDs(ids []ksuid.KSUID, pick []int, min int) []ksuid.KSUID {
	if len(ids) < min {
		return nil
	}
	seen := map[int]bool{}
	var out []ksuid.KSUID
	for _, p := range pick {
		i := p % len(ids)
		if !seen[i] {
			seen[i] = true
			out = append(out, ids[i])
		}
	}
	for i := 0; len(out) < min && i < len(ids); i++ {
		if !seen[i] {
			seen[i] = true
			out = append(out, ids[i])
		}
	}
	return out
}

// resolved is an operation with every run-time choice (object ids, commit id)
// fixed, so that the dry run and all crash runs do exactly the same thing.
type resolved struct {
	op     Op
	ids    []ksuid.KSUID
	commit ksuid.KSUID
}

// resolve fixes the ids on an intact handle (no hook).
func resolve(ctx context.Context, lk *lakeh.Lake, op Op) (resolved, error) {
	r := resolved{op: op}
	switch op.Kind {
	case "delete", "compact", "addvec", "delvec":
		pool, err := lk.API.PoolID(ctx, op.Pool)
		if err != nil {
			return r, err
		}
		ids, err := liveObjects(ctx, lk, pool, op.Branch)
		if err != nil {
			return r, err
		}
		min := 1
		if op.Kind == "compact" {
			min = 2
		}
		r.ids = pickIDs(ids, op.Pick, min)
		if r.ids == nil {
			return r, errInapplicable
		}
	case "revert":
		pool, err := lk.API.PoolID(ctx, op.Pool)
		if err != nil {
			return r, err
		}
		p, err := lk.Root.OpenPool(ctx, pool)
		if err != nil {
			return r, err
		}
		tip, err := lk.Tip(ctx, pool, op.Branch)
		if err != nil {
			return r, err
		}
		if tip == ksuid.Nil {
			return r, errInapplicable
		}
		var chain []ksuid.KSUID
		zr := p.OpenCommitLog(ctx, zed.NewContext(), tip)
		for len(chain) < 64 {
			v, err := zr.Read()
			if err != nil {
				return r, err
			}
			if v == nil {
				break
			}
			idv := v.Deref("id")
			if idv == nil || len(idv.Bytes()) != 20 {
				continue
			}
			id, err := ksuid.FromBytes(idv.Bytes())
			if err != nil {
				return r, err
			}
			chain = append(chain, id)
		}
		if len(chain) == 0 {
			return r, errInapplicable
		}
		r.commit = chain[op.At%len(chain)]
	}
	return r, nil
}

// apply executes a resolved operation on a handle.
func apply(ctx context.Context, lk *lakeh.Lake, c *Case, r resolved) error {
	op := r.op
	api := lk.API
	poolID := func() (ksuid.KSUID, error) { return api.PoolID(ctx, op.Pool) }
	switch op.Kind {
	case "createpool":
		_, err := lk.CreatePool(ctx, lakeh.PoolSpec{Name: op.Pool, Key: []string{"k"}, Thresh: 40})
		return err
	case "renamepool":
		id, err := poolID()
		if err != nil {
			return err
		}
		return api.RenamePool(ctx, id, op.Other)
	case "droppool":
		id, err := poolID()
		if err != nil {
			return err
		}
		return api.RemovePool(ctx, id)
	case "createbranch":
		id, err := poolID()
		if err != nil {
			return err
		}
		tip, err := lk.Tip(ctx, id, op.Other)
		if err != nil {
			return err
		}
		return api.CreateBranch(ctx, id, op.Branch, tip)
	case "dropbranch":
		id, err := poolID()
		if err != nil {
			return err
		}
		return api.RemoveBranch(ctx, id, op.Branch)
	case "load":
		id, err := poolID()
		if err != nil {
			return err
		}
		b := c.Batches[op.Batch%len(c.Batches)]
		_, err = lk.Load(ctx, id, op.Branch, b.Zctx, b.Vals)
		return err
	case "delete":
		id, err := poolID()
		if err != nil {
			return err
		}
		_, err = api.Delete(ctx, id, op.Branch, r.ids, lakeh.Msg)
		return err
	case "deletewhere":
		id, err := poolID()
		if err != nil {
			return err
		}
		_, err = api.DeleteWhere(ctx, id, op.Branch, op.Pred, lakeh.Msg)
		return err
	case "compact":
		id, err := poolID()
		if err != nil {
			return err
		}
		_, err = api.Compact(ctx, id, op.Branch, r.ids, false, lakeh.Msg)
		return err
	case "merge":
		id, err := poolID()
		if err != nil {
			return err
		}
		_, err = api.MergeBranch(ctx, id, op.Branch, op.Other, lakeh.Msg)
		return err
	case "revert":
		id, err := poolID()
		if err != nil {
			return err
		}
		_, err = api.Revert(ctx, id, op.Branch, r.commit, lakeh.Msg)
		return err
	case "addvec":
		_, err := api.AddVectors(ctx, op.Pool, op.Branch, r.ids, lakeh.Msg)
		return err
	case "delvec":
		_, err := api.DeleteVectors(ctx, op.Pool, op.Branch, r.ids, lakeh.Msg)
		return err
	case "vacuum":
		_, err := api.Vacuum(ctx, op.Pool, op.Branch, false)
		return err
	case "query":
		_, err := lk.Query(ctx, nil, fmt.Sprintf("from %s@%s | count()", op.Pool, op.Branch))
		return err
	}
	return fmt.Errorf("unknown op %s", op.Kind)
}

// ---------- observing the state of a store through a cold handle

// state: pool name -> branch name -> content digest
type state map[string]map[string]string

func (s state) String() string {
	var pools []string
	for p := range s {
		pools = append(pools, p)
	}
	sort.Strings(pools)
	var sb strings.Builder
	for _, p := range pools {
		var brs []string
		for b := range s[p] {
			brs = append(brs, b)
		}
		sort.Strings(brs)
		fmt.Fprintf(&sb, "%s{", p)
		for _, b := range brs {
			fmt.Fprintf(&sb, "%s:%s ", b, s[p][b])
		}
		sb.WriteString("} ")
	}
	return sb.String()
}

type obsError struct {
	symptom string
	err     error
}

func (e *obsError) Error() string { return e.symptom + ": " + e.err.Error() }

func digest(vals []zed.Value) string {
	keys := make([]string, len(vals))
	for i, v := range vals {
		keys[i] = oracle.Show(v)
	}
	sort.Strings(keys)
	return fmt.Sprintf("%d:%s", len(vals), strings.Join(keys, ","))
}

// observe opens the store with cold caches and reads everything.  exists=false
// means there is no lake at all (legal only before/while init).
func observe(ctx context.Context, store *memstore.Store, mode memstore.Mode) (st state, lk *lakeh.Lake, exists bool, oerr *obsError) {
	lk, err := lakeh.Open(ctx, store, mode, nil)
	if err != nil {
		if errors.Is(err, lake.ErrNotExist) {
			return nil, nil, false, nil
		}
		return nil, nil, true, &obsError{"reopen-failed", err}
	}
	st = state{}
	pools, err := lk.Root.ListPools(ctx)
	if err != nil {
		return nil, lk, true, &obsError{"pool-list-unreadable", err}
	}
	for _, pc := range pools {
		st[pc.Name] = map[string]string{}
		p, err := lk.Root.OpenPool(ctx, pc.ID)
		if err != nil {
			return nil, lk, true, &obsError{"pool-unreadable", err}
		}
		brs, err := p.ListBranches(ctx)
		if err != nil {
			return nil, lk, true, &obsError{"branch-list-unreadable", err}
		}
		for _, b := range brs {
			if _, err := p.Snapshot(ctx, b.Commit); err != nil && b.Commit != ksuid.Nil {
				return nil, lk, true, &obsError{"branch-unreadable", err}
			}
			vals, err := lk.Query(ctx, &lakeparse.Commitish{Pool: pc.Name, Branch: b.Name}, fmt.Sprintf("from %s@%s", pc.Name, b.Name))
			if err != nil {
				return nil, lk, true, &obsError{"branch-unreadable", err}
			}
			nvec := 0
			if objs, vec, err := lk.Objects(ctx, pc.ID, b.Commit); err == nil {
				_ = objs
				nvec = len(vec)
			}
			st[pc.Name][b.Name] = fmt.Sprintf("%s|vec=%d", digest(vals), nvec)
		}
	}
	return st, lk, true, nil
}

// followUp runs a fixed workload on the recovered lake; every step must succeed.
func followUp(ctx context.Context, lk *lakeh.Lake, st state, victim Op) error {
	// pick a pool that exists in this state, preferring the victim's
	name := ""
	for _, cand := range []string{victim.Pool, victim.Other, "p", "r", "q", "n"} {
		if cand != "" {
			if _, ok := st[cand]; ok {
				name = cand
				break
			}
		}
	}
	if name != "" {
		id, err := lk.API.PoolID(ctx, name)
		if err != nil {
			return fmt.Errorf("pool id of %s: %w", name, err)
		}
		branch := "main"
		if _, ok := st[name][victim.Branch]; ok {
			branch = victim.Branch
		}
		before, err := liveObjects(ctx, lk, id, branch)
		if err != nil {
			return fmt.Errorf("list objects: %w", err)
		}
		s := gen.SeqFromZSON(`{k:100,b:9} {k:101,b:9}`)
		if _, err := lk.Load(ctx, id, branch, s.Zctx, s.Vals); err != nil {
			return fmt.Errorf("load into %s@%s: %w", name, branch, err)
		}
		vals, err := lk.Query(ctx, nil, fmt.Sprintf("from %s@%s | b==9 | count()", name, branch))
		if err != nil {
			return fmt.Errorf("query %s@%s: %w", name, branch, err)
		}
		if len(vals) != 1 {
			return fmt.Errorf("query after load returned %d values", len(vals))
		}
		after, err := liveObjects(ctx, lk, id, branch)
		if err != nil {
			return fmt.Errorf("list objects: %w", err)
		}
		known := map[ksuid.KSUID]bool{}
		for _, o := range before {
			known[o] = true
		}
		var fresh []ksuid.KSUID
		for _, o := range after {
			if !known[o] {
				fresh = append(fresh, o)
			}
		}
		if len(fresh) == 0 {
			return errors.New("load acknowledged but no new object is visible")
		}
		if _, err := lk.API.Delete(ctx, id, branch, fresh, lakeh.Msg); err != nil {
			return fmt.Errorf("delete in %s@%s: %w", name, branch, err)
		}
		tip, err := lk.Tip(ctx, id, branch)
		if err != nil {
			return fmt.Errorf("tip: %w", err)
		}
		if err := lk.API.CreateBranch(ctx, id, "fx", tip); err != nil {
			return fmt.Errorf("create branch in %s: %w", name, err)
		}
		if err := lk.API.RemoveBranch(ctx, id, "fx"); err != nil {
			return fmt.Errorf("remove branch in %s: %w", name, err)
		}
		// vectors: every live object gets a vector copy, then the auto-vectorized aggregate must agree with the scan
		tip2, err := lk.Tip(ctx, id, branch)
		if err != nil {
			return fmt.Errorf("tip: %w", err)
		}
		objs, vec, err := lk.Objects(ctx, id, tip2)
		if err != nil {
			return fmt.Errorf("list objects: %w", err)
		}
		var need []ksuid.KSUID
		for _, ob := range objs {
			if !vec[ob.ID] {
				need = append(need, ob.ID)
			}
		}
		if len(need) > 0 {
			if _, err := lk.API.AddVectors(ctx, id.String(), branch, need, lakeh.Msg); err != nil {
				return fmt.Errorf("vector add in %s@%s: %w", name, branch, err)
			}
		}
		if len(objs) > 0 {
			// (only success is required here; whether the vector runtime computes the right sum is C09's subject)
			if _, err := lk.Query(ctx, nil, fmt.Sprintf("from %s@%s | sum(k)", name, branch)); err != nil {
				return fmt.Errorf("sum(k) on %s@%s with vectors on every object: %w", name, branch, err)
			}
		}
	}
	if _, err := lk.CreatePool(ctx, lakeh.PoolSpec{Name: "fxpool", Key: []string{"k"}}); err != nil {
		return fmt.Errorf("create pool: %w", err)
	}
	return nil
}

// ---------- the case

func phase(kind string) string {
	switch kind {
	case "put-open", "put-write", "put-close", "putx", "putx-create", "putx-fill", "delete", "delprefix":
		return kind
	}
	return "read"
}

func runCase(c Case) *vt.Outcome {
	o := &vt.Outcome{}
	ctx := context.Background()
	mode := memstore.Atomic
	if c.File {
		mode = memstore.File
	}
	o.Label("mode:"+mode.String(), "victim:"+c.Victim.Kind)
	// 1. build the pre-state
	base := memstore.NewStore()
	var lk *lakeh.Lake
	for _, op := range c.Prefix {
		if op.Kind == "init" {
			var err error
			if lk, err = lakeh.Create(ctx, base, mode, nil); err != nil {
				o.Fail = fail("C17/setup", "init: %v", err)
				return o
			}
			continue
		}
		r, err := resolve(ctx, lk, op)
		if err == errInapplicable {
			continue
		}
		if err == nil {
			err = apply(ctx, lk, &c, r)
		}
		if err != nil && !strings.Contains(err.Error(), "empty") {
			return &vt.Outcome{Skip: "prefix-op-failed:" + op.Kind}
		}
	}
	var before state
	var victim resolved
	if c.Victim.Kind != "init" {
		var oe *obsError
		// observe a copy: reading persists derived snapshot files, and the victim must find the store as the prefix left it
		before, _, _, oe = observe(ctx, base.Clone(), mode)
		if oe != nil {
			o.Fail = fail("C17/setup-unreadable", "the fault-free prefix left an unreadable lake: %v", oe)
			return o
		}
		var err error
		victim, err = resolve(ctx, lk, c.Victim)
		if err == errInapplicable {
			return &vt.Outcome{Skip: "victim-inapplicable:" + c.Victim.Kind}
		}
		if err != nil {
			o.Fail = fail("C17/setup", "cannot resolve victim: %v", err)
			return o
		}
	} else {
		victim = resolved{op: c.Victim}
	}
	runVictim := func(store *memstore.Store, hook memstore.Hook) error {
		if c.Victim.Kind == "init" {
			_, err := lakeh.Create(ctx, store, mode, hook)
			return err
		}
		h, err := lakeh.Open(ctx, store, mode, nil)
		if err != nil {
			return err
		}
		h.Engine.Hook = hook
		return apply(ctx, h, &c, victim)
	}
	// 2. dry run: count the steps and observe the complete effect
	dry := base.Clone()
	counter := &memstore.Counter{}
	dryErr := runVictim(dry, counter)
	if dryErr != nil {
		return &vt.Outcome{Skip: "victim-fails-without-fault:" + c.Victim.Kind}
	}
	T := counter.Len()
	after, _, _, oe := observe(ctx, dry, mode)
	if oe != nil {
		o.Fail = fail("C17/setup-unreadable", "the fault-free victim left an unreadable lake: %v", oe)
		return o
	}
	firstWrite := T + 1
	for i, op := range counter.Snapshot() {
		if op.Mutating() {
			firstWrite = i + 1
			break
		}
	}
	o.Evals = 1
	// 3. every crash point
	for k := 1; k <= T; k++ {
		store := base.Clone()
		crash := &memstore.CrashAt{K: k}
		// The victim runs in its own goroutine: once the crash point has fired the "process" is dead and whatever
		// it still does (including never returning) is irrelevant, so it is abandoned after a grace period.
		done := make(chan error, 1)
		go func() { done <- runVictim(store, crash) }()
		var verr error
		abandoned := false
	wait:
		for waited := 0; ; waited++ {
			select {
			case verr = <-done:
				break wait
			case <-time.After(100 * time.Millisecond):
				if crash.HasFired() != nil && waited > 150 {
					abandoned = true
					verr = memstore.ErrCrashed
					o.Label("victim-hung-after-crash(abandoned)")
					break wait
				}
			}
		}
		_ = abandoned
		o.Evals++
		if crash.HasFired() == nil {
			// the step sequence was shorter this time (internal concurrency); nothing crashed
			continue
		}
		fired := crash.HasFired()
		cls, ph := fired.Class, phase(fired.Kind)
		unit := fmt.Sprintf("%s/%s/%s/%s", mode, c.Victim.Kind, cls, ph)
		if k > firstWrite && k < T {
			o.Units = append(o.Units, unit)
		}
		sigOf := func(symptom string) string { return fmt.Sprintf("C17/%s/%s/%s/%s", mode, cls, ph, symptom) }
		report := func(symptom, format string, args ...any) *vt.Failure {
			sig := sigOf(symptom)
			msg := fmt.Sprintf("victim %q crashed before step %d of %d (%s %s %s); ", c.Victim.String(), k, T, fired.Kind, cls, fired.Path) + fmt.Sprintf(format, args...)
			if vt.IsKnown(sig) {
				o.Known = append(o.Known, sig)
				return nil
			}
			if os.Getenv("VERIF_COLLECT") != "" {
				// survey mode (development aid): record every signature instead of stopping at the first
				o.Label("sig:" + sig + " <= " + c.Victim.Kind)
				return nil
			}
			return fail(sig, "%s", msg)
		}
		if verr == nil {
			// acknowledged although the process "died": only possible if the crash hit a step whose
			// failure the operation ignores (e.g. writing a derived snapshot file); the effect must be complete.
			o.Label("victim-acknowledged-despite-crash")
		}
		// Reading a store whose HEAD file is empty takes the repo ~10 s of back-off per attempt; the
		// state is classified from the store itself and confirmed by a real reopen only once per process.
		st, cold, exists, oe := observe(ctx, store, mode)
		if !exists {
			if c.Victim.Kind != "init" {
				if f := report("lake-gone", "the lake no longer exists"); f != nil {
					o.Fail = f
					return o
				}
				continue
			}
			// init interrupted before the lake existed: creating it again must work
			if _, err := lakeh.Create(ctx, store, mode, nil); err != nil {
				if f := report("init-not-repeatable", "lake does not exist and cannot be created again: %v", err); f != nil {
					o.Fail = f
					return o
				}
			}
			continue
		}
		if oe != nil {
			if f := report(oe.symptom, "after reopening: %v", oe); f != nil {
				o.Fail = f
				return o
			}
			continue
		}
		s := st.String()
		isBefore := c.Victim.Kind != "init" && s == before.String()
		isAfter := s == after.String()
		if c.Victim.Kind == "init" {
			isBefore = len(st) == 0
		}
		if !isBefore && !isAfter {
			if f := report("state-not-atomic", "recovered state is neither the state before nor the complete effect:\n  got:    %s\n  before: %s\n  after:  %s", s, before.String(), after.String()); f != nil {
				o.Fail = f
				return o
			}
			continue
		}
		if verr == nil && !isAfter {
			if f := report("acknowledged-effect-lost", "the operation returned success but its effect is not visible after reopening"); f != nil {
				o.Fail = f
				return o
			}
			continue
		}
		// double crash (thorough tier, short histories): crash again at sampled steps of a follow-up load on a copy of
		// the recovered store; the lake must again be readable with all-or-nothing effect and usable afterwards
		if vt.Thorough() && len(c.Prefix) <= 8 && c.Victim.Kind != "init" && c.Victim.Kind != "droppool" {
			// only from a healthy once-recovered store (a store on which the plain follow-up fails is reported below
			// under the FIRST crash's class)
			probe := store.Clone()
			if pst, pcold, _, poe := observe(ctx, probe, mode); poe == nil && followUp(ctx, pcold, pst, c.Victim) == nil {
				if f := doubleCrash(ctx, &c, o, store, mode, st, k); f != nil {
					o.Fail = f
					return o
				}
			}
		}
		if err := followUp(ctx, cold, st, c.Victim); err != nil {
			if f := report("followup-failed", "state is consistent (%s) but the follow-up workload fails: %v", map[bool]string{true: "after", false: "before"}[isAfter], err); f != nil {
				o.Fail = f
				return o
			}
			continue
		}
	}
	o.Sample = map[string]any{"mode": mode.String(), "victim": c.Victim, "prefix_ops": len(c.Prefix), "crash_points": T, "first_write_step": firstWrite}
	return o
}

// doubleCrash crashes a second operation (a load into the first pool that exists) on a copy of the once-recovered store.
func doubleCrash(ctx context.Context, c *Case, o *vt.Outcome, recovered *memstore.Store, mode memstore.Mode, st state, firstK int) *vt.Failure {
	name := ""
	for _, cand := range []string{"p", "r", "q", "n"} {
		if _, ok := st[cand]; ok {
			name = cand
			break
		}
	}
	if name == "" {
		return nil
	}
	second := resolved{op: Op{Kind: "load", Pool: name, Branch: "main", Batch: 0}}
	run2 := func(store *memstore.Store, hook memstore.Hook) error {
		h, err := lakeh.Open(ctx, store, mode, nil)
		if err != nil {
			return err
		}
		h.Engine.Hook = hook
		return apply(ctx, h, c, second)
	}
	dry := recovered.Clone()
	counter := &memstore.Counter{}
	if err := run2(dry, counter); err != nil {
		return nil // the plain follow-up reports this
	}
	after2, _, _, oe := observe(ctx, dry, mode)
	if oe != nil {
		return nil
	}
	T2 := counter.Len()
	for _, j := range []int{T2 / 4, T2 / 2, 3 * T2 / 4, T2 - 1, T2} {
		if j < 1 {
			continue
		}
		store := recovered.Clone()
		crash := &memstore.CrashAt{K: j}
		done := make(chan error, 1)
		go func() { done <- run2(store, crash) }()
		select {
		case <-done:
		case <-time.After(20 * time.Second):
		}
		fired := crash.HasFired()
		if fired == nil {
			continue
		}
		o.Evals++
		cls, ph := fired.Class, phase(fired.Kind)
		o.Units = append(o.Units, fmt.Sprintf("double/%s/%s/%s", mode, cls, ph))
		report := func(symptom, format string, args ...any) *vt.Failure {
			sig := fmt.Sprintf("C17/%s/%s/%s/%s", mode, cls, ph, symptom)
			if vt.IsKnown(sig) {
				o.Known = append(o.Known, sig)
				return nil
			}
			return fail(sig, "double crash: after recovering from a crash at step %d of %q, a load crashed before its step %d of %d (%s %s); %s", firstK, c.Victim.String(), j, T2, fired.Kind, cls, fmt.Sprintf(format, args...))
		}
		st2, cold2, exists, oe := observe(ctx, store, mode)
		if !exists {
			if f := report("lake-gone", "the lake no longer exists"); f != nil {
				return f
			}
			continue
		}
		if oe != nil {
			if f := report(oe.symptom, "after reopening: %v", oe); f != nil {
				return f
			}
			continue
		}
		if s := st2.String(); s != st.String() && s != after2.String() {
			if f := report("state-not-atomic", "recovered state is neither before nor after the second operation:\n  got:    %s\n  before: %s\n  after:  %s", s, st.String(), after2.String()); f != nil {
				return f
			}
			continue
		}
		if err := followUp(ctx, cold2, st2, second.op); err != nil {
			if f := report("followup-failed", "the follow-up workload fails: %v", err); f != nil {
				return f
			}
		}
	}
	return nil
}

var prop = &vt.Prop[Case]{
	Name: "TestCrashPoints",
	Rule: "case = storage mode (atomic object store / file-like create-then-fill) x generated history (init, pools, 1..12 loads incl. crossing the journal's 10-entry snapshot threshold, deletes, branches, queries) ending in a victim operation from {init, create/rename/drop pool, create/drop branch, load, delete, delete-where, compact, merge, revert, vector add/del, vacuum, query}; " +
		"the victim is re-executed once per storage step k=1..T (every Get/Put open/each Write/Close/PutIfNotExists create+fill/Delete/DeleteByPrefix) on a copy of the pre-state with the engine turning dead just before step k; then a cold lake.Open must succeed, every pool/branch must be listable, replayable and scannable, the whole observable state must equal the state before or the complete effect, an acknowledged victim must be complete, and a fixed follow-up workload (load, query, delete, create+drop branch, create pool) must succeed. " +
		"A crash point is non-trivial when it lies strictly after the victim's first mutating step and before its last step; distinct = (mode, victim kind, path class, step kind) per case.",
	Gen: genCase,
	Run: runCase,
}

func init() { prop.Register() }

func TestCrashPoints(t *testing.T) { prop.Check(t) }
func TestReplay(t *testing.T)      { vt.TestReplay(t) }
