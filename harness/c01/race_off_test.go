//go:build !race

package c01

const raceEnabled = false
