package c01

import (
	"bytes"
	"context"
	"encoding/binary"
	"fmt"
	"io"
	"strings"
	"testing"

	zed "github.com/brimdata/super"
	"github.com/brimdata/super/zbuf"
	"github.com/brimdata/super/zio"
	"github.com/brimdata/super/zio/zngio"
	"pgregory.net/rapid"

	"verif/gen"
	"verif/oracle"
	"verif/vt"
)

func TestMain(m *testing.M) { vt.Main(m) }

// ---------------------------------------------------------------- case

// WOpts are the options of one independently written stream.
type WOpts struct {
	Default  bool `json:"default,omitempty"` // use zngio.NewWriter (documented defaults) instead of explicit options
	Compress bool `json:"compress"`
	Frame    int  `json:"frame"`
}

// ROpts is one reader configuration.
type ROpts struct {
	Threads  int    `json:"threads"`
	Size     int    `json:"size"`  // 0 = default
	MaxMode  int    `json:"max"`   // 0 = default Max, 1 = Max set to a bound >= the largest frame
	Validate bool   `json:"validate"`
	Path     string `json:"path"`  // "read" (Reader.Read) or "pull" (NewScanner(ctx,nil).Pull)
	Hold     int    `json:"hold"`  // pull path: number of batches kept referenced while pulling on
	Chunk    int    `json:"chunk"` // >0: the underlying io.Reader returns at most Chunk bytes per Read call
}

// Pad is an optional large top-level value inserted at value position Pos so
// that a frame exceeds zngio.DefaultFrameThresh (big pooled buffers, peeker growth).
type Pad struct {
	Pos  int  `json:"pos"`
	Len  int  `json:"len"`  // 0 = no pad
	Rand bool `json:"rand"` // incompressible content (deterministic LCG) instead of a repeated letter
}

type Case struct {
	Seq     gen.Seq `json:"seq"`
	NCtx    int     `json:"nctx"`    // number of input type contexts (1..3)
	Ctx     []int   `json:"ctx"`     // per value: which input context its type lives in
	Cuts    []int   `json:"cuts"`    // stream k holds values [Cuts[k], Cuts[k+1]) ; len = nstreams+1
	W       []WOpts `json:"w"`       // per stream
	EOS     []int   `json:"eos"`     // value indexes before which EndStream() is called on the current writer
	EOSTail bool    `json:"eostail"` // extra EndStream() after the last value of every stream
	Pad     Pad     `json:"pad"`
	PrePop  int     `json:"prepop"` // 0 fresh output context; 1 pre-translated in reverse; 2 names pre-bound to other types
	R1      ROpts   `json:"r1"`
	R2      ROpts   `json:"r2"`
}

var frameChoices = []int{1, 2, 7, 64, 4096, 1 << 19, 1 << 20}

func genW(t *rapid.T) WOpts {
	w := WOpts{Compress: rapid.Bool().Draw(t, "compress")}
	switch k := rapid.IntRange(0, 9).Draw(t, "framekind"); {
	case k == 0:
		w.Default = true
		w.Compress = true
		w.Frame = zngio.DefaultFrameThresh
	case k <= 7:
		w.Frame = rapid.SampledFrom(frameChoices).Draw(t, "frame")
	default:
		w.Frame = rapid.IntRange(1, 1<<20).Draw(t, "rframe")
	}
	return w
}

func genR(t *rapid.T, label string) ROpts {
	r := ROpts{
		Threads:  rapid.SampledFrom([]int{1, 2, 3, 8, 16}).Draw(t, label+"threads"),
		Size:     rapid.SampledFrom([]int{1, 3, 17, 4096, 0}).Draw(t, label+"size"),
		MaxMode:  rapid.SampledFrom([]int{0, 0, 1}).Draw(t, label+"max"),
		Validate: rapid.Bool().Draw(t, label+"validate"),
		Path:     rapid.SampledFrom([]string{"read", "pull", "pull"}).Draw(t, label+"path"),
	}
	if r.Path == "pull" {
		r.Hold = rapid.SampledFrom([]int{0, 0, 1, 2, 5, 64}).Draw(t, label+"hold")
	}
	r.Chunk = rapid.SampledFrom([]int{0, 0, 0, 1, 2, 5, 100, 5000}).Draw(t, label+"chunk")
	return r
}

// drawSeq is gen.DrawSeq plus "twin" named types: one name bound to two
// different underlying types in the same sequence (rebinding), and the same
// underlying type under two names.
func drawSeq(t *rapid.T, maxLen, maxTypes, depth int) gen.Seq {
	zctx := zed.NewContext()
	tg := &gen.TypeGen{Zctx: zctx, Opts: gen.TypeOpts{MaxDepth: depth}}
	vg := &gen.ValGen{Zctx: zctx, Types: tg}
	ntypes := rapid.IntRange(1, maxTypes).Draw(t, "ntypes")
	var types []zed.Type
	for i := 0; i < ntypes; i++ {
		types = append(types, tg.Draw(t, depth))
	}
	if rapid.IntRange(0, 2).Draw(t, "twins?") == 0 {
		name := rapid.SampledFrom(gen.TypeNames).Draw(t, "twinname")
		a := types[rapid.IntRange(0, len(types)-1).Draw(t, "twina")]
		b := tg.Draw(t, depth-1)
		for _, inner := range []zed.Type{a, b} {
			named, err := zctx.LookupTypeNamed(name, inner)
			if err != nil {
				panic("harness: " + err.Error())
			}
			types = append(types, named)
			if rapid.Bool().Draw(t, "twinwrap") {
				// the name also appears nested, so a later stream/frame refers to a rebound name
				types = append(types, zctx.MustLookupTypeRecord([]zed.Field{
					zed.NewField("n", named), zed.NewField("m", zctx.LookupTypeArray(named))}))
			}
		}
		other := rapid.SampledFrom(gen.TypeNames).Draw(t, "twinname2")
		named, err := zctx.LookupTypeNamed(other, a)
		if err != nil {
			panic("harness: " + err.Error())
		}
		types = append(types, named)
	}
	n := rapid.IntRange(0, maxLen).Draw(t, "nvals")
	s := gen.Seq{Zctx: zctx}
	cur := 0
	for len(s.Vals) < n {
		if rapid.IntRange(0, 2).Draw(t, "switch?") == 0 {
			cur = rapid.IntRange(0, len(types)-1).Draw(t, "which")
		}
		s.Vals = append(s.Vals, vg.Value(t, types[cur]))
	}
	return s
}

func genCase(t *rapid.T) Case {
	maxLen, depth := 40, 3
	switch {
	case raceEnabled:
		// Every values frame costs a 512 KiB pooled buffer, which the race
		// detector makes ~50x more expensive: keep sequences short there.
		maxLen = 16
		if rapid.IntRange(0, 3).Draw(t, "long?") == 0 {
			maxLen = 48
		}
		if vt.Thorough() && rapid.IntRange(0, 3).Draw(t, "deep?") == 0 {
			depth = 4
		}
	case vt.Thorough():
		maxLen = 400
		if rapid.IntRange(0, 3).Draw(t, "deep?") == 0 {
			depth = 4
		}
		if rapid.IntRange(0, 3).Draw(t, "short?") > 0 {
			maxLen = 60
		}
	default:
		if rapid.IntRange(0, 15).Draw(t, "long?") == 0 {
			maxLen = 300
		}
	}
	c := Case{Seq: drawSeq(t, maxLen, 6, depth)}
	n := len(c.Seq.Vals)
	c.NCtx = rapid.SampledFrom([]int{1, 1, 2, 3}).Draw(t, "nctx")
	c.Ctx = make([]int, n)
	if c.NCtx > 1 {
		for i := range c.Ctx {
			c.Ctx[i] = rapid.IntRange(0, c.NCtx-1).Draw(t, "ctx")
		}
	}
	nstreams := rapid.SampledFrom([]int{1, 1, 2, 3}).Draw(t, "nstreams")
	c.Cuts = []int{0}
	for k := 1; k < nstreams; k++ {
		c.Cuts = append(c.Cuts, rapid.IntRange(c.Cuts[k-1], n).Draw(t, "cut"))
	}
	c.Cuts = append(c.Cuts, n)
	for k := 0; k < nstreams; k++ {
		c.W = append(c.W, genW(t))
	}
	neos := rapid.SampledFrom([]int{0, 0, 1, 2, 4}).Draw(t, "neos")
	for k := 0; k < neos && n > 0; k++ {
		c.EOS = append(c.EOS, rapid.IntRange(0, n-1).Draw(t, "eos"))
	}
	c.EOSTail = rapid.IntRange(0, 3).Draw(t, "eostail") == 0
	if !raceEnabled && rapid.IntRange(0, 24).Draw(t, "pad?") == 0 {
		c.Pad = Pad{
			Pos:  rapid.IntRange(0, n).Draw(t, "padpos"),
			Len:  rapid.SampledFrom([]int{1<<19 - 8, 1 << 19, 1<<19 + 1, 600_000, 1_100_000}).Draw(t, "padlen"),
			Rand: rapid.Bool().Draw(t, "padrand"),
		}
	}
	c.PrePop = rapid.SampledFrom([]int{0, 0, 1, 2}).Draw(t, "prepop")
	c.R1 = genR(t, "r1.")
	c.R2 = genR(t, "r2.")
	if c.Pad.Len > 0 {
		// byte-at-a-time reads of a megabyte only cost time
		for _, r := range []*ROpts{&c.R1, &c.R2} {
			if r.Chunk > 0 && r.Chunk < 64 {
				r.Chunk = 64
			}
		}
	}
	return c
}

// ---------------------------------------------------------------- running

func padValue(p Pad) zed.Value {
	b := make([]byte, p.Len)
	if p.Rand {
		x := uint32(2463534242)
		for i := range b {
			x ^= x << 13
			x ^= x >> 17
			x ^= x << 5
			b[i] = byte(x >> 11)
		}
	} else {
		for i := range b {
			b[i] = 'p'
		}
	}
	return zed.NewValue(zed.TypeBytes, b)
}

// inputs materialises the case's input sequence: the pad inserted, every
// value's type translated into the input context the case assigns to it.
func (c Case) inputs() ([]zed.Value, []int, error) {
	vals := append([]zed.Value(nil), c.Seq.Vals...)
	ctxOf := append([]int(nil), c.Ctx...)
	for len(ctxOf) < len(vals) {
		ctxOf = append(ctxOf, 0)
	}
	ctxs := []*zed.Context{c.Seq.Zctx}
	if ctxs[0] == nil {
		ctxs[0] = zed.NewContext()
	}
	for k := 1; k < c.NCtx; k++ {
		ctxs = append(ctxs, zed.NewContext())
	}
	for i, v := range vals {
		k := ctxOf[i]
		if k <= 0 || k >= len(ctxs) {
			continue
		}
		typ, err := ctxs[k].TranslateType(v.Type())
		if err != nil {
			return nil, nil, fmt.Errorf("harness: TranslateType: %w", err)
		}
		vals[i] = zed.NewValue(typ, v.Bytes())
	}
	return vals, ctxOf, nil
}

type written struct {
	data   []byte
	input  []zed.Value // the expected output sequence (pad included)
	bound  int         // upper bound on the largest uncompressed frame
	stats  frameStats
	nonEmp int // streams with at least one value
}

// write produces the byte stream of the case.
func (c Case) write(vals []zed.Value) (*written, error) {
	n := len(vals)
	nstreams := len(c.Cuts) - 1
	if nstreams < 1 || len(c.W) != nstreams || c.Cuts[0] != 0 || c.Cuts[nstreams] != n {
		return nil, fmt.Errorf("harness: bad cuts %v for %d values", c.Cuts, n)
	}
	type item struct {
		v   zed.Value
		eos int // EndStream() calls before this value
	}
	eos := map[int]int{}
	for _, p := range c.EOS {
		eos[p]++
	}
	streams := make([][]item, nstreams)
	streamOf := func(i int) int {
		for k := 0; k < nstreams; k++ {
			if i < c.Cuts[k+1] {
				return k
			}
		}
		return nstreams - 1
	}
	w := &written{}
	for i := 0; i <= n; i++ {
		k := streamOf(i)
		if c.Pad.Len > 0 && c.Pad.Pos == i {
			streams[k] = append(streams[k], item{v: padValue(c.Pad)})
			w.stats.pad = true
		}
		if i < n {
			streams[k] = append(streams[k], item{v: vals[i], eos: eos[i]})
		}
	}
	var out bytes.Buffer
	bound := 1 << 16
	for k, items := range streams {
		var buf bytes.Buffer
		var zw *zngio.Writer
		if c.W[k].Default {
			zw = zngio.NewWriter(zio.NopCloser(&buf))
		} else {
			zw = zngio.NewWriterWithOpts(zio.NopCloser(&buf), zngio.WriterOpts{Compress: c.W[k].Compress, FrameThresh: c.W[k].Frame})
		}
		for _, it := range items {
			for j := 0; j < it.eos; j++ {
				if err := zw.EndStream(); err != nil {
					return nil, err
				}
			}
			w.input = append(w.input, it.v)
			bound += 2*len(it.v.Bytes()) + 32
			if err := zw.Write(it.v); err != nil {
				return nil, err
			}
		}
		if c.EOSTail {
			if err := zw.EndStream(); err != nil {
				return nil, err
			}
		}
		if err := zw.Close(); err != nil {
			return nil, err
		}
		if len(items) > 0 {
			w.nonEmp++
		}
		out.Write(buf.Bytes())
	}
	w.data = out.Bytes()
	w.bound = bound
	scanFrames(w.data, &w.stats)
	return w, nil
}


type frameStats struct {
	ok         bool
	values     int // values frames
	types      int // types frames
	compressed int // frames with the compression bit
	eos        int // EOS markers
	eosInside  bool
	big        bool // some frame larger than DefaultFrameThresh
	pad        bool
}

// scanFrames walks the framing (docs/formats/zng.md) to label the case; it
// never decides pass/fail.
func scanFrames(b []byte, st *frameStats) {
	off := 0
	for off < len(b) {
		code := b[off]
		off++
		if code == 0xff {
			st.eos++
			if off < len(b) {
				st.eosInside = true
			}
			continue
		}
		if code&0x80 != 0 {
			return
		}
		v, k := binary.Uvarint(b[off:])
		if k <= 0 {
			return
		}
		off += k
		length := int(v)<<4 | int(code&0xf)
		if off+length > len(b) {
			return
		}
		usize := length
		if code&0x40 != 0 {
			st.compressed++
			if length >= 2 {
				if u, k2 := binary.Uvarint(b[off+1:]); k2 > 0 {
					usize = int(u)
				}
			}
		}
		if usize > zngio.DefaultFrameThresh {
			st.big = true
		}
		switch (code >> 4) & 3 {
		case 0:
			st.types++
		case 1:
			st.values++
		}
		off += length
	}
	st.ok = true
}

type chunkReader struct {
	b []byte
	n int
}

func (r *chunkReader) Read(p []byte) (int, error) {
	if len(r.b) == 0 {
		return 0, io.EOF
	}
	k := min(len(p), r.n, len(r.b))
	copy(p, r.b[:k])
	r.b = r.b[k:]
	return k, nil
}

func (ro ROpts) opts(bound int) zngio.ReaderOpts {
	o := zngio.ReaderOpts{Validate: ro.Validate, Size: ro.Size, Threads: ro.Threads}
	if ro.MaxMode == 1 {
		o.Max = bound
	}
	return o
}

func (ro ROpts) reader(data []byte) io.Reader {
	if ro.Chunk > 0 {
		return &chunkReader{b: data, n: ro.Chunk}
	}
	return bytes.NewReader(data)
}

// readAll reads data through the configured path and returns deep copies of
// the values.  On the pull path a value is copied only when its batch is
// about to be unreferenced (up to Hold batches later), which is what the
// batch contract allows.
func readAll(zctx *zed.Context, data []byte, ro ROpts, bound int) (vals []zed.Value, nbatch int, err error) {
	zr := zngio.NewReaderWithOpts(zctx, ro.reader(data), ro.opts(bound))
	if ro.Path == "read" {
		defer zr.Close()
		for {
			v, err := zr.Read()
			if err != nil {
				return vals, 0, err
			}
			if v == nil {
				return vals, 0, nil
			}
			vals = append(vals, v.Copy())
		}
	}
	sc, err := zr.NewScanner(context.Background(), nil)
	if err != nil {
		return nil, 0, err
	}
	// Pull(true) cancels the scanner and joins its parser goroutine.
	defer sc.Pull(true)
	var held []zbuf.Batch
	release := func(b zbuf.Batch) {
		for _, v := range b.Values() {
			vals = append(vals, v.Copy())
		}
		b.Unref()
	}
	for {
		b, err := sc.Pull(false)
		if err != nil {
			if _, ok := err.(*zbuf.Control); ok {
				continue
			}
			for _, h := range held {
				h.Unref()
			}
			return vals, nbatch, err
		}
		if b == nil {
			break
		}
		nbatch++
		// an extra reference taken and dropped must not free the batch
		b.Ref()
		b.Unref()
		held = append(held, b)
		for len(held) > ro.Hold {
			release(held[0])
			held = held[1:]
		}
	}
	for _, h := range held {
		release(h)
	}
	return vals, nbatch, nil
}

func typeNames(typ zed.Type, m map[string]map[string]bool) {
	oracle.TypeHas(typ, func(t zed.Type) bool {
		if n, ok := t.(*zed.TypeNamed); ok {
			if m[n.Name] == nil {
				m[n.Name] = map[string]bool{}
			}
			m[n.Name][string(zed.EncodeTypeValue(n.Type))] = true
		}
		return false
	})
}

func newOutCtx(prepop int, input []zed.Value) *zed.Context {
	zctx := zed.NewContext()
	switch prepop {
	case 1:
		for i := len(input) - 1; i >= 0; i-- {
			if _, err := zctx.TranslateType(input[i].Type()); err != nil {
				panic("harness: " + err.Error())
			}
		}
	case 2:
		names := map[string]map[string]bool{}
		for _, v := range input {
			typeNames(v.Type(), names)
		}
		for _, name := range gen.TypeNames {
			if names[name] != nil {
				if _, err := zctx.LookupTypeNamed(name, zctx.LookupTypeSet(zed.TypeIP)); err != nil {
					panic("harness: " + err.Error())
				}
			}
		}
	}
	return zctx
}

// checkCanonical verifies that output types are the canonical pointers of the
// reader's context.
func checkCanonical(zctx *zed.Context, input, output []zed.Value) string {
	for i := range output {
		want, err := zctx.TranslateType(input[i].Type())
		if err != nil {
			return fmt.Sprintf("TranslateType of input type %d failed: %v", i, err)
		}
		if output[i].Type() != want {
			return fmt.Sprintf("value %d: output type %p (%s) is not the reader context's canonical pointer %p for the input type",
				i, output[i].Type(), oracle.Show(zctx.LookupTypeValue(output[i].Type())), want)
		}
	}
	return ""
}

func readErrSig(err error) string {
	s := err.Error()
	switch {
	case strings.Contains(s, "exceeds maximum"):
		return "exceeds-maximum"
	case strings.Contains(s, "not in context"):
		return "type-id-not-in-context"
	case strings.Contains(s, "malformed"):
		return "malformed"
	case strings.Contains(s, "invalid ZNG"), strings.Contains(s, "panic"):
		return "validate"
	}
	return "other"
}

func runCase(c Case) *vt.Outcome {
	o := &vt.Outcome{}
	vals, _, err := c.inputs()
	if err != nil {
		panic(err.Error())
	}
	for i, v := range vals {
		if err := v.Validate(); err != nil {
			panic(fmt.Sprintf("harness: generated value %d fails Validate: %v", i, err))
		}
	}
	w, err := c.write(vals)
	if err != nil {
		o.Fail = vt.Failf("C01/write-error", "writer returned an error on an in-memory sink: %v", err)
		return o
	}
	input := w.input

	// ---- labels and the non-trivial rule
	hasComplex := false
	names := map[string]map[string]bool{}
	for _, v := range input {
		if oracle.IsComplex(v.Type()) {
			hasComplex = true
		}
		typeNames(v.Type(), names)
	}
	rebinding := false
	for _, m := range names {
		if len(m) >= 2 {
			rebinding = true
		}
	}
	st := w.stats
	if !st.ok {
		o.Label("frame-scan-incomplete")
	}
	lab := func(cond bool, l string) {
		if cond {
			o.Label(l)
		}
	}
	lab(st.values >= 2, "multi-frame")
	lab(st.values >= 3, "frames>=3")
	lab(st.compressed > 0, "compressed-frame-actually-compressed")
	lab(st.eosInside, "EOS-inside")
	lab(w.nonEmp >= 2, "concat")
	lab(rebinding, "rebinding")
	lab(len(names) > 0, "has-named")
	usedCtx := map[int]bool{}
	for i := range c.Seq.Vals {
		if i < len(c.Ctx) {
			usedCtx[c.Ctx[i]] = true
		}
	}
	lab(len(usedCtx) >= 2, "multi-context")
	lab(c.R1.Threads > 1, "threads>1")
	lab(c.R1.Threads > 1 && st.values >= 3, "threads>1&frames>=3")
	lab(st.big, "big-frame(>512KiB)")
	lab(len(input) == 0, "empty")
	lab(hasComplex, "has-complex")
	lab(c.PrePop > 0, "prepopulated-outctx")
	o.Label("r1:" + c.R1.Path)
	lab(c.R1.Path == "pull" && c.R1.Hold > 0, "pull-hold>0")
	lab(c.R1.Validate, "validate-on")
	lab(c.R1.Chunk > 0, "short-reads")
	for _, v := range input {
		if oracle.TypeHas(v.Type(), func(t zed.Type) bool { _, ok := t.(*zed.TypeUnion); return ok }) {
			o.Label("has-union")
			break
		}
	}
	o.NonTrivial = hasComplex && (st.values >= 2 || w.nonEmp >= 2 || (c.R1.Threads > 1 && st.values >= 3))

	// ---- first read
	outCtx := newOutCtx(c.PrePop, input)
	out1, nbatch, err := readAll(outCtx, w.data, c.R1, w.bound)
	if err != nil {
		if readErrSig(err) == "exceeds-maximum" {
			return &vt.Outcome{Skip: "max-bound-too-small"}
		}
		o.Fail = vt.Failf("C01/read-error/"+readErrSig(err), "reading back %d bytes (%d values, opts %+v) failed after %d values: %v", len(w.data), len(input), c.R1, len(out1), err)
		return o
	}
	lab(nbatch >= 2, "multi-batch")
	if d := oracle.Same(input, out1); d != "" {
		o.Fail = vt.Failf("C01/roundtrip-differs", "opts %+v writer %+v: %s", c.R1, c.W, d)
		return o
	}
	if d := checkCanonical(outCtx, input, out1); d != "" {
		o.Fail = vt.Failf("C01/type-not-canonical", "%s", d)
		return o
	}

	// ---- a second, different stream through the same process (buffer pools are reused)
	if len(input) > 0 {
		rev := make([]zed.Value, len(input))
		for i, v := range input {
			rev[len(input)-1-i] = v
		}
		var buf bytes.Buffer
		zw := zngio.NewWriterWithOpts(zio.NopCloser(&buf), zngio.WriterOpts{Compress: !c.W[0].Compress, FrameThresh: max(1, c.W[0].Frame/2)})
		for _, v := range rev {
			if err := zw.Write(v); err != nil {
				o.Fail = vt.Failf("C01/write-error", "second stream: %v", err)
				return o
			}
		}
		if err := zw.Close(); err != nil {
			o.Fail = vt.Failf("C01/write-error", "second stream: %v", err)
			return o
		}
		outRev, _, err := readAll(zed.NewContext(), buf.Bytes(), c.R2, w.bound)
		if err != nil {
			if readErrSig(err) == "exceeds-maximum" {
				return &vt.Outcome{Skip: "max-bound-too-small"}
			}
			o.Fail = vt.Failf("C01/read-error/"+readErrSig(err), "second (reversed) stream, opts %+v: %v", c.R2, err)
			return o
		}
		if d := oracle.Same(rev, outRev); d != "" {
			o.Fail = vt.Failf("C01/roundtrip-differs", "second (reversed) stream, opts %+v: %s", c.R2, d)
			return o
		}
		if d := oracle.Same(input, out1); d != "" {
			o.Fail = vt.Failf("C01/copies-changed-after-recycling", "copies taken from the first scan changed after a second stream was read: %s", d)
			return o
		}
	}

	// ---- metamorphic: same bytes, other reader options, same (pre-populated) context
	out2, _, err := readAll(outCtx, w.data, c.R2, w.bound)
	if err != nil {
		if readErrSig(err) == "exceeds-maximum" {
			return &vt.Outcome{Skip: "max-bound-too-small"}
		}
		o.Fail = vt.Failf("C01/read-error/"+readErrSig(err), "re-reading with opts %+v failed (first read with %+v succeeded): %v", c.R2, c.R1, err)
		return o
	}
	if d := oracle.Same(out1, out2); d != "" {
		o.Fail = vt.Failf("C01/reader-options-change-result", "opts %+v vs %+v: %s", c.R1, c.R2, d)
		return o
	}
	for i := range out2 {
		if out1[i].Type() != out2[i].Type() {
			o.Fail = vt.Failf("C01/type-not-canonical", "value %d: two reads into the same context gave different type pointers", i)
			return o
		}
	}
	return o
}

const rule = "case = (value sequence over the whole type system incl. named twins/rebinding, types spread over 1..3 input contexts, 1..3 independently written streams " +
	"each with (compress, frameThresh in {1,2,7,64,4096,2^19,2^20,random,default writer}), EndStream() at generated positions, optional >512KiB pad value, " +
	"output context fresh/pre-populated, two reader option sets (threads in {1,2,3,8,16}, size in {1,3,17,4096,default}, max default/tight bound, validate, path Read or Scanner.Pull with 0..N held batches, short reads)). " +
	"Oracle: output == input as (type value bytes, value bytes) sequence; output types are the canonical pointers of the reader context; second option set gives the same sequence; " +
	"copies survive reading another stream. Non-trivial: the sequence contains a complex type AND (>=2 values frames OR >=2 non-empty streams OR threads>1 with >=3 frames)."

func mkProp(name string) *vt.Prop[Case] {
	return &vt.Prop[Case]{Name: name, Rule: rule, Gen: genCase, Run: runCase}
}

var (
	prop   = mkProp("TestZNGRoundTrip")
	propP1 = mkProp("TestZNGRoundTripP1")
	propP2 = mkProp("TestZNGRoundTripP2")
)

func init() {
	prop.Register()
	propP1.Register()
	propP2.Register()
}

func TestZNGRoundTrip(t *testing.T)   { prop.Check(t) }   // GOMAXPROCS = number of cores
func TestZNGRoundTripP1(t *testing.T) { propP1.Check(t) } // run by ./check with GOMAXPROCS=1
func TestZNGRoundTripP2(t *testing.T) { propP2.Check(t) } // run by ./check with GOMAXPROCS=2
func TestReplay(t *testing.T)         { vt.TestReplay(t) }
