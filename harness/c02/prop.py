PROP = dict(
        pkg="c02", level="exploration",
        rule="C02: (a) generated value sequences over the whole type system x formatter settings (pretty 0/2/4, persist regexp nil/.*/^foo$) x typedef scope (per value, zsonio.Writer/FormatRecord stream, reused Formatter.Format stream) must read back identical (type bytes, value bytes, NaN=NaN; identical type pointer in the writer's context); (b) JSON texts from an RFC 8259 grammar must be read identically by zsonio.Reader and jsonio.Reader",
        assumptions=[
            "strings in the main stream are valid UTF-8 and in Unicode NFC (the ZSON reader normalises string values to NFC; non-NFC strings are examined in the opt-in test TestZSONNonNFC)",
            "unions containing the null type, and null union members, are examined only in the opt-in test TestZSONNullInUnion",
            "JSON objects have unique keys (also after NFC); lone UTF-16 surrogate escapes are not generated (RFC 8259 8.2: behaviour unpredictable); a reader may refuse a document only for a number that overflows float64, and then both readers must",
            "colour output of the formatter (ColorDisabled=false) is not part of the round trip and is never enabled",
            "cases that hit an open known finding are reduced (the trigger is normalised away or the value dropped) and the rest of the case is still checked; other defects that need the same trigger stay hidden until that finding is fixed",
        ],
        level_text="Sampled: property-based testing with rapid over generated values/settings and generated JSON texts; a differential oracle (two readers) for the JSON half, a round-trip oracle for the ZSON half.",
        level_note="Trusted: gen (type/value generators, validated with Value.Validate), oracle.Key as identity of a value, encoding/json.Valid as the arbiter of what is valid JSON, the repo's own ZSON parser front end (syntax tree only) for classifying typedef-order failures. Not covered: coloured output, zson.Marshal/Unmarshal of Go values, decimal/128/256-bit primitives (not implemented in the repo), `super -z/-Z` CLI plumbing.",
        env=dict(GOGC="400"),  # every zson.NewParser allocates a 64 KiB buffer and compiles two regexps: GC dominated otherwise
        technique="property-based testing (rapid): round-trip and differential oracles, root-cause classification by neutralisation",
        tests=[
            dict(name="TestZSONRoundTrip", quick=(8, 500), thorough=(16, 6000)),
            dict(name="TestJSONSubset", quick=(8, 400), thorough=(16, 4000)),
            dict(name="TestZSONNonNFC", quick=(4, 150), thorough=(8, 2000)),
            dict(name="TestZSONNullInUnion", quick=(4, 150), thorough=(8, 2000)),
        ],
)
