PROP = dict(
        pkg="c02", level="sampled",
        rule="C02: ZSON text round trip over generated values x formatter settings x typedef scopes; JSON documents from a grammar read by both readers",
        assumptions=[],
        level_text="Property-based sampling (rapid).",
        level_note="",
        technique="property-based testing (rapid), differential testing of two readers",
        tests=[dict(name="TestZSONRoundTrip", quick=(8, 300), thorough=(16, 3000))],
)
