package c02

import (
	"encoding/json"
	"fmt"
	"os"
	"testing"
)

func TestDebugCase(t *testing.T) {
	f := os.Getenv("C02_DEBUG_CASE")
	if f == "" {
		t.Skip()
	}
	b, _ := os.ReadFile(f)
	var rec struct {
		Case json.RawMessage `json:"case"`
	}
	json.Unmarshal(b, &rec)
	var c RTCase
	if err := json.Unmarshal(rec.Case, &c); err != nil {
		t.Fatal(err)
	}
	c, _ = mapSeq(c, nullMemberToNullUnion)
	for _, n := range rtNeutralisers {
		if nc, changed := n.apply(c); changed {
			c = nc
		}
	}
	fail := c.check()
	fmt.Println("FAIL:", fail.mode, fail.kind, fail.idx)
	fmt.Println(fail.text)
	fmt.Println("diverges:", orderDiverges(fail.text, fail.streamIdx()))
	got, err := readTextOrder(fail.text)
	fmt.Println("readTextOrder:", len(got), err)
	for i := 0; i < len(got) && i <= fail.idx; i++ {
		k, m := compare(c.Seq.Vals[i], got[i])
		fmt.Println(i, k, clip(m))
	}
}
