package c02

import (
	"encoding/json"
	"fmt"
	"os"
	"testing"
)

func TestDebugCase(t *testing.T) {
	f := os.Getenv("C02_DEBUG_CASE")
	if f == "" {
		t.Skip()
	}
	b, _ := os.ReadFile(f)
	var rec struct {
		Case json.RawMessage `json:"case"`
	}
	json.Unmarshal(b, &rec)
	var c RTCase
	if err := json.Unmarshal(rec.Case, &c); err != nil {
		t.Fatal(err)
	}
	o := propNullInUnion.Run(c)
	fmt.Println("outcome:", o.Fail, o.Known)
}
