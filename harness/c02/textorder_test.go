package c02

import (
	"errors"
	"strings"

	zed "github.com/brimdata/super"
	astzed "github.com/brimdata/super/compiler/ast/zed"
	"github.com/brimdata/super/zcode"
	"github.com/brimdata/super/zson"
)

// The ZSON spec resolves type names in text order (docs/formats/zson.md 2.5.8:
// "the new type name may be referenced by any subsequent value in left-to-right
// depth-first order", redefinitions "resolve to the most recent definition").
// zson.Analyzer instead converts a decorator *before* the value it decorates, so
// for some texts it binds names differently than the text says.
//
// readTextOrder reads ZSON text the way the spec says, reusing the repo's own
// parser (syntax), analyzer and builder: the syntax tree is first made
// independent of evaluation order by replacing every type-name *reference* with
// the full definition it resolves to in text order (re-stating name=T where the
// name is currently bound to T changes nothing).  What is left has no
// reference across a value/decorator boundary, so the analyzer's own order no
// longer matters.
//
// It is used only to classify an observed round-trip failure: if the text, read
// in text order, gives back exactly the values that were written, the formatter
// did its job and the failure is the analyzer's evaluation order.
//
// The analyzer has further defects on exactly the constructs involved
// (`v (=name)` under an enclosing decorator; a union decorator repeated under an
// enclosing decorator), so there are two spellings of `v (=name)`: as it is, or
// as `v (name=T)` (defAsCast); a caller tries both.
//
// stripUnion drops the outer (union) decorator of a doubly decorated value that
// sits below another decorator (which then supplies the union type).
func readTextOrder(text string, defAsCast, stripUnion bool) ([]zed.Value, error) {
	p := zson.NewParser(strings.NewReader(text))
	e := &expander{defs: map[string]astzed.Type{}, scratch: zed.NewContext(), defAsCast: defAsCast, stripUnion: stripUnion}
	zctx := zed.NewContext()
	analyzer := zson.NewAnalyzer()
	var out []zed.Value
	for {
		ast, err := p.ParseValue()
		if err != nil {
			return out, err
		}
		if ast == nil {
			return out, nil
		}
		ast = e.value(ast)
		if e.err != nil {
			return out, e.err
		}
		val, err := analyzer.ConvertValue(zctx, ast)
		if err != nil {
			return out, err
		}
		v, err := zson.Build(zcode.NewBuilder(), val)
		if err != nil {
			return out, err
		}
		out = append(out, v.Copy())
	}
}

type expander struct {
	defs       map[string]astzed.Type // name -> its current definition, fully expanded (a TypeDef)
	scratch    *zed.Context
	syntaxOnly bool // only track which names are defined (refsFollowDefs)
	defAsCast  bool // spell v (=name) as v (name=T)
	stripUnion bool // drop a repeated union decorator below another decorator
	underCast  int  // number of enclosing decorated values
	err        error
}

func (e *expander) value(v astzed.Value) astzed.Value {
	switch v := v.(type) {
	case *astzed.ImpliedValue:
		return &astzed.ImpliedValue{Kind: "ImpliedValue", Of: e.any(v.Of)}
	case *astzed.DefValue:
		of := e.any(v.Of)
		if e.syntaxOnly {
			e.defs[v.TypeName] = &astzed.TypeName{Kind: "TypeName", Name: v.TypeName}
			return v
		}
		if e.err != nil {
			return v
		}
		// v (=name): name is bound to the type of v.  The formatter writes
		// this only for self-describing values, so v can be typed on its own.
		val, err := zson.NewAnalyzer().ConvertValue(e.scratch, &astzed.ImpliedValue{Kind: "ImpliedValue", Of: of})
		if err != nil {
			e.err = err
			return v
		}
		named, err := e.scratch.LookupTypeNamed(v.TypeName, val.TypeOf())
		if err != nil {
			e.err = err
			return v
		}
		def := e.typeAST(named)
		e.defs[v.TypeName] = def
		if !e.defAsCast {
			return &astzed.DefValue{Kind: "DefValue", Of: of, TypeName: v.TypeName}
		}
		return &astzed.CastValue{Kind: "CastValue", Of: &astzed.ImpliedValue{Kind: "ImpliedValue", Of: of}, Type: def}
	case *astzed.CastValue:
		// text order: the value, then its decorator
		_, doubly := v.Of.(*astzed.CastValue)
		e.underCast++
		of := e.value(v.Of)
		e.underCast--
		typ := e.typ(v.Type)
		if e.stripUnion && doubly && e.underCast > 0 {
			return of
		}
		return &astzed.CastValue{Kind: "CastValue", Of: of, Type: typ}
	}
	e.err = errors.New("unknown value node")
	return v
}

// typeAST renders a type as a syntax tree with every name defined in place.
func (e *expander) typeAST(t zed.Type) astzed.Type {
	ast, err := zson.NewParser(strings.NewReader("null(" + zson.FormatType(t) + ")")).ParseValue()
	if err == nil {
		if c, ok := ast.(*astzed.CastValue); ok {
			return c.Type
		}
		err = errors.New("type text did not parse as a decorator")
	}
	e.err = err
	return nil
}

func (e *expander) any(a astzed.Any) astzed.Any {
	switch a := a.(type) {
	case *astzed.Record:
		out := &astzed.Record{Kind: "Record", Fields: make([]astzed.Field, len(a.Fields))}
		for i, f := range a.Fields {
			out.Fields[i] = astzed.Field{Name: f.Name, Value: e.value(f.Value)}
		}
		return out
	case *astzed.Array:
		out := &astzed.Array{Kind: "Array", Elements: make([]astzed.Value, len(a.Elements))}
		for i, el := range a.Elements {
			out.Elements[i] = e.value(el)
		}
		return out
	case *astzed.Set:
		out := &astzed.Set{Kind: "Set", Elements: make([]astzed.Value, len(a.Elements))}
		for i, el := range a.Elements {
			out.Elements[i] = e.value(el)
		}
		return out
	case *astzed.Map:
		out := &astzed.Map{Kind: "Map", Entries: make([]astzed.Entry, len(a.Entries))}
		for i, en := range a.Entries {
			k := e.value(en.Key)
			out.Entries[i] = astzed.Entry{Key: k, Value: e.value(en.Value)}
		}
		return out
	case *astzed.TypeValue:
		return &astzed.TypeValue{Kind: "TypeValue", Value: e.typ(a.Value)}
	case *astzed.Error:
		return &astzed.Error{Kind: "Error", Value: e.value(a.Value)}
	}
	return a
}

func (e *expander) typ(t astzed.Type) astzed.Type {
	switch t := t.(type) {
	case *astzed.TypeDef:
		def := &astzed.TypeDef{Kind: "TypeDef", Name: t.Name, Type: e.typ(t.Type)}
		e.defs[t.Name] = def
		return def
	case *astzed.TypeName:
		def, ok := e.defs[t.Name]
		if !ok {
			if e.err == nil {
				e.err = errors.New("reference to type name " + t.Name + " before any definition in the text")
			}
			return t
		}
		return def
	case *astzed.TypeRecord:
		out := &astzed.TypeRecord{Kind: "TypeRecord", Fields: make([]astzed.TypeField, len(t.Fields))}
		for i, f := range t.Fields {
			out.Fields[i] = astzed.TypeField{Name: f.Name, Type: e.typ(f.Type)}
		}
		return out
	case *astzed.TypeArray:
		return &astzed.TypeArray{Kind: "TypeArray", Type: e.typ(t.Type)}
	case *astzed.TypeSet:
		return &astzed.TypeSet{Kind: "TypeSet", Type: e.typ(t.Type)}
	case *astzed.TypeMap:
		k := e.typ(t.KeyType)
		return &astzed.TypeMap{Kind: "TypeMap", KeyType: k, ValType: e.typ(t.ValType)}
	case *astzed.TypeUnion:
		out := &astzed.TypeUnion{Kind: "TypeUnion", Types: make([]astzed.Type, len(t.Types))}
		for i, m := range t.Types {
			out.Types[i] = e.typ(m)
		}
		return out
	case *astzed.TypeError:
		return &astzed.TypeError{Kind: "TypeError", Type: e.typ(t.Type)}
	}
	return t
}

// refsFollowDefs reports whether, in text order, every type-name reference in
// text is preceded by a definition of that name (a value before its decorators,
// fields and elements left to right).  With it a `no such type name` error of
// the analyzer can be told from a formatter that really wrote a dangling
// reference, even when the text trips over further analyzer defects that keep
// readTextOrder from reading it.
func refsFollowDefs(text string) bool {
	p := zson.NewParser(strings.NewReader(text))
	e := &expander{defs: map[string]astzed.Type{}, syntaxOnly: true}
	for {
		v, err := p.ParseValue()
		if err != nil {
			return false
		}
		if v == nil {
			return e.err == nil
		}
		e.value(v)
	}
}

// orderDiverges replays the typedef bookkeeping of text in both orders, the
// text's (a value before its decorator) and zson.Analyzer.convertValue's (the
// decorator first, after pre-entering a directly nested typedef), and reports
// whether, within the first upto+1 top-level values, some reference resolves to
// a different definition or some name is left bound to a different definition.
// It is the necessary condition for blaming the analyzer's evaluation order: a
// reader that loses typedefs in some other way does not make the orders differ.
func orderDiverges(text string, upto int) bool {
	p := zson.NewParser(strings.NewReader(text))
	a, b := newOrderWalker(false), newOrderWalker(true)
	for i := 0; i <= upto; i++ {
		v, err := p.ParseValue()
		if err != nil || v == nil {
			return false
		}
		a.value(v)
		b.value(v)
		if b.unresolved && !a.unresolved {
			// the analyzer gives up at the first name it cannot resolve
			return true
		}
		for ref, site := range a.refs {
			if b.refs[ref] != site {
				return true
			}
		}
		for name, site := range a.defs {
			if b.defs[name] != site {
				return true
			}
		}
	}
	return false
}

type orderWalker struct {
	analyzerOrder bool
	defs          map[string]any           // name -> defining node
	refs          map[*astzed.TypeName]any // reference -> defining node (nil: unresolved)
	unresolved    bool                     // some reference found no definition when it was reached
}

func newOrderWalker(analyzerOrder bool) *orderWalker {
	return &orderWalker{analyzerOrder: analyzerOrder, defs: map[string]any{}, refs: map[*astzed.TypeName]any{}}
}

func (w *orderWalker) value(v astzed.Value) {
	switch v := v.(type) {
	case *astzed.ImpliedValue:
		w.any(v.Of)
	case *astzed.DefValue:
		w.any(v.Of)
		w.defs[v.TypeName] = v
	case *astzed.CastValue:
		if !w.analyzerOrder {
			w.value(v.Of)
			w.typ(v.Type)
			return
		}
		// Analyzer.convertValue
		switch of := v.Of.(type) {
		case *astzed.DefValue:
			w.value(of)
		case *astzed.CastValue:
			w.typ(of.Type)
		}
		w.typ(v.Type)
		w.value(v.Of)
	}
}

func (w *orderWalker) any(a astzed.Any) {
	switch a := a.(type) {
	case *astzed.Record:
		for _, f := range a.Fields {
			w.value(f.Value)
		}
	case *astzed.Array:
		for _, e := range a.Elements {
			w.value(e)
		}
	case *astzed.Set:
		for _, e := range a.Elements {
			w.value(e)
		}
	case *astzed.Map:
		for _, e := range a.Entries {
			w.value(e.Key)
			w.value(e.Value)
		}
	case *astzed.TypeValue:
		w.typ(a.Value)
	case *astzed.Error:
		w.value(a.Value)
	}
}

func (w *orderWalker) typ(t astzed.Type) {
	switch t := t.(type) {
	case *astzed.TypeDef:
		w.typ(t.Type)
		w.defs[t.Name] = t
	case *astzed.TypeName:
		w.refs[t] = w.defs[t.Name]
		if w.defs[t.Name] == nil {
			w.unresolved = true
		}
	case *astzed.TypeRecord:
		for _, f := range t.Fields {
			w.typ(f.Type)
		}
	case *astzed.TypeArray:
		w.typ(t.Type)
	case *astzed.TypeSet:
		w.typ(t.Type)
	case *astzed.TypeMap:
		w.typ(t.KeyType)
		w.typ(t.ValType)
	case *astzed.TypeUnion:
		for _, m := range t.Types {
			w.typ(m)
		}
	case *astzed.TypeError:
		w.typ(t.Type)
	}
}
