package c02

import (
	"strings"

	astzed "github.com/brimdata/super/compiler/ast/zed"
	"github.com/brimdata/super/zson"
)

// refsFollowDefs parses ZSON text with the repo's parser (syntax only) and
// walks the syntax tree in *text order* (a value before its decorators, fields
// and elements left to right): it reports whether every type-name reference is
// preceded, in the text, by a definition of that name.  docs/formats/zson.md
// 2.5.8: "the new type name may be referenced by any subsequent value in
// left-to-right depth-first order".  Used to tell an analyzer that fails to see
// an earlier definition from a formatter that really emitted a dangling reference.
func refsFollowDefs(text string) bool {
	p := zson.NewParser(strings.NewReader(text))
	w := &orderWalker{defined: map[string]bool{}, ok: true}
	for {
		v, err := p.ParseValue()
		if err != nil {
			return false
		}
		if v == nil {
			return w.ok
		}
		w.value(v)
	}
}

type orderWalker struct {
	defined map[string]bool
	ok      bool
}

func (w *orderWalker) value(v astzed.Value) {
	switch v := v.(type) {
	case *astzed.ImpliedValue:
		w.any(v.Of)
	case *astzed.DefValue:
		w.any(v.Of)
		w.defined[v.TypeName] = true
	case *astzed.CastValue:
		w.value(v.Of)
		w.typ(v.Type)
	}
}

func (w *orderWalker) any(a astzed.Any) {
	switch a := a.(type) {
	case *astzed.Record:
		for _, f := range a.Fields {
			w.value(f.Value)
		}
	case *astzed.Array:
		for _, e := range a.Elements {
			w.value(e)
		}
	case *astzed.Set:
		for _, e := range a.Elements {
			w.value(e)
		}
	case *astzed.Map:
		for _, e := range a.Entries {
			w.value(e.Key)
			w.value(e.Value)
		}
	case *astzed.TypeValue:
		w.typ(a.Value)
	case *astzed.Error:
		w.value(a.Value)
	}
}

func (w *orderWalker) typ(t astzed.Type) {
	switch t := t.(type) {
	case *astzed.TypeDef:
		w.typ(t.Type)
		w.defined[t.Name] = true
	case *astzed.TypeName:
		if !w.defined[t.Name] {
			w.ok = false
		}
	case *astzed.TypeRecord:
		for _, f := range t.Fields {
			w.typ(f.Type)
		}
	case *astzed.TypeArray:
		w.typ(t.Type)
	case *astzed.TypeSet:
		w.typ(t.Type)
	case *astzed.TypeMap:
		w.typ(t.KeyType)
		w.typ(t.ValType)
	case *astzed.TypeUnion:
		for _, m := range t.Types {
			w.typ(m)
		}
	case *astzed.TypeError:
		w.typ(t.Type)
	}
}
