package c02

import (
	"strings"

	astzed "github.com/brimdata/super/compiler/ast/zed"
	"github.com/brimdata/super/zson"
)

// The ZSON spec resolves type names in text order (docs/formats/zson.md 2.5.8:
// "the new type name may be referenced by any subsequent value in left-to-right
// depth-first order", redefinitions "resolve to the most recent definition").
// zson.Analyzer instead converts a decorator *before* the value it decorates
// (with two special cases that pre-enter directly nested typedefs).  The
// orderWalker replays both orders over the syntax tree produced by the repo's
// own parser and tells whether they bind any reference, or leave any name,
// differently.  It is used only to *classify* an observed round-trip failure:
// if the text means different things in the two orders, the failure is the
// analyzer's evaluation order and not (necessarily) the formatter.
type orderWalker struct {
	analyzerOrder bool
	defs          map[string]any           // name -> defining node
	refs          map[*astzed.TypeName]any // reference -> defining node (nil: unresolved)
}

func newOrderWalker(analyzerOrder bool) *orderWalker {
	return &orderWalker{analyzerOrder: analyzerOrder, defs: map[string]any{}, refs: map[*astzed.TypeName]any{}}
}

func (w *orderWalker) value(v astzed.Value) {
	switch v := v.(type) {
	case *astzed.ImpliedValue:
		w.any(v.Of)
	case *astzed.DefValue:
		w.any(v.Of)
		w.defs[v.TypeName] = v
	case *astzed.CastValue:
		if !w.analyzerOrder {
			w.value(v.Of)
			w.typ(v.Type)
			return
		}
		// Analyzer.convertValue
		switch of := v.Of.(type) {
		case *astzed.DefValue:
			w.value(of)
		case *astzed.CastValue:
			w.typ(of.Type)
		}
		w.typ(v.Type)
		w.value(v.Of)
	}
}

func (w *orderWalker) any(a astzed.Any) {
	switch a := a.(type) {
	case *astzed.Record:
		for _, f := range a.Fields {
			w.value(f.Value)
		}
	case *astzed.Array:
		for _, e := range a.Elements {
			w.value(e)
		}
	case *astzed.Set:
		for _, e := range a.Elements {
			w.value(e)
		}
	case *astzed.Map:
		for _, e := range a.Entries {
			w.value(e.Key)
			w.value(e.Value)
		}
	case *astzed.TypeValue:
		w.typ(a.Value)
	case *astzed.Error:
		w.value(a.Value)
	}
}

func (w *orderWalker) typ(t astzed.Type) {
	switch t := t.(type) {
	case *astzed.TypeDef:
		w.typ(t.Type)
		w.defs[t.Name] = t
	case *astzed.TypeName:
		w.refs[t] = w.defs[t.Name]
	case *astzed.TypeRecord:
		for _, f := range t.Fields {
			w.typ(f.Type)
		}
	case *astzed.TypeArray:
		w.typ(t.Type)
	case *astzed.TypeSet:
		w.typ(t.Type)
	case *astzed.TypeMap:
		w.typ(t.KeyType)
		w.typ(t.ValType)
	case *astzed.TypeUnion:
		for _, m := range t.Types {
			w.typ(m)
		}
	case *astzed.TypeError:
		w.typ(t.Type)
	}
}

func parseAll(text string) ([]astzed.Value, bool) {
	p := zson.NewParser(strings.NewReader(text))
	var out []astzed.Value
	for {
		v, err := p.ParseValue()
		if err != nil {
			return out, false
		}
		if v == nil {
			return out, true
		}
		out = append(out, v)
	}
}

// orderSensitive returns the index of the first top-level value of text after
// which text order and analyzer order disagree (on a reference made so far or
// on the binding of a name), provided the text is well-formed in text order up
// to there (no dangling reference).
func orderSensitive(text string) (int, bool) {
	vals, ok := parseAll(text)
	if !ok {
		return 0, false
	}
	a, b := newOrderWalker(false), newOrderWalker(true)
	for i, v := range vals {
		a.value(v)
		b.value(v)
		for ref, site := range a.refs {
			if site == nil {
				return 0, false // dangling in text order: the writer's fault
			}
			if b.refs[ref] != site {
				return i, true
			}
		}
		for name, site := range a.defs {
			if b.defs[name] != site {
				return i, true
			}
		}
	}
	return 0, false
}
