package c02

import (
	"fmt"

	zed "github.com/brimdata/super"
	"github.com/brimdata/super/zcode"
)

// rewriter maps types (and the values typed by them) to structurally parallel
// types in the same context: named types may be renamed, enum symbols and field
// names replaced.  It is the tool the neutralisers use to take a known defect's
// trigger out of a case while keeping everything else.  Renamings must be
// injective so that distinct union members stay distinct; union tags, sets and
// maps are re-derived because the canonical member order may change.
type rewriter struct {
	zctx *zed.Context
	// name returns the new name of the named type (name, inner) where inner
	// is the already rewritten underlying type.
	name func(name string, inner zed.Type) string
	// nameOrig, if set, takes precedence: it also sees the original type.
	nameOrig func(orig *zed.TypeNamed, inner zed.Type) string
	// symbols returns the new symbol list of an enum type (same length).
	symbols func(syms []string) []string
	// field returns the new name of a record field; pos is its index.
	field   func(name string, pos int) string
	memo    map[zed.Type]zed.Type
	changed bool
}

func (r *rewriter) typ(t zed.Type) zed.Type {
	if out, ok := r.memo[t]; ok {
		return out
	}
	if r.memo == nil {
		r.memo = map[zed.Type]zed.Type{}
	}
	var out zed.Type
	switch t := t.(type) {
	case *zed.TypeNamed:
		inner := r.typ(t.Type)
		name := t.Name
		if r.nameOrig != nil {
			name = r.nameOrig(t, inner)
		} else if r.name != nil {
			name = r.name(t.Name, inner)
		}
		n, err := r.zctx.LookupTypeNamed(name, inner)
		if err != nil {
			panic(fmt.Sprintf("harness: rewriter LookupTypeNamed(%q): %v", name, err))
		}
		out = n
	case *zed.TypeRecord:
		fields := make([]zed.Field, len(t.Fields))
		for i, f := range t.Fields {
			name := f.Name
			if r.field != nil {
				name = r.field(f.Name, i)
			}
			fields[i] = zed.NewField(name, r.typ(f.Type))
		}
		rt, err := r.zctx.LookupTypeRecord(fields)
		if err != nil {
			panic(fmt.Sprintf("harness: rewriter LookupTypeRecord: %v", err))
		}
		out = rt
	case *zed.TypeArray:
		out = r.zctx.LookupTypeArray(r.typ(t.Type))
	case *zed.TypeSet:
		out = r.zctx.LookupTypeSet(r.typ(t.Type))
	case *zed.TypeMap:
		out = r.zctx.LookupTypeMap(r.typ(t.KeyType), r.typ(t.ValType))
	case *zed.TypeUnion:
		types := make([]zed.Type, len(t.Types))
		for i, m := range t.Types {
			types[i] = r.typ(m)
		}
		for i := range types {
			for j := 0; j < i; j++ {
				if types[i] == types[j] {
					panic("harness: rewriter collapsed two union members")
				}
			}
		}
		out = r.zctx.LookupTypeUnion(types)
	case *zed.TypeEnum:
		syms := t.Symbols
		if r.symbols != nil {
			syms = r.symbols(append([]string(nil), t.Symbols...))
			if len(syms) != len(t.Symbols) {
				panic("harness: rewriter changed enum length")
			}
		}
		out = r.zctx.LookupTypeEnum(syms)
	case *zed.TypeError:
		out = r.zctx.LookupTypeError(r.typ(t.Type))
	default:
		out = t
	}
	if out != t {
		r.changed = true
	}
	r.memo[t] = out
	return out
}

func (r *rewriter) value(v zed.Value) zed.Value {
	nt := r.typ(v.Type())
	var b zcode.Builder
	r.build(&b, v.Type(), nt, v.Bytes())
	return zed.NewValue(nt, b.Bytes().Body())
}

func (r *rewriter) build(b *zcode.Builder, ot, nt zed.Type, body zcode.Bytes) {
	if body == nil {
		b.Append(nil)
		return
	}
	switch ot := ot.(type) {
	case *zed.TypeNamed:
		r.build(b, ot.Type, nt.(*zed.TypeNamed).Type, body)
	case *zed.TypeError:
		r.build(b, ot.Type, nt.(*zed.TypeError).Type, body)
	case *zed.TypeRecord:
		nr := nt.(*zed.TypeRecord)
		b.BeginContainer()
		it := body.Iter()
		for i, f := range ot.Fields {
			r.build(b, f.Type, nr.Fields[i].Type, it.Next())
		}
		b.EndContainer()
	case *zed.TypeArray:
		b.BeginContainer()
		for it := body.Iter(); !it.Done(); {
			r.build(b, ot.Type, nt.(*zed.TypeArray).Type, it.Next())
		}
		b.EndContainer()
	case *zed.TypeSet:
		b.BeginContainer()
		for it := body.Iter(); !it.Done(); {
			r.build(b, ot.Type, nt.(*zed.TypeSet).Type, it.Next())
		}
		b.TransformContainer(zed.NormalizeSet)
		b.EndContainer()
	case *zed.TypeMap:
		nm := nt.(*zed.TypeMap)
		b.BeginContainer()
		for it := body.Iter(); !it.Done(); {
			r.build(b, ot.KeyType, nm.KeyType, it.Next())
			r.build(b, ot.ValType, nm.ValType, it.Next())
		}
		b.TransformContainer(zed.NormalizeMap)
		b.EndContainer()
	case *zed.TypeUnion:
		nu := nt.(*zed.TypeUnion)
		it := body.Iter()
		tag := int(zed.DecodeInt(it.Next()))
		om := ot.Types[tag]
		nm := r.typ(om)
		ntag := nu.TagOf(nm)
		if ntag < 0 {
			panic("harness: rewriter lost a union member")
		}
		b.BeginContainer()
		b.Append(zed.EncodeInt(int64(ntag)))
		r.build(b, om, nm, it.Next())
		b.EndContainer()
	case *zed.TypeOfType:
		t, err := r.zctx.LookupByValue(body)
		if err != nil {
			panic(fmt.Sprintf("harness: rewriter cannot decode type value: %v", err))
		}
		b.Append(zed.EncodeTypeValue(r.typ(t)))
	default:
		b.Append(body)
	}
}

// walkTypes calls f for typ and every type nested in it (pre-order, DFS,
// left to right).
func walkTypes(typ zed.Type, f func(zed.Type)) {
	f(typ)
	switch typ := typ.(type) {
	case *zed.TypeNamed:
		walkTypes(typ.Type, f)
	case *zed.TypeError:
		walkTypes(typ.Type, f)
	case *zed.TypeRecord:
		for _, fld := range typ.Fields {
			walkTypes(fld.Type, f)
		}
	case *zed.TypeArray:
		walkTypes(typ.Type, f)
	case *zed.TypeSet:
		walkTypes(typ.Type, f)
	case *zed.TypeMap:
		walkTypes(typ.KeyType, f)
		walkTypes(typ.ValType, f)
	case *zed.TypeUnion:
		for _, m := range typ.Types {
			walkTypes(m, f)
		}
	}
}

// walkValueTypes calls f for every type reachable from v: its own type tree
// and the types held by its type-value leaves.
func walkValueTypes(zctx *zed.Context, v zed.Value, f func(zed.Type)) {
	walkTypes(v.Type(), f)
	walkLeaves(v.Type(), v.Bytes(), func(typ zed.Type, body zcode.Bytes) {
		if typ == zed.TypeType && body != nil {
			if t, err := zctx.LookupByValue(body); err == nil {
				walkTypes(t, f)
			}
		}
	})
}

// walkLeaves calls f for every primitive leaf (type under names, body; body
// nil for nulls) and for null complex values (complex type, nil).
func walkLeaves(typ zed.Type, body zcode.Bytes, f func(zed.Type, zcode.Bytes)) {
	if body == nil {
		f(zed.TypeUnder(typ), nil)
		return
	}
	switch typ := typ.(type) {
	case *zed.TypeNamed:
		walkLeaves(typ.Type, body, f)
	case *zed.TypeError:
		walkLeaves(typ.Type, body, f)
	case *zed.TypeRecord:
		it := body.Iter()
		for _, fld := range typ.Fields {
			walkLeaves(fld.Type, it.Next(), f)
		}
	case *zed.TypeArray:
		for it := body.Iter(); !it.Done(); {
			walkLeaves(typ.Type, it.Next(), f)
		}
	case *zed.TypeSet:
		for it := body.Iter(); !it.Done(); {
			walkLeaves(typ.Type, it.Next(), f)
		}
	case *zed.TypeMap:
		for it := body.Iter(); !it.Done(); {
			walkLeaves(typ.KeyType, it.Next(), f)
			walkLeaves(typ.ValType, it.Next(), f)
		}
	case *zed.TypeUnion:
		it := body.Iter()
		tag := int(zed.DecodeInt(it.Next()))
		walkLeaves(typ.Types[tag], it.Next(), f)
	default:
		f(typ, body)
	}
}

// rebuild copies v, giving hook the chance to replace any sub-value: hook is
// called with the sub-value's type, its body and the type of its parent (nil at
// top level) and returns (replacement body, true) to substitute without
// descending.  Sets and maps are re-normalised.
func rebuild(v zed.Value, hook func(typ zed.Type, body zcode.Bytes, parent zed.Type) (zcode.Bytes, bool)) zed.Value {
	var b zcode.Builder
	rebuildInto(&b, v.Type(), v.Bytes(), nil, hook)
	return zed.NewValue(v.Type(), b.Bytes().Body())
}

func rebuildInto(b *zcode.Builder, typ zed.Type, body zcode.Bytes, parent zed.Type, hook func(zed.Type, zcode.Bytes, zed.Type) (zcode.Bytes, bool)) {
	if nb, ok := hook(typ, body, parent); ok {
		b.Append(nb)
		return
	}
	if body == nil {
		b.Append(nil)
		return
	}
	switch t := typ.(type) {
	case *zed.TypeNamed:
		rebuildInto(b, t.Type, body, t, hook)
	case *zed.TypeError:
		rebuildInto(b, t.Type, body, t, hook)
	case *zed.TypeRecord:
		b.BeginContainer()
		it := body.Iter()
		for _, f := range t.Fields {
			rebuildInto(b, f.Type, it.Next(), t, hook)
		}
		b.EndContainer()
	case *zed.TypeArray:
		b.BeginContainer()
		for it := body.Iter(); !it.Done(); {
			rebuildInto(b, t.Type, it.Next(), t, hook)
		}
		b.EndContainer()
	case *zed.TypeSet:
		b.BeginContainer()
		for it := body.Iter(); !it.Done(); {
			rebuildInto(b, t.Type, it.Next(), t, hook)
		}
		b.TransformContainer(zed.NormalizeSet)
		b.EndContainer()
	case *zed.TypeMap:
		b.BeginContainer()
		for it := body.Iter(); !it.Done(); {
			rebuildInto(b, t.KeyType, it.Next(), t, hook)
			rebuildInto(b, t.ValType, it.Next(), t, hook)
		}
		b.TransformContainer(zed.NormalizeMap)
		b.EndContainer()
	case *zed.TypeUnion:
		it := body.Iter()
		tagBytes := it.Next()
		b.BeginContainer()
		b.Append(tagBytes)
		rebuildInto(b, t.Types[int(zed.DecodeInt(tagBytes))], it.Next(), t, hook)
		b.EndContainer()
	default:
		b.Append(body)
	}
}

func isEmptyContainer(typ zed.Type, body zcode.Bytes) bool {
	if body == nil || len(body) != 0 {
		return false
	}
	switch typ.(type) {
	case *zed.TypeArray, *zed.TypeSet, *zed.TypeMap:
		return true
	}
	return false
}
