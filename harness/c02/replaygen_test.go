package c02

import (
	"encoding/json"
	"os"
	"path/filepath"
	"slices"
	"strings"
	"testing"

	zed "github.com/brimdata/super"
	"github.com/brimdata/super/zcode"

	"verif/gen"
	"verif/vt"
)

// TestMakeReplays (re)generates the regression corpus /verif/replays/C02/known-*.json:
// one minimal literal case per known finding.  It runs only when
// VERIF_MAKE_REPLAYS names the output directory, and it checks that every
// case indeed shows its finding (so it must be run on the tree the findings
// are open on, with VERIF_KNOWN pointing at the list that holds them).
func TestMakeReplays(t *testing.T) {
	dir := os.Getenv("VERIF_MAKE_REPLAYS")
	if dir == "" {
		t.Skip("VERIF_MAKE_REPLAYS not set")
	}
	type entry struct {
		id, test, sig string
		c             any
		run           func() *vt.Outcome
	}
	var entries []entry
	rt := func(id, sig string, pretty int, persist string, seq gen.Seq) {
		c := RTCase{Pretty: pretty, Persist: persist, Seq: seq}
		entries = append(entries, entry{id, "TestZSONRoundTrip", sig, c, func() *vt.Outcome { return propRT.Run(roundTripJSON(t, c)) }})
	}
	lit := func(id, sig string, pretty int, text string) { rt(id, sig, pretty, "", gen.SeqFromZSON(text)) }

	lit("C02-float-negzero", "C02/float-negzero-sign", 0, `{a:-0.,b:-0.(float32),c:-0.(float16)}`)
	lit("C02-empty-container-decorator", "C02/zson/empty-container-decorator-lost", 0, `[]([uint8]) [](foo=[uint8]) {a:error([]([int64]))}`)
	lit("C02-enum-symbol-unquoted", "C02/zson/enum-symbol-unquoted", 0, `{c:"bar baz"(enum(A,"bar baz"))}`)
	lit("C02-type-name-unquoted", "C02/zson/type-name-unquoted-in-type", 0, `null("my type"=uint8)`)
	lit("C02-ip4in6", "C02/zson/ip4in6-dotted-unparseable", 0, `{a:::ffff:a00:1}`)
	lit("C02-rebound-name", "C02/zson/rebound-name-treated-as-known", 0, `{x:1(foo=uint8),y:{a:2(uint8)}(=foo)}`)
	lit("C02-union-double-cast", "C02/zson/union-decorator-under-enclosing-cast-rejected", 0, `error({b:0(uint8)((uint8,uint16))})`)
	lit("C02-analyzer-typedef-order", "C02/zson/analyzer-decorator-before-value-typedef-order", 0, `[1(foo=uint8)]([(foo=uint8,string)])`)
	lit("C02-named-of-named", "C02/zson/named-of-named-inner-name-lost", 0, `0(bar=foo=int64)`)
	lit("C02-named-union-container-double-decorator", "C02/zson/named-partial-union-container-double-decorator", 0, `[0(uint8)](foo=[(uint8,uint16)])`)
	lit("C02-compact-map-colon", "C02/zson/compact-map-colon-joins-tokens", 0, `|{0: 1970-01-01T00:00:00Z}| |{1: 2001:db8::1}|`)
	lit("C02-typedef-under-cast", "C02/zson/typedef-value-under-enclosing-cast-mishandled", 0, `error(0(foo=int64))(error((uint8,uint16,foo=int64)))`)
	lit("C02-union-element-known", "C02/zson/union-element-decorator-dropped-under-known-type", 0, `{a:[1(int8),2](=foo),b:[3(int8),4](foo)}`)
	lit("C02-stateless-typedef", "C02/zson/typedef-in-type-value-or-error-type-not-tracked", 0, `{a:1(bar=int8),b:<bar=uint64>,c:0(bar=int8)}`)
	lit("C02-lexer-short-buffer", "C02/zson/lexer-lookahead-over-32KiB-short-buffer", 0, `|{1: "`+strings.Repeat("a", 33000)+`"}|`)

	// values the ZSON parser cannot produce (that is the finding) are built by hand
	{
		zctx := zed.NewContext()
		enum := zctx.LookupTypeEnum([]string{"A"})
		named, _ := zctx.LookupTypeNamed("foo", enum)
		rt("C02-named-enum", "C02/zson/named-enum-value-unbuildable", 0, "", gen.Seq{Zctx: zctx, Vals: []zed.Value{zed.NewValue(named, zed.EncodeUint(0))}})
	}
	{
		// null(bar=(bar=uint64,{})) then the member 1 of type bar=uint64
		zctx := zed.NewContext()
		inner, _ := zctx.LookupTypeNamed("bar", zed.TypeUint64)
		union := zctx.LookupTypeUnion([]zed.Type{inner, zctx.MustLookupTypeRecord(nil)})
		outer, _ := zctx.LookupTypeNamed("bar", union)
		var b zcode.Builder
		zed.BuildUnion(&b, union.TagOf(inner), zed.EncodeUint(1))
		rt("C02-typedef-order", "C02/zson/typedef-bound-before-inner-type", 0, "", gen.Seq{Zctx: zctx, Vals: []zed.Value{zed.NewValue(outer, nil), zed.NewValue(outer, b.Bytes().Body())}})
	}
	{
		zctx := zed.NewContext()
		c := RTCase{Seq: gen.Seq{Zctx: zctx, Vals: []zed.Value{zed.NewString("e\u0301")}}}
		entries = append(entries, entry{"C02-nfc", "TestZSONNonNFC", "C02/zson/string-nfc-normalised-on-parse", c, func() *vt.Outcome { return propNonNFC.Run(roundTripJSON(t, c)) }})
	}
	{
		zctx := zed.NewContext()
		union := zctx.LookupTypeUnion([]zed.Type{zed.TypeInt64, zed.TypeNull})
		var b zcode.Builder
		b.BeginContainer()
		b.Append(zed.EncodeInt(int64(union.TagOf(zed.TypeNull))))
		b.Append(nil)
		b.EndContainer()
		rec := zctx.MustLookupTypeRecord([]zed.Field{zed.NewField("u", union)})
		var rb zcode.Builder
		rb.Append(b.Bytes().Body())
		c := RTCase{Seq: gen.Seq{Zctx: zctx, Vals: []zed.Value{zed.NewValue(rec, rb.Bytes())}}}
		entries = append(entries, entry{"C02-null-union-member", "TestZSONNullInUnion", "C02/zson/null-union-member-ambiguous", c, func() *vt.Outcome { return propNullInUnion.Run(roundTripJSON(t, c)) }})
	}
	js := func(id, sig string, docs, seps []string) {
		c := JSONCase{Docs: docs, Seps: seps}
		entries = append(entries, entry{id, "TestJSONSubset", sig, c, func() *vt.Outcome { return propJSON.Run(c) }})
	}
	js("C02-json-uint-range", "C02/json/int-between-2^63-and-2^64", []string{`[1, 9223372036854775808]`}, []string{"", "\n"})
	js("C02-json-surrogate-pair", "C02/json/surrogate-pair-escape-after-raw-non-ascii-rejected", []string{`"é\ud83d\ude00"`}, []string{"", "\n"})
	js("C02-lexer-short-buffer-json", "C02/zson/lexer-lookahead-over-32KiB-short-buffer", []string{`{"b":4}`, `"` + strings.Repeat("a", 70000) + `"`}, []string{"", "", "\n"})

	if err := os.MkdirAll(dir, 0o755); err != nil {
		t.Fatal(err)
	}
	for _, e := range entries {
		o := e.run()
		if o.Fail != nil || !slices.Contains(o.Known, e.sig) {
			t.Errorf("%s: expected known finding %s, got fail=%v known=%v", e.id, e.sig, o.Fail, o.Known)
			continue
		}
		raw, err := json.Marshal(e.c)
		if err != nil {
			t.Fatal(err)
		}
		b, _ := json.MarshalIndent(map[string]any{"test": e.test, "sig": e.sig, "expect": "known", "case": json.RawMessage(raw)}, "", " ")
		if err := os.WriteFile(filepath.Join(dir, "known-"+e.id+".json"), append(b, '\n'), 0o644); err != nil {
			t.Fatal(err)
		}
	}
}

// roundTripJSON passes the case through its replay-file form.
func roundTripJSON(t *testing.T, c RTCase) RTCase {
	raw, err := json.Marshal(c)
	if err != nil {
		t.Fatal(err)
	}
	var out RTCase
	if err := json.Unmarshal(raw, &out); err != nil {
		t.Fatal(err)
	}
	return out
}
