package c02

import (
	"bytes"
	"fmt"
	"io"
	"math"
	"net/netip"
	"os"
	"regexp"
	"slices"
	"strconv"
	"strings"
	"testing"
	"unicode"

	zed "github.com/brimdata/super"
	"github.com/brimdata/super/zcode"
	"github.com/brimdata/super/zio"
	"github.com/brimdata/super/zio/zsonio"
	"github.com/brimdata/super/zson"
	"golang.org/x/text/unicode/norm"
	"pgregory.net/rapid"

	"verif/gen"
	"verif/oracle"
	"verif/vt"
)

func TestMain(m *testing.M) { vt.Main(m) }

// ---------------------------------------------------------------------------
// (a) ZSON text round trip

// RTCase is one round-trip case: a value sequence (in its own context) and the
// formatter settings.  Every typedef scope is exercised on every case:
//
//	value:         each value formatted on its own by a fresh formatter
//	               (zson.FormatValue when pretty=0 and persist is unset,
//	               zson.NewFormatter(...).Format otherwise), parsed by zson.ParseValue
//	record-stream: zsonio.Writer (Formatter.FormatRecord per value) -> zsonio.Reader
//	format-stream: one Formatter, Format per value (typedefs accumulate, as
//	               zson.MarshalContext does), texts joined by newlines -> zsonio.Reader
type RTCase struct {
	Pretty  int     `json:"pretty"`
	Persist string  `json:"persist"`
	Seq     gen.Seq `json:"seq"`
	// Chunk > 0: the stream texts are read a second time through a reader that hands out at most Chunk bytes per
	// Read call (an io.Reader may return short reads at any byte, e.g. a pipe or a socket), which must not matter.
	Chunk int `json:"chunk,omitempty"`
}

func (c RTCase) persist() *regexp.Regexp {
	if c.Persist == "" {
		return nil
	}
	return regexp.MustCompile(c.Persist)
}

// rtFail is the first round-trip failure of a case.
type rtFail struct {
	mode string // value | record-stream | format-stream
	kind string // parse-error | type-differs | value-differs | count-differs | pointer-differs
	idx  int
	msg  string
	text string // the complete text that failed to round-trip
	err  string // parse-error: the reader's error text
}

// streamIdx is the index of the failing value within f.text.
func (f *rtFail) streamIdx() int {
	if f.mode == "value" {
		return 0
	}
	return f.idx
}

func (f *rtFail) locus() string { return fmt.Sprintf("%s/%s/%d", f.mode, f.kind, f.idx) }

func hasNaN(v zed.Value) bool {
	return oracle.HasLeaf(v, func(typ zed.Type, body zcode.Bytes) bool {
		if !zed.IsFloat(typ.ID()) {
			return false
		}
		f := zed.DecodeFloat(body)
		return f != f
	})
}

// canon maps NaN payloads to one NaN ("NaN equals NaN here").  Values without
// a NaN are compared untouched so that a parser that failed to normalise a set
// or map is not repaired by the comparison.
func canon(v zed.Value) zed.Value {
	if v.IsNull() || !hasNaN(v) {
		return v
	}
	return oracle.MapLeaves(v, oracle.CanonNaN)
}

func clip(s string) string {
	if len(s) > 600 {
		return s[:600] + "..."
	}
	return s
}

// compare returns the kind of difference between the input value and what was
// read back ("" if identical).
func compare(want, got zed.Value) (kind, msg string) {
	wt, gt := zed.EncodeTypeValue(want.Type()), zed.EncodeTypeValue(got.Type())
	if !bytes.Equal(wt, gt) {
		return "type-differs", fmt.Sprintf("type differs: want %s got %s", zson.FormatType(want.Type()), zson.FormatType(got.Type()))
	}
	if oracle.Key(canon(want)) != oracle.Key(canon(got)) {
		return "value-differs", fmt.Sprintf("value differs: want %s (bytes %x) got %s (bytes %x)", oracle.Show(want), want.Bytes(), oracle.Show(got), got.Bytes())
	}
	return "", ""
}

// chunkReader returns at most n bytes per Read.
type chunkReader struct {
	s string
	n int
}

func (c *chunkReader) Read(p []byte) (int, error) {
	if len(c.s) == 0 {
		return 0, io.EOF
	}
	k := copy(p[:min(len(p), c.n)], c.s)
	c.s = c.s[k:]
	return k, nil
}

func readAll(zctx *zed.Context, text string) ([]zed.Value, error) {
	return readAllFrom(zctx, strings.NewReader(text))
}

func readAllFrom(zctx *zed.Context, rd io.Reader) ([]zed.Value, error) {
	r := zsonio.NewReader(zctx, rd)
	var out []zed.Value
	for {
		v, err := r.Read()
		if err != nil {
			return out, err
		}
		if v == nil {
			return out, nil
		}
		out = append(out, v.Copy())
	}
}

func (c RTCase) checkStream(mode, text string) *rtFail {
	vals := c.Seq.Vals
	got, err := readAll(zed.NewContext(), text)
	n := min(len(got), len(vals))
	for i := 0; i < n; i++ {
		if kind, msg := compare(vals[i], got[i]); kind != "" {
			return &rtFail{mode, kind, i, fmt.Sprintf("%s; stream text: %s", msg, clip(text)), text, ""}
		}
	}
	if err != nil {
		return &rtFail{mode, "parse-error", len(got), fmt.Sprintf("reader error after %d of %d values: %v; stream text: %s", len(got), len(vals), err, clip(text)), text, err.Error()}
	}
	if len(got) != len(vals) {
		return &rtFail{mode, "count-differs", n, fmt.Sprintf("wrote %d values, read %d; stream text: %s", len(vals), len(got), clip(text)), text, ""}
	}
	if c.Chunk > 0 {
		// the same text through short reads: same values, no error
		cgot, cerr := readAllFrom(zed.NewContext(), &chunkReader{text, c.Chunk})
		for i := 0; i < min(len(cgot), len(vals)); i++ {
			if kind, msg := compare(vals[i], cgot[i]); kind != "" {
				return &rtFail{mode + "-short-reads", kind, i, fmt.Sprintf("read through a reader returning at most %d bytes per call: %s; stream text: %s", c.Chunk, msg, clip(text)), text, ""}
			}
		}
		if cerr != nil {
			return &rtFail{mode + "-short-reads", "parse-error", len(cgot), fmt.Sprintf("read through a reader returning at most %d bytes per call: reader error after %d of %d values: %v (reading the whole text at once succeeds); stream text: %s", c.Chunk, len(cgot), len(vals), cerr, clip(text)), text, cerr.Error()}
		}
		if len(cgot) != len(vals) {
			return &rtFail{mode + "-short-reads", "count-differs", len(cgot), fmt.Sprintf("read through a reader returning at most %d bytes per call: wrote %d values, read %d; stream text: %s", c.Chunk, len(vals), len(cgot), clip(text)), text, ""}
		}
	}
	// same context: the types must come back as the identical pointers
	got, err = readAll(c.Seq.Zctx, text)
	if err != nil || len(got) != len(vals) {
		return &rtFail{mode, "pointer-differs", len(got), fmt.Sprintf("re-reading in the writer's context: %d values, err=%v; stream text: %s", len(got), err, clip(text)), text, ""}
	}
	for i := range vals {
		if got[i].Type() != vals[i].Type() {
			return &rtFail{mode, "pointer-differs", i, fmt.Sprintf("value %d parsed in the writer's context has type %s (%p), want the identical type %s (%p); stream text: %s",
				i, zson.FormatType(got[i].Type()), got[i].Type(), zson.FormatType(vals[i].Type()), vals[i].Type(), clip(text)), text, ""}
		}
	}
	return nil
}

// check runs every mode and returns the first failure.
func (c RTCase) check() *rtFail {
	persist := c.persist()
	// value
	for i, v := range c.Seq.Vals {
		var text string
		if c.Pretty == 0 && persist == nil {
			text = zson.FormatValue(v)
		} else {
			text = zson.NewFormatter(c.Pretty, true, persist).Format(v)
		}
		got, err := zson.ParseValue(zed.NewContext(), text)
		if err != nil {
			return &rtFail{"value", "parse-error", i, fmt.Sprintf("ParseValue(Format(v)) fails: %v; text: %s", err, clip(text)), text, err.Error()}
		}
		if kind, msg := compare(v, got); kind != "" {
			return &rtFail{"value", kind, i, fmt.Sprintf("%s; text: %s", msg, clip(text)), text, ""}
		}
		got, err = zson.ParseValue(c.Seq.Zctx, text)
		if err != nil || got.Type() != v.Type() {
			return &rtFail{"value", "pointer-differs", i, fmt.Sprintf("parsed in the value's own context: err=%v type %s, want the identical type %s; text: %s",
				err, zson.FormatType(got.Type()), zson.FormatType(v.Type()), clip(text)), text, ""}
		}
	}
	// record-stream
	var buf bytes.Buffer
	w := zsonio.NewWriter(zio.NopCloser(&buf), zsonio.WriterOpts{ColorDisabled: true, Pretty: c.Pretty, Persist: persist})
	for _, v := range c.Seq.Vals {
		if err := w.Write(v); err != nil {
			panic(fmt.Sprintf("harness: write to buffer failed: %v", err))
		}
	}
	w.Close()
	if f := c.checkStream("record-stream", buf.String()); f != nil {
		return f
	}
	// format-stream
	var sb strings.Builder
	f := zson.NewFormatter(c.Pretty, true, persist)
	for _, v := range c.Seq.Vals {
		sb.WriteString(f.Format(v))
		sb.WriteString("\n")
	}
	return c.checkStream("format-stream", sb.String())
}

// A neutraliser removes the trigger of one root-cause class from a case.
type neutraliser struct {
	sig   string
	apply func(c RTCase) (RTCase, bool)
}

func mapSeq(c RTCase, f func(v zed.Value) zed.Value) (RTCase, bool) {
	out := c
	out.Seq = gen.Seq{Zctx: c.Seq.Zctx, Vals: make([]zed.Value, len(c.Seq.Vals))}
	changed := false
	for i, v := range c.Seq.Vals {
		nv := f(v)
		if nv.Type() != v.Type() || oracle.Key(nv) != oracle.Key(v) {
			changed = true
		}
		out.Seq.Vals[i] = nv
	}
	return out, changed
}

func negZeroToZero(typ zed.Type, body zcode.Bytes) zcode.Bytes {
	if zed.IsFloat(typ.ID()) {
		if f := zed.DecodeFloat(body); f == 0 && math.Signbit(f) {
			switch typ.ID() {
			case zed.IDFloat16:
				return zed.EncodeFloat16(0)
			case zed.IDFloat32:
				return zed.EncodeFloat32(0)
			}
			return zed.EncodeFloat64(0)
		}
	}
	return body
}

// nullExposedEmpty turns an empty array/set/map that sits at top level or
// directly under a named or error type into a null of the same type.
func nullExposedEmpty(v zed.Value) zed.Value {
	return rebuild(v, func(typ zed.Type, body zcode.Bytes, parent zed.Type) (zcode.Bytes, bool) {
		if isEmptyContainer(typ, body) {
			switch parent.(type) {
			case nil, *zed.TypeNamed, *zed.TypeError:
				return nil, true
			}
		}
		return nil, false
	})
}

func rewriteSeq(c RTCase, mk func() *rewriter) (RTCase, bool) {
	r := mk()
	r.zctx = c.Seq.Zctx
	return mapSeq(c, r.value)
}

// plainName maps a name to an identifier (also a valid unquoted type name),
// injectively for the names the generators produce.
func plainName(name string) string {
	var sb strings.Builder
	for i, r := range name {
		switch {
		case r == '_' || r == '$' || unicode.IsLetter(r):
			sb.WriteRune(r)
		case r >= '0' && r <= '9':
			if i == 0 {
				sb.WriteString("n_")
			}
			sb.WriteRune(r)
		default:
			fmt.Fprintf(&sb, "_x%x_", r)
		}
	}
	if sb.Len() == 0 {
		return "empty_"
	}
	return sb.String()
}

// unmap4in6 replaces IPv4-mapped IPv6 addresses (and nets over them) by the
// plain IPv4 address (net).
func unmap4in6(typ zed.Type, body zcode.Bytes) zcode.Bytes {
	switch typ.ID() {
	case zed.IDIP:
		if a := zed.DecodeIP(body); a.Is4In6() {
			return zed.EncodeIP(a.Unmap())
		}
	case zed.IDNet:
		if p := zed.DecodeNet(body); p.Addr().Is4In6() {
			return zed.EncodeNet(netip.PrefixFrom(p.Addr().Unmap(), p.Bits()-96).Masked())
		}
	}
	return body
}

// nullWhere replaces by null every outermost sub-value for which bad holds;
// when the sub-value is the selected member of a union value the union value
// itself becomes null (a null member would be ambiguous in text).
func nullWhere(v zed.Value, bad func(typ zed.Type, body zcode.Bytes) bool) zed.Value {
	var poisoned func(typ zed.Type, body zcode.Bytes) bool
	poisoned = func(typ zed.Type, body zcode.Bytes) bool {
		if body == nil {
			return false
		}
		if bad(typ, body) {
			return true
		}
		if u, ok := zed.TypeUnder(typ).(*zed.TypeUnion); ok {
			it := body.Iter()
			tag := int(zed.DecodeInt(it.Next()))
			return poisoned(u.Types[tag], it.Next())
		}
		return false
	}
	return rebuild(v, func(typ zed.Type, body zcode.Bytes, parent zed.Type) (zcode.Bytes, bool) {
		if poisoned(typ, body) {
			return nil, true
		}
		return nil, false
	})
}

func isNamedEnum(typ zed.Type, body zcode.Bytes) bool {
	if _, ok := typ.(*zed.TypeNamed); ok {
		_, ok := zed.TypeUnder(typ).(*zed.TypeEnum)
		return ok
	}
	return false
}

// nullReboundNamed nulls every value whose type is a named type whose name is
// also bound to another type somewhere in the sequence.  The defect it takes
// out is about the *children* of such a value (written as if their types were
// known); a null has none, while its decorator still has to cope with the
// re-bound name, so other re-binding defects stay visible.
func nullReboundNamed(c RTCase) (RTCase, bool) {
	byName := map[string]*zed.TypeNamed{}
	ambiguous := map[string]bool{}
	for _, v := range c.Seq.Vals {
		walkValueTypes(c.Seq.Zctx, v, func(t zed.Type) {
			if n, ok := t.(*zed.TypeNamed); ok {
				if prev, ok := byName[n.Name]; ok && prev != n {
					ambiguous[n.Name] = true
				}
				byName[n.Name] = n
			}
		})
	}
	if len(ambiguous) == 0 {
		return c, false
	}
	return mapSeq(c, func(v zed.Value) zed.Value {
		return nullWhere(v, func(typ zed.Type, body zcode.Bytes) bool {
			n, ok := typ.(*zed.TypeNamed)
			return ok && ambiguous[n.Name]
		})
	})
}

func isNamedOfNamed(typ zed.Type, body zcode.Bytes) bool {
	if n, ok := typ.(*zed.TypeNamed); ok {
		_, ok := n.Type.(*zed.TypeNamed)
		return ok
	}
	return false
}

// appendDirect appends the value (typ, body) to b after passing its primitive
// leaf through f, provided the leaf is reached through named and union types
// only; anything else is copied.
func appendDirect(b *zcode.Builder, typ zed.Type, body zcode.Bytes, f func(zed.Type, zcode.Bytes) zcode.Bytes) {
	if body == nil {
		b.Append(nil)
		return
	}
	switch t := typ.(type) {
	case *zed.TypeNamed:
		appendDirect(b, t.Type, body, f)
	case *zed.TypeUnion:
		it := body.Iter()
		tagBytes := it.Next()
		b.BeginContainer()
		b.Append(tagBytes)
		appendDirect(b, t.Types[int(zed.DecodeInt(tagBytes))], it.Next(), f)
		b.EndContainer()
	default:
		if zed.IsPrimitiveType(t) {
			b.Append(f(t, body))
		} else {
			b.Append(body)
		}
	}
}

func isDirectLeaf(typ zed.Type) bool {
	switch t := typ.(type) {
	case *zed.TypeNamed:
		return isDirectLeaf(t.Type)
	case *zed.TypeUnion:
		return true
	}
	return zed.IsPrimitiveType(typ)
}

// hasColonJoiningMapEntry reports whether v holds a map entry whose value is
// (directly, or as the selected union member) a time or an IPv6 address/net:
// compact output `key:value` then has no space after the colon and the lexer's
// primitive pattern can run across it (`0:1970-01-01T00:00:00Z`, `0:::1`).
func hasColonJoiningMapEntry(v zed.Value) bool {
	found := false
	var hook func(typ zed.Type, body zcode.Bytes, parent zed.Type) (zcode.Bytes, bool)
	hook = func(typ zed.Type, body zcode.Bytes, parent zed.Type) (zcode.Bytes, bool) {
		m, ok := typ.(*zed.TypeMap)
		if !ok || body == nil {
			return nil, false
		}
		for it := body.Iter(); !it.Done(); {
			it.Next()
			if val := it.Next(); isDirectLeaf(m.ValType) {
				var b zcode.Builder
				appendDirect(&b, m.ValType, val, func(typ zed.Type, body zcode.Bytes) zcode.Bytes {
					switch typ.ID() {
					case zed.IDTime:
						found = true
					case zed.IDIP:
						found = found || len(body) == 16
					case zed.IDNet:
						found = found || zed.DecodeNet(body).Addr().Is6()
					}
					return body
				})
			}
		}
		return nil, false
	}
	rebuild(v, hook)
	return found
}

// nullUnionContainersUnderNamed nulls every non-empty array/set/map over a
// union whose type occurs somewhere beneath a named type in the sequence.
func nullUnionContainersUnderNamed(c RTCase) (RTCase, bool) {
	bad := map[zed.Type]bool{}
	var walk func(t zed.Type, under bool)
	walk = func(t zed.Type, under bool) {
		if under && isUnionContainer(t) {
			bad[t] = true
		}
		switch t := t.(type) {
		case *zed.TypeNamed:
			walk(t.Type, true)
		case *zed.TypeError:
			walk(t.Type, under)
		case *zed.TypeRecord:
			for _, f := range t.Fields {
				walk(f.Type, under)
			}
		case *zed.TypeArray:
			walk(t.Type, under)
		case *zed.TypeSet:
			walk(t.Type, under)
		case *zed.TypeMap:
			walk(t.KeyType, under)
			walk(t.ValType, under)
		case *zed.TypeUnion:
			for _, m := range t.Types {
				walk(m, under)
			}
		}
	}
	for _, v := range c.Seq.Vals {
		walk(v.Type(), false)
	}
	if len(bad) == 0 {
		return c, false
	}
	return mapSeq(c, func(v zed.Value) zed.Value {
		return nullWhere(v, func(typ zed.Type, body zcode.Bytes) bool { return bad[typ] && len(body) > 0 })
	})
}

// isAmbiguousNamedMember holds for a union value whose selected member is a
// named type name=T while T itself is also a member of the union.
func isAmbiguousNamedMember(typ zed.Type, body zcode.Bytes) bool {
	u, ok := typ.(*zed.TypeUnion)
	if !ok || body == nil {
		return false
	}
	it := body.Iter()
	m, ok := u.Types[int(zed.DecodeInt(it.Next()))].(*zed.TypeNamed)
	return ok && u.TagOf(m.Type) >= 0
}

var rtNeutralisers = []neutraliser{
	// no error message in this variant: under a union that has both T and
	// name=T, `v (=name)` is matched against the union first and gets T's tag
	{"C02/zson/typedef-value-under-enclosing-cast-mishandled", func(c RTCase) (RTCase, bool) {
		return mapSeq(c, func(v zed.Value) zed.Value { return nullWhere(v, isAmbiguousNamedMember) })
	}},
	{"C02/zson/union-element-decorator-dropped-under-known-type", nullUnionContainersUnderNamed},
	{"C02/zson/compact-map-colon-joins-tokens", func(c RTCase) (RTCase, bool) {
		if c.Pretty != 0 {
			return c, false
		}
		for _, v := range c.Seq.Vals {
			if hasColonJoiningMapEntry(v) {
				out := c
				out.Pretty = 2
				return out, true
			}
		}
		return c, false
	}},
	{"C02/zson/named-of-named-inner-name-lost", func(c RTCase) (RTCase, bool) {
		return mapSeq(c, func(v zed.Value) zed.Value { return nullWhere(v, isNamedOfNamed) })
	}},
	{"C02/zson/named-enum-value-unbuildable", func(c RTCase) (RTCase, bool) {
		return mapSeq(c, func(v zed.Value) zed.Value { return nullWhere(v, isNamedEnum) })
	}},
	{"C02/zson/ip4in6-dotted-unparseable", func(c RTCase) (RTCase, bool) {
		return mapSeq(c, func(v zed.Value) zed.Value {
			if v.IsNull() {
				return v
			}
			return oracle.MapLeaves(v, unmap4in6)
		})
	}},
	{"C02/zson/typedef-bound-before-inner-type", func(c RTCase) (RTCase, bool) {
		// rename named types that occur inside the definition of a named
		// type with the same name (bar=[bar=uint8])
		inner := map[*zed.TypeNamed]bool{}
		mark := func(t zed.Type) {
			if n, ok := t.(*zed.TypeNamed); ok {
				walkTypes(n.Type, func(m zed.Type) {
					if m, ok := m.(*zed.TypeNamed); ok && m != n && m.Name == n.Name {
						inner[m] = true
					}
				})
			}
		}
		for _, v := range c.Seq.Vals {
			walkValueTypes(c.Seq.Zctx, v, mark)
		}
		if len(inner) == 0 {
			return c, false
		}
		return rewriteSeq(c, func() *rewriter {
			return &rewriter{nameOrig: func(orig *zed.TypeNamed, _ zed.Type) string {
				if inner[orig] {
					return orig.Name + "_in"
				}
				return orig.Name
			}}
		})
	}},
	{"C02/zson/typedef-in-type-value-or-error-type-not-tracked", func(c RTCase) (RTCase, bool) {
		// give the named types inside type values names of their own
		r := &rewriter{zctx: c.Seq.Zctx, name: func(name string, _ zed.Type) string { return "tv_" + name }}
		return mapSeq(c, func(v zed.Value) zed.Value {
			if v.IsNull() {
				return v
			}
			return oracle.MapLeaves(v, func(typ zed.Type, body zcode.Bytes) zcode.Bytes {
				if typ != zed.TypeType {
					return body
				}
				t, err := c.Seq.Zctx.LookupByValue(body)
				if err != nil {
					panic(fmt.Sprintf("harness: cannot decode type value: %v", err))
				}
				return zed.EncodeTypeValue(r.typ(t))
			})
		})
	}},
	{"C02/zson/typedef-in-type-value-or-error-type-not-tracked", func(c RTCase) (RTCase, bool) {
		// give the named types inside error types names of their own
		under := map[*zed.TypeNamed]bool{}
		mark := func(t zed.Type) {
			if e, ok := t.(*zed.TypeError); ok {
				walkTypes(e.Type, func(m zed.Type) {
					if m, ok := m.(*zed.TypeNamed); ok {
						under[m] = true
					}
				})
			}
		}
		for _, v := range c.Seq.Vals {
			walkValueTypes(c.Seq.Zctx, v, mark)
		}
		if len(under) == 0 {
			return c, false
		}
		// ... and one name per binding, so that no stale binding can be hit
		type key struct {
			name  string
			inner zed.Type
		}
		assigned := map[key]string{}
		count := map[string]int{}
		return rewriteSeq(c, func() *rewriter {
			return &rewriter{nameOrig: func(orig *zed.TypeNamed, inner zed.Type) string {
				if !under[orig] {
					return orig.Name
				}
				k := key{orig.Name, inner}
				if n, ok := assigned[k]; ok {
					return n
				}
				count[orig.Name]++
				n := "err_" + orig.Name
				if count[orig.Name] > 1 {
					n = fmt.Sprintf("err_%s_%d", orig.Name, count[orig.Name])
				}
				assigned[k] = n
				return n
			}}
		})
	}},
	{"C02/zson/rebound-name-treated-as-known", nullReboundNamed},
	{"C02/zson/enum-symbol-unquoted", func(c RTCase) (RTCase, bool) {
		return rewriteSeq(c, func() *rewriter {
			return &rewriter{symbols: func(syms []string) []string {
				for i, s := range syms {
					if !zson.IsIdentifier(s) {
						syms[i] = plainName(s)
					}
				}
				return syms
			}}
		})
	}},
	{"C02/zson/type-name-unquoted-in-type", func(c RTCase) (RTCase, bool) {
		return rewriteSeq(c, func() *rewriter {
			return &rewriter{name: func(name string, _ zed.Type) string {
				if !zson.IsTypeName(name) {
					return plainName(name)
				}
				return name
			}}
		})
	}},
	{"C02/zson/empty-container-decorator-lost", func(c RTCase) (RTCase, bool) { return mapSeq(c, nullExposedEmpty) }},
	{"C02/float-negzero-sign", func(c RTCase) (RTCase, bool) {
		return mapSeq(c, func(v zed.Value) zed.Value {
			if v.IsNull() {
				return v
			}
			return oracle.MapLeaves(v, negZeroToZero)
		})
	}},
}

// A symptom names a root-cause class that is recognised from the failure
// itself (the message pins the cause down); the failing value is then dropped
// from the sequence and the rest of the case is still checked.
type symptom struct {
	sig string
	// match reports whether the failure shows the class and which value of
	// the sequence to drop (-1: the failing one).
	match func(f *rtFail, c RTCase) (drop int, ok bool)
}

var conflictRE = regexp.MustCompile(`^decorator conflict enclosing context ("(?:[^"\\]|\\.)*") and decorator cast ("(?:[^"\\]|\\.)*")$`)

// isUnionContainer reports whether typ is an array, set or map whose element
// (key, value) type is a union, possibly named.
func isUnionContainer(typ zed.Type) bool {
	isUnion := func(t zed.Type) bool {
		_, ok := zed.TypeUnder(t).(*zed.TypeUnion)
		return ok
	}
	switch t := typ.(type) {
	case *zed.TypeArray:
		return isUnion(t.Type)
	case *zed.TypeSet:
		return isUnion(t.Type)
	case *zed.TypeMap:
		return isUnion(t.KeyType) || isUnion(t.ValType)
	}
	return false
}

const notInUnion = " is not in union type "

// notInUnionTypes splits `type "X" is not in union type "U"` into X and U
// (both as the %q-quoted FormatType strings of the message).
func notInUnionTypes(errText string) (x, u string, ok bool) {
	rest, found := strings.CutPrefix(errText, "type ")
	if !found {
		return "", "", false
	}
	for from := 0; ; {
		k := strings.Index(rest[from:], notInUnion)
		if k < 0 {
			return "", "", false
		}
		k += from
		xs, err1 := strconv.Unquote(rest[:k])
		us, err2 := strconv.Unquote(rest[k+len(notInUnion):])
		if err1 == nil && err2 == nil {
			return xs, us, true
		}
		from = k + 1
	}
}

func failing(match func(f *rtFail) bool) func(f *rtFail, c RTCase) (int, bool) {
	return func(f *rtFail, _ RTCase) (int, bool) { return -1, match(f) }
}

var rtSymptoms = []symptom{
	// io.ErrShortBuffer can only come from Lexer.fill's io.ReadAtLeast call.
	{"C02/zson/lexer-lookahead-over-32KiB-short-buffer", failing(func(f *rtFail) bool {
		return f.kind == "parse-error" && f.err == io.ErrShortBuffer.Error()
	})},
	// "(=name)" after another decorator is outside the grammar; the parser builds
	// a DefValue without a value for it and the analyzer trips over the nil.
	{"C02/zson/named-partial-union-container-double-decorator", failing(func(f *rtFail) bool {
		return f.kind == "parse-error" && strings.Contains(f.err, "unknown ast type in Analyzer.convertAny(): <nil>")
	})},
	// Same formatter behaviour for a later occurrence of the named type:
	// `[3,4]([(int8,int64)])(foo)`: two decorators on a non-union value; the
	// analyzer reports a conflict between foo and its own underlying type.
	{"C02/zson/named-partial-union-container-double-decorator", failing(func(f *rtFail) bool {
		m := conflictRE.FindStringSubmatch(f.err)
		if f.kind != "parse-error" || m == nil {
			return false
		}
		ns, err1 := strconv.Unquote(m[1])
		cs, err2 := strconv.Unquote(m[2])
		if err1 != nil || err2 != nil {
			return false
		}
		zctx := zed.NewContext()
		nt, err1 := zson.ParseType(zctx, ns)
		ct, err2 := zson.ParseType(zctx, cs)
		if err1 != nil || err2 != nil {
			return false
		}
		_, named := nt.(*zed.TypeNamed)
		return named && zed.TypeUnder(nt) == ct && isUnionContainer(ct)
	})},
	// `v (=name)` where the enclosing decorator already types the position as
	// name=T: the analyzer wraps the name a second time (name=name=T) and a later
	// `(name)` reference then conflicts with the enclosing type.
	{"C02/zson/typedef-value-under-enclosing-cast-mishandled", failing(func(f *rtFail) bool {
		m := conflictRE.FindStringSubmatch(f.err)
		if f.kind != "parse-error" || m == nil {
			return false
		}
		ns, err1 := strconv.Unquote(m[1])
		cs, err2 := strconv.Unquote(m[2])
		if err1 != nil || err2 != nil {
			return false
		}
		zctx := zed.NewContext()
		nt, err1 := zson.ParseType(zctx, ns)
		ct, err2 := zson.ParseType(zctx, cs)
		if err1 != nil || err2 != nil {
			return false
		}
		n, ok1 := nt.(*zed.TypeNamed)
		c, ok2 := ct.(*zed.TypeNamed)
		return ok1 && ok2 && c.Type == n && c.Name == n.Name && strings.Contains(f.text, "(="+zson.QuotedTypeName(n.Name)+")")
	})},
	// Analyzer.convertUnion was handed a value that already has the union type
	// itself: only the double conversion in Analyzer.convertValue does that.
	{"C02/zson/union-decorator-under-enclosing-cast-rejected", failing(func(f *rtFail) bool {
		x, u, ok := notInUnionTypes(f.err)
		if f.kind != "parse-error" || !ok {
			return false
		}
		if x == u {
			return true
		}
		// the same for a named union: x is name=(union), u the union
		zctx := zed.NewContext()
		xt, err1 := zson.ParseType(zctx, x)
		ut, err2 := zson.ParseType(zctx, u)
		if err1 != nil || err2 != nil {
			return false
		}
		_, named := xt.(*zed.TypeNamed)
		return named && zed.TypeUnder(xt) == ut
	})},
	// `v (=name)` where an enclosing decorator says the position is a union
	// with member name=T: the analyzer checks v's type T against the union
	// before it applies the (=name) typedef.
	{"C02/zson/typedef-value-under-enclosing-cast-mishandled", failing(func(f *rtFail) bool {
		x, u, ok := notInUnionTypes(f.err)
		if f.kind != "parse-error" || !ok {
			return false
		}
		zctx := zed.NewContext()
		xt, err1 := zson.ParseType(zctx, x)
		ut, err2 := zson.ParseType(zctx, u)
		if err1 != nil || err2 != nil {
			return false
		}
		union, ok := zed.TypeUnder(ut).(*zed.TypeUnion)
		if !ok {
			return false
		}
		for _, m := range union.Types {
			if n, ok := m.(*zed.TypeNamed); ok && n.Type == xt && strings.Contains(f.text, "(="+zson.QuotedTypeName(n.Name)+")") {
				return true
			}
		}
		return false
	})},
	// Third face of the same analyzer defect: the doubly wrapped name=name=T that
	// it creates shows up inside the types of a later error message although no
	// such type exists in the case.
	{"C02/zson/typedef-value-under-enclosing-cast-mishandled", func(f *rtFail, c RTCase) (int, bool) {
		if f.kind != "parse-error" {
			return 0, false
		}
		var texts []string
		if x, u, ok := notInUnionTypes(f.err); ok {
			texts = []string{x, u}
		} else if m := conflictRE.FindStringSubmatch(f.err); m != nil {
			for _, q := range m[1:] {
				if t, err := strconv.Unquote(q); err == nil {
					texts = append(texts, t)
				}
			}
		}
		doubled := func(t zed.Type) bool {
			n, ok := t.(*zed.TypeNamed)
			if !ok {
				return false
			}
			in, ok := n.Type.(*zed.TypeNamed)
			return ok && in.Name == n.Name
		}
		inMessage := false
		zctx := zed.NewContext()
		for _, text := range texts {
			if t, err := zson.ParseType(zctx, text); err == nil {
				walkTypes(t, func(t zed.Type) { inMessage = inMessage || doubled(t) })
			}
		}
		inCase := false
		for _, v := range c.Seq.Vals {
			walkValueTypes(c.Seq.Zctx, v, func(t zed.Type) { inCase = inCase || doubled(t) })
		}
		return -1, inMessage && !inCase
	}},
	// The analyzer converts a decorator before the value it decorates, so
	// typedefs take effect in another order than they have in the text: a name
	// defined inside the value is not yet visible in its decorator (`no such
	// type name`), or a name bound in both ends up bound to the value's type.
	// Recognised by reading the text in text order (readTextOrder): if that
	// gives back what was written, the formatter is right and the reader wrong.
	{"C02/zson/analyzer-decorator-before-value-typedef-order", func(f *rtFail, c RTCase) (int, bool) {
		if f.kind == "pointer-differs" || f.kind == "count-differs" || f.idx >= len(c.Seq.Vals) {
			return 0, false
		}
		if !orderDiverges(f.text, f.streamIdx()) {
			return 0, false
		}
		for variant := 0; variant < 4; variant++ {
			got, _ := readTextOrder(f.text, variant&1 != 0, variant&2 != 0)
			first, last := 0, f.idx
			if f.mode == "value" {
				first = f.idx
			}
			if len(got) <= last-first {
				continue
			}
			same := true
			for i := first; i <= last; i++ {
				if kind, _ := compare(c.Seq.Vals[i], got[i-first]); kind != "" {
					same = false
					break
				}
			}
			if same {
				return -1, true
			}
		}
		return 0, false
	}},
	// Same class, for texts that readTextOrder cannot read because they also
	// run into one of the other analyzer findings: `no such type name` although
	// every reference follows a definition in the text.
	{"C02/zson/analyzer-decorator-before-value-typedef-order", failing(func(f *rtFail) bool {
		return f.kind == "parse-error" && strings.Contains(f.err, "no such type name:") && refsFollowDefs(f.text) && orderDiverges(f.text, f.streamIdx())
	})},
}

func dropValue(c RTCase, idx int) RTCase {
	out := c
	out.Seq = gen.Seq{Zctx: c.Seq.Zctx}
	for i, v := range c.Seq.Vals {
		if i != idx {
			out.Seq.Vals = append(out.Seq.Vals, v)
		}
	}
	return out
}

// decide runs the check and, on failure, attributes the failure to root-cause
// classes: first by symptom (the failing value is dropped), then by walking the
// neutraliser ladder: a neutraliser whose application changes where the case
// fails (or makes it pass) names a class.  An open known class is counted and
// the search continues on the reduced case; an unlisted class is the violation.
func decide(c RTCase, ladder []neutraliser, symptoms []symptom, o *vt.Outcome) {
	fail := c.check()
	cur := c
	next := 0
	trace := func(format string, args ...any) {
		if os.Getenv("C02_TRACE") != "" {
			fmt.Fprintf(os.Stderr, "C02_TRACE "+format+"\n", args...)
		}
	}
	failf := func(sig string) {
		o.Fail = vt.Failf(sig, "[%s value %d: %s] %s", fail.mode, fail.idx, fail.kind, fail.msg)
	}
loop:
	for fail != nil {
		trace("failure [%s value %d: %s] %s", fail.mode, fail.idx, fail.kind, clip(fail.msg))
		for _, s := range symptoms {
			if drop, ok := s.match(fail, cur); ok {
				trace("symptom %s (drop %d)", s.sig, drop)
				if !vt.IsKnown(s.sig) {
					failf(s.sig)
					return
				}
				o.Known = append(o.Known, s.sig)
				if drop < 0 {
					drop = fail.idx
				}
				if drop >= len(cur.Seq.Vals) {
					panic("harness: index of value to drop out of range")
				}
				cur = dropValue(cur, drop)
				fail = cur.check()
				continue loop
			}
		}
		for next < len(ladder) {
			n := ladder[next]
			next++
			nc, changed := n.apply(cur)
			if !changed {
				continue
			}
			validateSeq(nc.Seq)
			r := nc.check()
			trace("neutraliser %s applied", n.sig)
			if r == nil || r.locus() != fail.locus() {
				if !vt.IsKnown(n.sig) {
					failf(n.sig)
					return
				}
				o.Known = append(o.Known, n.sig)
			}
			cur, fail = nc, r
			continue loop
		}
		failf("C02/zson/" + fail.mode + "/" + fail.kind)
		return
	}
}

func validateSeq(s gen.Seq) {
	for i, v := range s.Vals {
		if err := v.Validate(); err != nil {
			panic(fmt.Sprintf("harness: generated value %d does not validate: %v", i, err))
		}
	}
}

// drawType biases gen.TypeGen towards what this property is about: named types
// (from gen.TypeNames, a tiny pool, so that names get re-bound within a value
// and across values), unions, errors and containers around them.
func drawType(t *rapid.T, tg *gen.TypeGen, depth int) zed.Type {
	if depth <= 0 {
		return tg.Prim(t)
	}
	switch k := rapid.IntRange(0, 11).Draw(t, "c02kind"); k {
	case 0, 1, 2, 3:
		return tg.Draw(t, depth)
	case 4, 5:
		// half of the time one of two names, so that re-binding is common
		name := gen.TypeNames[rapid.IntRange(0, 1).Draw(t, "c02tname01")]
		if rapid.IntRange(0, 3).Draw(t, "c02anyname") == 0 {
			name = rapid.SampledFrom(gen.TypeNames).Draw(t, "c02tname")
		}
		named, err := tg.Zctx.LookupTypeNamed(name, drawType(t, tg, depth-1))
		if err != nil {
			panic(fmt.Sprintf("harness: LookupTypeNamed(%q): %v", name, err))
		}
		return named
	case 6, 7:
		n := rapid.IntRange(1, 4).Draw(t, "c02nf")
		names := rapid.Permutation(gen.FieldNames).Draw(t, "c02fnames")
		fields := make([]zed.Field, n)
		for i := range fields {
			fields[i] = zed.NewField(names[i], drawType(t, tg, depth-1))
		}
		return tg.Zctx.MustLookupTypeRecord(fields)
	case 8:
		switch rapid.IntRange(0, 2).Draw(t, "c02cont") {
		case 0:
			return tg.Zctx.LookupTypeArray(drawType(t, tg, depth-1))
		case 1:
			return tg.Zctx.LookupTypeSet(drawType(t, tg, depth-1))
		}
		return tg.Zctx.LookupTypeMap(drawType(t, tg, depth-1), drawType(t, tg, depth-1))
	case 9, 10:
		n := rapid.IntRange(2, 3).Draw(t, "c02nu")
		var types []zed.Type
		for tries := 0; len(types) < n && tries < 8; tries++ {
			m := drawType(t, tg, depth-1)
			if m == zed.TypeNull && !tg.Opts.NullInUnion {
				continue
			}
			if !slices.Contains(types, m) {
				types = append(types, m)
			}
		}
		if len(types) < 2 {
			return tg.Prim(t)
		}
		return tg.Zctx.LookupTypeUnion(types)
	default:
		return tg.Zctx.LookupTypeError(drawType(t, tg, depth-1))
	}
}

func drawSeq(t *rapid.T, to gen.TypeOpts, vo gen.ValOpts, maxLen, maxTypes, depth int) gen.Seq {
	zctx := zed.NewContext()
	to.MaxDepth = depth
	tg := &gen.TypeGen{Zctx: zctx, Opts: to}
	vg := &gen.ValGen{Zctx: zctx, Opts: vo, Types: tg}
	ntypes := rapid.IntRange(1, maxTypes).Draw(t, "ntypes")
	types := make([]zed.Type, ntypes)
	for i := range types {
		types[i] = drawType(t, tg, depth)
	}
	n := rapid.IntRange(0, maxLen).Draw(t, "nvals")
	s := gen.Seq{Zctx: zctx}
	cur := 0
	for len(s.Vals) < n {
		if rapid.IntRange(0, 2).Draw(t, "switch?") == 0 {
			cur = rapid.IntRange(0, ntypes-1).Draw(t, "which")
		}
		s.Vals = append(s.Vals, vg.Value(t, types[cur]))
	}
	return s
}

func genRT(to gen.TypeOpts, vo gen.ValOpts) func(t *rapid.T) RTCase {
	return func(t *rapid.T) RTCase {
		c := RTCase{
			Pretty:  rapid.SampledFrom([]int{0, 0, 2, 4}).Draw(t, "pretty"),
			Persist: rapid.SampledFrom([]string{"", "", ".*", "^foo$"}).Draw(t, "persist"),
			Chunk:   rapid.SampledFrom([]int{0, 1, 2, 3, 5, 7, 64}).Draw(t, "chunk"),
		}
		maxLen, depth := 6, 3
		if vt.Thorough() {
			maxLen, depth = 12, 4
		}
		c.Seq = drawSeq(t, to, vo, maxLen, 4, depth)
		if vo.NonNFC {
			// gen's pools are NFC; decompose a third of the string leaves and
			// add a combining sequence so that non-NFC strings really occur
			for i, v := range c.Seq.Vals {
				if v.IsNull() {
					continue
				}
				c.Seq.Vals[i] = oracle.MapLeaves(v, func(typ zed.Type, body zcode.Bytes) zcode.Bytes {
					if typ.ID() == zed.IDString && rapid.IntRange(0, 2).Draw(t, "denormalise?") == 0 {
						// (fresh slice: norm may hand back its argument)
						return append(append(zcode.Bytes{}, norm.NFD.Bytes(body)...), "e\u0301"...)
					}
					return body
				})
			}
		}
		return c
	}
}

func isFloatSpecial(typ zed.Type, body zcode.Bytes) bool {
	if !zed.IsFloat(typ.ID()) {
		return false
	}
	f := zed.DecodeFloat(body)
	return f != f || math.IsInf(f, 0) || (f == 0 && math.Signbit(f))
}

func labelRT(c RTCase, o *vt.Outcome) {
	o.Label(fmt.Sprintf("pretty:%d", c.Pretty), "persist:"+c.Persist)
	set := map[string]bool{}
	names := map[string]zed.Type{}
	for _, v := range c.Seq.Vals {
		if !zson.Implied(v.Type()) {
			set["needs-decorator"] = true
		}
		if v.IsNull() && oracle.IsComplex(v.Type()) {
			set["null-complex-top"] = true
		}
		if !v.IsNull() && oracle.HasLeaf(v, isFloatSpecial) {
			set["float-special"] = true
		}
		depth := 0
		var depthOf func(t zed.Type, d int)
		depthOf = func(t zed.Type, d int) {
			depth = max(depth, d)
			switch t := t.(type) {
			case *zed.TypeNamed:
				depthOf(t.Type, d)
			case *zed.TypeError:
				depthOf(t.Type, d+1)
			case *zed.TypeRecord:
				for _, f := range t.Fields {
					depthOf(f.Type, d+1)
				}
			case *zed.TypeArray:
				depthOf(t.Type, d+1)
			case *zed.TypeSet:
				depthOf(t.Type, d+1)
			case *zed.TypeMap:
				depthOf(t.KeyType, d+1)
				depthOf(t.ValType, d+1)
			case *zed.TypeUnion:
				for _, m := range t.Types {
					depthOf(m, d+1)
				}
			}
		}
		depthOf(v.Type(), 0)
		if depth >= 3 {
			set["depth>=3"] = true
		}
		walkValueTypes(c.Seq.Zctx, v, func(t zed.Type) {
			switch t := t.(type) {
			case *zed.TypeNamed:
				set["has-named"] = true
				if prev, ok := names[t.Name]; ok && prev != t {
					set["rebinding"] = true
				}
				names[t.Name] = t
				if !zson.IsTypeName(t.Name) {
					set["quoted-type-name"] = true
				}
			case *zed.TypeUnion:
				set["has-union"] = true
			case *zed.TypeEnum:
				set["has-enum"] = true
				for _, s := range t.Symbols {
					if !zson.IsIdentifier(s) {
						set["quoted-enum-symbol"] = true
					}
				}
			case *zed.TypeError:
				set["has-error"] = true
			case *zed.TypeMap:
				set["has-map"] = true
			case *zed.TypeSet:
				set["has-set"] = true
			case *zed.TypeRecord:
				for _, f := range t.Fields {
					if !zson.IsIdentifier(f.Name) {
						set["quoted-field-name"] = true
					}
				}
			case *zed.TypeOfType:
				set["has-typevalue"] = true
			}
		})
	}
	for _, k := range []string{"needs-decorator", "has-union", "has-named", "has-enum", "has-error", "has-map", "has-set", "has-typevalue",
		"quoted-type-name", "quoted-enum-symbol", "quoted-field-name"} {
		if set[k] {
			o.NonTrivial = true
		}
	}
	if len(c.Seq.Vals) >= 2 {
		o.Label("multi-value")
	}
	for _, v := range c.Seq.Vals {
		if !v.IsNull() && oracle.HasLeaf(v, func(typ zed.Type, body zcode.Bytes) bool { return typ.ID() == zed.IDString && !norm.NFC.IsNormal(body) }) {
			o.Label("non-nfc-string")
			break
		}
	}
	keys := make([]string, 0, len(set))
	for k := range set {
		keys = append(keys, k)
	}
	slices.Sort(keys)
	o.Label(keys...)
}

func runRT(ladder []neutraliser, symptoms []symptom) func(c RTCase) *vt.Outcome {
	return func(c RTCase) *vt.Outcome {
		o := &vt.Outcome{}
		validateSeq(c.Seq)
		labelRT(c, o)
		decide(c, ladder, symptoms, o)
		return o
	}
}

const rtRule = "case = (pretty in {0,2,4}, persist regexp in {nil, `.*`, `^foo$`}, sequence of 0..6 (thorough 0..12) generated values over 1..4 types of depth<=3 (thorough 4) " +
	"with keyword/quoted/unicode field names, type names and enum symbols); every case is run through three typedef scopes: per value (FormatValue or a fresh Formatter.Format -> ParseValue), " +
	"zsonio.Writer (FormatRecord) -> zsonio.Reader, and one Formatter reused with Format -> zsonio.Reader. Oracle: read back in a fresh context = same canonical type bytes and value bytes (NaN=NaN), " +
	"same count; read back in the writer's context = identical type pointer; and (6 of 7 cases) both stream texts read once more through a reader that returns at most 1/2/3/5/7/64 bytes per call give the same values. Non-trivial: some value's type is not implied (needs a decorator) or contains union/named/enum/error/map/set/type value or a name that needs quoting; " +
	"distinct = distinct case digest."

var propRT = &vt.Prop[RTCase]{
	Name: "TestZSONRoundTrip",
	Rule: rtRule,
	Gen:  genRT(gen.TypeOpts{}, gen.ValOpts{}),
	Run:  runRT(rtNeutralisers, rtSymptoms),
}

// weighted returns gen.Primitives with typ repeated n more times.
func weighted(typ zed.Type, n int) []zed.Type {
	out := append([]zed.Type(nil), gen.Primitives...)
	for i := 0; i < n; i++ {
		out = append(out, typ)
	}
	return out
}

// Opt-in corner: non-NFC strings.  The ZSON parser normalises string values to
// NFC (zson.BuildPrimitive), as the JSON and Zeek readers do, so a non-NFC
// string cannot round-trip; kept out of the main stream and reported here.
func nfcStrings(typ zed.Type, body zcode.Bytes) zcode.Bytes {
	if typ.ID() == zed.IDString && !norm.NFC.IsNormal(body) {
		return norm.NFC.Bytes(body)
	}
	return body
}

var propNonNFC = &vt.Prop[RTCase]{
	Name: "TestZSONNonNFC",
	Rule: "opt-in corner of TestZSONRoundTrip: the value generator may produce strings that are not in Unicode NFC (gen.ValOpts.NonNFC); same oracle",
	Gen:  genRT(gen.TypeOpts{Prims: weighted(zed.TypeString, 12)}, gen.ValOpts{NonNFC: true}),
	Run: runRT(append([]neutraliser{{"C02/zson/string-nfc-normalised-on-parse", func(c RTCase) (RTCase, bool) {
		return mapSeq(c, func(v zed.Value) zed.Value {
			if v.IsNull() {
				return v
			}
			return oracle.MapLeaves(v, nfcStrings)
		})
	}}}, rtNeutralisers...), rtSymptoms),
}

// Opt-in corner: unions that have the null type as a member.  The value
// "member null of (int64,null)" and the null union value are both written
// `null((int64,null))`.
func nullMemberToNullUnion(v zed.Value) zed.Value {
	// nullish: null, or a union value whose selected member is (recursively) nullish
	var nullish func(typ zed.Type, body zcode.Bytes) bool
	nullish = func(typ zed.Type, body zcode.Bytes) bool {
		if body == nil || typ == zed.TypeNull {
			return true
		}
		if u, ok := zed.TypeUnder(typ).(*zed.TypeUnion); ok {
			it := body.Iter()
			tag := int(zed.DecodeInt(it.Next()))
			return nullish(u.Types[tag], it.Next())
		}
		return false
	}
	return rebuild(v, func(typ zed.Type, body zcode.Bytes, parent zed.Type) (zcode.Bytes, bool) {
		if _, ok := zed.TypeUnder(typ).(*zed.TypeUnion); ok && body != nil && nullish(typ, body) {
			return nil, true
		}
		return nil, false
	})
}

var propNullInUnion = &vt.Prop[RTCase]{
	Name: "TestZSONNullInUnion",
	Rule: "opt-in corner of TestZSONRoundTrip: unions may contain the null type as a member (gen.TypeOpts.NullInUnion); same oracle",
	Gen:  genRT(gen.TypeOpts{NullInUnion: true, Prims: weighted(zed.TypeNull, 8)}, gen.ValOpts{}),
	Run: runRT(append([]neutraliser{{"C02/zson/null-union-member-ambiguous", func(c RTCase) (RTCase, bool) { return mapSeq(c, nullMemberToNullUnion) }}},
		rtNeutralisers...), rtSymptoms),
}

func init() {
	propRT.Register()
	propNonNFC.Register()
	propNullInUnion.Register()
}

func TestZSONNonNFC(t *testing.T)      { propNonNFC.Check(t) }
func TestZSONNullInUnion(t *testing.T) { propNullInUnion.Check(t) }

func TestZSONRoundTrip(t *testing.T) { propRT.Check(t) }
func TestReplay(t *testing.T)        { vt.TestReplay(t) }
