package c02

import (
	"encoding/json"
	"fmt"
	"math"
	"regexp"
	"strconv"
	"strings"
	"testing"
	"unicode/utf16"

	zed "github.com/brimdata/super"
	"github.com/brimdata/super/zio/jsonio"
	"github.com/brimdata/super/zio/zsonio"
	"golang.org/x/text/unicode/norm"
	"pgregory.net/rapid"

	"verif/oracle"
	"verif/vt"
)

// ---------------------------------------------------------------------------
// (b) JSON is a subset of ZSON

// JSONCase is a stream of JSON texts: Seps[i] is the insignificant whitespace
// before Docs[i], Seps[len(Docs)] the trailing whitespace.
type JSONCase struct {
	Docs []string `json:"docs"`
	Seps []string `json:"seps"`
}

func (c JSONCase) text() string {
	var sb strings.Builder
	for i, d := range c.Docs {
		sb.WriteString(c.Seps[i])
		sb.WriteString(d)
	}
	sb.WriteString(c.Seps[len(c.Docs)])
	return sb.String()
}

var jsonWS = []string{"", "", "", "", " ", " ", "\n", "\t", "\r\n", "  ", " \n\t ", "\r"}

func ws(t *rapid.T) string { return rapid.SampledFrom(jsonWS).Draw(t, "ws") }

var jsonBoundaryNumbers = []string{
	"0", "-0", "1", "-1", "10", "127", "128", "255", "256", "65535", "65536", "2147483647", "2147483648", "-2147483648", "4294967295", "4294967296",
	"9007199254740991", "9007199254740992", "9007199254740993", "-9007199254740993",
	"9223372036854775806", "9223372036854775807", "9223372036854775808", "9223372036854775809",
	"-9223372036854775807", "-9223372036854775808", "-9223372036854775809",
	"18446744073709551614", "18446744073709551615", "18446744073709551616", "-18446744073709551615",
	"123456789012345678901234567890", "-123456789012345678901234567890", "100000000000000000000", "99999999999999999999",
	"0.0", "-0.0", "0.5", "-0.5", "1.0", "1.5", "0.1", "0.25", "3.14159", "100.001", "0.000001", "1.000", "123456789.125",
	"9223372036854775807.0", "9223372036854775808.0", "0.30000000000000004", "2.2250738585072014e-308", "1.7976931348623157e308", "1.7976931348623159e308",
	"1e0", "1E0", "0e0", "-0e0", "0E+0", "0e-0", "1e5", "1E5", "1e+5", "1E+5", "1e-5", "1E-5", "1e05", "1e+05", "1.5e300", "-2.5E-3", "123e-2", "12.5e1",
	"1e308", "1e309", "-1e309", "1e400", "-1e400", "1E+999", "1e-400", "-1e-400", "5e-324", "1e-324", "4.9e-324", "1e21", "1e22", "1e23", "1e15", "1e16",
}

func drawNumber(t *rapid.T) string {
	switch rapid.IntRange(0, 5).Draw(t, "numkind") {
	case 0, 1:
		return strconv.Itoa(rapid.IntRange(-1000, 1000).Draw(t, "smallint"))
	case 2, 3:
		return rapid.SampledFrom(jsonBoundaryNumbers).Draw(t, "boundarynum")
	default:
		// number = [ minus ] int [ frac ] [ exp ]  (RFC 8259 section 6)
		var sb strings.Builder
		if rapid.Bool().Draw(t, "minus") {
			sb.WriteByte('-')
		}
		digits := func(lo, hi int, label string) string {
			return rapid.StringOfN(rapid.RuneFrom([]rune("0123456789")), lo, hi, -1).Draw(t, label)
		}
		if rapid.IntRange(0, 4).Draw(t, "zeroint") == 0 {
			sb.WriteByte('0')
		} else {
			sb.WriteString(rapid.SampledFrom([]string{"1", "2", "5", "9"}).Draw(t, "lead"))
			sb.WriteString(digits(0, 22, "intdigits"))
		}
		if rapid.Bool().Draw(t, "frac?") {
			sb.WriteByte('.')
			sb.WriteString(digits(1, 20, "fracdigits"))
		}
		if rapid.Bool().Draw(t, "exp?") {
			sb.WriteString(rapid.SampledFrom([]string{"e", "E", "e+", "E+", "e-", "E-"}).Draw(t, "e"))
			sb.WriteString(digits(1, 3, "expdigits"))
		}
		return sb.String()
	}
}

// string chunks: raw characters, every short escape, \u escapes (both hex
// cases; BMP, control, surrogate pairs, combining marks), non-NFC text both raw
// and escaped.  Lone surrogates are left out: RFC 8259 section 8.2 calls the
// behaviour of receivers on them unpredictable.
var jsonRawChunks = []string{"a", "b", "abc", "hello world", "A", "0", "1.5", "null", "true", " ", "x=1", "[", "]", "{", "}", "(", ")", "<", ">", "'", "*", "/", "//", "/*", "`", "$", "%", ":", ",", "=>", "10.0.0.1", "2020-01-01T00:00:00Z", "1s", "::1", "0x01", "\u00e9", "\u65e5\u672c", "\U0001f600", "\u007f", "\u0065\u0301", "\u0301", "\ufb01", "\u2028", "\u00a0", "\u00c5", "\u0041\u030a"}

var jsonEscapes = []string{`\"`, `\\`, `\/`, `\b`, `\f`, `\n`, `\r`, `\t`}

var jsonUEscapes = []string{`\u0041`, `\u0061`, `\u00e9`, `\u00E9`, `\u00c5`, `\u0000`, `\u0001`, `\u001f`, `\u001F`, `\u0020`, `\u0022`, `\u005c`, `\u005C`, `\u002f`, `\u007f`, `\u2028`, `\u2029`, `\uffff`, `\ufffd`, `\ufeff`, `\u65e5\u672c`, `\ud83d\ude00`, `\uD83D\uDE00`, `\ud83D\uDe00`, `\ud800\udc00`, `\udbff\udfff`, `\u0301`, `\u0065\u0301`, `\u0041\u030a`, `\u0065\u0301`}

func drawStringLit(t *rapid.T) string {
	var sb strings.Builder
	sb.WriteByte('"')
	n := rapid.IntRange(0, 5).Draw(t, "nchunks")
	for i := 0; i < n; i++ {
		switch rapid.IntRange(0, 5).Draw(t, "chunkkind") {
		case 0, 1, 2:
			sb.WriteString(rapid.SampledFrom(jsonRawChunks).Draw(t, "raw"))
		case 3:
			sb.WriteString(rapid.SampledFrom(jsonEscapes).Draw(t, "esc"))
		default:
			sb.WriteString(rapid.SampledFrom(jsonUEscapes).Draw(t, "uesc"))
		}
	}
	sb.WriteByte('"')
	return sb.String()
}

func decodeStringLit(lit string) string {
	var s string
	if err := json.Unmarshal([]byte(lit), &s); err != nil {
		panic(fmt.Sprintf("harness: generated string literal %s is not JSON: %v", lit, err))
	}
	return s
}

func drawJSONValue(t *rapid.T, depth int) string {
	k := rapid.IntRange(0, 11).Draw(t, "jsonkind")
	if depth <= 0 && k >= 8 {
		k = rapid.IntRange(0, 7).Draw(t, "jsonscalar")
	}
	switch k {
	case 0:
		return "null"
	case 1:
		return rapid.SampledFrom([]string{"true", "false"}).Draw(t, "bool")
	case 2, 3, 4:
		return drawNumber(t)
	case 5, 6, 7:
		return drawStringLit(t)
	case 8, 9:
		var sb strings.Builder
		sb.WriteByte('[')
		sb.WriteString(ws(t))
		n := rapid.IntRange(0, 4).Draw(t, "nelem")
		for i := 0; i < n; i++ {
			if i > 0 {
				sb.WriteByte(',')
				sb.WriteString(ws(t))
			}
			sb.WriteString(drawJSONValue(t, depth-1))
			sb.WriteString(ws(t))
		}
		sb.WriteByte(']')
		return sb.String()
	default:
		var sb strings.Builder
		sb.WriteByte('{')
		sb.WriteString(ws(t))
		n := rapid.IntRange(0, 4).Draw(t, "nmember")
		seen := map[string]bool{}
		first := true
		for i := 0; i < n; i++ {
			key := drawStringLit(t)
			// unique keys only (also after NFC): duplicate keys are outside the claim
			dk := decodeStringLit(key)
			if seen[dk] || seen[norm.NFC.String(dk)] {
				continue
			}
			seen[dk], seen[norm.NFC.String(dk)] = true, true
			if !first {
				sb.WriteByte(',')
				sb.WriteString(ws(t))
			}
			first = false
			sb.WriteString(key)
			sb.WriteString(ws(t))
			sb.WriteByte(':')
			sb.WriteString(ws(t))
			sb.WriteString(drawJSONValue(t, depth-1))
			sb.WriteString(ws(t))
		}
		sb.WriteByte('}')
		return sb.String()
	}
}

// drawLongDoc builds a document larger than the ZSON lexer's 64 KiB read size
// (so that tokens straddle its buffer refills): a long array of repeated
// small values, or a long string.
func drawLongDoc(t *rapid.T) string {
	target := rapid.SampledFrom([]int{65536 - 40, 65536 + 10, 70000, 131072 + 5, 200000}).Draw(t, "longsize")
	if rapid.IntRange(0, 3).Draw(t, "longstring?") == 0 {
		unit := rapid.SampledFrom([]string{"a", "ab", "\u00e9", "\\n", "\\ud83d\\ude00x", "\\u00e9", "\U0001f600"}).Draw(t, "longunit")
		return `"` + strings.Repeat(unit, target/len(unit)+1) + `"`
	}
	n := rapid.IntRange(1, 3).Draw(t, "longelems")
	elems := make([]string, n)
	for i := range elems {
		elems[i] = drawJSONValue(t, 1) + ws(t)
	}
	// at most 3000 elements (jsonio's array builder is quadratic in the
	// element count); a padding string makes up the rest of the size
	var body strings.Builder
	for i := 0; body.Len() < target && i < 3000; i++ {
		if i > 0 {
			body.WriteByte(',')
		}
		body.WriteString(elems[i%n])
	}
	pad := ""
	if body.Len() < target {
		pad = `"` + strings.Repeat("x", target-body.Len()) + `"`
	}
	switch {
	case pad == "":
		return "[" + body.String() + "]"
	case rapid.Bool().Draw(t, "padfirst"):
		return "[" + pad + "," + body.String() + "]"
	default:
		return "[" + body.String() + "," + pad + "]"
	}
}

func genJSON(t *rapid.T) JSONCase {
	depth := 3
	if vt.Thorough() {
		depth = 4
	}
	n := rapid.IntRange(1, 4).Draw(t, "ndocs")
	c := JSONCase{}
	for i := 0; i < n; i++ {
		sep := ws(t)
		doc := drawJSONValue(t, depth)
		if rapid.IntRange(0, 39).Draw(t, "long?") == 17 {
			doc = drawLongDoc(t)
		}
		if i > 0 && sep == "" {
			// adjacent documents: only where the boundary is unambiguous
			prev := c.Docs[i-1]
			closer := strings.ContainsRune("]}\"", rune(prev[len(prev)-1]))
			opener := strings.ContainsRune("[{\"", rune(doc[0]))
			if !closer || !opener || rapid.IntRange(0, 2).Draw(t, "nosep?") != 0 {
				sep = rapid.SampledFrom([]string{" ", "\n", "\n", "\t", "\r\n"}).Draw(t, "sep")
			}
		}
		c.Seps = append(c.Seps, sep)
		c.Docs = append(c.Docs, doc)
	}
	c.Seps = append(c.Seps, ws(t))
	return c
}

type reader interface {
	Read() (*zed.Value, error)
}

func drain(r reader) ([]zed.Value, error) {
	var out []zed.Value
	for {
		v, err := r.Read()
		if err != nil {
			return out, err
		}
		if v == nil {
			return out, nil
		}
		out = append(out, v.Copy())
	}
}

// jsonTokens walks a JSON text and calls num for every number literal and str
// for every string literal (including the quotes) with its byte offsets.
func jsonTokens(doc string, num, str func(lit string, from, to int)) {
	for i := 0; i < len(doc); {
		switch c := doc[i]; {
		case c == '"':
			j := i + 1
			for doc[j] != '"' {
				if doc[j] == '\\' {
					j++
				}
				j++
			}
			if str != nil {
				str(doc[i:j+1], i, j+1)
			}
			i = j + 1
		case c == '-' || (c >= '0' && c <= '9'):
			j := i
			for j < len(doc) && strings.IndexByte("+-0123456789.eE", doc[j]) >= 0 {
				j++
			}
			if num != nil {
				num(doc[i:j], i, j)
			}
			i = j
		default:
			i++
		}
	}
}

func isIntLit(lit string) bool { return !strings.ContainsAny(lit, ".eE") }

func overflows(lit string) bool {
	f, err := strconv.ParseFloat(lit, 64)
	return err != nil && math.IsInf(f, 0)
}

func docOverflows(doc string) bool {
	found := false
	jsonTokens(doc, func(lit string, _, _ int) {
		if overflows(lit) {
			found = true
		}
	}, nil)
	return found
}

type jsonFail struct {
	kind string
	idx  int
	msg  string
}

func (f *jsonFail) locus() string { return fmt.Sprintf("%s/%d", f.kind, f.idx) }

func (c JSONCase) check(o *vt.Outcome) *jsonFail {
	text := c.text()
	zv, zerr := drain(zsonio.NewReader(zed.NewContext(), strings.NewReader(text)))
	jv, jerr := drain(jsonio.NewReader(zed.NewContext(), strings.NewReader(text)))
	n := min(len(zv), len(jv))
	for i := 0; i < n; i++ {
		if oracle.Key(zv[i]) != oracle.Key(jv[i]) {
			return &jsonFail{"value-differs", i, fmt.Sprintf("document %d %s: jsonio.Reader gives %s (type %s), zsonio.Reader gives %s (type %s)",
				i, clip(c.Docs[i]), oracle.Show(jv[i]), oracle.Show(zed.NewValue(zed.TypeType, zed.EncodeTypeValue(jv[i].Type()))),
				oracle.Show(zv[i]), oracle.Show(zed.NewValue(zed.TypeType, zed.EncodeTypeValue(zv[i].Type()))))}
		}
	}
	// which document is the first one a reader may legitimately refuse?
	firstOverflow := len(c.Docs)
	for i, d := range c.Docs {
		if docOverflows(d) {
			firstOverflow = i
			break
		}
	}
	if jerr == nil && len(jv) != len(c.Docs) {
		return &jsonFail{"jsonio-count", len(jv), fmt.Sprintf("jsonio.Reader read %d values from %d documents without error", len(jv), len(c.Docs))}
	}
	if jerr != nil && len(jv) < firstOverflow {
		// not a number-range refusal: is the ZSON reader at least right?
		if zerr != nil && len(zv) == len(jv) {
			return &jsonFail{"both-reject-valid-json", len(jv), fmt.Sprintf("document %d %s is valid JSON but jsonio.Reader fails (%v) and zsonio.Reader fails (%v)", len(jv), clip(c.Docs[len(jv)]), jerr, zerr)}
		}
		return &jsonFail{"jsonio-rejects-valid-json", len(jv), fmt.Sprintf("document %d %s is valid JSON but jsonio.Reader fails: %v", len(jv), clip(c.Docs[len(jv)]), jerr)}
	}
	switch {
	case zerr != nil && (jerr == nil || len(zv) < len(jv)):
		return &jsonFail{"zson-rejects-valid-json", len(zv), fmt.Sprintf("document %d %s: zsonio.Reader fails (%v); jsonio.Reader read %d values, err=%v", len(zv), clip(c.Docs[min(len(zv), len(c.Docs)-1)]), zerr, len(jv), jerr)}
	case jerr != nil && (zerr == nil || len(zv) > len(jv)):
		return &jsonFail{"only-jsonio-rejects", len(jv), fmt.Sprintf("document %d %s: jsonio.Reader fails (%v) but zsonio.Reader read %d values, err=%v", len(jv), clip(c.Docs[len(jv)]), jerr, len(zv), zerr)}
	case jerr == nil && len(zv) != len(jv):
		return &jsonFail{"count-differs", n, fmt.Sprintf("jsonio.Reader read %d values, zsonio.Reader %d", len(jv), len(zv))}
	}
	if jerr != nil && o != nil {
		o.Label("both-reject-overflow")
	}
	return nil
}

type jsonNeutraliser struct {
	sig   string
	apply func(c JSONCase) (JSONCase, bool)
}

// mapNumbers rewrites number literals.
func mapNumbers(c JSONCase, f func(lit string) string) (JSONCase, bool) {
	out := JSONCase{Seps: c.Seps, Docs: make([]string, len(c.Docs))}
	changed := false
	for i, d := range c.Docs {
		var sb strings.Builder
		last := 0
		jsonTokens(d, func(lit string, from, to int) {
			sb.WriteString(d[last:from])
			n := f(lit)
			if n != lit {
				changed = true
			}
			sb.WriteString(n)
			last = to
		}, nil)
		sb.WriteString(d[last:])
		out.Docs[i] = sb.String()
	}
	return out, changed
}

// mapStrings rewrites string literals (quotes included).
func mapStrings(c JSONCase, f func(lit string) string) (JSONCase, bool) {
	out := JSONCase{Seps: c.Seps, Docs: make([]string, len(c.Docs))}
	changed := false
	for i, d := range c.Docs {
		var sb strings.Builder
		last := 0
		jsonTokens(d, nil, func(lit string, from, to int) {
			sb.WriteString(d[last:from])
			n := f(lit)
			if n != lit {
				changed = true
			}
			sb.WriteString(n)
			last = to
		})
		sb.WriteString(d[last:])
		out.Docs[i] = sb.String()
	}
	return out, changed
}

var surrogatePairRE = regexp.MustCompile(`\\u([dD][89abAB][0-9a-fA-F]{2})\\u([dD][c-fC-F][0-9a-fA-F]{2})`)

// rawSurrogatePairs replaces \uD8xx\uDCxx escape pairs by the character itself.
func rawSurrogatePairs(lit string) string {
	// only touch escapes, not an escaped backslash followed by "u"
	var sb strings.Builder
	for i := 0; i < len(lit); {
		if lit[i] == '\\' {
			if loc := surrogatePairRE.FindStringSubmatchIndex(lit[i:]); loc != nil && loc[0] == 0 {
				hi, _ := strconv.ParseUint(lit[i+loc[2]:i+loc[3]], 16, 32)
				lo, _ := strconv.ParseUint(lit[i+loc[4]:i+loc[5]], 16, 32)
				sb.WriteRune(utf16.DecodeRune(rune(hi), rune(lo)))
				i += loc[1]
				continue
			}
			sb.WriteString(lit[i : i+2])
			i += 2
			continue
		}
		sb.WriteByte(lit[i])
		i++
	}
	return sb.String()
}

var jsonNeutralisers = []jsonNeutraliser{
	{"C02/zson/lexer-lookahead-over-32KiB-short-buffer", func(c JSONCase) (JSONCase, bool) {
		// Only adjacent documents can put more than 32 KiB without whitespace
		// or comma after a number/true/false/null in valid JSON.
		out := JSONCase{Docs: c.Docs, Seps: append([]string(nil), c.Seps...)}
		changed := false
		for i := 1; i < len(c.Docs); i++ {
			if out.Seps[i] == "" {
				out.Seps[i] = "\n"
				changed = true
			}
		}
		return out, changed
	}},
	{"C02/json/surrogate-pair-escape-after-raw-non-ascii-rejected", func(c JSONCase) (JSONCase, bool) { return mapStrings(c, rawSurrogatePairs) }},
	{"C02/json/int-between-2^63-and-2^64", func(c JSONCase) (JSONCase, bool) {
		return mapNumbers(c, func(lit string) string {
			if isIntLit(lit) {
				if _, err := strconv.ParseInt(lit, 10, 64); err != nil {
					if _, err := strconv.ParseUint(lit, 10, 64); err == nil {
						return lit + ".0"
					}
				}
			}
			return lit
		})
	}},
}

func runJSON(c JSONCase) *vt.Outcome {
	o := &vt.Outcome{}
	for i, d := range c.Docs {
		if !json.Valid([]byte(d)) {
			panic(fmt.Sprintf("harness: generated document %d is not valid JSON: %s", i, d))
		}
	}
	if len(c.Seps) != len(c.Docs)+1 {
		panic("harness: malformed JSON case")
	}
	labelJSON(c, o)
	fail := c.check(o)
	cur := c
	for _, n := range jsonNeutralisers {
		if fail == nil {
			break
		}
		nc, changed := n.apply(cur)
		if !changed {
			continue
		}
		r := nc.check(nil)
		if r == nil || r.locus() != fail.locus() {
			if !vt.IsKnown(n.sig) {
				o.Fail = vt.Failf(n.sig, "[%s at document %d] %s", fail.kind, fail.idx, fail.msg)
				return o
			}
			o.Known = append(o.Known, n.sig)
		}
		cur, fail = nc, r
	}
	if fail != nil {
		o.Fail = vt.Failf("C02/json/"+fail.kind, "[%s at document %d] %s", fail.kind, fail.idx, fail.msg)
	}
	return o
}

func labelJSON(c JSONCase, o *vt.Outcome) {
	set := map[string]bool{}
	for i, d := range c.Docs {
		depth, maxDepth := 0, 0
		jsonTokens(d, func(lit string, _, _ int) {
			switch {
			case overflows(lit):
				set["number-overflow"] = true
			case isIntLit(lit):
				if _, err := strconv.ParseInt(lit, 10, 64); err != nil {
					set["int-outside-int64"] = true
				}
			default:
				set["fraction-or-exponent"] = true
			}
			if strings.HasPrefix(lit, "-0") && !strings.ContainsAny(lit, "123456789") {
				set["minus-zero"] = true
			}
		}, func(lit string, _, _ int) {
			if strings.Contains(lit, `\u`) {
				set["u-escape"] = true
			}
			if strings.Contains(lit, `\`) {
				set["escaped-string"] = true
			}
			if s := decodeStringLit(lit); !norm.NFC.IsNormalString(s) {
				set["non-nfc-string"] = true
			}
		})
		inStr := false
		for k := 0; k < len(d); k++ {
			switch ch := d[k]; {
			case inStr:
				if ch == '\\' {
					k++
				} else if ch == '"' {
					inStr = false
				}
			case ch == '"':
				inStr = true
			case ch == '[' || ch == '{':
				depth++
				maxDepth = max(maxDepth, depth)
			case ch == ']' || ch == '}':
				depth--
			}
		}
		if maxDepth >= 2 {
			set["depth>=2"] = true
		}
		if strings.Contains(d, "[]") || strings.Contains(d, "{}") {
			set["empty-container"] = true
		}
		if i > 0 && c.Seps[i] == "" {
			set["adjacent-docs"] = true
		}
	}
	if len(c.Docs) > 1 {
		set["multi-doc"] = true
	}
	if len(c.text()) > 65536 {
		set["over-64KiB"] = true
	}
	for _, k := range []string{"depth>=2", "int-outside-int64", "escaped-string", "number-overflow"} {
		if set[k] {
			o.NonTrivial = true
		}
	}
	for _, k := range []string{"depth>=2", "int-outside-int64", "escaped-string", "u-escape", "non-nfc-string", "number-overflow", "fraction-or-exponent", "minus-zero",
		"empty-container", "adjacent-docs", "multi-doc", "over-64KiB"} {
		if set[k] {
			o.Label(k)
		}
	}
}

var propJSON = &vt.Prop[JSONCase]{
	Name: "TestJSONSubset",
	Rule: "case = 1..4 JSON texts from an RFC 8259 grammar (objects with unique keys, arrays incl. empty/heterogeneous/with nulls, strings from raw chunks, every short escape and \\u escapes incl. surrogate pairs and non-NFC text, " +
		"numbers incl. ints beyond +-2^63, fractions, exponents, -0, overflow such as 1e400; depth<=3 (thorough 4); drawn insignificant whitespace everywhere; documents separated by whitespace or adjacent where unambiguous). " +
		"Every document is checked valid with encoding/json. Oracle: zsonio.Reader and jsonio.Reader over the same bytes yield the same sequence (type bytes and value bytes); a reader may fail only at a document holding a number that overflows float64, and then both must, after the same number of values. " +
		"Non-trivial: nesting depth>=2, or an integer outside int64, or an escaped string, or an overflowing number.",
	Gen: genJSON,
	Run: runJSON,
}

func init() { propJSON.Register() }

func TestJSONSubset(t *testing.T) { propJSON.Check(t) }
