package c06

import (
	"context"
	"fmt"
	"os"
	"path/filepath"
	"sort"
	"strings"
	"testing"

	zed "github.com/brimdata/super"
	"github.com/brimdata/super/compiler"
	"github.com/brimdata/super/order"
	"github.com/brimdata/super/pkg/field"
	"github.com/brimdata/super/pkg/nano"
	"github.com/brimdata/super/runtime"
	"github.com/brimdata/super/runtime/sam/expr"
	sortop "github.com/brimdata/super/runtime/sam/op/sort"
	"github.com/brimdata/super/runtime/sam/op/spill"
	"github.com/brimdata/super/zbuf"
	"github.com/brimdata/super/zcode"
	"github.com/brimdata/super/zio"
	"pgregory.net/rapid"

	"verif/gen"
	"verif/oracle"
	"verif/vt"
)

const (
	sigNullsSecondary = "C06/sort/nulls-position-follows-first-key-direction"
	sigSpillCtx       = "C06/sort/spill-compares-in-foreign-context"
	ordField          = "_o" // hidden ordinal, type time: never guessed as a key, never named in a sort spec
)

var memLimits = []int{1, 64, 1024, 128 * 1024 * 1024}

type KeySpec struct {
	Field string `json:"field"` // "this" or a top-level field name
	Dir   string `json:"dir"`   // "", "asc", "desc"
}

type SortCase struct {
	Seq     gen.Seq   `json:"seq"`
	Batches []int     `json:"batches"` // batch sizes fed to the operator (the last one repeats)
	Keys    []KeySpec `json:"keys"`    // empty: no sort expression (guessed key)
	Reverse bool      `json:"reverse"`
	Nulls   string    `json:"nulls"` // "", "first", "last"
}

func (c SortCase) program() string {
	var sb strings.Builder
	sb.WriteString("sort")
	if c.Reverse {
		sb.WriteString(" -r")
	}
	if c.Nulls != "" {
		sb.WriteString(" -nulls " + c.Nulls)
	}
	for i, k := range c.Keys {
		if i > 0 {
			sb.WriteString(",")
		}
		sb.WriteString(" " + k.Field)
		if k.Dir != "" {
			sb.WriteString(" " + k.Dir)
		}
	}
	return sb.String()
}

// ---------------------------------------------------------------- feeding batches and observing spills

// batchReader is a zio.Reader that also implements zbuf.ScannerAble so that the
// compiled query receives the values in batches of the generated sizes.
type batchReader struct {
	vals    []zed.Value
	sizes   []int
	pos, bi int
	// observations
	maxRuns int // largest number of spill run files seen in TMPDIR at a Pull
}

func (r *batchReader) Read() (*zed.Value, error) {
	if r.pos >= len(r.vals) {
		return nil, nil
	}
	v := &r.vals[r.pos]
	r.pos++
	return v, nil
}

func (r *batchReader) NewScanner(ctx context.Context, filter zbuf.Filter) (zbuf.Scanner, error) {
	var f expr.Evaluator
	if filter != nil {
		var err error
		if f, err = filter.AsEvaluator(); err != nil {
			return nil, err
		}
	}
	return &batchScanner{r: r, ctx: ctx, filter: f, ectx: expr.NewContext()}, nil
}

type batchScanner struct {
	r      *batchReader
	ctx    context.Context
	filter expr.Evaluator
	ectx   expr.Context
}

func (s *batchScanner) Progress() zbuf.Progress { return zbuf.Progress{} }

func spillRunFiles() int {
	dir := os.TempDir()
	entries, _ := os.ReadDir(dir)
	n := 0
	for _, e := range entries {
		if e.IsDir() && strings.HasPrefix(e.Name(), spill.TempPrefix) {
			files, _ := os.ReadDir(filepath.Join(dir, e.Name()))
			n += len(files)
		}
	}
	return n
}

func (s *batchScanner) Pull(done bool) (zbuf.Batch, error) {
	if err := s.ctx.Err(); err != nil {
		return nil, err
	}
	r := s.r
	if n := spillRunFiles(); n > r.maxRuns {
		r.maxRuns = n
	}
	if done {
		r.pos = len(r.vals)
		return nil, nil
	}
	for r.pos < len(r.vals) {
		size := 1
		if len(r.sizes) > 0 {
			size = max(1, r.sizes[min(r.bi, len(r.sizes)-1)])
		}
		r.bi++
		end := min(len(r.vals), r.pos+size)
		vals := make([]zed.Value, 0, end-r.pos)
		for _, v := range r.vals[r.pos:end] {
			if s.filter != nil {
				if res := s.filter.Eval(s.ectx, v); !(res.Type() == zed.TypeBool && res.Bool()) {
					continue
				}
			}
			vals = append(vals, v)
		}
		r.pos = end
		if len(vals) > 0 {
			return zbuf.NewArray(vals), nil
		}
	}
	return nil, nil
}

// runProgram compiles src and runs it over the values fed in batches.
// It returns the output and the number of spill run files observed.
func runProgram(zctx *zed.Context, src string, vals []zed.Value, sizes []int) ([]zed.Value, int, error) {
	ast, _, err := compiler.Parse(src)
	if err != nil {
		return nil, 0, fmt.Errorf("parse %q: %w", src, err)
	}
	r := &batchReader{vals: vals, sizes: sizes}
	rctx := runtime.NewContext(context.Background(), zctx)
	// Cancel waits for the sort operator's goroutine to remove its spill directory.
	defer rctx.Cancel()
	q, err := compiler.NewFileSystemCompiler(localEngine).NewQuery(rctx, ast, []zio.Reader{r})
	if err != nil {
		return nil, 0, fmt.Errorf("compile %q: %w", src, err)
	}
	var out []zed.Value
	for {
		batch, err := q.Pull(false)
		if err != nil {
			return nil, r.maxRuns, err
		}
		if batch == nil {
			return out, r.maxRuns, nil
		}
		for _, v := range batch.Values() {
			out = append(out, v.Copy())
		}
		batch.Unref()
	}
}

// ---------------------------------------------------------------- generator

var sortKeyFields = []string{"k1", "k2", "k3"}

var nativeTypes = []zed.Type{zed.TypeInt64, zed.TypeInt64, zed.TypeUint64, zed.TypeUint64, zed.TypeInt8, zed.TypeUint8, zed.TypeInt32, zed.TypeTime, zed.TypeDuration}
var numericTypes = []zed.Type{zed.TypeInt64, zed.TypeUint64, zed.TypeFloat64, zed.TypeFloat64, zed.TypeFloat32, zed.TypeInt16, zed.TypeTime, zed.TypeDuration}
var scalarTypes = []zed.Type{zed.TypeString, zed.TypeString, zed.TypeBool, zed.TypeBytes, zed.TypeIP, zed.TypeNet, zed.TypeInt64, zed.TypeFloat64, zed.TypeTime, zed.TypeNull}

// drawPool draws m values (not necessarily distinct) for one key column.
func drawPool(t *rapid.T, zctx *zed.Context, tg *gen.TypeGen, vg *gen.ValGen, m int) []zed.Value {
	var types []zed.Type
	nt := rapid.SampledFrom([]int{1, 2, 2, 3, 4}).Draw(t, "nptypes")
	switch rapid.IntRange(0, 5).Draw(t, "palette") {
	case 0, 1: // integer-encoded only: the bulk sorter's native fast path when this is the first key
		types = rapid.SliceOfN(rapid.SampledFrom(nativeTypes), nt, nt).Draw(t, "ptypes")
	case 2:
		types = rapid.SliceOfN(rapid.SampledFrom(numericTypes), nt, nt).Draw(t, "ptypes")
	case 3:
		types = rapid.SliceOfN(rapid.SampledFrom(scalarTypes), nt, nt).Draw(t, "ptypes")
	case 4: // one generated (possibly complex) type: same-type container comparisons
		types = []zed.Type{tg.Draw(t, 2)}
	default: // anything
		for i := 0; i < nt; i++ {
			types = append(types, tg.Draw(t, 2))
		}
	}
	pool := make([]zed.Value, m)
	for i := range pool {
		pool[i] = vg.Value(t, rapid.SampledFrom(types).Draw(t, "ptype"))
	}
	return pool
}

func genSortCase(t *rapid.T) SortCase {
	zctx := zed.NewContext()
	tg := &gen.TypeGen{Zctx: zctx, Opts: gen.TypeOpts{MaxDepth: 2, SimpleNames: true}}
	vg := &gen.ValGen{Zctx: zctx, Types: tg, Opts: gen.ValOpts{NullPercent: 15, MaxLen: 3}}
	maxLen := 40
	if vt.Thorough() {
		maxLen = 120
	}
	n := 0
	if rapid.IntRange(0, 99).Draw(t, "empty?") != 50 { // (rapid favours the ends of a range; 50 is drawn about 1% of the time)
		n = rapid.IntRange(1, maxLen).Draw(t, "n")
	}
	c := SortCase{Seq: gen.Seq{Zctx: zctx}}
	c.Reverse = rapid.IntRange(0, 3).Draw(t, "reverse") == 0
	c.Nulls = rapid.SampledFrom([]string{"", "", "first", "last"}).Draw(t, "nulls")
	dirs := []string{"", "", "asc", "desc", "desc"}
	if rapid.IntRange(0, 4).Draw(t, "shape") == 0 {
		// top-level values of mixed types, sorted by `this` or with no sort expression
		pool := drawPool(t, zctx, tg, vg, rapid.SampledFrom([]int{1, 3, 4, 8, 15}).Draw(t, "m"))
		for i := 0; i < n; i++ {
			c.Seq.Vals = append(c.Seq.Vals, rapid.SampledFrom(pool).Draw(t, "v"))
		}
		if rapid.Bool().Draw(t, "nokey") {
			// With no sort expression a record in first position makes sort guess a field; keep that for the record shape.
			for i, v := range c.Seq.Vals {
				if zed.TypeRecordOf(v.Type()) == nil {
					c.Seq.Vals[0], c.Seq.Vals[i] = c.Seq.Vals[i], c.Seq.Vals[0]
					break
				}
			}
			if len(c.Seq.Vals) > 0 && zed.TypeRecordOf(c.Seq.Vals[0].Type()) != nil {
				c.Keys = []KeySpec{{Field: "this", Dir: rapid.SampledFrom(dirs).Draw(t, "dir")}}
			}
		} else {
			c.Keys = []KeySpec{{Field: "this", Dir: rapid.SampledFrom(dirs).Draw(t, "dir")}}
		}
	} else {
		// records: 1..3 shapes, each an ordered subset of {p, k1, k2, k3} plus the hidden ordinal at a drawn position
		nshape := rapid.IntRange(1, 3).Draw(t, "nshape")
		type shape struct{ fields []string }
		shapes := make([]shape, nshape)
		for i := range shapes {
			perm := rapid.Permutation([]string{"p", "k1", "k2", "k3"}).Draw(t, "perm")
			keep := rapid.IntRange(1, 4).Draw(t, "keep")
			fields := append([]string(nil), perm[:keep]...)
			at := rapid.IntRange(0, len(fields)).Draw(t, "ordpos")
			fields = append(fields[:at], append([]string{ordField}, fields[at:]...)...)
			shapes[i] = shape{fields}
		}
		pools := map[string][]zed.Value{}
		for _, f := range sortKeyFields {
			pools[f] = drawPool(t, zctx, tg, vg, rapid.SampledFrom([]int{1, 3, 4, 8, 15}).Draw(t, "m"))
		}
		pads := []string{"", "x", strings.Repeat("pad", 10), strings.Repeat("P", 100)}
		cur := 0
		for i := 0; i < n; i++ {
			if rapid.IntRange(0, 2).Draw(t, "sw") == 0 {
				cur = rapid.IntRange(0, nshape-1).Draw(t, "shape#")
			}
			var fields []zed.Field
			var b zcode.Builder
			for _, f := range shapes[cur].fields {
				switch f {
				case ordField:
					fields = append(fields, zed.NewField(f, zed.TypeTime))
					b.Append(zed.EncodeTime(nano.Ts(i)))
				case "p":
					fields = append(fields, zed.NewField(f, zed.TypeString))
					b.Append([]byte(rapid.SampledFrom(pads).Draw(t, "pad")))
				default:
					v := rapid.SampledFrom(pools[f]).Draw(t, "kv")
					fields = append(fields, zed.NewField(f, v.Type()))
					b.Append(v.Bytes())
				}
			}
			c.Seq.Vals = append(c.Seq.Vals, zed.NewValue(zctx.MustLookupTypeRecord(fields), b.Bytes()).Copy())
		}
		nkeys := rapid.SampledFrom([]int{0, 1, 1, 2, 2, 3}).Draw(t, "nkeys")
		perm := rapid.Permutation(sortKeyFields).Draw(t, "keyperm")
		for _, f := range perm[:nkeys] {
			c.Keys = append(c.Keys, KeySpec{Field: f, Dir: rapid.SampledFrom(dirs).Draw(t, "dir")})
		}
	}
	// batch sizes
	for covered := 0; covered < n; {
		var size int
		switch rapid.IntRange(0, 2).Draw(t, "bkind") {
		case 0:
			size = rapid.IntRange(1, 3).Draw(t, "bsmall")
		case 1:
			size = rapid.IntRange(1, max(1, n/3)).Draw(t, "bmid")
		default:
			size = rapid.IntRange(1, max(1, n)).Draw(t, "bbig")
		}
		c.Batches = append(c.Batches, size)
		covered += size
	}
	return c
}

// ---------------------------------------------------------------- oracle

var errThroughMapOrType = fmt.Errorf("key path leads through a map or type value")

// keyOf evaluates a field path on v the way the language defines field access
// on records: the field's value, or error("missing") when v has no such field.
func keyOf(zctx *zed.Context, v zed.Value, path field.Path) (zed.Value, error) {
	for _, name := range path {
		v = v.Under()
		switch typ := v.Type().(type) {
		case *zed.TypeRecord:
			i, ok := typ.IndexOfField(name)
			if !ok || v.IsNull() {
				if v.IsNull() && ok {
					// a field of a null record: the runtime returns a null of the field type
					v = zed.NewValue(typ.Fields[i].Type, nil)
					continue
				}
				return zctx.Missing(), nil
			}
			it := v.Bytes().Iter()
			var body zcode.Bytes
			for k := 0; k <= i; k++ {
				body = it.Next()
			}
			v = zed.NewValue(typ.Fields[i].Type, body)
		case *zed.TypeMap, *zed.TypeOfType:
			return zed.Null, errThroughMapOrType
		default:
			return zctx.Missing(), nil
		}
	}
	return v, nil
}

type sortOracle struct {
	keys   [][]zed.Value      // keys[r][k]: key k of input value r
	docs   []*expr.Comparator // per key: direction and null placement as documented (nulls last/first for every key)
	actual []*expr.Comparator // per key: null placement derived from the first key's direction only (what sort.Op does)
}

func (so *sortOracle) cmp(cs []*expr.Comparator, r, s int) int {
	for k, c := range cs {
		if v := c.Compare(so.keys[r][k], so.keys[s][k]); v != 0 {
			return v
		}
	}
	return 0
}

func (so *sortOracle) stable(cs []*expr.Comparator, n int) []int {
	idx := make([]int, n)
	for i := range idx {
		idx[i] = i
	}
	sort.SliceStable(idx, func(i, j int) bool { return so.cmp(cs, idx[i], idx[j]) < 0 })
	return idx
}

func sameInts(a, b []int) bool {
	if len(a) != len(b) {
		return false
	}
	for i := range a {
		if a[i] != b[i] {
			return false
		}
	}
	return true
}

// keyPaths returns the key paths and directions of the case (before -r is applied).
func (c SortCase) keyPaths() (paths []field.Path, desc []bool) {
	if len(c.Keys) == 0 {
		if len(c.Seq.Vals) == 0 {
			return nil, nil
		}
		return []field.Path{sortop.GuessSortKey(c.Seq.Vals[0])}, []bool{false}
	}
	for _, k := range c.Keys {
		if k.Field == "this" {
			paths = append(paths, nil)
		} else {
			paths = append(paths, field.Path{k.Field})
		}
		desc = append(desc, k.Dir == "desc")
	}
	return paths, desc
}

// foreignContextHazard describes the precondition of the known finding
// sigSpillCtx: the sort operator's compiled key expressions (expr.DotExpr)
// cache "index of field f" per record type ID, and the same expressions are
// applied both to input values and to values read back from spill files in a
// fresh zed.Context, where type IDs are assigned differently.  The cache can
// only be wrong when two top-level record types of the input disagree on the
// position (or presence) of a key field.  panics reports whether the stale
// index can exceed a record's field count (the operator's goroutine then
// panics and takes the process down, so such cases cannot be run with spills).
func foreignContextHazard(in []zed.Value, paths []field.Path) (hazard, panics bool) {
	types := map[zed.Type]bool{}
	var recs []*zed.TypeRecord
	nonRecord := false
	for _, v := range in {
		if !types[v.Type()] {
			types[v.Type()] = true
			if rt := zed.TypeRecordOf(v.Type()); rt != nil {
				recs = append(recs, rt)
			} else {
				nonRecord = true
			}
		}
	}
	for _, p := range paths {
		if len(p) == 0 {
			continue
		}
		if len(p) > 1 && len(types) > 1 {
			// nested (guessed) path: inner record types take part too; be conservative
			return true, true
		}
		for _, rt := range recs {
			i, ok := rt.IndexOfField(p[0])
			j, ok0 := recs[0].IndexOfField(p[0])
			if ok != ok0 || i != j {
				hazard = true
			}
		}
	}
	if hazard {
		for _, rt := range recs {
			if len(rt.Fields) != len(recs[0].Fields) {
				panics = true
			}
		}
		if nonRecord {
			panics = true
		}
	}
	return hazard, panics
}

func runSortCase(c SortCase) *vt.Outcome {
	o := &vt.Outcome{}
	in := c.Seq.Vals
	n := len(in)
	zctx := c.Seq.Zctx
	src := c.program()
	paths, desc := c.keyPaths()

	// ---- known finding sigSpillCtx: which limits can be run, which failures it explains
	hazard, panics := foreignContextHazard(in, paths)
	hazard = hazard && vt.IsKnown(sigSpillCtx)
	limits := memLimits
	if hazard {
		o.Label("foreign-context-hazard")
		if panics {
			limits = memLimits[len(memLimits)-1:]
			o.Label("excluded:spill-with-foreign-context-hazard")
		}
	}

	// ---- run the operator at every memory limit
	saved := sortop.MemMaxBytes
	defer func() { sortop.MemMaxBytes = saved }()
	outs := make([][]zed.Value, len(limits))
	runs := make([]int, len(limits))
	for li, limit := range limits {
		sortop.MemMaxBytes = limit
		out, nruns, err := runProgram(zctx, src, in, c.Batches)
		if err != nil {
			o.Fail = vt.Failf("C06/sort/query-error", "%q at MemMaxBytes=%d: %v", src, limit, err)
			return o
		}
		outs[li], runs[li] = out, nruns
	}
	sortop.MemMaxBytes = saved
	o.Evals = len(limits)
	maxRuns := 0
	for li, r := range runs {
		maxRuns = max(maxRuns, r)
		if r > 0 {
			o.Label(fmt.Sprintf("spill@%d", limits[li]))
		}
	}
	if maxRuns > 0 {
		o.Label("spilled")
	}
	if maxRuns >= 2 {
		o.Label("multi-run")
	}
	if maxRuns >= 4 {
		o.Label("runs>=4")
	}
	how := func(li int) string {
		if runs[li] > 0 {
			return "spilled"
		}
		return "in-memory"
	}
	// ---- permutation at every limit
	for li, out := range outs {
		if d := oracle.SameMultiset(in, out); d != "" {
			o.Fail = vt.Failf("C06/sort/not-a-permutation/"+how(li), "%q at MemMaxBytes=%d (%d spill runs): %s", src, limits[li], runs[li], d)
			return o
		}
	}
	o.Label(fmt.Sprintf("nkeys:%d", len(c.Keys)))
	if n == 0 {
		o.Label("empty")
		return o
	}

	// ---- the sort spec as documented
	if len(c.Keys) == 0 {
		o.Label("no-key")
		if len(paths[0]) > 0 {
			o.Label("guessed-field")
		}
	}
	nullsLast := c.Nulls != "first"
	mixedDirs := false
	so := &sortOracle{keys: make([][]zed.Value, n)}
	for k := range paths {
		if c.Reverse {
			desc[k] = !desc[k]
		}
		if desc[k] != desc[0] {
			mixedDirs = true
		}
		which := order.Asc
		if desc[k] {
			which = order.Desc
		}
		// nulls last: a null must compare greater in output order; Compare swaps its
		// operands for a descending key, so nullsMax is inverted for those.
		so.docs = append(so.docs, thisComparator(nullsLast != desc[k], which).WithMissingAsNull())
		so.actual = append(so.actual, thisComparator(nullsLast != desc[0], which).WithMissingAsNull())
	}
	for r, v := range in {
		for _, p := range paths {
			kv, err := keyOf(zctx, v, p)
			if err != nil {
				return &vt.Outcome{Skip: "guessed-key-through-map-or-type"}
			}
			so.keys[r] = append(so.keys[r], kv)
		}
	}
	if c.Reverse {
		o.Label("reverse")
	}
	if desc[0] {
		o.Label("first-key-desc")
	}
	if mixedDirs {
		o.Label("mixed-directions")
	}
	if !nullsLast {
		o.Label("nulls-first")
	}

	// ---- measured classes
	types0 := map[zed.Type]bool{}
	native, nulls, missing := true, false, false
	for r := range in {
		k0 := so.keys[r][0]
		if k0.IsMissing() {
			missing = true
		} else {
			types0[k0.Type()] = true
			if k0.IsNull() {
				nulls = true
			}
		}
		if k0.Type().ID() > zed.IDTime {
			native = false
		}
	}
	if len(types0) >= 2 {
		o.Label("mixed-key-types")
	}
	if native {
		o.Label("native-fast-path")
	}
	if nulls {
		o.Label("null-keys")
	}
	if missing {
		o.Label("missing-keys")
	}
	shapes := map[zed.Type]bool{}
	for _, v := range in {
		shapes[v.Type()] = true
	}
	if len(shapes) >= 2 {
		o.Label("multi-shape")
	}

	// ---- known: a key column holding an integer/float pair the repo compares inexactly has no defined order
	lossy := false
	for k := range paths {
		cmpk := thisComparator(true, order.Asc)
		var nums []zed.Value
		seen := map[string]bool{}
		for r := range in {
			kv := so.keys[r][k]
			if kv.IsNull() || !zed.IsNumber(kv.Type().ID()) {
				continue
			}
			if key := oracle.Key(kv); !seen[key] {
				seen[key] = true
				nums = append(nums, kv)
			}
		}
		for _, a := range nums {
			for _, b := range nums {
				if _, l := lossyPair(a, b, cmpk.Compare(a, b)); l {
					lossy = true
				}
			}
		}
	}

	// ---- map outputs back to input positions
	byKey := map[string][]int{}
	for r, v := range in {
		k := oracle.Key(v)
		byKey[k] = append(byKey[k], r)
	}
	perms := make([][]int, len(outs))
	for li, out := range outs {
		next := map[string]int{}
		perm := make([]int, len(out))
		for p, v := range out {
			k := oracle.Key(v)
			perm[p] = byKey[k][next[k]] // identical values are interchangeable: take them in input order
			next[k]++
		}
		perms[li] = perm
	}

	ties := false
	expDocs := so.stable(so.docs, n)
	for p := 0; p+1 < n; p++ {
		switch v := so.cmp(so.docs, expDocs[p], expDocs[p+1]); {
		case v == 0:
			ties = true
		case v > 0 && !lossy:
			// the reference order is not sorted under its own comparator: the comparator is not a preorder on these keys
			o.Fail = vt.Failf("C06/sort/comparator-inconsistent-on-keys", "%q: a stable sort with the repo's comparator is not non-decreasing at position %d: %s then %s",
				src, p, show(in[expDocs[p]]), show(in[expDocs[p+1]]))
			return o
		}
	}
	if ties {
		o.Label("ties")
	}
	o.NonTrivial = len(types0) >= 2 || maxRuns > 0 || ties
	if lossy {
		o.Known = append(o.Known, sigLossy)
		o.Label("excluded:lossy-int-float-in-key")
		if !vt.IsKnown(sigLossy) {
			o.Fail = vt.Failf(sigLossy, "%q: key column holds an integer/float pair that the comparator orders inexactly", src)
		}
		return o
	}

	// ---- sorted, stable, and the same at every limit
	var expActual []int
	verdict := func(li int) *vt.Failure {
		perm := perms[li]
		if sameInts(perm, expDocs) {
			return nil
		}
		if mixedDirs {
			if expActual == nil {
				expActual = so.stable(so.actual, n)
			}
			if sameInts(perm, expActual) {
				// Sorted and stable, except that nulls of later keys are placed by the first key's direction.
				p := firstDiff(perm, expDocs)
				return vt.Failf(sigNullsSecondary, "%q at MemMaxBytes=%d: output position %d is %s, expected %s: docs say nulls are placed last (or first with -nulls first) "+
					"for ascending and descending keys alike, but a key whose direction differs from the first key's gets the opposite placement",
					src, limits[li], p, show(in[perm[p]]), show(in[expDocs[p]]))
			}
		}
		for p := 0; p+1 < len(perm); p++ {
			if v := so.cmp(so.docs, perm[p], perm[p+1]); v > 0 {
				return vt.Failf("C06/sort/not-sorted/"+how(li), "%q at MemMaxBytes=%d (%d spill runs, batches %v): output position %d: %s is followed by %s which compares lower (keys %s vs %s)",
					src, limits[li], runs[li], c.Batches, p, show(in[perm[p]]), show(in[perm[p+1]]), showKeys(so.keys[perm[p]]), showKeys(so.keys[perm[p+1]]))
			}
		}
		p := firstDiff(perm, expDocs)
		return vt.Failf("C06/sort/unstable/"+how(li), "%q at MemMaxBytes=%d (%d spill runs, batches %v): output is sorted but equal keys are not in input order: position %d is input #%d %s, a stable sort puts input #%d %s there",
			src, limits[li], runs[li], c.Batches, p, perm[p], show(in[perm[p]]), expDocs[p], show(in[expDocs[p]]))
	}
	seenKnown := map[string]bool{}
	noteKnown := func(sig string) {
		if !seenKnown[sig] {
			seenKnown[sig] = true
			o.Known = append(o.Known, sig)
		}
	}
	for li := len(limits) - 1; li >= 0; li-- { // the spill-free limit first
		f := verdict(li)
		switch {
		case f == nil:
		case hazard && runs[li] > 0:
			// explained by the known foreign-context finding (the spill-free run of this case was checked in full)
			noteKnown(sigSpillCtx)
		case f.Sig == sigNullsSecondary && vt.IsKnown(sigNullsSecondary):
			noteKnown(sigNullsSecondary)
		default:
			o.Fail = f
			return o
		}
	}
	ref := len(limits) - 1
	for li := 0; li < ref; li++ {
		if hazard && runs[li] > 0 {
			continue
		}
		if d := oracle.Same(outs[ref], outs[li]); d != "" {
			o.Fail = vt.Failf("C06/sort/differs-across-memory-limits", "%q: output at MemMaxBytes=%d (%d spill runs) differs from output at %d (no spill): %s", src, limits[li], runs[li], limits[ref], d)
			return o
		}
	}
	return o
}

func firstDiff(a, b []int) int {
	for i := range a {
		if i >= len(b) || a[i] != b[i] {
			return i
		}
	}
	return 0
}

func showKeys(ks []zed.Value) string {
	var parts []string
	for _, k := range ks {
		parts = append(parts, show(k))
	}
	return "(" + strings.Join(parts, ", ") + ")"
}

var sortProp = &vt.Prop[SortCase]{
	Name: "TestSortOp",
	Rule: "case = (sequence of 0..40 (thorough 120) values: records of 1..3 shapes over fields {p,k1,k2,k3} in drawn order with a hidden ordinal field, key columns drawn from small pools of mixed-type values incl. nulls, " +
		"absent fields = missing keys; or top-level values of mixed types), sort spec (0..3 keys, asc/desc/unspecified per key, -r, -nulls first|last), generated batch boundaries; " +
		"the program `sort ...` runs through compiler+runtime at sort.MemMaxBytes in {1, 64, 1024, 128Mi}; each output must be a permutation of the input equal to the stable sort of the input under the " +
		"repo's single-key comparators composed lexicographically as documented, and all four outputs must be identical. Non-trivial: >=2 distinct types in the first key column, or a spill happened, or ties exist.",
	Gen: genSortCase,
	Run: runSortCase,
}

func init() { sortProp.Register() }

func TestSortOp(t *testing.T) { sortProp.Check(t) }
