package c06

import (
	"bytes"
	"context"
	"fmt"
	"math"
	"net/netip"
	"os"
	"sort"
	"strconv"
	"strings"
	"testing"
	"time"

	zed "github.com/brimdata/super"
	"github.com/brimdata/super/compiler"
	"github.com/brimdata/super/order"
	"github.com/brimdata/super/pkg/nano"
	"github.com/brimdata/super/runtime"
	"github.com/brimdata/super/runtime/sam/expr"
	"github.com/brimdata/super/zbuf"
	"github.com/brimdata/super/zcode"
	"github.com/brimdata/super/zio"
	"github.com/brimdata/super/zson"
	"pgregory.net/rapid"

	"verif/gen"
	"verif/oracle"
	"verif/vt"
)

// ---------------------------------------------------------------- universe

var (
	uctx     = zed.NewContext()
	universe []zed.Value // the full curated universe (thorough tier)
	coreIdx  []int       // indexes of the core subset (quick tier)
	extended bool        // set while init adds values that are not in the core subset
)

func addU(vals ...zed.Value) {
	for _, v := range vals {
		if !extended {
			coreIdx = append(coreIdx, len(universe))
		}
		universe = append(universe, v)
	}
}

func addZ(texts ...string) {
	for _, s := range texts {
		v, err := zson.ParseValue(uctx, s)
		if err != nil {
			panic(fmt.Sprintf("harness: universe value %q: %v", s, err))
		}
		addU(v.Copy())
	}
}

// ext adds values to the full universe only.
func ext(f func()) {
	extended = true
	f()
	extended = false
}

func init() {
	const p53 = 1 << 53
	// signed integers of every width
	addU(zed.NewInt8(math.MinInt8), zed.NewInt8(0), zed.NewInt8(math.MaxInt8))
	addU(zed.NewInt16(math.MinInt16), zed.NewInt16(math.MaxInt16))
	addU(zed.NewInt32(math.MinInt32), zed.NewInt32(math.MaxInt32))
	for _, x := range []int64{math.MinInt64, math.MinInt64 + 1, -p53 - 1, -p53, -1, 0, 1, p53, p53 + 1, p53 + 2, math.MaxInt64 - 1, math.MaxInt64} {
		addU(zed.NewInt64(x))
	}
	ext(func() {
		addU(zed.NewInt8(-1), zed.NewInt8(1), zed.NewInt16(1), zed.NewInt32(-1), zed.NewInt64(2), zed.NewInt64(p53-1))
	})
	// unsigned integers of every width
	addU(zed.NewUint8(0), zed.NewUint8(math.MaxUint8), zed.NewUint16(math.MaxUint16), zed.NewUint32(math.MaxUint32))
	for _, x := range []uint64{0, p53, p53 + 1, 1<<63 - 1, 1 << 63, 1<<63 + 1, math.MaxUint64 - 1, math.MaxUint64} {
		addU(zed.NewUint64(x))
	}
	ext(func() { addU(zed.NewUint8(1), zed.NewUint16(1), zed.NewUint32(0), zed.NewUint64(1)) })
	// floats
	for _, f := range []float64{math.Inf(-1), -(1 << 63), -1, math.Copysign(0, -1), 0, 0.5, 1, p53, p53 + 2,
		1 << 63, 1 << 64, math.MaxFloat64, math.Inf(1), math.NaN()} {
		addU(zed.NewFloat64(f))
	}
	addU(zed.NewFloat32(float32(math.Copysign(0, -1))), zed.NewFloat32(1<<63), zed.NewFloat32(float32(math.NaN())))
	addU(zed.NewFloat16(1), zed.NewFloat16(float32(math.Inf(1))))
	ext(func() {
		addU(zed.NewFloat64(-p53), zed.NewFloat64(1.5), zed.NewFloat32(1), zed.NewFloat32(float32(math.Inf(-1))),
			zed.NewFloat16(0.5), zed.NewFloat16(float32(math.NaN())))
	})
	// durations and times
	for _, x := range []int64{math.MinInt64, 0, p53 + 1, math.MaxInt64} {
		addU(zed.NewDuration(nano.Duration(x)))
	}
	for _, x := range []int64{math.MinInt64, 0, 1, math.MaxInt64} {
		addU(zed.NewTime(nano.Ts(x)))
	}
	ext(func() {
		addU(zed.NewDuration(-1), zed.NewDuration(1), zed.NewTime(-1), zed.NewTime(p53+1))
	})
	addU(zed.True, zed.False)
	// strings, bytes
	for _, s := range []string{"", "a", "b", "A", "é", strings.Repeat("x", 300)} {
		addU(zed.NewString(s))
	}
	for _, b := range [][]byte{{}, {0}, {'a'}} {
		addU(zed.NewBytes(b))
	}
	ext(func() {
		for _, s := range []string{"a\x00", "ab", "1", "日本"} {
			addU(zed.NewString(s))
		}
		addU(zed.NewBytes([]byte{'a', 0}), zed.NewBytes([]byte{0xff}))
	})
	// ips and nets
	for _, s := range []string{"0.0.0.0", "10.0.0.1", "::", "::ffff:10.0.0.1", "2001:db8::1"} {
		addU(zed.NewIP(netip.MustParseAddr(s)))
	}
	for _, s := range []string{"0.0.0.0/0", "10.0.0.0/8", "2001:db8::/32"} {
		addU(zed.NewNet(netip.MustParsePrefix(s)))
	}
	ext(func() {
		addU(zed.NewIP(netip.MustParseAddr("255.255.255.255")), zed.NewIP(netip.MustParseAddr("::1")))
		addU(zed.NewNet(netip.MustParsePrefix("10.0.0.0/16")), zed.NewNet(netip.MustParsePrefix("::/0")))
	})
	// type values
	addZ("<int64>", "<uint8>", "<string>", "<null>", "<{a:int64}>", "<{a:string}>", "<{b:int64}>", "<[int64]>", "<|[int64]|>", "<(int64,string)>",
		"<foo=int64>", "<bar=int64>", "<error(string)>", "<enum(A,B)>")
	ext(func() {
		addZ("<float64>", "<type>", "<{a:int64,b:int64}>", "<[string]>", "<(int64,float64,string)>", "<foo2={a:int64}>",
			"<error({a:int64})>", "<enum(A,C)>", "<|{string:int64}|>", "<{a:foo=int64}>")
	})
	// nulls of several types, untyped null, missing and other errors
	addZ("null", "null(int64)", "null(uint64)", "null(float64)", "null(time)", "null(string)", "null({a:int64})", "null((int64,string))")
	addU(uctx.Missing(), uctx.Quiet())
	addZ(`error(1)`, `error({a:1})`)
	ext(func() {
		addZ("null(ip)", "null([int64])", "null(foo=int64)", "null(error(string))", "null(type)", `error("a")`)
	})
	// arrays and sets
	addZ("[]", "[1]", "[2]", "[1,2]", "[1,null(int64)]", "[null(int64)]", "[null(int64),1]", `["a"]`, "[1.]", "[[1]]", `[1,"a"]`)
	addZ("|[]|", "|[1]|", "|[1,2]|", `|["a"]|`)
	ext(func() {
		addZ("[1,2,3]", `["a","b"]`, "[[1],[2]]", `["a",1]`, "[1(uint8)]", "[{a:1}]", "[null]", "|[2]|", "|[1.]|")
	})
	// records
	addZ("{}", "{a:1}", "{a:2}", "{a:1,b:2}", "{b:1}", `{a:"x"}`, "{a:null(int64)}", "{a:1.}", "{a:{b:1}}")
	ext(func() { addZ("{a:1,b:1}", "{a:[1]}", "{a:1(uint8)}") })
	// maps
	addZ("|{}|", "|{1:2}|", `|{"a":1}|`)
	ext(func() { addZ("|{1:3}|", "|{1:2,3:4}|") })
	// unions
	addZ(`1((int64,string))`, `"a"((int64,string))`, `9007199254740993((int64,float64))`, `9007199254740992.((int64,float64))`, `1((int64,float64,string))`)
	ext(func() { addZ(`2((int64,string))`) })
	// named
	addZ("80(port=uint16)", "1(foo=int64)", "9007199254740993(foo=int64)", "1(bar=int64)", "1.(flt=float64)", "{a:1}(=foo2)", "[1](=arr)")
	ext(func() { addZ(`"a"(str=string)`, "10.0.0.1(addr=ip)") })
	// enums
	addZ("%A(enum(A,B))", "%B(enum(A,B))", "%A(enum(A,C))")
	for _, v := range universe {
		if err := v.Validate(); err != nil {
			panic(fmt.Sprintf("harness: invalid universe value %s: %v", oracle.Show(v), err))
		}
	}
}

// ---------------------------------------------------------------- case

// LawsCase is one shard of the enumeration over a universe.  When Vals is
// empty the universe is the curated one (the full one when Full is set, the
// core subset otherwise); else it is Vals (replay files and the sampled test).
type LawsCase struct {
	Shard   int     `json:"shard"`
	NShards int     `json:"nshards"`
	Full    bool    `json:"full,omitempty"`
	Vals    gen.Seq `json:"vals"`
}

func (c LawsCase) curated() bool { return len(c.Vals.Vals) == 0 }

func (c LawsCase) values() []zed.Value {
	if !c.curated() {
		return c.Vals.Vals
	}
	if c.Full {
		return universe
	}
	out := make([]zed.Value, len(coreIdx))
	for p, i := range coreIdx {
		out[p] = universe[i]
	}
	return out
}

type lawFailure struct {
	sig      string
	count    int
	examples []string
}

type lawReport struct {
	bySig map[string]*lawFailure
	order []string
}

func (r *lawReport) add(sig string, format string, args ...any) {
	if r.bySig == nil {
		r.bySig = map[string]*lawFailure{}
	}
	f := r.bySig[sig]
	if f == nil {
		f = &lawFailure{sig: sig}
		r.bySig[sig] = f
		r.order = append(r.order, sig)
	}
	f.count++
	if len(f.examples) < 4 {
		f.examples = append(f.examples, fmt.Sprintf(format, args...))
	}
}

func show(v zed.Value) string {
	s := oracle.Show(v)
	typ := zson.FormatType(v.Type())
	if len(s) > 80 {
		s = s[:80] + "..."
	}
	return s + " <" + typ + ">"
}

func sameValue(a, b zed.Value) bool {
	return a.Type() == b.Type() && a.IsNull() == b.IsNull() && bytes.Equal(a.Bytes(), b.Bytes())
}

var nullsMaxes = []bool{true, false}
var orders = []order.Which{order.Asc, order.Desc}

type matrix [][]int8

func newMatrix(n int) matrix {
	m := make(matrix, n)
	for i := range m {
		m[i] = make([]int8, n)
	}
	return m
}

// holds3 checks reflexivity, antisymmetry and transitivity of <= on the
// restriction of m to the three indexes.
func (m matrix) holds3(x, y, z int) bool {
	idx := [3]int{x, y, z}
	for _, a := range idx {
		if m[a][a] != 0 {
			return false
		}
		for _, b := range idx {
			if m[a][b] != -m[b][a] {
				return false
			}
			for _, c := range idx {
				if m[a][b] <= 0 && m[b][c] <= 0 && m[a][c] > 0 {
					return false
				}
			}
		}
	}
	return true
}

func kinds(vals ...zed.Value) string {
	var ks []string
	for _, v := range vals {
		ks = append(ks, kindOf(v))
	}
	sort.Strings(ks)
	// collapse duplicates: the class is the set of kinds involved
	out := ks[:0]
	for i, k := range ks {
		if i == 0 || k != ks[i-1] {
			out = append(out, k)
		}
	}
	return strings.Join(out, "+")
}

// compareInQuery evaluates compare(a,b,true), compare(a,b,false) and
// compare(a,b) for every pair (rows[i], vals[j]) through a compiled query.
func compareInQuery(zctx *zed.Context, vals []zed.Value, rows []int) ([][3]int64, error) {
	var recs []zed.Value
	for _, i := range rows {
		for j := range vals {
			typ := zctx.MustLookupTypeRecord([]zed.Field{zed.NewField("a", vals[i].Type()), zed.NewField("b", vals[j].Type())})
			var b zcode.Builder
			b.Append(vals[i].Bytes())
			b.Append(vals[j].Bytes())
			recs = append(recs, zed.NewValue(typ, b.Bytes()).Copy())
		}
	}
	out, err := runQuery(zctx, "yield [compare(a,b,true),compare(a,b,false),compare(a,b)]", zbuf.NewArray(recs))
	if err != nil {
		return nil, err
	}
	if len(out) != len(recs) {
		return nil, fmt.Errorf("compare query returned %d values for %d inputs", len(out), len(recs))
	}
	res := make([][3]int64, len(out))
	for n, v := range out {
		arr, ok := v.Type().(*zed.TypeArray)
		if !ok || arr.Type != zed.TypeInt64 {
			return nil, fmt.Errorf("compare query returned %s for input %s", oracle.Show(v), oracle.Show(recs[n]))
		}
		it := v.Iter()
		for k := 0; k < 3; k++ {
			if it.Done() {
				return nil, fmt.Errorf("compare query returned %s", oracle.Show(v))
			}
			eb := it.Next()
			if eb == nil {
				return nil, fmt.Errorf("compare query returned %s", oracle.Show(v))
			}
			res[n][k] = zed.DecodeInt(eb)
		}
	}
	return res, nil
}

// runQuery compiles src with the file-system compiler and runs it over r.
func runQuery(zctx *zed.Context, src string, r zio.Reader) ([]zed.Value, error) {
	ast, _, err := compiler.Parse(src)
	if err != nil {
		return nil, fmt.Errorf("parse %q: %w", src, err)
	}
	rctx := runtime.NewContext(context.Background(), zctx)
	defer rctx.Cancel()
	q, err := compiler.NewFileSystemCompiler(localEngine).NewQuery(rctx, ast, []zio.Reader{r})
	if err != nil {
		return nil, fmt.Errorf("compile %q: %w", src, err)
	}
	var out []zed.Value
	for {
		batch, err := q.Pull(false)
		if err != nil {
			return nil, err
		}
		if batch == nil {
			return out, nil
		}
		for _, v := range batch.Values() {
			out = append(out, v.Copy())
		}
		batch.Unref()
	}
}

func runLaws(c LawsCase) *vt.Outcome {
	vals := c.values()
	n := len(vals)
	nsh := max(1, c.NShards)
	shard := c.Shard % nsh
	o := &vt.Outcome{}
	var rep lawReport
	inShard := func(i int) bool { return i%nsh == shard }
	var rows []int
	for i := 0; i < n; i++ {
		if inShard(i) {
			rows = append(rows, i)
		}
	}
	evals := 0

	// ---- pair matrices from Comparator.Compare (all pairs, every shard: cheap)
	M := map[bool]matrix{}    // repo
	Mfix := map[bool]matrix{} // repo with integer/float pairs compared exactly (see lossyPair)
	for _, nm := range nullsMaxes {
		cmpAsc := thisComparator(nm, order.Asc)
		m, mf := newMatrix(n), newMatrix(n)
		for i := 0; i < n; i++ {
			for j := 0; j < n; j++ {
				r := cmpAsc.Compare(vals[i], vals[j])
				evals++
				m[i][j] = int8(sign(r))
				exact, _ := lossyPair(vals[i], vals[j], r)
				mf[i][j] = int8(sign(exact))
			}
		}
		M[nm], Mfix[nm] = m, mf
	}

	// ---- pair laws and agreement of the single-pair interfaces (rows of this shard)
	cq, err := compareInQuery(c.zctx(), vals, rows)
	if err != nil {
		o.Fail = vt.Failf("C06/compare-query-failed", "%v", err)
		return o
	}
	for _, nm := range nullsMaxes {
		m := M[nm]
		fnAsc := expr.NewValueCompareFn(order.Asc, nm)
		fnDesc := expr.NewValueCompareFn(order.Desc, nm)
		cmpDesc := thisComparator(nm, order.Desc)
		qcol := 0
		if !nm {
			qcol = 1
		}
		for ri, i := range rows {
			for j := 0; j < n; j++ {
				a, b := vals[i], vals[j]
				evals += 4
				if i == j && m[i][j] != 0 {
					rep.add("C06/irreflexive/"+kinds(a), "nullsMax=%v: Compare(x,x)=%d for x=%s", nm, m[i][j], show(a))
				}
				if m[i][j] != -m[j][i] {
					rep.add("C06/antisymmetry/"+kinds(a, b), "nullsMax=%v: Compare(a,b)=%d but Compare(b,a)=%d for a=%s b=%s", nm, m[i][j], m[j][i], show(a), show(b))
				}
				if r := sign(fnAsc(a, b)); r != int(m[i][j]) {
					rep.add("C06/disagree/value-compare-fn/"+kinds(a, b), "nullsMax=%v: NewValueCompareFn(asc)=%d, Comparator.Compare=%d for a=%s b=%s", nm, r, m[i][j], show(a), show(b))
				}
				if r := sign(fnDesc(a, b)); r != int(m[j][i]) {
					rep.add("C06/disagree/value-compare-fn-desc/"+kinds(a, b), "nullsMax=%v: NewValueCompareFn(desc)(a,b)=%d, Compare(b,a)=%d for a=%s b=%s", nm, r, m[j][i], show(a), show(b))
				}
				if r := sign(cmpDesc.Compare(a, b)); r != int(m[j][i]) {
					rep.add("C06/disagree/comparator-desc/"+kinds(a, b), "nullsMax=%v: desc Compare(a,b)=%d, asc Compare(b,a)=%d for a=%s b=%s", nm, r, m[j][i], show(a), show(b))
				}
				q := cq[ri*n+j]
				if q[qcol] != int64(m[i][j]) {
					rep.add("C06/disagree/compare-function/"+kinds(a, b), "compare(a,b,%v) in a query = %d, Comparator.Compare = %d for a=%s b=%s", nm, q[qcol], m[i][j], show(a), show(b))
				}
				if nm && q[2] != q[0] {
					rep.add("C06/compare-function-default-nullsmax", "compare(a,b)=%d but compare(a,b,true)=%d (docs: nullsMax is true by default) for a=%s b=%s", q[2], q[0], show(a), show(b))
				}
			}
		}
	}

	// ---- triples: transitivity of <=, and the bulk sorter on 2- and 3-element slices
	triples, lossyTriples, sorted3, skipped3 := 0, 0, 0, 0
	buf := make([]zed.Value, 3)
	for _, nm := range nullsMaxes {
		m, mf := M[nm], Mfix[nm]
		for _, i := range rows {
			for j := 0; j < n; j++ {
				for k := 0; k < n; k++ {
					if m[i][j] <= 0 && m[j][k] <= 0 && m[i][k] > 0 {
						a, b, cc := vals[i], vals[j], vals[k]
						if mf[i][j] <= 0 && mf[j][k] <= 0 && mf[i][k] > 0 || !mf.holds3(i, j, k) {
							rep.add("C06/intransitive/"+kinds(a, b, cc), "nullsMax=%v: a<=b (%d), b<=c (%d) but a>c (%d) for a=%s b=%s c=%s", nm, m[i][j], m[j][k], m[i][k], show(a), show(b), show(cc))
						} else {
							lossyTriples++
							rep.add(sigLossy, "nullsMax=%v: a<=b (%d), b<=c (%d) but a>c (%d) for a=%s b=%s c=%s; with integers and floats compared exactly the triple is consistent",
								nm, m[i][j], m[j][k], m[i][k], show(a), show(b), show(cc))
						}
					}
				}
			}
		}
		triples += len(rows) * n * n
		for _, ord := range orders {
			c1 := thisComparator(nm, ord)
			// less in the output order of this configuration
			rel := func(x, y int) int8 {
				if ord == order.Desc {
					return m[y][x]
				}
				return m[x][y]
			}
			check := func(in []int) {
				for p, x := range in {
					buf[p] = vals[x]
				}
				s := buf[:len(in)]
				c1.SortStable(s)
				// expected: stable insertion sort under rel
				var exp [3]int
				ne := 0
				for _, x := range in {
					p := ne
					for p > 0 && rel(x, exp[p-1]) < 0 {
						exp[p] = exp[p-1]
						p--
					}
					exp[p] = x
					ne++
				}
				ok := true
				for p := range in {
					if !sameValue(s[p], vals[exp[p]]) {
						ok = false
					}
				}
				if ok {
					sorted3++
					return
				}
				x, y, z := in[0], in[1%len(in)], in[len(in)-1]
				if !m.holds3(x, y, z) {
					// the comparator is not a preorder on these values (reported by the law checks): no order is defined
					skipped3++
					return
				}
				var ins, outs, exps []string
				var vs []zed.Value
				for p, x := range in {
					ins = append(ins, show(vals[x]))
					outs = append(outs, show(s[p]))
					exps = append(exps, show(vals[exp[p]]))
					vs = append(vs, vals[x])
				}
				rep.add(fmt.Sprintf("C06/disagree/sortstable-%d/%s", len(in), kinds(vs...)),
					"nullsMax=%v order=%v: SortStable(%s) = %s but Comparator.Compare orders them (stably) %s", nm, ord, strings.Join(ins, ", "), strings.Join(outs, ", "), strings.Join(exps, ", "))
			}
			for _, i := range rows {
				for j := 0; j < n; j++ {
					check([]int{i, j})
					for k := 0; k < n; k++ {
						check([]int{i, j, k})
					}
				}
			}
		}
	}
	evals += 2*triples + sorted3 + skipped3

	// ---- outcome
	o.Evals = evals
	o.NonTrivial = true
	if c.curated() {
		// one unit per ordered pair (i,j): all n triples (i,j,*) were enumerated
		for _, i := range rows {
			for j := 0; j < n; j++ {
				o.Units = append(o.Units, strconv.Itoa(i)+","+strconv.Itoa(j))
			}
		}
	}
	o.Label(fmt.Sprintf("universe:%d", n))
	if lossyTriples > 0 {
		o.Label("has-lossy-triples")
	}
	if skipped3 > 0 {
		o.Label("sortstable-skipped-on-inconsistent-triples")
	}
	if c.curated() {
		o.Sample = map[string]any{"shard": shard, "nshards": nsh, "universe": n, "ordered_triples": triples / 2, "comparisons": evals,
			"sortstable_slices": sorted3 + skipped3, "lossy_triples": lossyTriples}
	}
	var unknown []*lawFailure
	for _, sig := range rep.order {
		f := rep.bySig[sig]
		if vt.IsKnown(sig) {
			o.Known = append(o.Known, sig)
			continue
		}
		unknown = append(unknown, f)
	}
	if len(unknown) > 0 {
		var sb strings.Builder
		for _, f := range unknown {
			fmt.Fprintf(&sb, "[%s] x%d\n", f.sig, f.count)
			for _, e := range f.examples {
				fmt.Fprintf(&sb, "    %s\n", e)
			}
		}
		o.Fail = vt.Failf(unknown[0].sig, "%d violation class(es) in shard %d/%d of a universe of %d values:\n%s", len(unknown), shard, nsh, n, sb.String())
	}
	return o
}

func (c LawsCase) zctx() *zed.Context {
	if len(c.Vals.Vals) > 0 {
		return c.Vals.Zctx
	}
	return uctx
}

func envInt(name string, def int) int {
	if n, err := strconv.Atoi(os.Getenv(name)); err == nil {
		return n
	}
	return def
}

var lawsProp = &vt.Prop[LawsCase]{
	Name: "TestOrderLaws",
	Rule: "EXHAUSTIVE over a curated universe U of boundary values of every type (see laws_test.go init): every ordered pair and every ordered triple of U, nullsMax in {true,false}: " +
		"reflexivity, antisymmetry sign(cmp(a,b)) = -sign(cmp(b,a)), transitivity of <=; agreement of expr.Comparator.Compare (asc and desc), expr.NewValueCompareFn (asc, desc), " +
		"compare(a,b[,nullsMax]) evaluated in a compiled query, and Comparator.SortStable (asc and desc) on every pair and triple as a 2-/3-element slice (expected = stable order under Compare). " +
		"One rapid case per shard; the shard enumerates the triples whose first index is congruent to VERIF_SHARD mod VERIF_SHARDS. quick tier: core subset of U; thorough tier: all of U. " +
		"A unit is one ordered pair (i,j) standing for the |U| enumerated triples (i,j,*); all are non-trivial and distinct by construction (triple and comparison counts are in the samples).",
	CaseLimit: 20 * time.Minute,
	Gen: func(t *rapid.T) LawsCase {
		// nothing random: the case is the shard of the enumeration
		return LawsCase{Shard: envInt("VERIF_SHARD", 0), NShards: envInt("VERIF_SHARDS", 1), Full: vt.Thorough(), Vals: gen.Seq{Zctx: zed.NewContext()}}
	},
	Run: runLaws,
}

func init() { lawsProp.Register() }

// ---------------------------------------------------------------- sampled universes

var clusterPivots = []int64{0, 1, 127, 255, 65535, 1 << 31, 1<<53 - 1, 1 << 53, 1<<62 + 1, math.MaxInt64 - 2, -(1 << 53), math.MinInt64 + 2}

func genSampled(t *rapid.T) LawsCase {
	zctx := zed.NewContext()
	tg := &gen.TypeGen{Zctx: zctx, Opts: gen.TypeOpts{MaxDepth: 2}}
	vg := &gen.ValGen{Zctx: zctx, Types: tg, Opts: gen.ValOpts{NullPercent: 15, MaxLen: 3}}
	maxN := 12
	if vt.Thorough() {
		maxN = 18
	}
	n := rapid.IntRange(4, maxN).Draw(t, "n")
	var vals []zed.Value
	for len(vals) < n {
		switch rapid.IntRange(0, 3).Draw(t, "how") {
		case 0:
			// numeric cluster: the same neighbourhood in several number types
			p := rapid.SampledFrom(clusterPivots).Draw(t, "pivot")
			m := rapid.IntRange(2, 4).Draw(t, "m")
			for i := 0; i < m; i++ {
				x := p + int64(rapid.IntRange(-2, 2).Draw(t, "d"))
				switch rapid.IntRange(0, 7).Draw(t, "numtype") {
				case 0:
					vals = append(vals, zed.NewInt64(x))
				case 1:
					if x >= 0 {
						vals = append(vals, zed.NewUint64(uint64(x)))
					} else {
						vals = append(vals, zed.NewUint64(uint64(x))) // wraps to a value near 2^64
					}
				case 2:
					vals = append(vals, zed.NewFloat64(float64(x)))
				case 3:
					vals = append(vals, zed.NewFloat64(float64(x)+rapid.SampledFrom([]float64{0.5, -0.5, 0}).Draw(t, "frac")))
				case 4:
					vals = append(vals, zed.NewFloat32(float32(x)))
				case 5:
					vals = append(vals, zed.NewTime(nano.Ts(x)))
				case 6:
					vals = append(vals, zed.NewDuration(nano.Duration(x)))
				default:
					if x >= 0 && x <= math.MaxUint8 {
						vals = append(vals, zed.NewUint8(uint8(x)))
					} else {
						vals = append(vals, zed.NewInt64(x))
					}
				}
			}
		case 1:
			// same-type cluster: element-wise comparisons inside containers, ties
			typ := tg.Draw(t, 2)
			m := rapid.IntRange(2, 4).Draw(t, "m")
			for i := 0; i < m; i++ {
				vals = append(vals, vg.Value(t, typ))
			}
		default:
			vals = append(vals, vg.Value(t, tg.Draw(t, 2)))
		}
	}
	for _, v := range vals {
		if err := v.Validate(); err != nil {
			panic(fmt.Sprintf("harness: generated invalid value: %v", err))
		}
	}
	return LawsCase{NShards: 1, Vals: gen.Seq{Zctx: zctx, Vals: vals}}
}

var sampledProp = &vt.Prop[LawsCase]{
	Name: "TestOrderLawsSampled",
	Rule: "case = a random universe of 4..12 (thorough 18) generated values (numeric clusters around boundary pivots in several number types, same-type clusters of generated complex types, free values); " +
		"all ordered pairs and triples of it are put through the same laws and agreement checks as TestOrderLaws; every case is non-trivial.",
	Gen: genSampled,
	Run: runLaws,
}

func init() { sampledProp.Register() }

func TestOrderLawsSampled(t *testing.T) { sampledProp.Check(t) }

func TestOrderLaws(t *testing.T) {
	vt.SetExtra("TestOrderLaws", "exhaustive", true)
	vt.SetExtra("TestOrderLaws", "universe_size_full", len(universe))
	vt.SetExtra("TestOrderLaws", "universe_size_core", len(coreIdx))
	lawsProp.Check(t)
}
