PROP = dict(
        pkg="c06", level="exploration",
        rule="C06: every ordered triple of a curated universe of boundary values (exhaustive); generated sequences x sort specs x four memory limits through the sort operator; generated k-way merges through the merge operator",
        assumptions=[
            "the curated universe is a finite sample of the value space: the ordering laws are decided exhaustively for it, and by random universes for generated values, not for all values",
            "a pair of an integer-encoded number and a float on which the repo's comparison differs from exact arithmetic is the known finding C06/int-float-compare-lossy; sort/merge cases whose key column contains such a pair are only checked for permutation",
            "merge inputs are sorted by the harness with the repo's own comparator; memory limits are the exported knob sort.MemMaxBytes",
            "sort cases whose record shapes disagree on a key field's position are run with spills only when the stale field index cannot exceed a record's field count (open finding C06/sort/spill-compares-in-foreign-context panics in the operator's goroutine otherwise); their spilled outputs are attributed to that finding",
            "fork|merge in a compiled query is fed one batch per non-empty run (anything else deadlocks: open finding C06/merge/fork-backpressure-deadlock); generated batch boundaries and empty runs go through merge.New directly",
            "null placement per key follows docs/language/operators/sort.md (nulls last, or first with -nulls first, for ascending and descending keys alike)",
        ],
        level_text="Exploration with an exhaustively enumerated sub-space: all ordered pairs and triples of a curated universe of boundary values of every type are enumerated for both null placements (ordering laws; agreement of Comparator.Compare, NewValueCompareFn, compare() in a compiled query and the bulk sorter on 2-/3-element slices). The sort and merge operators are sampled by rapid: sequences x sort specs x four memory limits (spill-free to one run per batch) and k-way merges with generated batch boundaries.",
        level_note="Trusted: the harness's stable reference sort (sort.SliceStable over the repo's single-key comparators composed lexicographically as docs/language/operators/sort.md describes), math/big for exact integer/float comparison. Not covered: the lake's comparator wrapper (zbuf.NewComparator), values outside the universe for the exhaustive part, decimals/128-bit types (not implemented in the repo).",
        technique="property-based testing (rapid): exhaustive enumeration of algebraic laws over a finite universe; metamorphic (memory limit) and reference-sort oracles for the operators",
        tests=[
            dict(name="TestOrderLaws", quick=(8, 1), thorough=(16, 1)),
            dict(name="TestOrderLawsSampled", quick=(4, 250), thorough=(8, 3000)),
            dict(name="TestSortOp", quick=(8, 300), thorough=(16, 2000)),
            dict(name="TestMerge", quick=(4, 300), thorough=(8, 2500)),
        ],
)
