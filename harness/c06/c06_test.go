// Package c06 decides property C06: the value ordering used by sort, merge and
// compare() is a total preorder, and sort/merge honour it at any memory limit.
//
//	laws_test.go    TestOrderLaws (exhaustive over a curated universe), TestOrderLawsSampled (random universes)
//	sortop_test.go  TestSortOp (the sort operator in a compiled query, four memory limits)
//	merge_test.go   TestMerge (the merge operator, direct and in a compiled query)
package c06

import (
	"cmp"
	"encoding/json"
	"math"
	"math/big"
	"os"
	"path/filepath"
	"testing"

	zed "github.com/brimdata/super"
	"github.com/brimdata/super/order"
	"github.com/brimdata/super/pkg/storage"
	"github.com/brimdata/super/runtime/sam/expr"

	"verif/gen"
	"verif/vt"
)

func TestMain(m *testing.M) { vt.Main(m) }

func TestReplay(t *testing.T) { vt.TestReplay(t) }

// Signatures of the findings this package knows how to recognise and neutralise.
const (
	sigLossy = "C06/int-float-compare-lossy"
)

// localEngine is what the compiled queries get as their storage engine (never used: inputs are readers).
// Created once: constructing it loads the system certificate pool.
var localEngine = storage.NewLocalEngine()

func sign(x int) int { return cmp.Compare(x, 0) }

// thisComparator is the repo's comparator over whole values.
func thisComparator(nullsMax bool, o order.Which) *expr.Comparator {
	return expr.NewComparator(nullsMax, expr.NewSortEvaluator(&expr.This{}, o))
}

// isIntLike reports whether v is a non-null value whose type id is an
// integer-encoded number (uint8..int64, duration, time), possibly named.
func isIntLike(v zed.Value) bool {
	return !v.IsNull() && v.Type().ID() <= zed.IDTime
}

func isFloatVal(v zed.Value) bool {
	return !v.IsNull() && zed.IsFloat(v.Type().ID())
}

// exactIntFloat compares the integer-like value i with the float value f
// exactly (as real numbers).  NaN follows the convention of the repo's own
// float comparison (cmp.Compare): NaN sorts before every number.
func exactIntFloat(i, f zed.Value) int {
	fv := f.Float()
	if fv != fv {
		return 1
	}
	if math.IsInf(fv, 1) {
		return -1
	}
	if math.IsInf(fv, -1) {
		return 1
	}
	var bi big.Float
	bi.SetPrec(128)
	if zed.IsSigned(i.Type().ID()) {
		bi.SetInt64(i.Int())
	} else {
		bi.SetUint64(i.Uint())
	}
	var bf big.Float
	bf.SetPrec(128)
	bf.SetFloat64(fv)
	return bi.Cmp(&bf)
}

// lossyPair reports whether (a,b) is a non-null integer/float pair on which
// the repo's comparison differs from the exact comparison of the two numbers
// because the integer was converted to float64 (known finding sigLossy).  It
// also returns the exact result.  repo is the repo's comparison result for (a,b).
func lossyPair(a, b zed.Value, repo int) (exact int, lossy bool) {
	switch {
	case isIntLike(a) && isFloatVal(b):
		exact = exactIntFloat(a, b)
	case isFloatVal(a) && isIntLike(b):
		exact = -exactIntFloat(b, a)
	default:
		return repo, false
	}
	return exact, sign(exact) != sign(repo)
}

// kindOf names the coarse type class of a value; used only to build signatures.
func kindOf(v zed.Value) string {
	k := typeKind(v.Type())
	if v.IsNull() {
		return "null"
	}
	return k
}

func typeKind(t zed.Type) string {
	switch t := t.(type) {
	case *zed.TypeNamed:
		return "named-" + typeKind(t.Type)
	case *zed.TypeRecord:
		return "record"
	case *zed.TypeArray:
		return "array"
	case *zed.TypeSet:
		return "set"
	case *zed.TypeMap:
		return "map"
	case *zed.TypeUnion:
		return "union"
	case *zed.TypeEnum:
		return "enum"
	case *zed.TypeError:
		return "error"
	}
	id := t.ID()
	switch {
	case id <= zed.IDUint64:
		return "uint"
	case id <= zed.IDInt64:
		return "int"
	case id == zed.IDDuration:
		return "duration"
	case id == zed.IDTime:
		return "time"
	case zed.IsFloat(id):
		return "float"
	}
	return zed.PrimitiveName(t)
}

// TestMakeReplays writes the regression/known-finding replay files from literal
// inputs into $C06_MKREPLAY (normally /verif/replays/C06).  Not part of a check.
func TestMakeReplays(t *testing.T) {
	dir := os.Getenv("C06_MKREPLAY")
	if dir == "" {
		t.Skip("C06_MKREPLAY not set")
	}
	write := func(name, test, sig, expect string, c any) {
		raw, err := json.Marshal(c)
		if err != nil {
			t.Fatal(err)
		}
		rec := map[string]any{"test": test, "sig": sig, "case": json.RawMessage(raw)}
		if expect != "" {
			rec["expect"] = expect
		}
		b, _ := json.MarshalIndent(rec, "", " ")
		if err := os.WriteFile(filepath.Join(dir, name), append(b, '\n'), 0o644); err != nil {
			t.Fatal(err)
		}
	}
	// int64 2^53, int64 2^53+1, float64 2^53: a<b, b=c, c=a
	write("known-C06-int-float-lossy.json", "TestOrderLaws", sigLossy, "known",
		LawsCase{NShards: 1, Vals: gen.SeqFromZSON("9007199254740992 9007199254740993 9007199254740992.")})
	write("known-C06-int-float-lossy-uint64.json", "TestOrderLaws", sigLossy, "known",
		LawsCase{NShards: 1, Vals: gen.SeqFromZSON("18446744073709551615(uint64) 18446744073709551614(uint64) 18446744073709551616.")})
	// `sort a desc, b`: the null b must come last within a==1
	write("known-C06-sort-nulls-secondary-key.json", "TestSortOp", sigNullsSecondary, "known",
		SortCase{Seq: gen.SeqFromZSON("{a:1,b:null(int64),_o:1970-01-01T00:00:00Z} {a:1,b:5,_o:1970-01-01T00:00:00.000000001Z}"),
			Batches: []int{2}, Keys: []KeySpec{{Field: "a", Dir: "desc"}, {Field: "b"}}})
	// `sort k` over two record shapes, two spill runs: the spilled values are compared on field p
	write("known-C06-spill-foreign-context.json", "TestSortOp", sigSpillCtx, "known",
		SortCase{Seq: gen.SeqFromZSON(`{p:"y",k:5,_o:1970-01-01T00:00:00Z} {k:1,p:"z",_o:1970-01-01T00:00:00.000000001Z} {k:3,p:"a",_o:1970-01-01T00:00:00.000000002Z}`),
			Batches: []int{2, 1}, Keys: []KeySpec{{Field: "k"}}})
	// regression: mixed-type key column incl. uint64 > MaxInt64, nulls and missing through the native fast path and spills
	write("regress-native-fastpath-clamp.json", "TestSortOp", "", "",
		SortCase{Seq: gen.SeqFromZSON(`{k:18446744073709551615(uint64),_o:1970-01-01T00:00:00Z} {k:9223372036854775807,_o:1970-01-01T00:00:00.000000001Z} {k:null(int64),_o:1970-01-01T00:00:00.000000002Z} ` +
			`{k:9223372036854775808(uint64),_o:1970-01-01T00:00:00.000000003Z} {k:-9223372036854775808,_o:1970-01-01T00:00:00.000000004Z} {k:9223372036854775807,_o:1970-01-01T00:00:00.000000005Z} {k:null(uint64),_o:1970-01-01T00:00:00.000000006Z}`),
			Batches: []int{3, 2, 2}, Keys: []KeySpec{{Field: "k"}}, Nulls: "first"})
	write("regress-merge-ties.json", "TestMerge", "", "",
		MergeCase{Seq: gen.SeqFromZSON(`{k:1,r:0,_o:1970-01-01T00:00:00Z} {k:2,r:0,_o:1970-01-01T00:00:00.000000001Z} {k:2,r:0,_o:1970-01-01T00:00:00.000000002Z} ` +
			`{k:2,r:1,_o:1970-01-01T00:00:00.000000003Z} {k:3,r:1,_o:1970-01-01T00:00:00.000000004Z} {k:null(int64),r:2,_o:1970-01-01T00:00:00.000000005Z} {r:2,_o:1970-01-01T00:00:00.000000006Z} {k:"a",r:2,_o:1970-01-01T00:00:00.000000007Z}`),
			Lens: []int{3, 2, 3}, Batches: [][]int{{2, 1}, {1}, {1, 2}}, Via: "direct", NullsMax: true})
}
