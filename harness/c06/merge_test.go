package c06

import (
	"context"
	"fmt"
	"sort"
	"strings"
	"testing"

	zed "github.com/brimdata/super"
	"github.com/brimdata/super/order"
	"github.com/brimdata/super/pkg/field"
	"github.com/brimdata/super/pkg/nano"
	"github.com/brimdata/super/runtime/sam/expr"
	"github.com/brimdata/super/runtime/sam/op/merge"
	"github.com/brimdata/super/zbuf"
	"github.com/brimdata/super/zcode"
	"pgregory.net/rapid"

	"verif/gen"
	"verif/oracle"
	"verif/vt"
)

const sigForkDeadlock = "C06/merge/fork-backpressure-deadlock"

// MergeCase: Seq holds the records of all runs back to back ({k?, r, _o}; r is
// the run number); Run sorts every run with the repo's comparator before
// feeding it to the merge operator.
type MergeCase struct {
	Seq      gen.Seq `json:"seq"`
	Lens     []int   `json:"lens"`    // run lengths (sum = len(Seq))
	Batches  [][]int `json:"batches"` // per run: batch sizes (the last one repeats)
	Via      string  `json:"via"`     // "direct" (merge.New) or "query" (`fork (...) | merge k`)
	Desc     bool    `json:"desc"`    // direct only
	NullsMax bool    `json:"nulls_max"`
}

// slicePuller feeds one run in batches.
type slicePuller struct {
	vals  []zed.Value
	sizes []int
	pos   int
	bi    int
}

func (p *slicePuller) Pull(done bool) (zbuf.Batch, error) {
	if done {
		p.pos = len(p.vals)
		return nil, nil
	}
	if p.pos >= len(p.vals) {
		return nil, nil
	}
	size := 1
	if len(p.sizes) > 0 {
		size = max(1, p.sizes[min(p.bi, len(p.sizes)-1)])
	}
	p.bi++
	end := min(len(p.vals), p.pos+size)
	b := zbuf.NewArray(append([]zed.Value(nil), p.vals[p.pos:end]...))
	p.pos = end
	return b, nil
}

func genMergeCase(t *rapid.T) MergeCase {
	zctx := zed.NewContext()
	tg := &gen.TypeGen{Zctx: zctx, Opts: gen.TypeOpts{MaxDepth: 2, SimpleNames: true}}
	vg := &gen.ValGen{Zctx: zctx, Types: tg, Opts: gen.ValOpts{NullPercent: 15, MaxLen: 3}}
	c := MergeCase{Seq: gen.Seq{Zctx: zctx}}
	c.Via = rapid.SampledFrom([]string{"direct", "direct", "query"}).Draw(t, "via")
	c.NullsMax = true
	if c.Via == "direct" {
		c.Desc = rapid.IntRange(0, 2).Draw(t, "desc") == 0
		c.NullsMax = rapid.Bool().Draw(t, "nullsMax")
	}
	minRuns := 1
	if c.Via == "query" {
		minRuns = 2
	}
	nruns := rapid.IntRange(minRuns, 6).Draw(t, "nruns")
	maxLen := 12
	if vt.Thorough() {
		maxLen = 40
	}
	pool := drawPool(t, zctx, tg, vg, rapid.SampledFrom([]int{1, 2, 4, 8, 20}).Draw(t, "m"))
	ord := 0
	for r := 0; r < nruns; r++ {
		// query mode: no empty runs (a branch that yields nothing until end of input
		// starves merge and deadlocks fork|merge; see the "query" case in runMergeCase)
		n := rapid.IntRange(minRuns-1, maxLen).Draw(t, "len")
		c.Lens = append(c.Lens, n)
		for i := 0; i < n; i++ {
			var fields []zed.Field
			var b zcode.Builder
			if rapid.IntRange(0, 9).Draw(t, "missing?") > 0 {
				v := rapid.SampledFrom(pool).Draw(t, "kv")
				fields = append(fields, zed.NewField("k", v.Type()))
				b.Append(v.Bytes())
			}
			fields = append(fields, zed.NewField("r", zed.TypeInt64), zed.NewField(ordField, zed.TypeTime))
			b.Append(zed.EncodeInt(int64(r)))
			b.Append(zed.EncodeTime(nano.Ts(ord)))
			ord++
			c.Seq.Vals = append(c.Seq.Vals, zed.NewValue(zctx.MustLookupTypeRecord(fields), b.Bytes()).Copy())
		}
		var sizes []int
		for covered := 0; covered < n; {
			var size int
			if rapid.Bool().Draw(t, "bsmall?") {
				size = rapid.IntRange(1, 3).Draw(t, "bsmall")
			} else {
				size = rapid.IntRange(1, max(1, n)).Draw(t, "bbig")
			}
			sizes = append(sizes, size)
			covered += size
		}
		c.Batches = append(c.Batches, sizes)
	}
	return c
}

func runMergeCase(c MergeCase) *vt.Outcome {
	o := &vt.Outcome{}
	zctx := c.Seq.Zctx
	all := c.Seq.Vals
	total := 0
	for _, n := range c.Lens {
		total += n
	}
	if total != len(all) || len(c.Batches) != len(c.Lens) {
		panic("harness: malformed merge case")
	}
	which := order.Asc
	if c.Desc {
		which = order.Desc
	}
	path := field.Path{"k"}
	keyCmp := thisComparator(c.NullsMax, which).WithMissingAsNull()
	keys := map[string]zed.Value{} // by identity of the record
	keyFor := func(v zed.Value) zed.Value {
		id := oracle.Key(v)
		if k, ok := keys[id]; ok {
			return k
		}
		k, err := keyOf(zctx, v, path)
		if err != nil {
			panic("harness: " + err.Error())
		}
		keys[id] = k
		return k
	}
	cmpRec := func(a, b zed.Value) int { return keyCmp.Compare(keyFor(a), keyFor(b)) }

	// ---- known: a key column with an inexactly compared integer/float pair has no defined order
	lossy := false
	{
		plain := thisComparator(true, order.Asc)
		var nums []zed.Value
		seen := map[string]bool{}
		for _, v := range all {
			kv := keyFor(v)
			if kv.IsNull() || !zed.IsNumber(kv.Type().ID()) {
				continue
			}
			if id := oracle.Key(kv); !seen[id] {
				seen[id] = true
				nums = append(nums, kv)
			}
		}
		for _, a := range nums {
			for _, b := range nums {
				if _, l := lossyPair(a, b, plain.Compare(a, b)); l {
					lossy = true
				}
			}
		}
	}

	// ---- sort every run with the repo's comparator
	var runsVals [][]zed.Value
	nonEmpty := 0
	pos := 0
	for _, n := range c.Lens {
		run := append([]zed.Value(nil), all[pos:pos+n]...)
		pos += n
		sort.SliceStable(run, func(i, j int) bool { return cmpRec(run[i], run[j]) < 0 })
		for p := 0; p+1 < len(run); p++ {
			if cmpRec(run[p], run[p+1]) > 0 && !lossy {
				o.Fail = vt.Failf("C06/merge/comparator-inconsistent-on-keys", "a stable sort of run values with the repo's comparator is not non-decreasing: %s then %s", show(run[p]), show(run[p+1]))
				return o
			}
		}
		if n > 0 {
			nonEmpty++
		}
		runsVals = append(runsVals, run)
	}

	// ---- run the merge operator
	var out []zed.Value
	switch c.Via {
	case "direct":
		ctx, cancel := context.WithCancel(context.Background())
		defer cancel()
		var parents []zbuf.Puller
		for r, run := range runsVals {
			parents = append(parents, &slicePuller{vals: run, sizes: c.Batches[r]})
		}
		opCmp := expr.NewComparator(c.NullsMax, expr.NewSortEvaluator(expr.NewDottedExpr(zctx, path), which)).WithMissingAsNull()
		m := merge.New(ctx, parents, opCmp.Compare, expr.Resetters{})
		for {
			b, err := m.Pull(false)
			if err != nil {
				o.Fail = vt.Failf("C06/merge/error", "merge.Op.Pull: %v", err)
				return o
			}
			if b == nil {
				break
			}
			for _, v := range b.Values() {
				out = append(out, v.Copy())
			}
		}
	case "query":
		// One branch and one input batch per non-empty run, in run order.  fork|merge
		// deadlocks as soon as one branch is handed a second batch while merge still
		// waits for the first batch (or the end) of an earlier branch: the fork router
		// blocks on the full branch, merge.Op.start blocks on the starved one (open
		// finding sigForkDeadlock, e.g. `fork (=> where this<=175 => where this>175) |
		// merge this` over the numbers 1..350 read as ZSON never returns).  That class
		// cannot be run in-process, so it is excluded by construction here; generated
		// batch boundaries and empty runs are explored in direct mode.
		var in []zed.Value
		var sizes []int
		var sb strings.Builder
		sb.WriteString("fork (")
		for r, run := range runsVals {
			if len(run) > 0 {
				in = append(in, run...)
				sizes = append(sizes, len(run))
				fmt.Fprintf(&sb, " => where r==%d", r)
			}
		}
		sb.WriteString(" ) | merge k")
		if len(sizes) < 2 {
			return &vt.Outcome{Skip: "query-mode-needs-two-non-empty-runs"}
		}
		o.Label("excluded:fork-merge-deadlock-batching")
		var err error
		out, _, err = runProgram(zctx, sb.String(), in, sizes)
		if err != nil {
			o.Fail = vt.Failf("C06/merge/query-error", "%q: %v", sb.String(), err)
			return o
		}
	default:
		panic("harness: unknown via")
	}

	o.Label("via:"+c.Via, fmt.Sprintf("runs:%d", len(c.Lens)))
	if c.Desc {
		o.Label("desc")
	}
	if !c.NullsMax {
		o.Label("nulls-min")
	}
	if d := oracle.SameMultiset(all, out); d != "" {
		o.Fail = vt.Failf("C06/merge/not-the-union/"+c.Via, "merge of %d runs (lengths %v): %s", len(c.Lens), c.Lens, d)
		return o
	}
	// measured classes
	switches, tiesAcross := 0, false
	runOf := func(v zed.Value) int64 {
		rv, _ := keyOf(zctx, v, field.Path{"r"})
		return rv.Int()
	}
	types := map[zed.Type]bool{}
	for p, v := range out {
		types[keyFor(v).Type()] = true
		if p > 0 && runOf(out[p-1]) != runOf(v) {
			switches++
			if cmpRec(out[p-1], v) == 0 {
				tiesAcross = true
			}
		}
	}
	if switches >= nonEmpty && nonEmpty >= 2 {
		o.Label("interleaved")
	}
	if tiesAcross {
		o.Label("ties-across-runs")
	}
	if len(types) >= 2 {
		o.Label("mixed-key-types")
	}
	o.NonTrivial = nonEmpty >= 2 && switches >= nonEmpty
	if lossy {
		o.Known = append(o.Known, sigLossy)
		o.Label("excluded:lossy-int-float-in-key")
		if !vt.IsKnown(sigLossy) {
			o.Fail = vt.Failf(sigLossy, "key column holds an integer/float pair that the comparator orders inexactly")
		}
		return o
	}
	for p := 0; p+1 < len(out); p++ {
		if cmpRec(out[p], out[p+1]) > 0 {
			o.Fail = vt.Failf("C06/merge/not-sorted/"+c.Via, "merge of %d sorted runs (lengths %v, batches %v, desc=%v nullsMax=%v): output position %d: %s is followed by %s which compares lower",
				len(c.Lens), c.Lens, c.Batches, c.Desc, c.NullsMax, p, show(out[p]), show(out[p+1]))
			return o
		}
	}
	return o
}

var mergeProp = &vt.Prop[MergeCase]{
	Name: "TestMerge",
	Rule: "case = 1..6 runs of 0..12 (thorough 40) records {k?,r,_o} whose key k is drawn from a small pool of mixed-type values (nulls, missing), each run sorted by the repo's comparator " +
		"(asc/desc, nullsMax true/false) and fed in generated batch sizes to merge.New directly, or through the compiled query `fork (=> where r==0 => ...) | merge k`; " +
		"output multiset = union of the runs and output non-decreasing under the comparator. Non-trivial: >=2 non-empty runs whose values interleave in the output.",
	Gen: genMergeCase,
	Run: runMergeCase,
}

func init() { mergeProp.Register() }

func TestMerge(t *testing.T) { mergeProp.Check(t) }
