PROP = dict(
        pkg="c03", level="exploration",
        rule="C03: VNG write then read through the row reader, the vector cache + materializer, and projections, over generated sequences shaped for the encoder's statistics",
        assumptions=[
            "values come from the shared generators (valid per zed.Value.Validate, sets/maps normalised); unions containing the null type are explored only in the opt-in test TestVNGNullInUnion",
            "projection path sets are prefix-free (a demand {a, a.b} is the demand {a})",
        ],
        level_text="Randomised property test: sequences and projections are sampled by rapid; each case is checked exactly (byte identity of type values and value bytes; per-path identity for projections).",
        level_note="Trusted: oracle.Key, the harness's own record-path walker. Not covered: vcache.Cache (storage-engine fetch and object reuse across queries), concurrent Fetch calls on one object.",
        technique="property-based testing (rapid) with statistics-shaped generators",
        tests=[
            dict(name="TestVNGRoundTrip", quick=(8, 300), thorough=(16, 3000)),
            dict(name="TestVNGNullInUnion", quick=(2, 150), thorough=(4, 1000)),
        ],
)
