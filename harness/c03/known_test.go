package c03

import (
	"fmt"
	"math"
	"sort"

	zed "github.com/brimdata/super"
	"github.com/brimdata/super/order"
	"github.com/brimdata/super/pkg/field"
	"github.com/brimdata/super/runtime/sam/expr"
	"github.com/brimdata/super/runtime/vcache"
	"github.com/brimdata/super/vng"
	"github.com/brimdata/super/zcode"

	"verif/oracle"
)

// ---- class: dictionary order ties (writer)

func isTieFloat(typ zed.Type, body zcode.Bytes) bool {
	if body == nil || !zed.IsFloat(typ.ID()) || !zed.IsPrimitiveType(typ) {
		return false
	}
	f := zed.DecodeFloat(body)
	return f != f || (f == 0 && math.Signbit(f))
}

func untieFloat(typ zed.Type, body zcode.Bytes) zcode.Bytes {
	if !isTieFloat(typ, body) {
		return body
	}
	if f := zed.DecodeFloat(body); f != f {
		return oracle.CanonNaN(typ, body)
	}
	switch typ.ID() {
	case zed.IDFloat16:
		return zed.EncodeFloat16(0)
	case zed.IDFloat32:
		return zed.EncodeFloat32(0)
	}
	return zed.EncodeFloat64(0)
}

// ---- class: signalling NaN of a narrow float quieted by the vector path

func isSNaN(typ zed.Type, body zcode.Bytes) bool {
	if body == nil || !zed.IsPrimitiveType(typ) {
		return false
	}
	switch typ.ID() {
	case zed.IDFloat16:
		return len(body) == 2 && body[1]&0x7c == 0x7c && (body[1]&0x03 != 0 || body[0] != 0) && body[1]&0x02 == 0
	case zed.IDFloat32:
		return len(body) == 4 && body[3]&0x7f == 0x7f && body[2]&0x80 != 0 && (body[2]&0x7f != 0 || body[1] != 0 || body[0] != 0) && body[2]&0x40 == 0
	}
	return false
}

func quietNaN(typ zed.Type, body zcode.Bytes) zcode.Bytes {
	if !isSNaN(typ, body) {
		return body
	}
	out := append(zcode.Bytes(nil), body...)
	if typ.ID() == zed.IDFloat16 {
		out[1] |= 0x02
	} else {
		out[2] |= 0x40
	}
	return out
}

// ---- class: union vector under nulls (own null values or a null ancestor record)

func isUnionT(typ zed.Type) bool { _, ok := typ.(*zed.TypeUnion); return ok }

// flatReach reports whether typ is, or reaches through record fields and named/error
// wrappers only (the chain along which vcache hands null counts down), a type satisfying pred.
func flatReach(typ zed.Type, pred func(zed.Type) bool) bool {
	if pred(typ) {
		return true
	}
	switch typ := typ.(type) {
	case *zed.TypeNamed:
		return flatReach(typ.Type, pred)
	case *zed.TypeError:
		return flatReach(typ.Type, pred)
	case *zed.TypeRecord:
		for _, f := range typ.Fields {
			if flatReach(f.Type, pred) {
				return true
			}
		}
	}
	return false
}

func isNullOverUnion(typ zed.Type, body zcode.Bytes) bool { return body == nil && flatReach(typ, isUnionT) }

// ---- class: error column below a record that has nulls

func isErrorT(typ zed.Type) bool { _, ok := typ.(*zed.TypeError); return ok }

// isNullOverError: a null node with an error type strictly below it along the flatten chain.
func isNullOverError(typ zed.Type, body zcode.Bytes) bool {
	if body != nil {
		return false
	}
	switch t := zed.TypeUnder(typ).(type) {
	case *zed.TypeError:
		return flatReach(t.Type, isErrorT)
	case *zed.TypeRecord:
		return flatReach(t, isErrorT)
	}
	return false
}

// ---- class: enum unsupported by the vector loader

func hasEnum(typ zed.Type) bool {
	return oracle.TypeHas(typ, func(t zed.Type) bool { _, ok := t.(*zed.TypeEnum); return ok })
}

// retyper rebuilds types in zctx with every type for which f returns non-nil
// replaced, and converts values accordingly (union tags are remapped because
// the context re-sorts union members).
type retyper struct {
	zctx *zed.Context
	f    func(zed.Type) zed.Type
	memo map[zed.Type]zed.Type
	tags map[*zed.TypeUnion][]int
}

func newRetyper(zctx *zed.Context, f func(zed.Type) zed.Type) *retyper {
	return &retyper{zctx: zctx, f: f, memo: map[zed.Type]zed.Type{}, tags: map[*zed.TypeUnion][]int{}}
}

func (r *retyper) typ(typ zed.Type) zed.Type {
	if t, ok := r.memo[typ]; ok {
		return t
	}
	t := r.typ1(typ)
	r.memo[typ] = t
	return t
}

func (r *retyper) typ1(typ zed.Type) zed.Type {
	if t := r.f(typ); t != nil {
		return t
	}
	zctx := r.zctx
	switch typ := typ.(type) {
	case *zed.TypeNamed:
		t, err := zctx.LookupTypeNamed(typ.Name, r.typ(typ.Type))
		if err != nil {
			panic("harness: " + err.Error())
		}
		return t
	case *zed.TypeError:
		return zctx.LookupTypeError(r.typ(typ.Type))
	case *zed.TypeRecord:
		fields := make([]zed.Field, len(typ.Fields))
		for i, fld := range typ.Fields {
			fields[i] = zed.NewField(fld.Name, r.typ(fld.Type))
		}
		return zctx.MustLookupTypeRecord(fields)
	case *zed.TypeArray:
		return zctx.LookupTypeArray(r.typ(typ.Type))
	case *zed.TypeSet:
		return zctx.LookupTypeSet(r.typ(typ.Type))
	case *zed.TypeMap:
		return zctx.LookupTypeMap(r.typ(typ.KeyType), r.typ(typ.ValType))
	case *zed.TypeUnion:
		members := make([]zed.Type, len(typ.Types))
		for i, m := range typ.Types {
			members[i] = r.typ(m)
		}
		u := zctx.LookupTypeUnion(append([]zed.Type(nil), members...))
		tagmap := make([]int, len(members))
		for i, m := range members {
			tagmap[i] = -1
			for j, n := range u.Types {
				if n == m {
					tagmap[i] = j
				}
			}
			if tagmap[i] < 0 {
				panic("harness: retyped union lost a member")
			}
		}
		r.tags[typ] = tagmap
		return u
	}
	return typ
}

func (r *retyper) value(v zed.Value) zed.Value {
	nt := r.typ(v.Type())
	var b zcode.Builder
	r.body(&b, v.Type(), v.Bytes())
	return zed.NewValue(nt, b.Bytes().Body())
}

func (r *retyper) body(b *zcode.Builder, typ zed.Type, body zcode.Bytes) {
	if body == nil {
		b.Append(nil)
		return
	}
	switch typ := typ.(type) {
	case *zed.TypeNamed:
		r.body(b, typ.Type, body)
	case *zed.TypeError:
		r.body(b, typ.Type, body)
	case *zed.TypeRecord:
		b.BeginContainer()
		it := body.Iter()
		for _, f := range typ.Fields {
			r.body(b, f.Type, it.Next())
		}
		b.EndContainer()
	case *zed.TypeArray:
		b.BeginContainer()
		for it := body.Iter(); !it.Done(); {
			r.body(b, typ.Type, it.Next())
		}
		b.EndContainer()
	case *zed.TypeSet:
		b.BeginContainer()
		for it := body.Iter(); !it.Done(); {
			r.body(b, typ.Type, it.Next())
		}
		b.TransformContainer(zed.NormalizeSet)
		b.EndContainer()
	case *zed.TypeMap:
		b.BeginContainer()
		for it := body.Iter(); !it.Done(); {
			r.body(b, typ.KeyType, it.Next())
			r.body(b, typ.ValType, it.Next())
		}
		b.TransformContainer(zed.NormalizeMap)
		b.EndContainer()
	case *zed.TypeUnion:
		r.typ(typ)
		it := body.Iter()
		tag := int(zed.DecodeInt(it.Next()))
		b.BeginContainer()
		b.Append(zed.EncodeInt(int64(r.tags[typ][tag])))
		r.body(b, typ.Types[tag], it.Next())
		b.EndContainer()
	default:
		b.Append(body)
	}
}

// ---- class: projection below a container/union loads only the projected fields

func hasFieldedRecord(typ zed.Type) bool {
	return oracle.TypeHas(typ, func(t zed.Type) bool { r, ok := t.(*zed.TypeRecord); return ok && len(r.Fields) > 0 })
}

// partialLoad mirrors vcache.loader.loadVector: it reports whether the
// projection path (as built by vcache.NewProjection) reaches an
// array/set/map/union node with path elements left while records live below it.
func partialLoad(typ zed.Type, path vcache.Path) bool {
	switch typ := typ.(type) {
	case *zed.TypeNamed:
		return partialLoad(typ.Type, path)
	case *zed.TypeError:
		return partialLoad(typ.Type, path)
	case *zed.TypeRecord:
		if len(path) == 0 {
			return false
		}
		name, ok := path[0].(string)
		if !ok {
			return false // a fork: the loader loads the forked fields whole
		}
		i, ok := typ.IndexOfField(name)
		if !ok {
			return false
		}
		return partialLoad(typ.Fields[i].Type, path[1:])
	case *zed.TypeArray, *zed.TypeSet, *zed.TypeMap, *zed.TypeUnion:
		return len(path) > 0 && hasFieldedRecord(typ)
	}
	return false
}

func vpath(paths [][]string) vcache.Path {
	var fp []field.Path
	for _, p := range paths {
		fp = append(fp, field.Path(p))
	}
	return vcache.NewProjection(fp)
}

// typeTies maps every type-value body occurring in the input to the
// representative (smallest bytes) of its tie class under the comparator the
// dictionary encoder sorts with; bodies that tie with nothing map to themselves.
func typeTies(input []zed.Value) map[string]string {
	set := map[string]bool{}
	for _, v := range input {
		oracle.MapLeaves(v, func(typ zed.Type, body zcode.Bytes) zcode.Bytes {
			if typ == zed.TypeType && body != nil {
				set[string(body)] = true
			}
			return body
		})
	}
	var bodies []string
	for b := range set {
		bodies = append(bodies, b)
	}
	sort.Strings(bodies)
	cmp := expr.NewValueCompareFn(order.Asc, false)
	rep := map[string]string{}
	var reps []string
	for _, b := range bodies {
		rep[b] = b
		for _, r := range reps {
			if cmp(zed.NewValue(zed.TypeType, zcode.Bytes(b)), zed.NewValue(zed.TypeType, zcode.Bytes(r))) == 0 {
				rep[b] = r
				break
			}
		}
		if rep[b] == b {
			reps = append(reps, b)
		}
	}
	return rep
}

// ---- class: plain (non-dictionary) net column

func anyPrimitive(m vng.Metadata, pred func(*vng.Primitive) bool) bool {
	switch m := m.(type) {
	case *vng.Dynamic:
		for _, v := range m.Values {
			if anyPrimitive(v, pred) {
				return true
			}
		}
	case *vng.Nulls:
		return anyPrimitive(m.Values, pred)
	case *vng.Named:
		return anyPrimitive(m.Values, pred)
	case *vng.Error:
		return anyPrimitive(m.Values, pred)
	case *vng.Record:
		for _, f := range m.Fields {
			if anyPrimitive(f.Values, pred) {
				return true
			}
		}
	case *vng.Array:
		return anyPrimitive(m.Values, pred)
	case *vng.Set:
		return anyPrimitive(m.Values, pred)
	case *vng.Map:
		return anyPrimitive(m.Keys, pred) || anyPrimitive(m.Values, pred)
	case *vng.Union:
		for _, v := range m.Values {
			if anyPrimitive(v, pred) {
				return true
			}
		}
	case *vng.Primitive:
		return pred(m)
	}
	return false
}

func hasPlainNet(c *checked) bool {
	m := c.meta()
	if m == nil {
		return false
	}
	return anyPrimitive(m, func(p *vng.Primitive) bool {
		return p.Typ == zed.TypeNet && len(p.Dict) == 0 && p.Count > 0
	})
}

var knownClasses = []knownClass{
	{
		sig:     "C03/vector/float-snan-quieted",
		stage:   "vector",
		present: func(c *checked) bool { return anyOf(c.input, isSNaN) },
		rewrite: func(c *checked) []zed.Value {
			out := make([]zed.Value, len(c.input))
			for i, v := range c.input {
				out[i] = oracle.MapLeaves(v, quietNaN)
			}
			return out
		},
	},
	{
		sig:   "C03/write/dict-order-ties",
		stage: "row",
		present: func(c *checked) bool {
			if anyOf(c.input, isTieFloat) {
				return true
			}
			for b, r := range typeTies(c.input) {
				if b != r {
					return true
				}
			}
			return false
		},
		rewrite: func(c *checked) []zed.Value {
			rep := typeTies(c.input)
			out := make([]zed.Value, len(c.input))
			for i, v := range c.input {
				out[i] = oracle.MapLeaves(v, func(typ zed.Type, body zcode.Bytes) zcode.Bytes {
					if typ == zed.TypeType && body != nil {
						return zcode.Bytes(rep[string(body)])
					}
					return untieFloat(typ, body)
				})
			}
			return out
		},
	},
	{
		sig:     "C03/vector/union-under-nulls",
		stage:   "vector",
		present: func(c *checked) bool { return anyOf(c.input, isNullOverUnion) },
		rewrite: func(c *checked) []zed.Value {
			return mapAll(c.input, func(typ zed.Type, body zcode.Bytes) (zcode.Bytes, bool) {
				if isNullOverUnion(typ, body) {
					return zeroBody(typ), true
				}
				return nil, false
			})
		},
	},
	{
		sig:     "C03/vector/error-under-nulls",
		stage:   "vector",
		crash:   true,
		present: func(c *checked) bool { return anyOf(c.input, isNullOverError) },
		rewrite: func(c *checked) []zed.Value {
			return mapAll(c.input, func(typ zed.Type, body zcode.Bytes) (zcode.Bytes, bool) {
				if isNullOverError(typ, body) {
					return zeroBody(typ), true
				}
				return nil, false
			})
		},
	},
	{
		sig:     "C03/vector/net-plain-column",
		stage:   "vector",
		crash:   true,
		present: func(c *checked) bool { return hasPlainNet(c) },
		rewrite: func(c *checked) []zed.Value {
			// keep at most 200 distinct net values in the whole input, so every net column is const or dict
			keep := map[string]bool{}
			var first zcode.Bytes
			f := func(typ zed.Type, body zcode.Bytes) zcode.Bytes {
				if typ != zed.TypeNet || body == nil {
					return body
				}
				if first == nil {
					first = body
				}
				if keep[string(body)] {
					return body
				}
				if len(keep) < 200 {
					keep[string(body)] = true
					return body
				}
				return first
			}
			out := make([]zed.Value, len(c.input))
			for i, v := range c.input {
				out[i] = oracle.MapLeaves(v, f)
			}
			return out
		},
	},
	{
		sig:   "C03/vector/enum-unsupported",
		stage: "vector",
		crash: true,
		present: func(c *checked) bool {
			found := false
			eachType(c.input, func(t zed.Type) { found = found || hasEnum(t) })
			return found
		},
		rewrite: func(c *checked) []zed.Value {
			// every enum type becomes its own named uint64 (the selector bytes stay valid),
			// so members of a union stay distinct
			names := map[zed.Type]zed.Type{}
			rt := newRetyper(c.zctx, func(t zed.Type) zed.Type {
				if _, ok := t.(*zed.TypeEnum); !ok {
					return nil
				}
				if names[t] == nil {
					named, err := c.zctx.LookupTypeNamed(fmt.Sprintf("verif_enum_%d", len(names)), zed.TypeUint64)
					if err != nil {
						panic("harness: " + err.Error())
					}
					names[t] = named
				}
				return names[t]
			})
			out := make([]zed.Value, len(c.input))
			for i, v := range c.input {
				out[i] = rt.value(v)
			}
			return out
		},
	},
	{
		sig:   "C03/project/container-partial-load",
		stage: "project",
		present: func(c *checked) bool {
			if len(c.paths) == 0 {
				return false
			}
			vp := vpath(c.paths)
			found := false
			eachType(c.input, func(t zed.Type) { found = found || partialLoad(t, vp) })
			return found
		},
		rewritePaths: func(c *checked) [][]string { return nil },
	},
}
