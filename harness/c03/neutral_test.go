package c03

import (
	"net/netip"

	zed "github.com/brimdata/super"
	"github.com/brimdata/super/zcode"
)

// nodeHook is called for every node of a value (pre-order) with the node's
// declared type and body.  If it returns replaced=true the returned body is
// used for the node and the walk does not descend into it.
type nodeHook func(typ zed.Type, body zcode.Bytes) (out zcode.Bytes, replaced bool)

// mapNodes rebuilds v, giving hook the chance to replace any node.
func mapNodes(v zed.Value, hook nodeHook) zed.Value {
	var b zcode.Builder
	mapNode(&b, v.Type(), v.Bytes(), hook)
	return zed.NewValue(v.Type(), b.Bytes().Body())
}

func mapNode(b *zcode.Builder, typ zed.Type, body zcode.Bytes, hook nodeHook) {
	if out, replaced := hook(typ, body); replaced {
		b.Append(out)
		return
	}
	if body == nil {
		b.Append(nil)
		return
	}
	switch typ := typ.(type) {
	case *zed.TypeNamed:
		mapNode(b, typ.Type, body, hook)
	case *zed.TypeError:
		mapNode(b, typ.Type, body, hook)
	case *zed.TypeRecord:
		b.BeginContainer()
		it := body.Iter()
		for _, f := range typ.Fields {
			mapNode(b, f.Type, it.Next(), hook)
		}
		b.EndContainer()
	case *zed.TypeArray:
		b.BeginContainer()
		for it := body.Iter(); !it.Done(); {
			mapNode(b, typ.Type, it.Next(), hook)
		}
		b.EndContainer()
	case *zed.TypeSet:
		b.BeginContainer()
		for it := body.Iter(); !it.Done(); {
			mapNode(b, typ.Type, it.Next(), hook)
		}
		b.TransformContainer(zed.NormalizeSet)
		b.EndContainer()
	case *zed.TypeMap:
		b.BeginContainer()
		for it := body.Iter(); !it.Done(); {
			mapNode(b, typ.KeyType, it.Next(), hook)
			mapNode(b, typ.ValType, it.Next(), hook)
		}
		b.TransformContainer(zed.NormalizeMap)
		b.EndContainer()
	case *zed.TypeUnion:
		it := body.Iter()
		tagBytes := it.Next()
		b.BeginContainer()
		b.Append(tagBytes)
		mapNode(b, typ.Types[zed.DecodeInt(tagBytes)], it.Next(), hook)
		b.EndContainer()
	default:
		b.Append(body)
	}
}

// anyNode reports whether pred holds for some node of v.
func anyNode(v zed.Value, pred func(typ zed.Type, body zcode.Bytes) bool) bool {
	found := false
	mapNodes(v, func(typ zed.Type, body zcode.Bytes) (zcode.Bytes, bool) {
		if pred(typ, body) {
			found = true
		}
		return nil, false
	})
	return found
}

// zeroBody returns the body of a simple non-null value of typ (nil only for the null type).
func zeroBody(typ zed.Type) zcode.Bytes {
	switch typ := typ.(type) {
	case *zed.TypeNamed:
		return zeroBody(typ.Type)
	case *zed.TypeError:
		return zeroBody(typ.Type)
	case *zed.TypeRecord:
		var b zcode.Builder
		b.BeginContainer()
		for _, f := range typ.Fields {
			b.Append(zeroBody(f.Type))
		}
		b.EndContainer()
		return b.Bytes().Body()
	case *zed.TypeArray, *zed.TypeSet, *zed.TypeMap:
		return zcode.Bytes{}
	case *zed.TypeUnion:
		var b zcode.Builder
		b.BeginContainer()
		b.Append(zed.EncodeInt(0))
		b.Append(zeroBody(typ.Types[0]))
		b.EndContainer()
		return b.Bytes().Body()
	case *zed.TypeEnum:
		return zed.EncodeUint(0)
	}
	switch id := typ.ID(); {
	case zed.IsUnsigned(id):
		return zed.EncodeUint(0)
	case zed.IsSigned(id):
		return zed.EncodeInt(0)
	case id == zed.IDFloat16:
		return zed.EncodeFloat16(0)
	case id == zed.IDFloat32:
		return zed.EncodeFloat32(0)
	case id == zed.IDFloat64:
		return zed.EncodeFloat64(0)
	case id == zed.IDBool:
		return zed.EncodeBool(false)
	case id == zed.IDBytes, id == zed.IDString:
		return zcode.Bytes{}
	case id == zed.IDIP:
		return zed.EncodeIP(netip.AddrFrom4([4]byte{}))
	case id == zed.IDNet:
		return zed.EncodeNet(netip.PrefixFrom(netip.AddrFrom4([4]byte{}), 0))
	case id == zed.IDType:
		return zed.EncodeTypeValue(zed.TypeInt64)
	case id == zed.IDNull:
		return nil
	}
	panic("harness: zeroBody: unknown type")
}

func isUnion(typ zed.Type) bool {
	_, ok := zed.TypeUnder(typ).(*zed.TypeUnion)
	return ok
}
