package c03

import (
	"bytes"
	"encoding/json"
	"fmt"
	"net/netip"
	"os"
	"runtime/debug"
	"sort"
	"strings"
	"testing"

	zed "github.com/brimdata/super"
	"github.com/brimdata/super/compiler/optimizer/demand"
	"github.com/brimdata/super/pkg/field"
	"github.com/brimdata/super/runtime/vam"
	"github.com/brimdata/super/runtime/vcache"
	"github.com/brimdata/super/vector"
	"github.com/brimdata/super/vng"
	"github.com/brimdata/super/zbuf"
	"github.com/brimdata/super/zcode"
	"github.com/brimdata/super/zio"
	"github.com/brimdata/super/zio/vngio"
	"pgregory.net/rapid"

	"verif/gen"
	"verif/oracle"
	"verif/vt"
)

func TestMain(m *testing.M) { vt.Main(m) }

// ---------------------------------------------------------------- case

type Case struct {
	Seq gen.Seq `json:"seq"`
	// Paths are the projected field paths (prefix-free); empty = no projection check.
	Paths [][]string `json:"paths"`
}

// ---------------------------------------------------------------- generator

type genOpts struct {
	nullInUnion bool
}

// nullPlan decides which of the m rows of a column are null.
type nullPlan struct {
	mode   int // 0 none, 1 start run, 2 middle run, 3 end run, 4 all, 5 sprinkle, 6 start+end
	length int
	start  int
	sprink []bool
}

func drawNullPlan(t *rapid.T, m int) nullPlan {
	p := nullPlan{mode: rapid.SampledFrom([]int{0, 0, 0, 0, 1, 2, 3, 4, 5, 6}).Draw(t, "nullmode")}
	if m == 0 {
		p.mode = 0
		return p
	}
	p.length = rapid.IntRange(1, max(1, m/2)).Draw(t, "nullrun")
	switch p.mode {
	case 2:
		if m >= 3 {
			p.length = min(p.length, m-2)
			p.start = rapid.IntRange(1, m-1-p.length).Draw(t, "nullstart")
		} else {
			p.mode = 0
		}
	case 5:
		p.sprink = make([]bool, m)
		for i := range p.sprink {
			p.sprink[i] = rapid.IntRange(0, 3).Draw(t, "sprinkle") == 0
		}
	}
	return p
}

func (p nullPlan) isNull(r, m int) bool {
	switch p.mode {
	case 1:
		return r < p.length
	case 2:
		return r >= p.start && r < p.start+p.length
	case 3:
		return r >= m-p.length
	case 4:
		return true
	case 5:
		return p.sprink[r]
	case 6:
		return r < p.length || r >= m-p.length
	}
	return false
}

// column is one independently shaped column: a pool of K distinct non-null
// values, a null plan, and a row->pool index rule.
type column struct {
	typ   zed.Type
	pool  []zcode.Bytes
	nulls nullPlan
	pick  []int // per row: pool index
}

var poolSizes = []int{1, 1, 2, 3, 5, 16, 255, 256, 257, 300}

func drawColumn(t *rapid.T, vg *gen.ValGen, typ zed.Type, m int) column {
	c := column{typ: typ, nulls: drawNullPlan(t, m)}
	k := rapid.SampledFrom(poolSizes).Draw(t, "poolsize")
	k = max(1, min(k, m))
	if typ == zed.TypeNull {
		c.pool = []zcode.Bytes{nil}
	} else {
		seen := map[string]bool{}
		for tries := 0; len(c.pool) < k && tries < 3*k+8; tries++ {
			v := vg.Value(t, typ)
			if v.IsNull() {
				continue
			}
			if key := string(v.Bytes()); !seen[key] {
				seen[key] = true
				c.pool = append(c.pool, v.Bytes())
			}
		}
		if len(c.pool) == 0 {
			// could not draw a non-null value (e.g. all tries null): the column is all-null
			c.pool = []zcode.Bytes{nil}
		}
	}
	c.pick = make([]int, m)
	for r := range c.pick {
		if len(c.pool) >= 200 {
			c.pick[r] = r % len(c.pool)
		} else if len(c.pool) > 1 {
			c.pick[r] = rapid.IntRange(0, len(c.pool)-1).Draw(t, "pick")
		}
	}
	return c
}

var widePrims = []zed.Type{zed.TypeInt64, zed.TypeUint64, zed.TypeInt32, zed.TypeUint16, zed.TypeFloat64, zed.TypeFloat32,
	zed.TypeString, zed.TypeBytes, zed.TypeIP, zed.TypeNet, zed.TypeTime, zed.TypeDuration, zed.TypeType}

// synth returns the i-th of a family of pairwise distinct values of a wide primitive type.
func synth(typ zed.Type, i int) zcode.Bytes {
	switch typ {
	case zed.TypeInt64, zed.TypeInt32, zed.TypeTime, zed.TypeDuration:
		return zed.EncodeInt(int64(i) - 100)
	case zed.TypeUint64, zed.TypeUint16:
		return zed.EncodeUint(uint64(i))
	case zed.TypeFloat64:
		return zed.EncodeFloat64(float64(i) / 4)
	case zed.TypeFloat32:
		return zed.EncodeFloat32(float32(i) / 4)
	case zed.TypeString:
		return zcode.Bytes(fmt.Sprintf("w%03d", i))
	case zed.TypeBytes:
		return zcode.Bytes{byte(i), byte(i >> 8)}
	case zed.TypeIP:
		return zed.EncodeIP(netip.AddrFrom4([4]byte{10, 0, byte(i >> 8), byte(i)}))
	case zed.TypeNet:
		return zed.EncodeNet(netip.PrefixFrom(netip.AddrFrom4([4]byte{10, byte(i >> 8), byte(i), 0}), 24))
	case zed.TypeType:
		return zed.EncodeTypeValue(&zed.TypeEnum{Symbols: []string{fmt.Sprintf("s%d", i)}})
	}
	panic("harness: synth: not a wide primitive")
}

// drawWideColumn draws a column of a wide primitive type with exactly k
// distinct non-null values (k <= m), every one of them used.
func drawWideColumn(t *rapid.T, vg *gen.ValGen, typ zed.Type, m, k int) column {
	c := column{typ: typ, nulls: drawNullPlan(t, m)}
	if c.nulls.mode == 4 {
		c.nulls.mode = 0
	}
	seen := map[string]bool{}
	// a few generated (boundary-biased) values, the rest synthesized
	for tries := 0; len(c.pool) < min(k, 24) && tries < 64; tries++ {
		v := vg.Value(t, typ)
		if !v.IsNull() && !seen[string(v.Bytes())] {
			seen[string(v.Bytes())] = true
			c.pool = append(c.pool, v.Bytes())
		}
	}
	for i := 0; len(c.pool) < k; i++ {
		if b := synth(typ, i); !seen[string(b)] {
			seen[string(b)] = true
			c.pool = append(c.pool, b)
		}
	}
	c.pick = make([]int, m)
	j := 0
	for r := range c.pick {
		if !c.nulls.isNull(r, m) {
			c.pick[r] = j % len(c.pool)
			j++
		}
	}
	return c
}

func (c column) row(r, m int) zcode.Bytes {
	if c.nulls.isNull(r, m) {
		return nil
	}
	return c.pool[c.pick[r]]
}

func drawSeq(t *rapid.T, o genOpts) gen.Seq {
	zctx := zed.NewContext()
	depth := 3
	tg := &gen.TypeGen{Zctx: zctx, Opts: gen.TypeOpts{MaxDepth: depth, NullInUnion: o.nullInUnion}}
	vg := &gen.ValGen{Zctx: zctx, Types: tg}
	// ---- length and top-level types
	var n int
	switch k := rapid.IntRange(0, 19).Draw(t, "lenkind"); {
	case k == 0:
		n = 0
	case k <= 2:
		n = rapid.IntRange(257, 330).Draw(t, "nlong")
		if vt.Thorough() && rapid.IntRange(0, 3).Draw(t, "verylong") == 0 {
			n = rapid.IntRange(331, 2000).Draw(t, "nverylong")
		}
	case k <= 5:
		n = rapid.IntRange(1, 3).Draw(t, "ntiny")
	default:
		n = rapid.IntRange(1, 40).Draw(t, "n")
	}
	ntypes := 1
	if rapid.IntRange(0, 3).Draw(t, "dynamic?") > 0 {
		ntypes = rapid.IntRange(2, 6).Draw(t, "ntypes")
	}
	// boundary mode: a long sequence whose first type has a wide primitive
	// field "w" with exactly 255/256/257/300 distinct values
	wideK := 0
	var wideType zed.Type
	if n >= 257 && rapid.IntRange(0, 9).Draw(t, "boundary?") < 7 {
		wideK = rapid.SampledFrom([]int{255, 256, 256, 257, 257, 300}).Draw(t, "widek")
		wideType = rapid.SampledFrom(widePrims).Draw(t, "widetype")
		if rapid.Bool().Draw(t, "boundary-single") {
			ntypes = 1
		}
	}
	types := make([]zed.Type, ntypes)
	for i := range types {
		if i == 0 && wideK > 0 {
			rec := tg.Record(t, depth-1).(*zed.TypeRecord)
			fields := append(append([]zed.Field(nil), rec.Fields...), zed.NewField("w", wideType))
			pos := rapid.IntRange(0, len(fields)-1).Draw(t, "widepos")
			fields[pos], fields[len(fields)-1] = fields[len(fields)-1], fields[pos]
			types[i] = zctx.MustLookupTypeRecord(fields)
			continue
		}
		if rapid.IntRange(0, 9).Draw(t, "record?") < 7 {
			types[i] = tg.Record(t, depth-1)
			if rapid.IntRange(0, 7).Draw(t, "namedrec?") == 0 {
				named, err := zctx.LookupTypeNamed(rapid.SampledFrom(gen.TypeNames).Draw(t, "recname"), types[i])
				if err != nil {
					panic("harness: " + err.Error())
				}
				types[i] = named
			}
		} else {
			types[i] = tg.Draw(t, depth)
		}
	}
	if o.nullInUnion {
		// make the corner frequent: half of the types get a field (or are replaced by) a union that contains the null type
		for i := range types {
			if i == 0 && wideK > 0 || rapid.Bool().Draw(t, "nullunion?") {
				continue
			}
			members := []zed.Type{zed.TypeNull}
			for k := rapid.IntRange(1, 3).Draw(t, "nmembers"); k > 0; k-- {
				m := tg.Draw(t, depth-1)
				dup := false
				for _, x := range members {
					dup = dup || x == m
				}
				if !dup {
					members = append(members, m)
				}
			}
			if len(members) < 2 {
				members = append(members, zed.TypeInt64)
			}
			u := zctx.LookupTypeUnion(members)
			if rec := zed.TypeRecordOf(types[i]); rec != nil && types[i] == zed.Type(rec) && !rec.HasField("u") && rapid.Bool().Draw(t, "asfield") {
				types[i] = zctx.MustLookupTypeRecord(append(append([]zed.Field(nil), rec.Fields...), zed.NewField("u", u)))
			} else {
				types[i] = u
			}
		}
	}
	// ---- which type each value has (run structure), rows per type
	which := make([]int, n)
	rows := make([]int, ntypes)
	cur := 0
	for i := range which {
		if rapid.IntRange(0, 2).Draw(t, "switch?") == 0 {
			cur = rapid.IntRange(0, ntypes-1).Draw(t, "which")
			if wideK > 0 && rapid.IntRange(0, 3).Draw(t, "favourwide") > 0 {
				cur = 0
			}
		}
		which[i] = cur
		rows[cur]++
	}
	if wideK > 0 && rows[0] < wideK {
		// not enough rows of the boundary type: give it all of them
		for i := range which {
			which[i] = 0
		}
		rows = make([]int, ntypes)
		rows[0] = n
	}
	// ---- per type: record types get one shaped column per field plus a
	// null plan for the record itself; other types a single column.
	type shape struct {
		rec    *zed.TypeRecord
		fields []column
		whole  column
		nulls  nullPlan
	}
	shapes := make([]shape, ntypes)
	for i, typ := range types {
		m := rows[i]
		if rec := zed.TypeRecordOf(typ); rec != nil && len(rec.Fields) > 0 {
			sh := shape{rec: rec, nulls: drawNullPlan(t, m)}
			if rapid.IntRange(0, 2).Draw(t, "recnulls?") > 0 {
				sh.nulls = nullPlan{}
			}
			for _, f := range rec.Fields {
				if i == 0 && wideK > 0 && f.Name == "w" {
					sh.fields = append(sh.fields, drawWideColumn(t, vg, f.Type, m, min(wideK, m)))
					continue
				}
				sh.fields = append(sh.fields, drawColumn(t, vg, f.Type, m))
			}
			shapes[i] = sh
		} else {
			shapes[i] = shape{whole: drawColumn(t, vg, typ, m)}
		}
	}
	s := gen.Seq{Zctx: zctx}
	seenRows := make([]int, ntypes)
	for _, ti := range which {
		r, m := seenRows[ti], rows[ti]
		seenRows[ti]++
		sh := shapes[ti]
		if sh.rec == nil {
			s.Vals = append(s.Vals, zed.NewValue(types[ti], sh.whole.row(r, m)))
			continue
		}
		if sh.nulls.isNull(r, m) {
			s.Vals = append(s.Vals, zed.NewValue(types[ti], nil))
			continue
		}
		var b zcode.Builder
		b.BeginContainer()
		for _, col := range sh.fields {
			b.Append(col.row(r, m))
		}
		b.EndContainer()
		s.Vals = append(s.Vals, zed.NewValue(types[ti], b.Bytes().Body()))
	}
	return s
}

// recordPaths lists the field paths (up to depth 3) reachable through records
// (named records included) of typ.
func recordPaths(typ zed.Type, prefix []string, depth int, out *[][]string) {
	rec := zed.TypeRecordOf(typ)
	if rec == nil || depth == 0 {
		return
	}
	for _, f := range rec.Fields {
		p := append(append([]string(nil), prefix...), f.Name)
		*out = append(*out, p)
		recordPaths(f.Type, p, depth-1, out)
	}
}

func isPrefix(a, b []string) bool {
	if len(a) > len(b) {
		return false
	}
	for i := range a {
		if a[i] != b[i] {
			return false
		}
	}
	return true
}

func drawPaths(t *rapid.T, s gen.Seq) [][]string {
	var exist [][]string
	seenType := map[zed.Type]bool{}
	for _, v := range s.Vals {
		if !seenType[v.Type()] {
			seenType[v.Type()] = true
			recordPaths(v.Type(), nil, 3, &exist)
		}
	}
	np := rapid.SampledFrom([]int{0, 1, 1, 2, 2, 3, 4}).Draw(t, "npaths")
	var paths [][]string
	absentNames := append([]string{"zz", "missing"}, gen.FieldNames...)
	for k := 0; k < np; k++ {
		var p []string
		switch kind := rapid.IntRange(0, 9).Draw(t, "pathkind"); {
		case kind <= 5 && len(exist) > 0:
			p = rapid.SampledFrom(exist).Draw(t, "existing")
		case kind <= 7 && len(exist) > 0:
			// extension of an existing path (absent unless it happens to exist in another type)
			p = append(append([]string(nil), rapid.SampledFrom(exist).Draw(t, "base")...), rapid.SampledFrom(absentNames).Draw(t, "ext"))
		default:
			p = []string{rapid.SampledFrom(absentNames).Draw(t, "absent")}
			if rapid.Bool().Draw(t, "absent2") {
				p = append(p, rapid.SampledFrom(absentNames).Draw(t, "absent3"))
			}
		}
		// keep the set prefix-free: {a, a.b} is the demand {a}; vcache.NewProjection is
		// only ever handed normalised path sets.
		ok := true
		for _, q := range paths {
			if isPrefix(p, q) || isPrefix(q, p) {
				ok = false
			}
		}
		if ok {
			paths = append(paths, p)
		}
	}
	return paths
}

func genCase(t *rapid.T) Case {
	c := Case{Seq: drawSeq(t, genOpts{})}
	c.Paths = drawPaths(t, c.Seq)
	return c
}

func genCaseNullUnion(t *rapid.T) Case {
	c := Case{Seq: drawSeq(t, genOpts{nullInUnion: true})}
	c.Paths = drawPaths(t, c.Seq)
	return c
}

// ---------------------------------------------------------------- running

type metaStats struct {
	constCol, dictCol, plainCol, emptyPrim int
	nulls, dynamic, union, map_, set, array int
	named, error_, record                  int
	maxDict                                int
}

func walkMeta(m vng.Metadata, st *metaStats) {
	switch m := m.(type) {
	case *vng.Dynamic:
		st.dynamic++
		for _, v := range m.Values {
			walkMeta(v, st)
		}
	case *vng.Nulls:
		st.nulls++
		walkMeta(m.Values, st)
	case *vng.Named:
		st.named++
		walkMeta(m.Values, st)
	case *vng.Error:
		st.error_++
		walkMeta(m.Values, st)
	case *vng.Record:
		st.record++
		for _, f := range m.Fields {
			walkMeta(f.Values, st)
		}
	case *vng.Array:
		st.array++
		walkMeta(m.Values, st)
	case *vng.Set:
		st.set++
		walkMeta(m.Values, st)
	case *vng.Map:
		st.map_++
		walkMeta(m.Keys, st)
		walkMeta(m.Values, st)
	case *vng.Union:
		st.union++
		for _, v := range m.Values {
			walkMeta(v, st)
		}
	case *vng.Const:
		st.constCol++
	case *vng.Primitive:
		switch {
		case len(m.Dict) > 0:
			st.dictCol++
			st.maxDict = max(st.maxDict, len(m.Dict))
		case m.Count == 0:
			st.emptyPrim++
		default:
			st.plainCol++
		}
	}
}

func repoFrame(stack string) string {
	for _, l := range strings.Split(stack, "\n") {
		l = strings.TrimSpace(l)
		if strings.HasPrefix(l, "github.com/brimdata/super") {
			if i := strings.LastIndex(l, "("); i > 0 {
				l = l[:i]
			}
			return strings.TrimPrefix(l, "github.com/brimdata/super")
		}
	}
	return ""
}

// guard runs f and converts a panic that passed through the code under test
// into a failure with signature prefix+"/panic@<frame>".
func guard(prefix string, f func() *vt.Failure) (fail *vt.Failure) {
	defer func() {
		if r := recover(); r != nil {
			stack := string(debug.Stack())
			frame := repoFrame(stack)
			if frame == "" {
				panic(fmt.Sprintf("harness panic: %v\n%s", r, stack))
			}
			fail = vt.Failf(prefix+"/panic@"+frame, "panic: %v\n%s", r, stack)
		}
	}()
	return f()
}

func writeVNG(vals []zed.Value) ([]byte, error) {
	var buf bytes.Buffer
	w := vngio.NewWriter(zio.NopCloser(&buf))
	for _, v := range vals {
		if err := w.Write(v); err != nil {
			return nil, err
		}
	}
	if err := w.Close(); err != nil {
		return nil, err
	}
	return buf.Bytes(), nil
}

func readRows(data []byte) ([]zed.Value, error) {
	zr, err := vngio.NewReader(zed.NewContext(), bytes.NewReader(data), demand.All())
	if err != nil {
		return nil, err
	}
	var out []zed.Value
	for {
		v, err := zr.Read()
		if err != nil {
			return out, err
		}
		if v == nil {
			return out, nil
		}
		out = append(out, v.Copy())
	}
}

func pullAll(p zbuf.Puller) ([]zed.Value, error) {
	var out []zed.Value
	for {
		b, err := p.Pull(false)
		if err != nil {
			return out, err
		}
		if b == nil {
			return out, nil
		}
		for _, v := range b.Values() {
			out = append(out, v.Copy())
		}
		b.Unref()
	}
}

// readVectors loads the object through the vector cache and materialises it
// (explicit Fetch + NewMaterializer).
func readVectors(data []byte) ([]zed.Value, error) {
	o, err := vng.NewObject(bytes.NewReader(data))
	if err != nil {
		return nil, err
	}
	vo := vcache.NewObjectFromVNG(o)
	defer vo.Close()
	zctx := zed.NewContext()
	vec, err := vo.Fetch(zctx, nil)
	if err != nil {
		return nil, err
	}
	return pullAll(vam.NewMaterializer(&onePuller{vec: vec}))
}

type onePuller struct{ vec vector.Any }

func (p *onePuller) Pull(bool) (vector.Any, error) {
	vec := p.vec
	p.vec = nil
	return vec, nil
}

// project reads the object through vam.NewProjection (what `super dev vector project` does).
func project(data []byte, paths [][]string) ([]zed.Value, error) {
	o, err := vng.NewObject(bytes.NewReader(data))
	if err != nil {
		return nil, err
	}
	vo := vcache.NewObjectFromVNG(o)
	defer vo.Close()
	var fp []field.Path
	for _, p := range paths {
		fp = append(fp, field.Path(p))
	}
	return pullAll(vam.NewProjection(zed.NewContext(), vo, fp))
}

// deref follows a field path through records (named records included).
func deref(v zed.Value, path []string) (zed.Value, bool) {
	for _, name := range path {
		rec := zed.TypeRecordOf(v.Type())
		if rec == nil || v.IsNull() {
			return zed.Value{}, false
		}
		i, ok := rec.IndexOfField(name)
		if !ok {
			return zed.Value{}, false
		}
		it := v.Bytes().Iter()
		var b zcode.Bytes
		for k := 0; k <= i; k++ {
			if it.Done() {
				return zed.Value{}, false
			}
			b = it.Next()
		}
		v = zed.NewValue(rec.Fields[i].Type, b)
	}
	return v, true
}

func isMissing(v zed.Value) bool { return v.Ptr().IsMissing() }

// checkProjection compares, value by value and path by path, the projected
// output with the input: data present in the input at the path must be there
// (same type value bytes and value bytes); absent paths must read as missing
// (error("missing") or not reachable).  Nothing else about the shape of the
// output record is constrained.
func checkProjection(input, out []zed.Value, paths [][]string) (sig, msg string, hitAbsent, hitPresent bool) {
	if len(out) != len(input) {
		return "C03/project/length", fmt.Sprintf("projection %v returned %d values for %d input values", paths, len(out), len(input)), false, false
	}
	for i := range input {
		for _, p := range paths {
			in, inOK := deref(input[i], p)
			got, gotOK := deref(out[i], p)
			if inOK && isMissing(in) {
				continue // the data itself is error("missing"): indistinguishable, not constrained
			}
			if !inOK {
				hitAbsent = true
				if gotOK && !isMissing(got) {
					return "C03/project/absent-not-missing", fmt.Sprintf("value %d %s: path %q is absent from the input but the projection yields %s (projected value %s)",
						i, oracle.Show(input[i]), p, oracle.Show(got), oracle.Show(out[i])), hitAbsent, hitPresent
				}
				continue
			}
			hitPresent = true
			if !gotOK || isMissing(got) {
				return "C03/project/present-missing", fmt.Sprintf("value %d %s: path %q holds %s but the projection %v yields %s",
					i, oracle.Show(input[i]), p, oracle.Show(in), paths, oracle.Show(out[i])), hitAbsent, hitPresent
			}
			if oracle.Key(in) != oracle.Key(got) {
				return "C03/project/differs", fmt.Sprintf("value %d %s: path %q holds %s (bytes %x) but the projection %v yields %s (bytes %x) there",
					i, oracle.Show(input[i]), p, oracle.Show(in), in.Bytes(), paths, oracle.Show(got), got.Bytes()), hitAbsent, hitPresent
			}
		}
	}
	return "", "", hitAbsent, hitPresent
}

func nullRunLabels(o *vt.Outcome, input []zed.Value) {
	// per top-level type: null flags of the value itself and of each top-level field
	type colKey struct {
		typ zed.Type
		col int
	}
	flags := map[colKey][]bool{}
	var order []colKey
	add := func(k colKey, isNull bool) {
		if _, ok := flags[k]; !ok {
			order = append(order, k)
		}
		flags[k] = append(flags[k], isNull)
	}
	for _, v := range input {
		add(colKey{v.Type(), -1}, v.IsNull())
		if rec := zed.TypeRecordOf(v.Type()); rec != nil && !v.IsNull() {
			it := v.Bytes().Iter()
			for j := range rec.Fields {
				add(colKey{v.Type(), j}, it.Next() == nil)
			}
		}
	}
	seen := map[string]bool{}
	lab := func(l string) {
		if !seen[l] {
			seen[l] = true
			o.Label(l)
		}
	}
	for _, k := range order {
		f := flags[k]
		n := len(f)
		nn := 0
		for _, b := range f {
			if b {
				nn++
			}
		}
		if nn == 0 {
			continue
		}
		if nn == n {
			lab("all-null-col")
			continue
		}
		if f[0] {
			lab("null-run-start")
		}
		if f[n-1] {
			lab("null-run-end")
		}
		first, last := -1, -1
		for i, b := range f {
			if !b {
				if first < 0 {
					first = i
				}
				last = i
			}
		}
		for i := first; i < last; i++ {
			if f[i] {
				lab("null-run-mid")
				break
			}
		}
	}
}

func typeLabels(o *vt.Outcome, input []zed.Value) (ntypes int) {
	seen := map[zed.Type]bool{}
	has := map[string]bool{}
	for _, v := range input {
		if seen[v.Type()] {
			continue
		}
		seen[v.Type()] = true
		oracle.TypeHas(v.Type(), func(t zed.Type) bool {
			switch t := t.(type) {
			case *zed.TypeUnion:
				has["union"] = true
				for _, m := range t.Types {
					if m == zed.TypeNull {
						has["union-with-null-type"] = true
					}
				}
			case *zed.TypeMap:
				has["map"] = true
			case *zed.TypeSet:
				has["set"] = true
			case *zed.TypeNamed:
				has["named"] = true
			case *zed.TypeEnum:
				has["enum"] = true
			case *zed.TypeError:
				has["error"] = true
			case *zed.TypeArray:
				has["array"] = true
			}
			return false
		})
	}
	var ls []string
	for l := range has {
		ls = append(ls, "has-"+l)
	}
	sort.Strings(ls)
	o.Label(ls...)
	return len(seen)
}

// knownClass describes an open known finding: how to recognise cases of the
// class and how to rewrite them so that the class is absent (everything else
// about the case is kept).
type knownClass struct {
	sig   string
	crash bool // the defect kills the process (panic in a loader goroutine): neutralise before running
	// stage at which the class can first show: "row" (defect of the writer: all read paths), "vector", "project"
	stage        string
	present      func(c *checked) bool
	rewrite      func(c *checked) []zed.Value // nil: data unchanged
	rewritePaths func(c *checked) [][]string  // nil: paths unchanged
}

func mapAll(input []zed.Value, hook nodeHook) []zed.Value {
	out := make([]zed.Value, len(input))
	for i, v := range input {
		out[i] = mapNodes(v, hook)
	}
	return out
}

func anyOf(input []zed.Value, pred func(zed.Type, zcode.Bytes) bool) bool {
	for _, v := range input {
		if anyNode(v, pred) {
			return true
		}
	}
	return false
}

func eachType(input []zed.Value, f func(zed.Type)) {
	seen := map[zed.Type]bool{}
	for _, v := range input {
		if !seen[v.Type()] {
			seen[v.Type()] = true
			f(v.Type())
		}
	}
}

type checked struct {
	zctx  *zed.Context
	input []zed.Value
	data  []byte
	paths [][]string
	// metadata of data, parsed on demand
	metaOf []byte
	metaV  vng.Metadata
}

func (c *checked) meta() vng.Metadata {
	if c.metaV == nil || len(c.metaOf) != len(c.data) || (len(c.data) > 0 && &c.metaOf[0] != &c.data[0]) {
		c.metaOf, c.metaV = c.data, nil
		if obj, err := vng.NewObject(bytes.NewReader(c.data)); err == nil {
			c.metaV = obj.Metadata()
		}
	}
	return c.metaV
}

var stageOrder = map[string]int{"row": 0, "vector": 1, "project": 2}

func checkRow(ck *checked) *vt.Failure {
	return guard("C03/row", func() *vt.Failure {
		out, err := readRows(ck.data)
		if err != nil {
			return vt.Failf("C03/row/error", "vngio.NewReader/Read failed after %d of %d values: %v", len(out), len(ck.input), err)
		}
		if d := oracle.Same(ck.input, out); d != "" {
			return vt.Failf("C03/row/differs", "%s", d)
		}
		return nil
	})
}

// checkVector is the vector-path oracle on one (input, bytes) pair.
func checkVector(ck *checked) *vt.Failure {
	return guard("C03/vector", func() *vt.Failure {
		out, err := readVectors(ck.data)
		if err != nil {
			return vt.Failf("C03/vector/error", "vcache Fetch + materialize failed after %d of %d values: %v", len(out), len(ck.input), err)
		}
		if d := oracle.Same(ck.input, out); d != "" {
			return vt.Failf("C03/vector/differs", "%s", d)
		}
		return nil
	})
}

type projResult struct{ hitAbsent, hitPresent bool }

func checkProject(ck *checked, res *projResult) *vt.Failure {
	if len(ck.paths) == 0 {
		return nil
	}
	return guard("C03/project", func() *vt.Failure {
		out, err := project(ck.data, ck.paths)
		if err != nil {
			return vt.Failf("C03/project/error", "vam.NewProjection(%v) failed: %v", ck.paths, err)
		}
		sig, msg, ha, hp := checkProjection(ck.input, out, ck.paths)
		res.hitAbsent, res.hitPresent = ha, hp
		if sig != "" {
			return vt.Failf(sig, "%s", msg)
		}
		return nil
	})
}

// apply rewrites ck according to kc.
func (kc *knownClass) apply(ck *checked) *vt.Failure {
	if kc.rewritePaths != nil {
		ck.paths = kc.rewritePaths(ck)
	}
	if kc.rewrite != nil {
		in2 := kc.rewrite(ck)
		for i, v := range in2 {
			if err := v.Validate(); err != nil {
				panic(fmt.Sprintf("harness: neutralised value %d fails Validate: %v", i, err))
			}
		}
		data2, err := writeVNG(in2)
		if err != nil {
			return vt.Failf("C03/write/error", "vngio writer failed on neutralised input: %v", err)
		}
		ck.input, ck.data = in2, data2
	}
	return nil
}

// withNeutralised runs check on ck; when it fails and the case belongs to open
// known classes (of this or an earlier stage), the classes are rewritten away
// one after the other until the check passes (the applied signatures are
// recorded as Known) or none is left (the failure of the fully neutralised
// case is reported).
func withNeutralised(o *vt.Outcome, stage string, ck *checked, check func(*checked) *vt.Failure) *vt.Failure {
	fail := check(ck)
	if fail == nil {
		return nil
	}
	var applied []string
	for i := range knownClasses {
		kc := &knownClasses[i]
		if kc.crash || stageOrder[kc.stage] > stageOrder[stage] || !vt.IsKnown(kc.sig) || !kc.present(ck) {
			continue
		}
		if f := kc.apply(ck); f != nil {
			return f
		}
		applied = append(applied, kc.sig)
		if fail = check(ck); fail == nil {
			o.Known = append(o.Known, applied...)
			return nil
		}
	}
	return fail
}

func runCase(c Case) *vt.Outcome {
	o := &vt.Outcome{}
	input := c.Seq.Vals
	for i, v := range input {
		if err := v.Validate(); err != nil {
			panic(fmt.Sprintf("harness: generated value %d fails Validate: %v", i, err))
		}
	}
	ntypes := typeLabels(o, input)
	nullRunLabels(o, input)
	lab := func(cond bool, l string) {
		if cond {
			o.Label(l)
		}
	}
	lab(len(input) == 0, "empty")
	lab(ntypes == 1, "single-type")
	lab(ntypes >= 2, "dynamic")
	lab(ntypes >= 4, "types>=4")
	lab(len(input) >= 257, "len>=257")

	// ---- write
	var data []byte
	if f := guard("C03/write", func() *vt.Failure {
		var err error
		data, err = writeVNG(input)
		if err != nil {
			return vt.Failf("C03/write/error", "vngio writer failed on %d values: %v", len(input), err)
		}
		return nil
	}); f != nil {
		o.Fail = f
		return o
	}
	zctx := c.Seq.Zctx
	if zctx == nil {
		zctx = zed.NewContext()
	}
	ck := &checked{zctx: zctx, input: input, data: data, paths: c.Paths}
	var st metaStats
	if m := ck.meta(); m != nil {
		walkMeta(m, &st)
	}
	lab(st.constCol > 0, "const-col")
	lab(st.dictCol > 0, "dict-col(<=256)")
	lab(st.maxDict == 256, "dict-col(=256)")
	lab(st.maxDict >= 200, "dict-col(>=200)")
	lab(st.plainCol > 0, "plain-col")
	lab(st.nulls > 0, "nulls-vector")
	lab(st.union > 0, "union-vector")
	lab(st.map_ > 0, "map-vector")
	anyNull := st.nulls > 0
	o.NonTrivial = len(input) > 0 && (st.constCol > 0 || st.dictCol > 0 || anyNull || ntypes >= 2)

	// ---- row path
	if f := withNeutralised(o, "row", ck, checkRow); f != nil {
		o.Fail = f
		return o
	}

	// ---- vector path (classes whose defect would kill the process are rewritten away first)
	for i := range knownClasses {
		kc := &knownClasses[i]
		if kc.crash && vt.IsKnown(kc.sig) && kc.present(ck) {
			if f := kc.apply(ck); f != nil {
				o.Fail = f
				return o
			}
			o.Known = append(o.Known, kc.sig)
			o.Label("pre-neutralised")
		}
	}
	if f := withNeutralised(o, "vector", ck, checkVector); f != nil {
		o.Fail = f
		return o
	}

	// ---- projection
	if len(c.Paths) > 0 {
		o.Label("projection")
		lab(len(c.Paths) >= 2, "projection-forked")
		var res projResult
		if f := withNeutralised(o, "project", ck, func(ck *checked) *vt.Failure { return checkProject(ck, &res) }); f != nil {
			o.Fail = f
			return o
		}
		lab(res.hitAbsent, "projection-hits-absent")
		lab(res.hitPresent, "projection-hits-present")
		if res.hitAbsent && len(input) > 0 {
			o.NonTrivial = true
		}
	}
	lab(len(o.Known) > 0, "neutralised-known-class")
	return o
}

const rule = "case = (value sequence shaped per column: pool of K in {1,2,3,5,16,255,256,257,300} distinct values, null plan in {none,start,middle,end,all,sprinkled,start+end} per top-level field and per record; " +
	"1 or 2..6 interleaved top-level types (70% records, some named), length 0 / 1..40 / 257..330 (thorough ..2000); projection = 0..4 prefix-free paths: existing, extension of existing, absent). " +
	"Oracle: row path (vngio.NewReader) == input; vector path (vcache Fetch + vam materializer) == input; projection: per value and path, present data identical, absent reads as missing. " +
	"Non-trivial: non-empty AND (some column const- or dict-encoded OR a Nulls vector present OR >=2 top-level types OR the projection hits an absent path)."

var prop = &vt.Prop[Case]{Name: "TestVNGRoundTrip", Rule: rule, Gen: genCase, Run: runCase}

var propNullUnion = &vt.Prop[Case]{Name: "TestVNGNullInUnion",
	Rule: "opt-in corner: as TestVNGRoundTrip but unions may contain the null type (gen.TypeOpts.NullInUnion); reported separately",
	Gen:  genCaseNullUnion, Run: runCase}

func init() {
	prop.Register()
	propNullUnion.Register()
}

func TestVNGRoundTrip(t *testing.T)   { prop.Check(t) }
func TestVNGNullInUnion(t *testing.T) { propNullUnion.Check(t) }
func TestReplay(t *testing.T)         { vt.TestReplay(t) }

// TestLiteral is a development aid: VERIF_ZSON holds ZSON values, VERIF_PATHS
// comma-separated dotted paths; the case is run through the oracle and printed
// as a replay file body (used to write /verif/replays/C03/known-*.json).
func TestLiteral(t *testing.T) {
	text := os.Getenv("VERIF_ZSON")
	var c Case
	if f := os.Getenv("VERIF_CASEFILE"); f != "" {
		// subset of a saved case: VERIF_KEEP = comma separated value indexes (or lo-hi ranges)
		b, err := os.ReadFile(f)
		if err != nil {
			t.Fatal(err)
		}
		var rf struct{ Case Case }
		if err := json.Unmarshal(b, &rf); err != nil {
			t.Fatal(err)
		}
		c = rf.Case
		if keep := os.Getenv("VERIF_KEEP"); keep != "" {
			var vals []zed.Value
			for _, part := range strings.Split(keep, ",") {
				var lo, hi int
				if n, _ := fmt.Sscanf(part, "%d-%d", &lo, &hi); n < 2 {
					fmt.Sscanf(part, "%d", &lo)
					hi = lo
				}
				for i := lo; i <= hi && i < len(c.Seq.Vals); i++ {
					vals = append(vals, c.Seq.Vals[i])
				}
			}
			c.Seq.Vals = vals
		}
	} else if text == "" {
		t.Skip("VERIF_ZSON not set")
	} else {
		c = Case{Seq: gen.SeqFromZSON(text)}
	}
	if p := os.Getenv("VERIF_PATHS"); p != "" {
		for _, d := range strings.Split(p, ",") {
			c.Paths = append(c.Paths, strings.Split(d, "."))
		}
	}
	for i, v := range c.Seq.Vals {
		if i < 20 {
			t.Logf("in[%d] = %s   bytes=%x", i, oracle.Show(v), v.Bytes())
		}
	}
	raw, _ := json.Marshal(c)
	var back Case
	if err := json.Unmarshal(raw, &back); err != nil {
		t.Fatal(err)
	}
	o := runCase(back)
	sig, msg := "", ""
	if o.Fail != nil {
		sig, msg = o.Fail.Sig, o.Fail.Msg
		if len(msg) > 1500 {
			msg = msg[:1500]
		}
	}
	t.Logf("labels=%v nontrivial=%v known=%v\nsig=%s\nmsg=%s", o.Labels, o.NonTrivial, o.Known, sig, msg)
	if out := os.Getenv("VERIF_LITERAL_OUT"); out != "" {
		test := os.Getenv("VERIF_LITERAL_TEST")
		if test == "" {
			test = "TestVNGRoundTrip"
		}
		if e := os.Getenv("VERIF_LITERAL_SIG"); e != "" {
			sig = e
		}
		rf := map[string]any{"test": test, "sig": sig, "case": json.RawMessage(raw)}
		if e := os.Getenv("VERIF_LITERAL_EXPECT"); e != "" {
			rf["expect"] = e
		}
		b, _ := json.MarshalIndent(rf, "", " ")
		os.WriteFile(out, append(b, '\n'), 0o644)
	}
}
