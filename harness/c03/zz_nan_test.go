package c03

import (
	"testing"

	zed "github.com/brimdata/super"
	"verif/gen"
)

func TestNaNProbe(t *testing.T) {
	snan32 := []byte{0x01, 0x00, 0xa0, 0x7f}
	snan64 := []byte{0x01, 0, 0, 0, 0, 0, 0xf4, 0x7f}
	qnan16 := []byte{0x01, 0x7e}
	snan16 := []byte{0x01, 0x7d}
	one32 := zed.EncodeFloat32(1)
	for name, vals := range map[string][]zed.Value{
		"const32": {zed.NewValue(zed.TypeFloat32, snan32), zed.NewValue(zed.TypeFloat32, snan32)},
		"dict32":  {zed.NewValue(zed.TypeFloat32, snan32), zed.NewValue(zed.TypeFloat32, one32), zed.NewValue(zed.TypeFloat32, snan32)},
		"const64": {zed.NewValue(zed.TypeFloat64, snan64), zed.NewValue(zed.TypeFloat64, snan64)},
		"const16": {zed.NewValue(zed.TypeFloat16, snan16), zed.NewValue(zed.TypeFloat16, snan16)},
		"dict16":  {zed.NewValue(zed.TypeFloat16, snan16), zed.NewValue(zed.TypeFloat16, qnan16), zed.NewValue(zed.TypeFloat16, snan16)},
	} {
		for i := 0; i < 6; i++ {
			o := runCase(Case{Seq: gen.Seq{Zctx: zed.NewContext(), Vals: vals}})
			sig := ""
			if o.Fail != nil {
				sig = o.Fail.Sig + " " + o.Fail.Msg
			}
			t.Logf("%s #%d known=%v fail=%s", name, i, o.Known, sig)
		}
	}
}
