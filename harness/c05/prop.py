PROP = dict(
        pkg="c05", level="exploration",
        rule="C05: generated histories of type-context operations checked against a structural model (normal form -> first pointer): sequential on 2..3 contexts, concurrent on one shared context, plus the named-chain union corner",
        assumptions=[
            "the harness's normal form, type order and type-value serialisation are written from docs/formats/zed.md (sections 2-3) and docs/formats/zng.md (section 4); where zed.md does not settle the relative order of two named types (same ultimate underlying type, different intermediate names) unions containing such a pair are excluded from TestHistory/TestConcurrent and examined by TestNamedChainUnion only",
            "LookupTypeDef is checked against a may-set: it must return one of the bindings made for the name since the last explicit LookupTypeNamed (decoding a type value binds the names in it only when the value was not already cached), exactly that binding when there is only one",
            "goroutine schedules are free-running (GOMAXPROCS 1, 2, 4 and all cores; common start barrier; 1..50 repetitions, thorough 200): no yield hook inside Context.DecodeTypeValue was needed to observe the def->ref rebinding window; at GOMAXPROCS=1 that window is practically never hit",
            "only well-formed type values are fed to LookupByValue/DecodeTypeValue (truncated or malformed bytes belong to C11)",
        ],
        level_text="Exploration: rapid-generated histories (state-machine style, JSON-replayable) of constructor lookups, lookups by serialized value, translations, decodes, typedef queries and mapper calls; every result and, after every step, every type known to the model is checked for pointer/id canonicity and canonical serialization; concurrent histories additionally under the race detector in the thorough tier.",
        level_note="Trusted: the harness's own normal form/serializer/parser (cross-checked against EncodeTypeValue on every type). Not covered: Context.Reset, MapperLookupCache, TypeVectorTable, malformed type values, adversarial schedules beyond what free-running goroutines produce.",
        technique="stateful property-based testing (rapid) against a structural model; concurrent variant with -race in the thorough tier",
        race_thorough=True,
        env=dict(GORACE="log_path=racelog"),
        tests=[
            dict(name="TestHistory", quick=(6, 1200), thorough=(16, 2500)),
            dict(name="TestConcurrent", quick=(4, 600), thorough=(8, 2000)),
            dict(name="TestConcurrentP1", gomaxprocs=1, quick=(1, 400), thorough=(2, 1500)),
            dict(name="TestConcurrentP2", gomaxprocs=2, quick=(1, 400), thorough=(2, 1500)),
            dict(name="TestConcurrentP4", gomaxprocs=4, quick=(1, 400), thorough=(2, 1500)),
            dict(name="TestNamedChainUnion", quick=(1, 1500), thorough=(2, 6000)),
        ],
)
