package c05

// Concurrent variant: the same kind of histories executed by 2..8 goroutines
// on one shared context S.  Every goroutine knows (statically) the structure
// each of its operations must return; afterwards the shared context is checked
// sequentially with the machinery of TestHistory.

import (
	"fmt"
	"os"
	"path/filepath"
	"runtime"
	"runtime/debug"
	"sort"
	"strings"
	"sync"
	"sync/atomic"
	"testing"

	zed "github.com/brimdata/super"
	"pgregory.net/rapid"

	"verif/vt"
)

// Context numbering inside a CCase: 0 = S, the shared context under test;
// 1 = F, a shared source context filled by Pre only (read-only afterwards,
// source of the shared Mapper F->S); 2 = the executing goroutine's private context.
type CCase struct {
	Pre  []Op   `json:"pre,omitempty"` // executed sequentially before the goroutines start (contexts 0 and 1)
	G    [][]Op `json:"g"`             // one history per goroutine; ordinals: Pre ops first, then the goroutine's own
	Reps int    `json:"reps"`          // every goroutine runs its history this many times
}

var concModel = Case{NCtx: 3, Mappers: [][2]int{{1, 0}}}

func concOpAllowed(op *Op, pre bool) bool {
	if pre {
		return (op.Op == "lookup" || op.Op == "translate") && (op.Ctx == 0 || op.Ctx == 1)
	}
	switch op.Op {
	case "lookup", "translate", "byvalue", "decode", "typevalue":
		return op.Ctx == 0 || op.Ctx == 2
	case "typedef":
		return op.Ctx == 0
	case "mapenter", "maplookup":
		return op.Ctx == 0 && op.Map == 0
	}
	return false
}

// concStatic validates a CCase and returns the expected results per goroutine
// (index space: Pre ordinals, then own ordinals).
func concStatic(c *CCase) (pre []*sres, per [][]*sres, err error) {
	for i := range c.Pre {
		if !concOpAllowed(&c.Pre[i], true) {
			return nil, nil, errBadCase
		}
		r, err := staticResult(&concModel, &c.Pre[i], pre)
		if err != nil {
			return nil, nil, err
		}
		pre = append(pre, r)
	}
	for _, ops := range c.G {
		results := append([]*sres(nil), pre...)
		for i := range ops {
			if !concOpAllowed(&ops[i], false) {
				return nil, nil, errBadCase
			}
			r, err := staticResult(&concModel, &ops[i], results)
			if err != nil {
				return nil, nil, err
			}
			results = append(results, r)
		}
		per = append(per, results)
	}
	return pre, per, nil
}

// ---------------------------------------------------------------- generator

var concPrims = []string{"int64", "string", "uint8", "null"}

func genConc(t *rapid.T) CCase {
	var c CCase
	names := typeNames[:rapid.IntRange(1, 2).Draw(t, "nnames")]
	maxOps, maxReps := 12, []int{1, 2, 5, 20, 50}
	if vt.Thorough() {
		maxOps, maxReps = 25, []int{1, 2, 5, 20, 50, 200}
	}
	c.Reps = rapid.SampledFrom(maxReps).Draw(t, "reps")
	var pre []*sres
	preGen := rapid.Custom(func(t *rapid.T) Op {
		op := Op{Op: "lookup", Ctx: rapid.IntRange(0, 1).Draw(t, "ctx")}
		g := &tyGen{t: t, ctx: op.Ctx, results: pre, names: names, maxSize: 30}
		op.T = g.draw(2)
		r, err := staticResult(&concModel, &op, pre)
		if err != nil {
			panic("harness: invalid pre op")
		}
		c.Pre = append(c.Pre, op)
		pre = append(pre, r)
		return op
	})
	rapid.SliceOfN(preGen, 0, 6).Draw(t, "pre")
	ng := rapid.IntRange(2, 8).Draw(t, "goroutines")
	for gi := 0; gi < ng; gi++ {
		results := append([]*sres(nil), pre...)
		var ops []Op
		opGen := rapid.Custom(func(t *rapid.T) Op {
			var avail, inF []int
			for i, r := range results {
				if r != nil {
					avail = append(avail, i)
					if r.ctx == 1 {
						inF = append(inF, i)
					}
				}
			}
			op := Op{Op: "lookup"}
			k := rapid.IntRange(0, 99).Draw(t, "opkind")
			switch {
			case k < 22 || len(avail) == 0:
				// general lookup in S
				g := &tyGen{t: t, ctx: 0, results: results, names: names, maxSize: 30}
				op.T = g.draw(2)
			case k < 34:
				// (re)bind a name in S directly
				op.T = &Ty{K: "named", N: rapid.SampledFrom(names).Draw(t, "tname"),
					C: []*Ty{{K: "prim", N: rapid.SampledFrom(concPrims).Draw(t, "prim")}}}
			case k < 52:
				// in the private context: a type whose value defines a name and refers to it later
				op.Ctx = 2
				g := &tyGen{t: t, ctx: 2, results: results, names: names, maxSize: 30}
				if rapid.IntRange(0, 3).Draw(t, "defref?") > 0 {
					named := &Ty{K: "named", N: rapid.SampledFrom(names).Draw(t, "tname"),
						C: []*Ty{{K: "prim", N: rapid.SampledFrom(concPrims).Draw(t, "prim")}}}
					nmid := rapid.IntRange(0, 3).Draw(t, "nmid")
					perm := rapid.Permutation(fieldNames).Draw(t, "fnames")
					r := &Ty{K: "rec", F: append([]string(nil), perm[:nmid+2]...)}
					r.C = append(r.C, named)
					for i := 0; i < nmid; i++ {
						r.C = append(r.C, g.draw(1))
					}
					r.C = append(r.C, cloneTy(named))
					op.T = r
				} else {
					op.T = g.draw(2)
				}
			case k < 86:
				op.Op = rapid.SampledFrom([]string{"decode", "decode", "decode", "translate", "translate", "byvalue", "typevalue"}).Draw(t, "cross")
				op.Ctx = 0
				if rapid.IntRange(0, 7).Draw(t, "toprivate?") == 0 {
					op.Ctx = 2
				}
				// prefer recent results and results whose value contains a name reference
				op.Src = rapid.SampledFrom(avail).Draw(t, "src")
				if canonStats(results[op.Src].nf).refs == 0 && rapid.Bool().Draw(t, "resrc") {
					op.Src = rapid.SampledFrom(avail).Draw(t, "src2")
				}
			case k < 91:
				op.Op = "typedef"
				op.Name = rapid.SampledFrom(names).Draw(t, "defname")
			default:
				if len(inF) == 0 {
					op.Op = "typedef"
					op.Name = rapid.SampledFrom(names).Draw(t, "defname")
					break
				}
				op.Op = rapid.SampledFrom([]string{"mapenter", "mapenter", "maplookup"}).Draw(t, "mapop")
				op.Src = rapid.SampledFrom(inF).Draw(t, "fsrc")
			}
			r, err := staticResult(&concModel, &op, results)
			if err != nil || !concOpAllowed(&op, false) {
				panic(fmt.Sprintf("harness: invalid concurrent op %+v: %v", op, err))
			}
			ops = append(ops, op)
			results = append(results, r)
			return op
		})
		rapid.SliceOfN(opGen, 1, maxOps).Draw(t, "ops")
		c.G = append(c.G, ops)
	}
	return c
}

// ---------------------------------------------------------------- execution

const sigConcRef = "C05/concurrent/nameref-resolved-against-concurrent-rebinding"

type gstate struct {
	id      int
	shared  *zed.Context
	src     *zed.Context
	private *zed.Context
	mapper  *zed.Mapper
	want    []*sres
	npre    int
	memo    map[zed.Type]*NF
	seen    map[string]zed.Type // S only: normal form -> pointer, as observed by this goroutine
	results []zed.Type
	first   []zed.Type
	fail    *vt.Failure
	repanic any
	op      string
	rep     int
	nameref int
	decodes int
}

func (g *gstate) ctxOf(i int) *zed.Context {
	switch i {
	case 0:
		return g.shared
	case 1:
		return g.src
	}
	return g.private
}

func (g *gstate) failf(sig, format string, args ...any) *vt.Failure {
	return vt.Failf(sig, "goroutine %d rep %d (%s): %s", g.id, g.rep, g.op, fmt.Sprintf(format, args...))
}

// check verifies a type returned for context ci against the expected structure.
func (g *gstate) check(ci int, typ zed.Type, want *NF, what string) *vt.Failure {
	if typ == nil {
		return g.failf("C05/concurrent/nil-type/"+g.op, "%s returned nil, want %s", what, show(want))
	}
	got := walk(typ, g.memo)
	if want != nil && got.Key != want.Key {
		if refRebound(want, got) {
			return g.failf(sigConcRef, "%s returned %s, want %s: a name reference in the type value was resolved to a binding another goroutine made after the definition was decoded", what, show(got), show(want))
		}
		return g.failf("C05/concurrent/wrong-structure/"+g.op, "%s returned %s, want %s", what, show(got), show(want))
	}
	if ci == 0 {
		for _, st := range subtypes(typ, map[zed.Type]bool{}, nil) {
			n := walk(st, g.memo)
			if p0, ok := g.seen[n.Key]; ok {
				if p0 != st {
					return g.failf("C05/concurrent/same-structure-two-pointers", "%s: the shared context returned two pointers (ids %d, %d) for %s", what, zed.TypeID(p0), zed.TypeID(st), show(n))
				}
			} else {
				g.seen[n.Key] = st
			}
		}
	}
	return nil
}

func (g *gstate) build(ci int, t *Ty) (zed.Type, *NF, *vt.Failure) {
	z := g.ctxOf(ci)
	kids := make([]zed.Type, len(t.C))
	knfs := make([]*NF, len(t.C))
	for i, c := range t.C {
		k, n, f := g.build(ci, c)
		if f != nil {
			return nil, nil, f
		}
		kids[i], knfs[i] = k, n
	}
	var typ zed.Type
	var want *NF
	switch t.K {
	case "prim":
		p := zed.LookupPrimitive(t.N)
		return p, mkPrim(p.ID()), nil
	case "res":
		return g.results[t.R], g.want[t.R].nf, nil
	case "rec":
		fields := make([]zed.Field, len(kids))
		for i := range kids {
			fields[i] = zed.NewField(t.F[i], kids[i])
		}
		rt, err := z.LookupTypeRecord(fields)
		if err != nil {
			return nil, nil, g.failf("C05/concurrent/unexpected-error/LookupTypeRecord", "%v", err)
		}
		typ, want = rt, mkRec(t.F, knfs)
	case "arr":
		typ, want = z.LookupTypeArray(kids[0]), mkArr(knfs[0])
	case "set":
		typ, want = z.LookupTypeSet(kids[0]), mkSet(knfs[0])
	case "err":
		typ, want = z.LookupTypeError(kids[0]), mkErr(knfs[0])
	case "map":
		typ, want = z.LookupTypeMap(kids[0], kids[1]), mkMap(knfs[0], knfs[1])
	case "union":
		typ, want = z.LookupTypeUnion(append([]zed.Type(nil), kids...)), mkUnion(knfs)
	case "enum":
		typ, want = z.LookupTypeEnum(append([]string(nil), t.F...)), mkEnum(t.F)
	case "named":
		nt, err := z.LookupTypeNamed(t.N, kids[0])
		if err != nil {
			return nil, nil, g.failf("C05/concurrent/unexpected-error/LookupTypeNamed", "%v", err)
		}
		typ, want = nt, mkNamed(t.N, knfs[0])
	}
	if f := g.check(ci, typ, want, "LookupType"+t.K); f != nil {
		return nil, nil, f
	}
	return typ, want, nil
}

func (g *gstate) exec(j int, op *Op) *vt.Failure {
	g.op = op.Op
	ord := g.npre + j
	want := g.want[ord]
	z := g.ctxOf(op.Ctx)
	var typ zed.Type
	switch op.Op {
	case "lookup":
		t, _, f := g.build(op.Ctx, op.T)
		if f != nil {
			return f
		}
		typ = t
	case "translate":
		t, err := z.TranslateType(g.results[op.Src])
		if err != nil {
			return g.failf("C05/concurrent/unexpected-error/TranslateType", "%v", err)
		}
		if f := g.check(op.Ctx, t, want.nf, "TranslateType"); f != nil {
			return f
		}
		typ = t
	case "byvalue":
		b := zed.EncodeTypeValue(g.results[op.Src])
		t, err := z.LookupByValue(b)
		if err != nil {
			return g.failf("C05/concurrent/unexpected-error/LookupByValue", "%v", err)
		}
		if f := g.check(op.Ctx, t, want.nf, "LookupByValue"); f != nil {
			return f
		}
		typ = t
	case "decode":
		b := zed.EncodeTypeValue(g.results[op.Src])
		t, rest := z.DecodeTypeValue(b)
		g.decodes++
		if rest == nil || len(rest) != 0 {
			return g.failf("C05/concurrent/unexpected-error/DecodeTypeValue", "DecodeTypeValue(%x) left rest=%v (nil=%v)", b, rest, rest == nil)
		}
		if f := g.check(op.Ctx, t, want.nf, "DecodeTypeValue"); f != nil {
			return f
		}
		typ = t
	case "typevalue":
		v := z.LookupTypeValue(g.results[op.Src])
		if v.Type() != zed.TypeType {
			return g.failf("C05/concurrent/typevalue-not-a-type-value", "LookupTypeValue(%s) has type id %d", show(want.nf), v.Type().ID())
		}
		p, err := parseWhole(v.Bytes())
		if err != nil || p.Key != want.nf.Key {
			return g.failf("C05/concurrent/typevalue-wrong", "LookupTypeValue(%s) = %x which denotes %s (%v)", show(want.nf), v.Bytes(), show(p), err)
		}
		t, rest := z.DecodeTypeValue(v.Bytes())
		if rest == nil || len(rest) != 0 {
			return g.failf("C05/concurrent/unexpected-error/DecodeTypeValue", "DecodeTypeValue(LookupTypeValue) left rest=%v", rest)
		}
		if f := g.check(op.Ctx, t, want.nf, "DecodeTypeValue(LookupTypeValue)"); f != nil {
			return f
		}
		typ = t
	case "typedef":
		d := z.LookupTypeDef(op.Name)
		if d != nil {
			if d.Name != op.Name {
				return g.failf("C05/concurrent/typedef/wrong-name", "LookupTypeDef(%q) returned a type named %q", op.Name, d.Name)
			}
			if f := g.check(0, d, nil, "LookupTypeDef"); f != nil {
				return f
			}
		}
	case "mapenter":
		ext := g.results[op.Src]
		t, err := g.mapper.Enter(ext)
		if err != nil {
			return g.failf("C05/concurrent/unexpected-error/Mapper.Enter", "%v", err)
		}
		if f := g.check(0, t, want.nf, "Mapper.Enter"); f != nil {
			return f
		}
		if got := g.mapper.Lookup(zed.TypeID(ext)); got != t {
			return g.failf("C05/concurrent/mapper/lookup-after-enter", "Mapper.Lookup(%d) = %v after Enter returned type id %d", zed.TypeID(ext), got, zed.TypeID(t))
		}
		typ = t
	case "maplookup":
		ext := g.results[op.Src]
		if got := g.mapper.Lookup(zed.TypeID(ext)); got != nil {
			// someone has entered it: must be S's type of that structure
			if f := g.check(0, got, g.want[op.Src].nf, "Mapper.Lookup"); f != nil {
				return f
			}
		}
	}
	g.results[ord] = typ
	if typ != nil {
		if g.rep == 0 {
			g.first[ord] = typ
		} else if g.first[ord] != typ {
			return g.failf("C05/concurrent/pointer-changed-between-repetitions", "repetition 0 returned type id %d and repetition %d returned id %d for %s",
				zed.TypeID(g.first[ord]), g.rep, zed.TypeID(typ), show(want.nf))
		}
	}
	return nil
}

func hasNamed(n *NF) bool {
	if n.Kind == 'N' {
		return true
	}
	for _, k := range n.Kids {
		if hasNamed(k) {
			return true
		}
	}
	return false
}

func repoFrameOf(stack string) string {
	for _, l := range strings.Split(stack, "\n") {
		l = strings.TrimSpace(l)
		if strings.HasPrefix(l, "github.com/brimdata/super") {
			if i := strings.LastIndex(l, "("); i > 0 {
				l = l[:i]
			}
			return strings.TrimPrefix(l, "github.com/brimdata/super")
		}
	}
	return ""
}

func (g *gstate) run(ops []Op, reps int, start <-chan struct{}, stop *atomic.Bool) {
	defer func() {
		if r := recover(); r != nil {
			stack := string(debug.Stack())
			if frame := repoFrameOf(stack); frame != "" {
				g.fail = vt.Failf("panic@"+frame, "goroutine %d: panic: %v\n%s", g.id, r, stack)
			} else {
				g.repanic = fmt.Sprintf("harness panic in goroutine: %v\n%s", r, stack)
			}
			stop.Store(true)
		}
	}()
	<-start
	for g.rep = 0; g.rep < reps; g.rep++ {
		for j := range ops {
			if stop.Load() {
				return
			}
			if f := g.exec(j, &ops[j]); f != nil {
				g.fail = f
				stop.Store(true)
				return
			}
		}
	}
}

func runConc(c CCase) *vt.Outcome {
	o := &vt.Outcome{}
	pre, per, err := concStatic(&c)
	if err != nil || len(c.G) < 1 || len(c.G) > 64 || c.Reps < 1 || c.Reps > 10000 {
		return &vt.Outcome{Skip: "invalid-history"}
	}
	o.Label(fmt.Sprintf("gomaxprocs:%d", runtime.GOMAXPROCS(0)), fmt.Sprintf("goroutines:%d", len(c.G)))
	shared, src := zed.NewContext(), zed.NewContext()
	mapper := zed.NewMapper(shared)

	// sequential prefix, through the sequential runner (full model)
	r := &runner{c: &Case{NCtx: 2}, o: o, canon: map[string][]byte{}, labels: map[string]bool{}, bound: map[string]map[string]bool{}}
	r.ctxs = []*mctx{newMctx(0), newMctx(1)}
	r.ctxs[0].z, r.ctxs[1].z = shared, src
	preTypes := make([]zed.Type, len(c.Pre))
	for i := range c.Pre {
		op := &c.Pre[i]
		r.step, r.opname = i, "pre-"+op.Op
		switch op.Op {
		case "lookup":
			typ, _, f := r.build(r.ctxs[op.Ctx], op.T)
			if f != nil {
				o.Fail = f
				return o
			}
			preTypes[i] = typ
		case "translate":
			typ, err := r.ctxs[op.Ctx].z.TranslateType(preTypes[op.Src])
			if err != nil {
				o.Fail = r.failf("C05/unexpected-error/TranslateType", "%v", err)
				return o
			}
			if f := r.observe(r.ctxs[op.Ctx], typ, pre[i].nf, "TranslateType"); f != nil {
				o.Fail = f
				return o
			}
			preTypes[i] = typ
		}
		r.results = append(r.results, &rres{op.Ctx, preTypes[i], pre[i].nf})
	}

	// concurrent phase
	start := make(chan struct{})
	var stop atomic.Bool
	var wg sync.WaitGroup
	gs := make([]*gstate, len(c.G))
	totalOps, hasDecodeRef, hasBinder := 0, false, false
	sharedWriters := map[int]bool{}
	for gi, ops := range c.G {
		g := &gstate{id: gi, shared: shared, src: src, private: zed.NewContext(), mapper: mapper, want: per[gi], npre: len(c.Pre),
			memo: map[zed.Type]*NF{}, seen: map[string]zed.Type{}}
		g.results = make([]zed.Type, len(per[gi]))
		g.first = make([]zed.Type, len(per[gi]))
		copy(g.results, preTypes)
		gs[gi] = g
		totalOps += len(ops)
		for j := range ops {
			w := per[gi][len(c.Pre)+j]
			if ops[j].Ctx == 0 && w != nil {
				switch ops[j].Op {
				case "decode", "translate", "byvalue", "typevalue":
					if canonStats(w.nf).refs > 0 {
						hasDecodeRef = true
					}
				}
				if hasNamed(w.nf) {
					hasBinder = true
				}
				sharedWriters[gi] = true
			}
		}
		wg.Add(1)
		go func(ops []Op) {
			defer wg.Done()
			g.run(ops, c.Reps, start, &stop)
		}(ops)
	}
	close(start)
	wg.Wait()
	if hasDecodeRef {
		o.Label("decodes-nameref-into-shared")
	}
	if hasDecodeRef && hasBinder {
		o.Label("nameref-decode-with-concurrent-binders")
	}
	o.Label(fmt.Sprintf("reps:%d", c.Reps))
	o.NonTrivial = len(sharedWriters) >= 2 && totalOps*c.Reps >= 8
	if f := checkRaceLog(); f != nil {
		o.Fail = f
		return o
	}
	for _, g := range gs {
		if g.repanic != nil {
			panic(g.repanic)
		}
	}
	// A name reference resolved against another goroutine's binding poisons the
	// shared context's tables (the wrong type is filed under the right type
	// value), so anything another goroutine reports in the same case may be a
	// consequence: that finding takes precedence.
	for _, g := range gs {
		if g.fail != nil && g.fail.Sig == sigConcRef {
			if isKnown(sigConcRef) {
				o.Known = append(o.Known, sigConcRef)
				o.Label("known:nameref-rebinding-observed-by-goroutine")
				return o
			}
			o.Fail = g.fail
			return o
		}
	}
	for _, g := range gs {
		if g.fail != nil {
			o.Fail = g.fail
			return o
		}
	}

	// merge the goroutines' observations: same structure <=> same pointer across goroutines
	merged := map[string]zed.Type{}
	var keys []string
	for _, g := range gs {
		var ks []string
		for k := range g.seen {
			ks = append(ks, k)
		}
		sort.Strings(ks)
		for _, k := range ks {
			p := g.seen[k]
			if p0, ok := merged[k]; ok {
				if p0 != p {
					o.Fail = vt.Failf("C05/concurrent/same-structure-two-pointers", "goroutine %d saw type id %d and another goroutine saw id %d for %s", g.id, zed.TypeID(p), zed.TypeID(p0), show(walk(p, nil)))
					return o
				}
				continue
			}
			merged[k] = p
			keys = append(keys, k)
		}
	}
	// sequential post-phase on the shared context with the full model
	r.step, r.opname = len(c.Pre), "post"
	sort.Slice(keys, func(i, j int) bool { return zed.TypeID(merged[keys[i]]) < zed.TypeID(merged[keys[j]]) })
	for _, k := range keys {
		if f := r.observe(r.ctxs[0], merged[k], nil, "type returned during the concurrent phase"); f != nil {
			o.Fail = concClassify(f, o)
			return o
		}
	}
	if f := r.sweep("after the concurrent phase"); f != nil {
		o.Fail = concClassify(f, o)
		return o
	}
	r.ctxs = r.ctxs[:1]
	o.Fail = concClassify(r.final(), o)
	return o
}

// concClassify maps the sequential runner's signature for a name reference bound
// to another type onto the concurrent finding (the post-phase sees the damage a
// racing decode left in the shared context's tables).
func concClassify(f *vt.Failure, o *vt.Outcome) *vt.Failure {
	if f == nil {
		return nil
	}
	if strings.HasPrefix(f.Sig, "C05/nameref-bound-to-other-type/") {
		if isKnown(sigConcRef) {
			o.Known = append(o.Known, sigConcRef)
			o.Label("known:nameref-rebinding-found-in-tables-afterwards")
			return nil
		}
		return vt.Failf(sigConcRef, "after the concurrent phase: %s", f.Msg)
	}
	if !strings.HasPrefix(f.Sig, "C05/concurrent/") && strings.HasPrefix(f.Sig, "C05/") {
		return vt.Failf("C05/concurrent/"+strings.TrimPrefix(f.Sig, "C05/"), "after the concurrent phase: %s", f.Msg)
	}
	return f
}

// ---------------------------------------------------------------- race detector reports

var raceLogOff = map[string]int64{}

// checkRaceLog turns a data race reported by the race detector (thorough tier,
// GORACE=log_path=racelog set by prop.py) into a failure of the current case.
func checkRaceLog() *vt.Failure {
	if !raceEnabled {
		return nil
	}
	dir := os.Getenv("VERIF_OUT")
	if dir == "" {
		dir = "."
	}
	files, _ := filepath.Glob(filepath.Join(dir, "racelog.*"))
	for _, f := range files {
		b, err := os.ReadFile(f)
		if err != nil || int64(len(b)) <= raceLogOff[f] {
			continue
		}
		report := string(b[raceLogOff[f]:])
		raceLogOff[f] = int64(len(b))
		if !strings.Contains(report, "DATA RACE") {
			continue
		}
		frame := ""
		for _, l := range strings.Split(report, "\n") {
			l = strings.TrimSpace(l)
			if strings.HasPrefix(l, "github.com/brimdata/super") {
				frame = strings.TrimSuffix(strings.TrimPrefix(l, "github.com/brimdata/super"), "()")
				break
			}
		}
		if frame == "" {
			panic("harness: data race outside the code under test:\n" + report)
		}
		if len(report) > 5000 {
			report = report[:5000]
		}
		return vt.Failf("C05/data-race@"+frame, "the race detector reported:\n%s", report)
	}
	return nil
}

func concProp(name string) *vt.Prop[CCase] {
	return &vt.Prop[CCase]{
		Name: name,
		Rule: "case = sequential prefix (<=6 lookups in the shared context S and a source context F) + 2..8 goroutines, each running its own history (<=12 ops, thorough 25; " +
			"constructor lookups in S or a private context, direct (re)binding of 1..2 type names, record types whose value defines a name and refers to it later, " +
			"DecodeTypeValue/TranslateType/LookupByValue/LookupTypeValue into S, LookupTypeDef, shared Mapper F->S) 1..50 (thorough 200) times after a common start barrier; " +
			"every returned type must have the statically known structure and the same pointer in every repetition; afterwards: same structure <=> same pointer across goroutines and " +
			"all sequential invariants of TestHistory on S.  GOMAXPROCS from the test entry (default = all cores).  Non-trivial: >=2 goroutines operate on S and >=8 operations are executed in total.",
		Gen: genConc,
		Run: runConc,
	}
}

var (
	concDefault = concProp("TestConcurrent")
	concP1      = concProp("TestConcurrentP1")
	concP2      = concProp("TestConcurrentP2")
	concP4      = concProp("TestConcurrentP4")
)

func init() {
	concDefault.Register()
	concP1.Register()
	concP2.Register()
	concP4.Register()
}

func TestConcurrent(t *testing.T)   { concDefault.Check(t) }
func TestConcurrentP1(t *testing.T) { concP1.Check(t) }
func TestConcurrentP2(t *testing.T) { concP2.Check(t) }
func TestConcurrentP4(t *testing.T) { concP4.Check(t) }
