package c05

// Opt-in corner, kept out of the main stream: unions whose members are named
// types with the same ultimate underlying type but different immediate
// underlying types, e.g. x=(a=int64) next to x=int64 (or inside otherwise equal
// containers).  docs/formats/zed.md promises a total type order and "a union
// type is uniquely defined by an ordered set of unique types where the order
// corresponds to the total order"; zed.CompareTypes compares such members by
// their outermost name only, so members with the same outermost name tie.

import (
	"fmt"
	"testing"

	zed "github.com/brimdata/super"
	"pgregory.net/rapid"

	"verif/vt"
)

type ChainCase struct {
	Base   *Ty      `json:"base"`            // common ultimate underlying type (no res leaves)
	ChainA []string `json:"chain_a"`         // type names of member A, outermost first (>= 1)
	ChainB []string `json:"chain_b"`         // type names of member B, outermost first (>= 1)
	Wrap   string   `json:"wrap,omitempty"`  // "", arr, set, err, rec, map: both members wrapped alike
	Extra  *Ty      `json:"extra,omitempty"` // optional further member
	First  []int    `json:"first"`           // first listing order (permutation index)
	Second []int    `json:"second"`          // second listing order
}

var chainNames = []string{"x", "a", "b"}

func genChain(t *rapid.T) ChainCase {
	g := &tyGen{t: t, ctx: 0, names: []string{"foo"}, maxSize: 10}
	c := ChainCase{
		Base:   g.draw(1),
		ChainA: rapid.SliceOfN(rapid.SampledFrom(chainNames), 1, 3).Draw(t, "chainA"),
		ChainB: rapid.SliceOfN(rapid.SampledFrom(chainNames), 1, 3).Draw(t, "chainB"),
		Wrap:   rapid.SampledFrom([]string{"", "", "arr", "set", "err", "rec", "map"}).Draw(t, "wrap"),
		First:  []int{rapid.IntRange(0, 5).Draw(t, "first")},
		Second: []int{rapid.IntRange(0, 5).Draw(t, "second")},
	}
	if rapid.IntRange(0, 2).Draw(t, "extra?") == 0 {
		c.Extra = g.draw(1)
	}
	return c
}

func chainTy(base *Ty, chain []string, wrap string) *Ty {
	t := cloneTy(base)
	for i := len(chain) - 1; i >= 0; i-- {
		t = &Ty{K: "named", N: chain[i], C: []*Ty{t}}
	}
	switch wrap {
	case "arr", "set", "err":
		return &Ty{K: wrap, C: []*Ty{t}}
	case "rec":
		return &Ty{K: "rec", F: []string{"f"}, C: []*Ty{t}}
	case "map":
		return &Ty{K: "map", C: []*Ty{{K: "prim", N: "string"}, t}}
	}
	return t
}

func runChain(c ChainCase) *vt.Outcome {
	o := &vt.Outcome{}
	if c.Base == nil || len(c.ChainA) == 0 || len(c.ChainB) == 0 || len(c.First) != 1 || len(c.Second) != 1 {
		return &vt.Outcome{Skip: "invalid-case"}
	}
	members := []*Ty{chainTy(c.Base, c.ChainA, c.Wrap), chainTy(c.Base, c.ChainB, c.Wrap)}
	if c.Extra != nil {
		members = append(members, c.Extra)
	}
	var nfs []*NF
	for _, m := range members {
		if !wellFormed(m, 0, nil, false) {
			return &vt.Outcome{Skip: "invalid-case"}
		}
		n, err := nfOfTy(m, 0, nil)
		if err != nil {
			return &vt.Outcome{Skip: "invalid-case"}
		}
		nfs = append(nfs, n)
	}
	for i := range nfs {
		for j := 0; j < i; j++ {
			if nfs[i].Key == nfs[j].Key {
				return &vt.Outcome{Skip: "members-not-distinct"}
			}
		}
	}
	cmpAB, sure := cmpNF(nfs[0], nfs[1])
	if sure {
		return &vt.Outcome{Skip: "order-settled-by-docs"}
	}
	class := "outer-names-differ"
	if cmpAB == 0 {
		class = "outer-names-equal"
	}
	o.Label("class:"+class, "wrap:"+c.Wrap)
	o.NonTrivial = true

	r := &runner{c: &Case{NCtx: 2}, o: o, canon: map[string][]byte{}, labels: map[string]bool{}, bound: map[string]map[string]bool{}}
	r.ctxs = []*mctx{newMctx(0), newMctx(1)}
	r.opname = "chain"
	build := func(mc *mctx, order int) (*zed.TypeUnion, []int, *vt.Failure) {
		perm := kthPerm(len(members), order)
		var types []zed.Type
		for _, i := range perm {
			typ, _, f := r.build(mc, members[i])
			if f != nil {
				return nil, nil, f
			}
			types = append(types, typ)
		}
		return mc.z.LookupTypeUnion(types), perm, nil
	}
	mc := r.ctxs[0]
	u1, p1, f := build(mc, c.First[0])
	if f != nil {
		o.Fail = f
		return o
	}
	u2, p2, f := build(mc, c.Second[0])
	if f != nil {
		o.Fail = f
		return o
	}
	if got := zed.CompareTypes(u1.Types[0], u1.Types[1]); got == 0 && len(u1.Types) == 2 {
		o.Label("CompareTypes==0-for-distinct-members")
	}
	n1, n2 := walk(u1, nil), walk(u2, nil)
	want := mkUnion(nfs)
	if n1.Key != want.Key || n2.Key != want.Key {
		o.Fail = vt.Failf("C05/chain/wrong-structure", "LookupTypeUnion returned %s / %s, want members %s", show(n1), show(n2), show(want))
		return o
	}
	if fmt.Sprint(p1) != fmt.Sprint(p2) {
		o.Label("listing-orders-differ")
	}
	if u1 != u2 {
		sig := "C05/union-order-undefined-for-named-chains/listing-order-decides"
		msg := fmt.Sprintf("context has two distinct union types (ids %d and %d, type values %x and %x) for the same member set %s: listed in order %v and in order %v; zed.CompareTypes(%s, %s) = %d",
			zed.TypeID(u1), zed.TypeID(u2), zed.EncodeTypeValue(u1), zed.EncodeTypeValue(u2), show(want), p1, p2, show(nfs[0]), show(nfs[1]),
			zed.CompareTypes(mustBuild(r, mc, members[0]), mustBuild(r, mc, members[1])))
		if isKnown(sig) {
			o.Known = append(o.Known, sig)
			return o
		}
		o.Fail = vt.Failf(sig, "%s", msg)
		return o
	}
	// portable: the other context, building the members in the second order, must agree with translation
	other := r.ctxs[1]
	t1, err := other.z.TranslateType(u1)
	if err != nil {
		o.Fail = vt.Failf("C05/chain/unexpected-error", "TranslateType: %v", err)
		return o
	}
	u3, _, f := build(other, c.Second[0])
	if f != nil {
		o.Fail = f
		return o
	}
	if t1 != zed.Type(u3) {
		sig := "C05/union-order-undefined-for-named-chains/translation-differs-from-construction"
		if isKnown(sig) {
			o.Known = append(o.Known, sig)
			return o
		}
		o.Fail = vt.Failf(sig, "translating the union %s into another context gives type value %x, constructing it there (listing order %v) gives %x",
			show(want), zed.EncodeTypeValue(t1), p2, zed.EncodeTypeValue(u3))
		return o
	}
	o.Label("stable")
	return o
}

func mustBuild(r *runner, mc *mctx, t *Ty) zed.Type {
	typ, _, f := r.build(mc, t)
	if f != nil {
		return zed.TypeNull
	}
	return typ
}

var chainProp = &vt.Prop[ChainCase]{
	Name: "TestNamedChainUnion",
	Rule: "opt-in corner: a union of two named types with the same ultimate underlying type but different name chains (names from {x,a,b}, chains of 1..3, optionally both wrapped in the same container, optional third member), " +
		"listed in two drawn orders in one context and constructed/translated in a second context; the union must be the same type whatever the listing order. " +
		"Cases whose member order docs/formats/zed.md settles are skipped (they belong to TestHistory). Non-trivial: every non-skipped case.",
	Gen: genChain,
	Run: runChain,
}

func init() { chainProp.Register() }

func TestNamedChainUnion(t *testing.T) { chainProp.Check(t) }
