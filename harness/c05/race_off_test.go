//go:build !race

package c05

const raceEnabled = false
