// Package c05 decides property C05: types are canonical within a context and
// portable across contexts.
//
// A case is a history of operations on 2..3 type contexts (TestHistory) or on
// one context shared by 2..8 goroutines (TestConcurrent*, conc_test.go).  Types
// are described structurally (Ty: a small AST whose leaves may refer to the
// result of an earlier operation), so the expected structure of every result
// is known without looking at the code under test.  The oracle is a model that
// maps the harness's structural normal form (nf_test.go) to the first pointer
// the context returned for it.
package c05

import (
	"bytes"
	"errors"
	"fmt"
	"slices"
	"sort"
	"strings"
	"testing"

	zed "github.com/brimdata/super"
	"pgregory.net/rapid"

	"verif/vt"
)

func TestMain(m *testing.M) { vt.Main(m) }

// ---------------------------------------------------------------- case

// Ty is a structural description of a type.
type Ty struct {
	K string   `json:"k"`           // prim rec arr set map union enum err named res
	N string   `json:"n,omitempty"` // prim: primitive name; named: type name
	F []string `json:"f,omitempty"` // rec: field names; enum: symbols
	C []*Ty    `json:"c,omitempty"` // children (union: in listing order)
	R int      `json:"r,omitempty"` // res: ordinal of an earlier operation in the same context
}

type Op struct {
	// lookup: build T in Ctx with the LookupType* constructors
	// duprec: LookupTypeRecord with a duplicate field name (T is the record) -> DuplicateFieldError
	// badname: LookupTypeNamed with Name in {"<prim>", "<badutf8>"} over T -> error
	// byvalue: Ctx.LookupByValue(EncodeTypeValue(result Src)) with a caller-owned slice (scribbled on later)
	// byvalue_nc: Ctx.LookupByValue(other decodable spelling of result Src's type: union member order by Perms, no name references if NoRefs)
	// translate: Ctx.TranslateType(result Src)
	// decode: Ctx.DecodeTypeValue(EncodeTypeValue(result Src))
	// typevalue: Ctx.LookupTypeValue(result Src) (captured until the end), then decoded in Ctx
	// roundtrip: result Src (must live in Ctx) -> fresh context -> back
	// typedef: Ctx.LookupTypeDef(Name)
	// mapenter / maplookup: Mappers[Map].Enter / Lookup for result Src
	// scribble: overwrite every slice handed to LookupByValue so far
	Op     string `json:"op"`
	Ctx    int    `json:"ctx"`
	T      *Ty    `json:"t,omitempty"`
	Src    int    `json:"src,omitempty"`
	Name   string `json:"name,omitempty"`
	Map    int    `json:"map,omitempty"`
	Perms  []int  `json:"perms,omitempty"`
	NoRefs bool   `json:"norefs,omitempty"`
}

type Case struct {
	NCtx    int      `json:"nctx"`
	Mappers [][2]int `json:"mappers,omitempty"` // (source context, output context)
	Ops     []Op     `json:"ops"`
}

// ---------------------------------------------------------------- static model of results (shared by Gen and Run)

type sres struct {
	ctx int
	nf  *NF
}

var errBadCase = errors.New("invalid history")

// nfOfTy computes the normal form a Ty denotes in context ctx given the results so far.
func nfOfTy(t *Ty, ctx int, results []*sres) (*NF, error) {
	if t == nil {
		return nil, errBadCase
	}
	kids := make([]*NF, len(t.C))
	for i, c := range t.C {
		k, err := nfOfTy(c, ctx, results)
		if err != nil {
			return nil, err
		}
		kids[i] = k
	}
	need := func(n int) error {
		if len(kids) != n {
			return errBadCase
		}
		return nil
	}
	switch t.K {
	case "prim":
		p := zed.LookupPrimitive(t.N)
		if p == nil {
			return nil, errBadCase
		}
		return mkPrim(p.ID()), nil
	case "res":
		if t.R < 0 || t.R >= len(results) || results[t.R] == nil || results[t.R].ctx != ctx {
			return nil, errBadCase
		}
		return results[t.R].nf, nil
	case "rec":
		if len(t.F) != len(kids) {
			return nil, errBadCase
		}
		return mkRec(t.F, kids), nil
	case "arr":
		if err := need(1); err != nil {
			return nil, err
		}
		return mkArr(kids[0]), nil
	case "set":
		if err := need(1); err != nil {
			return nil, err
		}
		return mkSet(kids[0]), nil
	case "err":
		if err := need(1); err != nil {
			return nil, err
		}
		return mkErr(kids[0]), nil
	case "map":
		if err := need(2); err != nil {
			return nil, err
		}
		return mkMap(kids[0], kids[1]), nil
	case "union":
		if len(kids) < 2 {
			return nil, errBadCase
		}
		return mkUnion(kids), nil
	case "enum":
		if len(t.F) == 0 {
			return nil, errBadCase
		}
		return mkEnum(t.F), nil
	case "named":
		if err := need(1); err != nil {
			return nil, err
		}
		return mkNamed(t.N, kids[0]), nil
	}
	return nil, errBadCase
}

func hasDup(ss []string) bool {
	for i := range ss {
		for j := 0; j < i; j++ {
			if ss[i] == ss[j] {
				return true
			}
		}
	}
	return false
}

// wellFormed: what the constructors document as their domain (unique field
// names and symbols, >= 2 distinct union members, legal type names), plus the
// main-stream exclusion of unions whose member order the docs do not settle.
func wellFormed(t *Ty, ctx int, results []*sres, allowAmbig bool) bool {
	for _, c := range t.C {
		if !wellFormed(c, ctx, results, allowAmbig) {
			return false
		}
	}
	switch t.K {
	case "rec", "enum":
		if hasDup(t.F) {
			return false
		}
	case "named":
		if t.N == "<prim>" || t.N == "<badutf8>" || zed.LookupPrimitive(t.N) != nil {
			return false
		}
	case "union":
		n, err := nfOfTy(t, ctx, results)
		if err != nil || n.hasDupMembers() || (n.Ambig && !allowAmbig) {
			return false
		}
	}
	return true
}

func realName(n string) string {
	switch n {
	case "<prim>":
		return "int64"
	case "<badutf8>":
		return "\xff\xfe"
	}
	return n
}

// staticResult is the model's result of op i given earlier results: the context
// it lives in and its normal form (nil: the op yields no type).
func staticResult(c *Case, op *Op, results []*sres) (*sres, error) {
	if op.Ctx < 0 || op.Ctx >= c.NCtx {
		return nil, errBadCase
	}
	src := func() (*sres, error) {
		if op.Src < 0 || op.Src >= len(results) || results[op.Src] == nil {
			return nil, errBadCase
		}
		return results[op.Src], nil
	}
	switch op.Op {
	case "lookup":
		n, err := nfOfTy(op.T, op.Ctx, results)
		if err != nil {
			return nil, err
		}
		if !wellFormed(op.T, op.Ctx, results, false) {
			return nil, errBadCase
		}
		return &sres{op.Ctx, n}, nil
	case "duprec":
		if op.T == nil || op.T.K != "rec" || !hasDup(op.T.F) {
			return nil, errBadCase
		}
		for _, k := range op.T.C {
			if _, err := nfOfTy(k, op.Ctx, results); err != nil || !wellFormed(k, op.Ctx, results, false) {
				return nil, errBadCase
			}
		}
		return nil, nil
	case "badname":
		if op.Name != "<prim>" && op.Name != "<badutf8>" {
			return nil, errBadCase
		}
		if _, err := nfOfTy(op.T, op.Ctx, results); err != nil || !wellFormed(op.T, op.Ctx, results, false) {
			return nil, errBadCase
		}
		return nil, nil
	case "byvalue", "byvalue_nc", "translate", "decode", "typevalue":
		s, err := src()
		if err != nil {
			return nil, err
		}
		return &sres{op.Ctx, s.nf}, nil
	case "roundtrip":
		s, err := src()
		if err != nil || s.ctx != op.Ctx {
			return nil, errBadCase
		}
		return &sres{op.Ctx, s.nf}, nil
	case "mapenter", "maplookup":
		s, err := src()
		if err != nil || op.Map < 0 || op.Map >= len(c.Mappers) || c.Mappers[op.Map][0] != s.ctx || c.Mappers[op.Map][1] != op.Ctx {
			return nil, errBadCase
		}
		if op.Op == "maplookup" {
			return nil, nil
		}
		return &sres{c.Mappers[op.Map][1], s.nf}, nil
	case "typedef", "scribble":
		return nil, nil
	}
	return nil, errBadCase
}

// ---------------------------------------------------------------- generator

var (
	commonPrims = []string{"int64", "string", "null", "type", "uint8", "float64", "bool", "ip"}
	allPrims    = []string{"uint8", "uint16", "uint32", "uint64", "int8", "int16", "int32", "int64", "duration", "time",
		"float16", "float32", "float64", "bool", "bytes", "string", "ip", "net", "type", "null"}
	// the last entries are long enough (>= 128 bytes) to need a two-byte length in a type value
	typeNames  = []string{"foo", "bar", "a.b", "日本", "", strings.Repeat("T", 129)}
	fieldNames = []string{"a", "b", "c", "", "foo", "with space", "é", "type", strings.Repeat("f", 130)}
	enumSyms   = []string{"A", "B", "foo", "bar baz", "é", "", strings.Repeat("S", 128)}
)

type tyGen struct {
	t       *rapid.T
	ctx     int
	results []*sres
	names   []string // type-name pool
	maxSize int
}

func (g *tyGen) refs() []int {
	var out []int
	for i, r := range g.results {
		if r != nil && r.ctx == g.ctx && r.nf.Size <= g.maxSize {
			out = append(out, i)
		}
	}
	return out
}

func (g *tyGen) leaf() *Ty {
	if refs := g.refs(); len(refs) > 0 && rapid.IntRange(0, 9).Draw(g.t, "ref?") < 4 {
		return &Ty{K: "res", R: rapid.SampledFrom(refs).Draw(g.t, "ref")}
	}
	if rapid.IntRange(0, 4).Draw(g.t, "anyprim?") == 0 {
		return &Ty{K: "prim", N: rapid.SampledFrom(allPrims).Draw(g.t, "prim")}
	}
	return &Ty{K: "prim", N: rapid.SampledFrom(commonPrims).Draw(g.t, "prim")}
}

func cloneTy(t *Ty) *Ty {
	c := *t
	c.F = append([]string(nil), t.F...)
	c.C = nil
	for _, k := range t.C {
		c.C = append(c.C, cloneTy(k))
	}
	return &c
}

func (g *tyGen) nf(t *Ty) *NF {
	n, err := nfOfTy(t, g.ctx, g.results)
	if err != nil {
		panic("harness: generator built an invalid Ty: " + err.Error())
	}
	return n
}

// draw draws a well-formed Ty of AST depth <= depth.
func (g *tyGen) draw(depth int) *Ty {
	if depth <= 0 || rapid.IntRange(0, 9).Draw(g.t, "leaf?") < 3 {
		return g.leaf()
	}
	depth--
	switch rapid.IntRange(0, 11).Draw(g.t, "kind") {
	case 0, 1, 2:
		return g.record(depth)
	case 3:
		return &Ty{K: "arr", C: []*Ty{g.draw(depth)}}
	case 4:
		return &Ty{K: "set", C: []*Ty{g.draw(depth)}}
	case 5:
		return &Ty{K: "map", C: []*Ty{g.draw(depth), g.draw(depth)}}
	case 6, 7:
		return g.union(depth)
	case 8:
		n := rapid.IntRange(1, 4).Draw(g.t, "nsym")
		perm := rapid.Permutation(enumSyms).Draw(g.t, "syms")
		return &Ty{K: "enum", F: append([]string(nil), perm[:n]...)}
	case 9:
		return &Ty{K: "err", C: []*Ty{g.draw(depth)}}
	default:
		return g.named(depth)
	}
}

func (g *tyGen) named(depth int) *Ty {
	return &Ty{K: "named", N: rapid.SampledFrom(g.names).Draw(g.t, "tname"), C: []*Ty{g.draw(depth)}}
}

func (g *tyGen) record(depth int) *Ty {
	n := rapid.IntRange(0, 4).Draw(g.t, "nfields")
	perm := rapid.Permutation(fieldNames).Draw(g.t, "fnames")
	r := &Ty{K: "rec", F: append([]string(nil), perm[:n]...)}
	for i := 0; i < n; i++ {
		// repeating a sibling makes later occurrences of its named types name references
		if i > 0 && rapid.IntRange(0, 3).Draw(g.t, "repeat?") == 0 {
			r.C = append(r.C, cloneTy(r.C[rapid.IntRange(0, i-1).Draw(g.t, "sib")]))
			continue
		}
		if rapid.IntRange(0, 3).Draw(g.t, "namedfield?") == 0 {
			r.C = append(r.C, g.named(depth))
			continue
		}
		r.C = append(r.C, g.draw(depth))
	}
	return r
}

func (g *tyGen) union(depth int) *Ty {
	n := rapid.IntRange(2, 4).Draw(g.t, "nunion")
	var members []*Ty
	var nfs []*NF
	for tries := 0; len(members) < n && tries < 10; tries++ {
		var m *Ty
		if len(members) > 0 && rapid.IntRange(0, 3).Draw(g.t, "variant?") == 0 {
			// a sibling wrapped in a name: same underlying type, ordered by the named-type rules
			m = &Ty{K: "named", N: rapid.SampledFrom(g.names).Draw(g.t, "tname"), C: []*Ty{cloneTy(members[rapid.IntRange(0, len(members)-1).Draw(g.t, "sib")])}}
		} else if len(members) > 0 && rapid.IntRange(0, 3).Draw(g.t, "twin?") == 0 {
			// a sibling that differs only at its last position (last enum symbol, last field name, innermost last
			// child): the members tie on everything the ordering looks at before that position
			m = g.nearTwin(members[rapid.IntRange(0, len(members)-1).Draw(g.t, "sib")])
			if m == nil {
				m = g.draw(depth)
			}
		} else {
			m = g.draw(depth)
		}
		mn := g.nf(m)
		ok := !mn.Ambig
		for _, x := range nfs {
			if x.Key == mn.Key {
				ok = false
			} else if _, sure := cmpNF(x, mn); !sure {
				ok = false
			}
		}
		if ok {
			members, nfs = append(members, m), append(nfs, mn)
		}
	}
	if len(members) < 2 {
		return g.leaf()
	}
	return &Ty{K: "union", C: members}
}

// nearTwin returns a copy of t that differs from it only at the last position of its structure, or nil.
func (g *tyGen) nearTwin(t *Ty) *Ty {
	c := cloneTy(t)
	other := func(pool, used []string, label string) (string, bool) {
		var free []string
		for _, s := range pool {
			if !slices.Contains(used, s) {
				free = append(free, s)
			}
		}
		if len(free) == 0 {
			return "", false
		}
		return rapid.SampledFrom(free).Draw(g.t, label), true
	}
	switch t.K {
	case "prim":
		n, ok := other(commonPrims, []string{t.N}, "twinprim")
		if !ok {
			return nil
		}
		c.N = n
		return c
	case "enum":
		if len(c.F) == 0 {
			return nil
		}
		s, ok := other(enumSyms, c.F, "twinsym")
		if !ok {
			return nil
		}
		c.F[len(c.F)-1] = s
		return c
	case "rec":
		if len(c.F) == 0 {
			return nil
		}
		if rapid.Bool().Draw(g.t, "twinname?") {
			s, ok := other(fieldNames, c.F, "twinfield")
			if !ok {
				return nil
			}
			c.F[len(c.F)-1] = s
			return c
		}
		fallthrough
	case "arr", "set", "map", "err", "named":
		if len(c.C) == 0 {
			return nil
		}
		k := g.nearTwin(c.C[len(c.C)-1])
		if k == nil {
			return nil
		}
		c.C[len(c.C)-1] = k
		return c
	}
	return nil
}

var crossOps = []string{"translate", "translate", "translate", "byvalue", "byvalue", "byvalue", "byvalue_nc", "byvalue_nc",
	"decode", "decode", "typevalue", "typevalue", "roundtrip", "mapenter", "mapenter", "maplookup"}

func genCase(t *rapid.T) Case {
	c := Case{NCtx: rapid.IntRange(2, 3).Draw(t, "nctx")}
	nm := rapid.IntRange(0, 2).Draw(t, "nmappers")
	for i := 0; i < nm; i++ {
		a := rapid.IntRange(0, c.NCtx-1).Draw(t, "msrc")
		b := rapid.IntRange(0, c.NCtx-2).Draw(t, "mout")
		if b >= a {
			b++
		}
		c.Mappers = append(c.Mappers, [2]int{a, b})
	}
	maxOps, maxSize := 30, 40
	if vt.Thorough() {
		maxOps, maxSize = 60, 60
	}
	// a tiny name pool per case so that names are rebound
	names := typeNames[:rapid.IntRange(1, len(typeNames)).Draw(t, "nnames")]
	var results []*sres
	anyResult := func() []int {
		var out []int
		for i, r := range results {
			if r != nil {
				out = append(out, i)
			}
		}
		return out
	}
	// Each op is one element of a rapid slice (so the shrinker can delete ops);
	// the element generator reads and extends the static model of results.
	opGen := rapid.Custom(func(t *rapid.T) Op {
		op := Op{Op: "lookup", Ctx: rapid.IntRange(0, c.NCtx-1).Draw(t, "ctx")}
		avail := anyResult()
		if k := rapid.IntRange(0, 99).Draw(t, "opkind"); len(avail) > 0 && k >= 38 {
			switch {
			case k < 86:
				op.Op = rapid.SampledFrom(crossOps).Draw(t, "cross")
			case k < 94:
				op.Op = "typedef"
			case k < 96:
				op.Op = "scribble"
			case k < 98:
				op.Op = "duprec"
			default:
				op.Op = "badname"
			}
		}
		g := &tyGen{t: t, ctx: op.Ctx, results: results, names: names, maxSize: maxSize}
		switch op.Op {
		case "lookup":
			op.T = g.draw(3)
		case "duprec":
			r := g.record(1)
			for len(r.F) < 2 {
				r.F = append(r.F, "a")
				r.C = append(r.C, g.leaf())
			}
			i := rapid.IntRange(1, len(r.F)-1).Draw(t, "dupi")
			r.F[i] = r.F[rapid.IntRange(0, i-1).Draw(t, "dupj")]
			op.T = r
		case "badname":
			op.Name = rapid.SampledFrom([]string{"<prim>", "<badutf8>"}).Draw(t, "badname")
			op.T = g.draw(1)
		case "typedef":
			if rapid.IntRange(0, 5).Draw(t, "anyname?") == 0 {
				op.Name = rapid.SampledFrom(typeNames).Draw(t, "defname")
			} else {
				op.Name = rapid.SampledFrom(names).Draw(t, "defname")
			}
		case "scribble":
		case "mapenter", "maplookup":
			var cand [][2]int
			for mi, m := range c.Mappers {
				for _, i := range avail {
					if results[i].ctx == m[0] {
						cand = append(cand, [2]int{mi, i})
					}
				}
			}
			if len(cand) == 0 {
				op.Op = "translate"
				op.Src = rapid.SampledFrom(avail).Draw(t, "src")
				break
			}
			p := rapid.SampledFrom(cand).Draw(t, "mapsrc")
			op.Map, op.Src = p[0], p[1]
			op.Ctx = c.Mappers[op.Map][1]
		case "roundtrip":
			op.Src = rapid.SampledFrom(avail).Draw(t, "src")
			op.Ctx = results[op.Src].ctx
		default:
			// prefer sources living in another context, and recent ones
			op.Src = rapid.SampledFrom(avail).Draw(t, "src")
			if results[op.Src].ctx == op.Ctx && rapid.Bool().Draw(t, "resrc") {
				op.Src = rapid.SampledFrom(avail).Draw(t, "src2")
			}
			if op.Op == "byvalue_nc" {
				// prefer a source that has another spelling: a union or a name reference
				var rich []int
				for _, i := range avail {
					if st := canonStats(results[i].nf); st.unions > 0 || st.refs > 0 {
						rich = append(rich, i)
					}
				}
				if len(rich) > 0 && rapid.IntRange(0, 4).Draw(t, "rich?") > 0 {
					op.Src = rapid.SampledFrom(rich).Draw(t, "richsrc")
				}
				op.Perms = rapid.SliceOfN(rapid.IntRange(0, 23), 1, 4).Draw(t, "perms")
				op.NoRefs = rapid.IntRange(0, 3).Draw(t, "norefs") == 0
			}
		}
		r, err := staticResult(&c, &op, results)
		if err != nil {
			panic(fmt.Sprintf("harness: generator drew an invalid op %+v: %v", op, err))
		}
		c.Ops = append(c.Ops, op)
		results = append(results, r)
		return op
	})
	minOps := rapid.IntRange(1, maxOps/2).Draw(t, "minops")
	rapid.SliceOfN(opGen, minOps, maxOps).Draw(t, "ops")
	return c
}

// ---------------------------------------------------------------- runner

const (
	sigAlias     = "C05/lookupbyvalue-retains-caller-slice"
	sigOverwrite = "C05/lookupbyvalue-overwrites-canonical-typevalue"
)

type mctx struct {
	idx   int
	z     *zed.Context
	byKey map[string]zed.Type
	byPtr map[zed.Type]*NF
	order []zed.Type
	ids   map[int]zed.Type
	defs  map[string]map[string]bool // type name -> keys of the named types LookupTypeDef may return
	tol   map[zed.Type][][]byte      // known finding: non-canonical spellings LookupTypeValue may return for the type
}

func newMctx(i int) *mctx {
	return &mctx{idx: i, z: zed.NewContext(), byKey: map[string]zed.Type{}, byPtr: map[zed.Type]*NF{}, ids: map[int]zed.Type{},
		defs: map[string]map[string]bool{}, tol: map[zed.Type][][]byte{}}
}

type rres struct {
	ctx int
	typ zed.Type
	nf  *NF
}

type callerSlice struct {
	ctx       int
	typ       zed.Type
	b         []byte // the slice handed to LookupByValue
	orig      []byte
	scribbled bool
}

type capture struct {
	ctx  int
	typ  zed.Type
	val  zed.Value // as returned (may alias the context's tables)
	copy []byte
	step int
}

type runner struct {
	c        *Case
	o        *vt.Outcome
	ctxs     []*mctx
	mappers  []*zed.Mapper
	entered  []map[int]zed.Type
	results  []*rres
	slices   []*callerSlice
	captured []capture
	canon    map[string][]byte
	labels   map[string]bool
	step     int
	opname   string
	// non-triviality
	permutedUnion, rebinding, crossStep bool
	bound                               map[string]map[string]bool // "ctx/name" -> underlying keys
}

func (r *runner) label(l string) {
	if !r.labels[l] {
		r.labels[l] = true
		r.o.Label(l)
	}
}

func (r *runner) known(sig string) bool {
	if !isKnown(sig) {
		return false
	}
	for _, k := range r.o.Known {
		if k == sig {
			return true
		}
	}
	r.o.Known = append(r.o.Known, sig)
	return true
}

func (r *runner) canonOf(n *NF) []byte {
	if b, ok := r.canon[n.Key]; ok {
		return b
	}
	b := canonTV(n)
	r.canon[n.Key] = b
	return b
}

func (r *runner) failf(sig, format string, args ...any) *vt.Failure {
	return vt.Failf(sig, "step %d (%s): %s", r.step, r.opname, fmt.Sprintf(format, args...))
}

func (r *runner) noteNames(mc *mctx, n *NF, explicit bool) {
	note := func(n *NF) {
		if mc.defs[n.Name] == nil {
			mc.defs[n.Name] = map[string]bool{}
		}
		mc.defs[n.Name][n.Key] = true
		bk := fmt.Sprintf("%d/%s", mc.idx, n.Name)
		if r.bound[bk] == nil {
			r.bound[bk] = map[string]bool{}
		}
		r.bound[bk][n.Kids[0].Key] = true
		if len(r.bound[bk]) >= 2 {
			r.rebinding = true
			r.label("rebinding")
		}
	}
	if explicit {
		// LookupTypeNamed itself: only the outermost name is (re)bound
		if n.Kind == 'N' {
			note(n)
		}
		return
	}
	// decoding a type value binds every name in it, in DFS order
	var rec func(n *NF)
	rec = func(n *NF) {
		for _, k := range n.Kids {
			rec(k)
		}
		if n.Kind == 'N' {
			note(n)
		}
	}
	rec(n)
}

// observe checks a type returned by context mc against the structure the model
// expects and registers it and all its subtypes in the model (same normal form
// <=> same pointer, unique ids, pure-function serialisation).
func (r *runner) observe(mc *mctx, typ zed.Type, want *NF, what string) *vt.Failure {
	if typ == nil {
		return r.failf("C05/nil-type/"+r.opname, "%s returned a nil type, want %s", what, show(want))
	}
	got := walk(typ, mc.byPtr)
	if want != nil && got.Key != want.Key {
		sig := "C05/wrong-structure/" + r.opname
		if refRebound(want, got) {
			sig = "C05/nameref-bound-to-other-type/" + r.opname
		}
		return r.failf(sig, "%s in context %d returned %s, want %s", what, mc.idx, show(got), show(want))
	}
	for _, st := range subtypes(typ, map[zed.Type]bool{}, nil) {
		if f := r.register(mc, st, what); f != nil {
			return f
		}
	}
	return nil
}

func (r *runner) register(mc *mctx, typ zed.Type, what string) *vt.Failure {
	n := walk(typ, mc.byPtr)
	if n.Kind == '?' {
		return r.failf("C05/malformed-type/"+r.opname, "%s: type graph contains %s", what, n.Key)
	}
	if p0, ok := mc.byKey[n.Key]; ok {
		if p0 != typ {
			return r.failf("C05/same-structure-two-pointers/"+r.opname, "%s: context %d has two distinct pointers (ids %d and %d) for %s",
				what, mc.idx, zed.TypeID(p0), zed.TypeID(typ), show(n))
		}
		return nil
	}
	mc.byKey[n.Key] = typ
	mc.order = append(mc.order, typ)
	id := zed.TypeID(typ)
	if n.Kind == 'p' {
		if id != n.Prim {
			return r.failf("C05/typeid-collision", "primitive %s has TypeID %d", show(n), id)
		}
	} else {
		if id < zed.IDTypeComplex {
			return r.failf("C05/typeid-collision", "%s: complex type %s has primitive id %d", what, show(n), id)
		}
		if p0, ok := mc.ids[id]; ok && p0 != typ {
			return r.failf("C05/typeid-collision", "%s: context %d gave TypeID %d to %s and to %s", what, mc.idx, id, show(mc.byPtr[p0]), show(n))
		}
		mc.ids[id] = typ
	}
	if !n.Ambig {
		if enc := zed.EncodeTypeValue(typ); !bytes.Equal(enc, r.canonOf(n)) {
			return r.failf("C05/encode-differs-from-spec-serialisation", "%s: EncodeTypeValue(%s) = %x, harness serialisation per zng.md = %x", what, show(n), enc, r.canonOf(n))
		}
	}
	r.classLabels(n)
	return nil
}

func (r *runner) classLabels(n *NF) {
	switch n.Kind {
	case 'U':
		r.label("has-union")
		for _, k := range n.Kids {
			if k.Kind == 'U' {
				r.label("union-in-union")
			}
			if k.Kind == 'N' {
				r.label("named-union-member")
			}
		}
	case 'N':
		r.label("has-named")
		if n.Kids[0].Kind == 'N' {
			r.label("named-of-named")
		}
	case 'E':
		r.label("has-enum")
	case 'X':
		r.label("has-error")
	case 'M':
		r.label("has-map")
	case 'S':
		r.label("has-set")
	}
	if n.Depth >= 4 {
		r.label("depth>=4")
	}
	if n.Kind != 'p' {
		st := canonStats(n)
		if st.refs > 0 {
			r.label("typevalue-has-nameref")
		}
		if st.redefs > 0 {
			r.label("name-redefined-within-typevalue")
		}
	}
}

// checkTypeValue verifies that the context's own type value for typ is the canonical one.
func (r *runner) checkTypeValue(mc *mctx, typ zed.Type, when string) *vt.Failure {
	n := mc.byPtr[typ]
	if n.Ambig {
		return nil
	}
	got := mc.z.LookupTypeValue(typ)
	if got.Type() != zed.TypeType {
		return r.failf("C05/typevalue-not-a-type-value", "%s: LookupTypeValue(%s) has type id %d", when, show(n), got.Type().ID())
	}
	want := r.canonOf(n)
	if bytes.Equal(got.Bytes(), want) {
		return nil
	}
	for _, alt := range mc.tol[typ] {
		if bytes.Equal(got.Bytes(), alt) {
			return nil
		}
	}
	// classify
	for _, cs := range r.slices {
		if cs.ctx != mc.idx || len(cs.b) == 0 || len(got.Bytes()) == 0 || &cs.b[0] != &got.Bytes()[0] {
			continue
		}
		// the context hands out the very slice the caller passed to LookupByValue
		if cs.scribbled {
			if r.known(sigAlias) {
				r.label("known:aliased-slice-observed")
				return errRestore
			}
			return r.failf(sigAlias, "%s: context %d: LookupTypeValue(%s) = %x, want %x: the context kept the slice the caller passed to LookupByValue and the caller has since overwritten it",
				when, mc.idx, show(n), got.Bytes(), want)
		}
		if p, err := parseWhole(got.Bytes()); err == nil && p.Key == n.Key {
			if r.known(sigOverwrite) {
				r.label("known:noncanonical-typevalue-observed")
				mc.tol[typ] = append(mc.tol[typ], append([]byte(nil), got.Bytes()...))
				return nil
			}
			return r.failf(sigOverwrite, "%s: context %d: LookupTypeValue(%s) = %x, want the canonical %x: LookupByValue replaced the type's value by the (decodable, non-canonical) spelling its caller passed",
				when, mc.idx, show(n), got.Bytes(), want)
		}
	}
	if p, err := parseWhole(got.Bytes()); err == nil && refRebound(p, n) {
		return r.failf("C05/nameref-bound-to-other-type/typevalue", "%s: context %d: LookupTypeValue(%s) = %x, which denotes %s: the context filed this type under a type value whose name reference should have resolved differently",
			when, mc.idx, show(n), got.Bytes(), show(p))
	}
	if p, err := parseWhole(got.Bytes()); err == nil && p.Key == n.Key {
		// not one of our slices (e.g. a copy): still the overwrite class if we passed that spelling
		for _, cs := range r.slices {
			if cs.ctx == mc.idx && bytes.Equal(cs.orig, got.Bytes()) {
				if r.known(sigOverwrite) {
					r.label("known:noncanonical-typevalue-observed")
					mc.tol[typ] = append(mc.tol[typ], append([]byte(nil), got.Bytes()...))
					return nil
				}
				return r.failf(sigOverwrite, "%s: context %d: LookupTypeValue(%s) = %x, want the canonical %x: LookupByValue replaced the type's value by the spelling its caller passed",
					when, mc.idx, show(n), got.Bytes(), want)
			}
		}
		return r.failf("C05/typevalue-noncanonical", "%s: context %d: LookupTypeValue(%s) = %x is a non-canonical spelling, want %x", when, mc.idx, show(n), got.Bytes(), want)
	}
	return r.failf("C05/typevalue-wrong", "%s: context %d: LookupTypeValue(%s) = %x, want %x", when, mc.idx, show(n), got.Bytes(), want)
}

// errRestore is a sentinel: the known aliasing effect was observed; the caller
// restores the scribbled slices (which repairs the context, since it aliases
// them) and repeats the check.
var errRestore = &vt.Failure{Sig: "restore"}

// sweep performs the read-only invariants on every type the model knows in every context.
func (r *runner) sweep(when string) *vt.Failure {
	for attempt := 0; ; attempt++ {
		f := r.sweepOnce(when)
		if f == errRestore && attempt == 0 {
			for _, cs := range r.slices {
				if cs.scribbled {
					copy(cs.b, cs.orig)
					cs.scribbled = false
				}
			}
			continue
		}
		if f == errRestore {
			return r.failf("C05/harness-restore-failed", "restoring the scribbled slices did not restore the type values")
		}
		return f
	}
}

func (r *runner) sweepOnce(when string) *vt.Failure {
	for _, mc := range r.ctxs {
		for _, typ := range mc.order {
			n := mc.byPtr[typ]
			id := zed.TypeID(typ)
			back, err := mc.z.LookupType(id)
			if err != nil || back != typ {
				return r.failf("C05/lookuptype-by-id", "%s: context %d: LookupType(%d) = (%v, %v), want the type %s that has this id", when, mc.idx, id, back, err, show(n))
			}
			if f := r.checkTypeValue(mc, typ, when); f != nil {
				return f
			}
		}
	}
	for mi, m := range r.mappers {
		ids := make([]int, 0, len(r.entered[mi]))
		for id := range r.entered[mi] {
			ids = append(ids, id)
		}
		sort.Ints(ids)
		for _, id := range ids {
			if got := m.Lookup(id); got != r.entered[mi][id] {
				return r.failf("C05/mapper/binding-lost", "%s: Mapper %d: Lookup(%d) = %v, want the type Enter returned for this id earlier", when, mi, id, got)
			}
		}
	}
	for _, cp := range r.captured {
		if !bytes.Equal(cp.val.Bytes(), cp.copy) {
			aliased := false
			for _, cs := range r.slices {
				if len(cs.b) > 0 && len(cp.val.Bytes()) > 0 && &cs.b[0] == &cp.val.Bytes()[0] && cs.scribbled {
					aliased = true
				}
			}
			if aliased {
				if r.known(sigAlias) {
					return errRestore
				}
				return r.failf(sigAlias, "%s: the type value captured from context %d at step %d was %x and is now %x: it aliases a slice a caller passed to LookupByValue",
					when, cp.ctx, cp.step, cp.copy, cp.val.Bytes())
			}
			return r.failf("C05/typevalue-changed-after-capture", "%s: the type value captured from context %d at step %d was %x and is now %x", when, cp.ctx, cp.step, cp.copy, cp.val.Bytes())
		}
	}
	return nil
}

// build constructs t in mc bottom-up through the LookupType* constructors.
func (r *runner) build(mc *mctx, t *Ty) (zed.Type, *NF, *vt.Failure) {
	kids := make([]zed.Type, len(t.C))
	knfs := make([]*NF, len(t.C))
	for i, c := range t.C {
		k, n, f := r.build(mc, c)
		if f != nil {
			return nil, nil, f
		}
		kids[i], knfs[i] = k, n
	}
	var typ zed.Type
	var want *NF
	what := "LookupType" + t.K
	switch t.K {
	case "prim":
		return zed.LookupPrimitive(t.N), mkPrim(zed.LookupPrimitive(t.N).ID()), nil
	case "res":
		res := r.results[t.R]
		return res.typ, res.nf, nil
	case "rec":
		fields := make([]zed.Field, len(kids))
		for i := range kids {
			fields[i] = zed.NewField(t.F[i], kids[i])
		}
		rt, err := mc.z.LookupTypeRecord(fields)
		if err != nil {
			return nil, nil, r.failf("C05/unexpected-error/LookupTypeRecord", "LookupTypeRecord(%v): %v", t.F, err)
		}
		// callers reuse their slices
		for i := range fields {
			fields[i] = zed.Field{Name: "\x00scribbled", Type: zed.TypeNull}
		}
		typ, want = rt, mkRec(t.F, knfs)
	case "arr":
		typ, want = mc.z.LookupTypeArray(kids[0]), mkArr(knfs[0])
	case "set":
		typ, want = mc.z.LookupTypeSet(kids[0]), mkSet(knfs[0])
	case "err":
		typ, want = mc.z.LookupTypeError(kids[0]), mkErr(knfs[0])
	case "map":
		typ, want = mc.z.LookupTypeMap(kids[0], kids[1]), mkMap(knfs[0], knfs[1])
	case "union":
		want = mkUnion(knfs)
		for i := range knfs {
			if knfs[i].Key != want.Kids[i].Key {
				r.permutedUnion = true
				r.label("union-listed-out-of-order")
			}
		}
		members := append([]zed.Type(nil), kids...)
		typ = mc.z.LookupTypeUnion(members)
		for i := range members {
			members[i] = zed.TypeNull
		}
	case "enum":
		syms := append([]string(nil), t.F...)
		typ, want = mc.z.LookupTypeEnum(syms), mkEnum(t.F)
		for i := range syms {
			syms[i] = "\x00scribbled"
		}
	case "named":
		nt, err := mc.z.LookupTypeNamed(t.N, kids[0])
		if err != nil {
			return nil, nil, r.failf("C05/unexpected-error/LookupTypeNamed", "LookupTypeNamed(%q): %v", t.N, err)
		}
		typ, want = nt, mkNamed(t.N, knfs[0])
		// an explicit binding: LookupTypeDef must now return exactly this type
		mc.defs[t.N] = map[string]bool{}
	}
	if f := r.observe(mc, typ, want, what); f != nil {
		return nil, nil, f
	}
	if t.K == "named" {
		r.noteNames(mc, want, true)
		mc.defs[t.N] = map[string]bool{want.Key: true}
	}
	return typ, want, nil
}

func (r *runner) crossed(src *rres, mc *mctx) {
	if src.ctx != mc.idx {
		r.crossStep = true
		r.label("cross-context:" + r.opname)
	} else {
		r.label("same-context:" + r.opname)
	}
}

func scribble(b []byte) {
	for i := range b {
		b[i] = 0xA5 ^ byte(i)
	}
}

func (r *runner) run() *vt.Failure {
	c := r.c
	for i := 0; i < c.NCtx; i++ {
		r.ctxs = append(r.ctxs, newMctx(i))
	}
	for _, m := range c.Mappers {
		r.mappers = append(r.mappers, zed.NewMapper(r.ctxs[m[1]].z))
		r.entered = append(r.entered, map[int]zed.Type{})
	}
	for i := range c.Ops {
		op := &c.Ops[i]
		r.step, r.opname = i, op.Op
		mc := r.ctxs[op.Ctx]
		var res *rres
		var src *rres
		switch op.Op {
		case "byvalue", "byvalue_nc", "translate", "decode", "typevalue", "roundtrip", "mapenter", "maplookup":
			src = r.results[op.Src]
		}
		switch op.Op {
		case "lookup":
			typ, n, f := r.build(mc, op.T)
			if f != nil {
				return f
			}
			res = &rres{op.Ctx, typ, n}
		case "duprec":
			fields := make([]zed.Field, len(op.T.C))
			for j, k := range op.T.C {
				kt, _, f := r.build(mc, k)
				if f != nil {
					return f
				}
				fields[j] = zed.NewField(op.T.F[j], kt)
			}
			rt, err := mc.z.LookupTypeRecord(fields)
			var dup *zed.DuplicateFieldError
			if err == nil || !errors.As(err, &dup) || rt != nil {
				return r.failf("C05/missing-error/duplicate-field", "LookupTypeRecord with field names %q returned (%v, %v), want a DuplicateFieldError", op.T.F, rt, err)
			}
			r.label("dup-field-error")
		case "badname":
			kt, _, f := r.build(mc, op.T)
			if f != nil {
				return f
			}
			nt, err := mc.z.LookupTypeNamed(realName(op.Name), kt)
			if err == nil || nt != nil {
				return r.failf("C05/missing-error/bad-type-name", "LookupTypeNamed(%q) returned (%v, %v), want an error", realName(op.Name), nt, err)
			}
			if d := mc.z.LookupTypeDef(realName(op.Name)); d != nil {
				return r.failf("C05/missing-error/bad-type-name", "LookupTypeDef(%q) is bound after LookupTypeNamed refused the name", realName(op.Name))
			}
			r.label("bad-name-error")
		case "byvalue", "byvalue_nc":
			r.crossed(src, mc)
			var b []byte
			if op.Op == "byvalue" {
				b = append([]byte(nil), zed.EncodeTypeValue(src.typ)...)
			} else {
				b = spellTV(src.nf, op.Perms, op.NoRefs)
				if p, err := parseWhole(b); err != nil || p.Key != src.nf.Key {
					panic("harness: spelling does not denote the type")
				}
				if bytes.Equal(b, r.canonOf(src.nf)) {
					r.label("byvalue_nc:spelling-is-canonical")
				} else {
					r.label("byvalue_nc:noncanonical-spelling")
				}
			}
			cs := &callerSlice{ctx: op.Ctx, b: b, orig: append([]byte(nil), b...)}
			typ, err := mc.z.LookupByValue(b)
			if err != nil {
				return r.failf("C05/unexpected-error/LookupByValue", "LookupByValue(%x) for %s: %v", cs.orig, show(src.nf), err)
			}
			r.noteNames(mc, src.nf, false)
			if f := r.observe(mc, typ, src.nf, "LookupByValue"); f != nil {
				return f
			}
			cs.typ = typ
			r.slices = append(r.slices, cs)
			if v := mc.z.LookupTypeValue(typ); len(b) > 0 && len(v.Bytes()) > 0 && &v.Bytes()[0] == &b[0] {
				r.label("byvalue:context-keeps-caller-slice")
			}
			res = &rres{op.Ctx, typ, src.nf}
		case "translate":
			r.crossed(src, mc)
			typ, err := mc.z.TranslateType(src.typ)
			if err != nil {
				return r.failf("C05/unexpected-error/TranslateType", "TranslateType(%s): %v", show(src.nf), err)
			}
			r.noteNames(mc, src.nf, false)
			if f := r.observe(mc, typ, src.nf, "TranslateType"); f != nil {
				return f
			}
			res = &rres{op.Ctx, typ, src.nf}
		case "decode":
			r.crossed(src, mc)
			enc := zed.EncodeTypeValue(src.typ)
			typ, rest := mc.z.DecodeTypeValue(enc)
			if rest == nil || len(rest) != 0 {
				return r.failf("C05/unexpected-error/DecodeTypeValue", "DecodeTypeValue(%x) for %s left rest=%v (nil=%v)", enc, show(src.nf), rest, rest == nil)
			}
			r.noteNames(mc, src.nf, false)
			if f := r.observe(mc, typ, src.nf, "DecodeTypeValue"); f != nil {
				return f
			}
			res = &rres{op.Ctx, typ, src.nf}
		case "typevalue":
			r.crossed(src, mc)
			v := mc.z.LookupTypeValue(src.typ)
			r.noteNames(mc, src.nf, false)
			if v.Type() != zed.TypeType {
				return r.failf("C05/typevalue-not-a-type-value", "LookupTypeValue(%s) has type id %d", show(src.nf), v.Type().ID())
			}
			p, err := parseWhole(v.Bytes())
			if err != nil || p.Key != src.nf.Key {
				return r.failf("C05/typevalue-wrong", "context %d: LookupTypeValue(%s from context %d) = %x which denotes %s (%v)", op.Ctx, show(src.nf), src.ctx, v.Bytes(), show(p), err)
			}
			typ, rest := mc.z.DecodeTypeValue(v.Bytes())
			if rest == nil || len(rest) != 0 {
				return r.failf("C05/unexpected-error/DecodeTypeValue", "DecodeTypeValue(LookupTypeValue(%s)) left rest=%v", show(src.nf), rest)
			}
			if f := r.observe(mc, typ, src.nf, "DecodeTypeValue(LookupTypeValue)"); f != nil {
				return f
			}
			r.captured = append(r.captured, capture{ctx: op.Ctx, typ: typ, val: v, copy: append([]byte(nil), v.Bytes()...), step: i})
			res = &rres{op.Ctx, typ, src.nf}
		case "roundtrip":
			r.crossStep = true
			r.label("roundtrip-fresh-context")
			if f := r.thereAndBack(mc, src.typ, src.nf, newMctx(-1)); f != nil {
				return f
			}
			res = &rres{op.Ctx, src.typ, src.nf}
		case "typedef":
			if f := r.typedef(mc, op.Name); f != nil {
				return f
			}
		case "mapenter":
			r.crossed(src, mc)
			m := r.mappers[op.Map]
			typ, err := m.Enter(src.typ)
			if err != nil {
				return r.failf("C05/unexpected-error/Mapper.Enter", "Mapper.Enter(%s): %v", show(src.nf), err)
			}
			r.noteNames(mc, src.nf, false)
			if f := r.observe(mc, typ, src.nf, "Mapper.Enter"); f != nil {
				return f
			}
			id := zed.TypeID(src.typ)
			if got := m.Lookup(id); got != typ {
				return r.failf("C05/mapper/lookup-after-enter", "Mapper.Lookup(%d) = %v after Enter returned the type with id %d", id, got, zed.TypeID(typ))
			}
			r.entered[op.Map][id] = typ
			res = &rres{op.Ctx, typ, src.nf}
		case "maplookup":
			m := r.mappers[op.Map]
			id := zed.TypeID(src.typ)
			want := r.entered[op.Map][id]
			if id < zed.IDTypeComplex {
				want = src.typ
			}
			got := m.Lookup(id)
			if got != want {
				return r.failf("C05/mapper/lookup", "Mapper.Lookup(%d) = %v, want %v", id, got, want)
			}
			if want == nil {
				r.label("maplookup:unbound")
			} else {
				r.label("maplookup:bound")
			}
		case "scribble":
			n := 0
			for _, cs := range r.slices {
				if !cs.scribbled {
					scribble(cs.b)
					cs.scribbled = true
					n++
				}
			}
			if n > 0 {
				r.label("scribbled-foreign-slices")
			}
		}
		r.results = append(r.results, res)
		if f := r.sweep(fmt.Sprintf("after step %d (%s)", i, op.Op)); f != nil {
			return f
		}
	}
	return r.final()
}

func (r *runner) typedef(mc *mctx, name string) *vt.Failure {
	got := mc.z.LookupTypeDef(name)
	cand := mc.defs[name]
	if len(cand) == 0 {
		if got != nil {
			return r.failf("C05/typedef/bound-without-binding", "context %d: LookupTypeDef(%q) = type id %d but no type of that name was ever created there", mc.idx, name, zed.TypeID(got))
		}
		r.label("typedef:unbound")
		return nil
	}
	if got == nil {
		return r.failf("C05/typedef/unbound", "context %d: LookupTypeDef(%q) = nil although the name has been bound", mc.idx, name)
	}
	if f := r.observe(mc, got, nil, "LookupTypeDef"); f != nil {
		return f
	}
	n := mc.byPtr[got]
	if n.Kind != 'N' || n.Name != name || !cand[n.Key] {
		var keys []string
		for k := range cand {
			keys = append(keys, k)
		}
		sort.Strings(keys)
		return r.failf("C05/typedef/not-a-recent-binding", "context %d: LookupTypeDef(%q) = %s, which is none of the bindings made since the last explicit LookupTypeNamed (%d candidates)", mc.idx, name, show(n), len(keys))
	}
	if len(cand) == 1 {
		r.label("typedef:exact")
	} else {
		r.label("typedef:one-of-several")
	}
	mc.defs[name] = map[string]bool{n.Key: true}
	return nil
}

// thereAndBack translates typ (living in mc, structure n) into other and back.
func (r *runner) thereAndBack(mc *mctx, typ zed.Type, n *NF, other *mctx) *vt.Failure {
	there, err := other.z.TranslateType(typ)
	if err != nil {
		return r.failf("C05/unexpected-error/TranslateType", "TranslateType(%s) into another context: %v", show(n), err)
	}
	save := r.opname
	r.opname = "translate"
	defer func() { r.opname = save }()
	if other.idx >= 0 {
		r.noteNames(other, n, false)
		if f := r.observe(other, there, n, "TranslateType (there)"); f != nil {
			return f
		}
	} else if got := walk(there, nil); got.Key != n.Key {
		return r.failf("C05/wrong-structure/translate", "TranslateType into a fresh context returned %s, want %s", show(got), show(n))
	}
	back, err := mc.z.TranslateType(there)
	if err != nil {
		return r.failf("C05/unexpected-error/TranslateType", "TranslateType(%s) back: %v", show(n), err)
	}
	r.noteNames(mc, n, false)
	if back != typ {
		return r.failf("C05/translate-roundtrip", "context %d: translating %s to another context and back returned another pointer (id %d, structure %s; original id %d)",
			mc.idx, show(n), zed.TypeID(back), show(walk(back, nil)), zed.TypeID(typ))
	}
	return nil
}

// final is the mutating sweep at the end of the history.
func (r *runner) final() *vt.Failure {
	r.step, r.opname = len(r.c.Ops), "final"
	// the caller overwrites every slice it ever passed to LookupByValue
	for _, cs := range r.slices {
		if !cs.scribbled {
			scribble(cs.b)
			cs.scribbled = true
		}
	}
	if f := r.sweep("after scribbling on all foreign slices"); f != nil {
		return f
	}
	for ci, mc := range r.ctxs {
		types := append([]zed.Type(nil), mc.order...)
		for _, typ := range types {
			n := mc.byPtr[typ]
			// structure unchanged although the caller reused its argument slices
			if again := walk(typ, nil); again.Key != n.Key {
				return r.failf("C05/type-changed-after-creation", "context %d: a type created as %s now reads %s", mc.idx, show(n), show(again))
			}
			if n.Kind == 'p' {
				continue
			}
			enc := zed.EncodeTypeValue(typ)
			dt, rest := mc.z.DecodeTypeValue(enc)
			r.noteNames(mc, n, false)
			if rest == nil || len(rest) != 0 || dt != typ {
				return r.failf("C05/decode-roundtrip", "context %d: DecodeTypeValue(EncodeTypeValue(t)) for t=%s (id %d) returned %v (rest=%v)", mc.idx, show(n), zed.TypeID(typ), dt, rest)
			}
			fresh := append([]byte(nil), r.canonOf(n)...)
			bt, err := mc.z.LookupByValue(fresh)
			if err != nil || bt != typ {
				got := "<nil>"
				if bt != nil {
					got = show(walk(bt, nil))
				}
				if bt != nil && refRebound(n, walk(bt, nil)) {
					return r.failf("C05/nameref-bound-to-other-type/lookupbyvalue", "context %d: LookupByValue(canonical bytes of %s) = %s: the context's table maps this type value to a type in which a name reference is bound to another type", mc.idx, show(n), got)
				}
				return r.failf("C05/lookupbyvalue-canonical-bytes", "context %d: LookupByValue(canonical bytes of %s) = (%s, %v), want the existing pointer", mc.idx, show(n), got, err)
			}
			if f := r.thereAndBack(mc, typ, n, newMctx(-1)); f != nil {
				return f
			}
			other := r.ctxs[(ci+1)%len(r.ctxs)]
			if f := r.thereAndBack(mc, typ, n, other); f != nil {
				return f
			}
		}
	}
	r.opname = "final"
	return r.sweep("at the end")
}

func runCase(c Case) *vt.Outcome {
	o := &vt.Outcome{}
	// validate the history against the static model (a replay file may be hand-written)
	var results []*sres
	if c.NCtx < 1 || c.NCtx > 8 {
		return &vt.Outcome{Skip: "invalid-history"}
	}
	for _, m := range c.Mappers {
		if m[0] < 0 || m[0] >= c.NCtx || m[1] < 0 || m[1] >= c.NCtx {
			return &vt.Outcome{Skip: "invalid-history"}
		}
	}
	for i := range c.Ops {
		res, err := staticResult(&c, &c.Ops[i], results)
		if err != nil {
			return &vt.Outcome{Skip: "invalid-history"}
		}
		results = append(results, res)
	}
	r := &runner{c: &c, o: o, canon: map[string][]byte{}, labels: map[string]bool{}, bound: map[string]map[string]bool{}}
	o.Fail = r.run()
	o.NonTrivial = (r.permutedUnion || r.rebinding) && r.crossStep
	if o.NonTrivial {
		o.Label("nontrivial")
	}
	return o
}

var histProp = &vt.Prop[Case]{
	Name: "TestHistory",
	Rule: "case = history of <=30 (thorough 60) operations on 2..3 contexts: constructor lookups of a generated type AST (depth<=3, leaves may refer to earlier results; " +
		"unions listed in drawn order; type names from a pool of 1..4 so names are rebound), LookupByValue (canonical bytes, or another decodable spelling) with a slice that is overwritten later, " +
		"TranslateType, DecodeTypeValue, LookupTypeValue (captured), LookupTypeDef, Mapper.Enter/Lookup, round trips through a fresh context, documented error cases; " +
		"after every step: same normal form <=> same pointer and TypeID, LookupType(id), EncodeTypeValue == harness serialisation, LookupTypeValue == canonical bytes, captured type values unchanged; " +
		"at the end additionally decode/LookupByValue/translate-there-and-back for every type in every context. " +
		"Non-trivial: the history lists >=1 union out of canonical order or rebinds a type name in one context, and has >=1 cross-context step.",
	Gen: genCase,
	Run: runCase,
}

func init() { histProp.Register() }

func TestHistory(t *testing.T) { histProp.Check(t) }
func TestReplay(t *testing.T)  { vt.TestReplay(t) }
