package c05

// Harness-side model of the Zed type system, independent of the code under
// test: a structural normal form (NF) with names included and union members as
// a set, the documented total type order (docs/formats/zed.md sections 2 and 3),
// the type value serialisation of docs/formats/zng.md section 4, a parser for
// it, and a walker that reads the NF off a real zed.Type.

import (
	"encoding/binary"
	"errors"
	"fmt"
	"sort"
	"strconv"
	"strings"

	zed "github.com/brimdata/super"
)

type NF struct {
	Kind  byte     // 'p' primitive, 'R' record, 'A' array, 'S' set, 'M' map, 'U' union, 'E' enum, 'X' error, 'N' named, '?' nil/unknown
	Prim  int      // primitive id
	Name  string   // named: type name
	Names []string // record: field names; enum: symbols
	Kids  []*NF    // union: members in documented type order (in Key order when Ambig)
	Key   string   // canonical identity: names included, union members as a set
	// Ambig: the type contains a union with two members whose relative order
	// docs/formats/zed.md does not settle (named types with the same ultimate
	// underlying type whose immediate underlying types differ).
	Ambig bool
	Size  int
	Depth int
}

func lp(s string) string { return strconv.Itoa(len(s)) + ":" + s }

func finishNF(n *NF) *NF {
	n.Size, n.Depth = 1, 1
	for _, k := range n.Kids {
		n.Size += k.Size
		if k.Depth+1 > n.Depth {
			n.Depth = k.Depth + 1
		}
		if k.Ambig {
			n.Ambig = true
		}
	}
	return n
}

var primNF [zed.IDTypeComplex]*NF

func mkPrim(id int) *NF {
	if id >= 0 && id < len(primNF) {
		if p := primNF[id]; p != nil {
			return p
		}
	}
	return finishNF(&NF{Kind: 'p', Prim: id, Key: "p" + strconv.Itoa(id) + "."})
}

func init() {
	for id := range primNF {
		primNF[id] = finishNF(&NF{Kind: 'p', Prim: id, Key: "p" + strconv.Itoa(id) + "."})
	}
}

func mkRec(names []string, kids []*NF) *NF {
	var sb strings.Builder
	sb.WriteString("R" + strconv.Itoa(len(names)) + "{")
	for i, n := range names {
		sb.WriteString(lp(n))
		sb.WriteString(kids[i].Key)
	}
	sb.WriteString("}")
	return finishNF(&NF{Kind: 'R', Names: append([]string(nil), names...), Kids: append([]*NF(nil), kids...), Key: sb.String()})
}

func mkArr(k *NF) *NF { return finishNF(&NF{Kind: 'A', Kids: []*NF{k}, Key: "A[" + k.Key + "]"}) }
func mkSet(k *NF) *NF { return finishNF(&NF{Kind: 'S', Kids: []*NF{k}, Key: "S[" + k.Key + "]"}) }
func mkErr(k *NF) *NF { return finishNF(&NF{Kind: 'X', Kids: []*NF{k}, Key: "X[" + k.Key + "]"}) }
func mkMap(k, v *NF) *NF {
	return finishNF(&NF{Kind: 'M', Kids: []*NF{k, v}, Key: "M[" + k.Key + v.Key + "]"})
}
func mkNamed(name string, k *NF) *NF {
	return finishNF(&NF{Kind: 'N', Name: name, Kids: []*NF{k}, Key: "N" + lp(name) + "=" + k.Key})
}
func mkEnum(syms []string) *NF {
	var sb strings.Builder
	sb.WriteString("E" + strconv.Itoa(len(syms)) + "<")
	for _, s := range syms {
		sb.WriteString(lp(s))
	}
	sb.WriteString(">")
	return finishNF(&NF{Kind: 'E', Names: append([]string(nil), syms...), Key: sb.String()})
}

// mkUnion builds the NF of a union from members given in any order.  The key
// treats the members as a set; Kids are put in the documented type order.
func mkUnion(members []*NF) *NF {
	kids := append([]*NF(nil), members...)
	sort.SliceStable(kids, func(i, j int) bool { return kids[i].Key < kids[j].Key })
	var sb strings.Builder
	sb.WriteString("U" + strconv.Itoa(len(kids)) + "(")
	for _, k := range kids {
		sb.WriteString(k.Key)
	}
	sb.WriteString(")")
	n := &NF{Kind: 'U', Key: sb.String()}
	for i := range kids {
		for j := i + 1; j < len(kids); j++ {
			if kids[i].Key == kids[j].Key {
				continue
			}
			if _, sure := cmpNF(kids[i], kids[j]); !sure {
				n.Ambig = true
			}
		}
	}
	if !n.Ambig {
		sort.SliceStable(kids, func(i, j int) bool { c, _ := cmpNF(kids[i], kids[j]); return c < 0 })
	}
	n.Kids = kids
	return finishNF(n)
}

func (n *NF) hasDupMembers() bool {
	for i := 1; i < len(n.Kids); i++ {
		for j := 0; j < i; j++ {
			if n.Kids[i].Key == n.Kids[j].Key {
				return true
			}
		}
	}
	return false
}

func baseOf(n *NF) *NF {
	for n.Kind == 'N' {
		n = n.Kids[0]
	}
	return n
}

var kindRank = map[byte]int{'p': 0, 'R': 1, 'A': 2, 'S': 3, 'M': 4, 'U': 5, 'E': 6, 'X': 7}

// cmpNF is the total type order of docs/formats/zed.md.  sure=false means the
// text does not settle the order of a and b: both are named, share the ultimate
// underlying type, but their immediate underlying types differ ("a named type
// is ordered after its underlying type; named types sharing an underlying type
// are ordered by name" can be read with the immediate or the ultimate
// underlying type).  In that case c is what comparing the outermost names gives.
func cmpNF(a, b *NF) (c int, sure bool) {
	if a.Key == b.Key {
		return 0, true
	}
	ba, bb := baseOf(a), baseOf(b)
	if ba.Key != bb.Key {
		return cmpBase(ba, bb)
	}
	if a.Kind != 'N' {
		return -1, true
	}
	if b.Kind != 'N' {
		return 1, true
	}
	if a.Kids[0].Key == b.Kids[0].Key {
		return strings.Compare(a.Name, b.Name), true
	}
	return strings.Compare(a.Name, b.Name), false
}

func cmpInt(a, b int) int {
	switch {
	case a < b:
		return -1
	case a > b:
		return 1
	}
	return 0
}

// cmpBase compares two distinct non-named types.
func cmpBase(a, b *NF) (int, bool) {
	if c := cmpInt(kindRank[a.Kind], kindRank[b.Kind]); c != 0 {
		return c, true
	}
	sure := true
	seq := func(x, y []*NF) (int, bool) {
		for i := range x {
			c, s := cmpNF(x[i], y[i])
			if !s {
				sure = false
			}
			if c != 0 {
				return c, sure
			}
		}
		return 0, sure
	}
	switch a.Kind {
	case 'p':
		return cmpInt(a.Prim, b.Prim), true
	case 'R':
		if c := cmpInt(len(a.Names), len(b.Names)); c != 0 {
			return c, true
		}
		for i := range a.Names {
			if c := strings.Compare(a.Names[i], b.Names[i]); c != 0 {
				return c, true
			}
		}
		return seq(a.Kids, b.Kids)
	case 'A', 'S', 'X', 'M':
		return seq(a.Kids, b.Kids)
	case 'U':
		if c := cmpInt(len(a.Kids), len(b.Kids)); c != 0 {
			return c, true
		}
		if a.Ambig || b.Ambig {
			sure = false
		}
		return seq(a.Kids, b.Kids)
	case 'E':
		if c := cmpInt(len(a.Names), len(b.Names)); c != 0 {
			return c, true
		}
		for i := range a.Names {
			if c := strings.Compare(a.Names[i], b.Names[i]); c != 0 {
				return c, true
			}
		}
		return 0, true
	}
	return 0, false
}

// ---- serialisation per docs/formats/zng.md section 4

const (
	tvRecord  = 30
	tvArray   = 31
	tvSet     = 32
	tvMap     = 33
	tvUnion   = 34
	tvEnum    = 35
	tvError   = 36
	tvNameDef = 37
	tvNameRef = 38
)

type spell struct {
	perms  []int // per union node (DFS order), index of the member permutation to use; nil: documented order
	next   int
	noRefs bool // spell every named occurrence as a definition
	refs   int  // number of name references emitted
	redefs int  // number of definitions of a name that was already bound (to another type)
	unions int
}

func appendName(b []byte, s string) []byte {
	b = binary.AppendUvarint(b, uint64(len(s)))
	return append(b, s...)
}

// kthPerm returns the k-th (mod n!) permutation of 0..n-1 in lexicographic order.
func kthPerm(n, k int) []int {
	fact := 1
	for i := 2; i <= n; i++ {
		fact *= i
	}
	if k < 0 {
		k = -k
	}
	k %= fact
	avail := make([]int, n)
	for i := range avail {
		avail[i] = i
	}
	out := make([]int, 0, n)
	for i := n; i > 0; i-- {
		fact /= i
		j := k / fact
		k %= fact
		out = append(out, avail[j])
		avail = append(avail[:j], avail[j+1:]...)
	}
	return out
}

func (s *spell) appendTV(b []byte, n *NF, defs map[string]string) []byte {
	switch n.Kind {
	case 'p':
		return append(b, byte(n.Prim))
	case 'N':
		if prev, ok := defs[n.Name]; ok && prev == n.Kids[0].Key && !s.noRefs {
			s.refs++
			b = append(b, tvNameRef)
			return appendName(b, n.Name)
		}
		if prev, ok := defs[n.Name]; ok && prev != n.Kids[0].Key {
			s.redefs++
		}
		b = append(b, tvNameDef)
		b = appendName(b, n.Name)
		b = s.appendTV(b, n.Kids[0], defs)
		// the binding is established once the definition is complete (DFS order)
		defs[n.Name] = n.Kids[0].Key
		return b
	case 'R':
		b = append(b, tvRecord)
		b = binary.AppendUvarint(b, uint64(len(n.Names)))
		for i, name := range n.Names {
			b = appendName(b, name)
			b = s.appendTV(b, n.Kids[i], defs)
		}
		return b
	case 'A':
		return s.appendTV(append(b, tvArray), n.Kids[0], defs)
	case 'S':
		return s.appendTV(append(b, tvSet), n.Kids[0], defs)
	case 'X':
		return s.appendTV(append(b, tvError), n.Kids[0], defs)
	case 'M':
		b = s.appendTV(append(b, tvMap), n.Kids[0], defs)
		return s.appendTV(b, n.Kids[1], defs)
	case 'U':
		s.unions++
		b = append(b, tvUnion)
		b = binary.AppendUvarint(b, uint64(len(n.Kids)))
		order := make([]int, len(n.Kids))
		for i := range order {
			order[i] = i
		}
		if len(s.perms) > 0 {
			order = kthPerm(len(n.Kids), s.perms[s.next%len(s.perms)])
			s.next++
		}
		for _, i := range order {
			b = s.appendTV(b, n.Kids[i], defs)
		}
		return b
	case 'E':
		b = append(b, tvEnum)
		b = binary.AppendUvarint(b, uint64(len(n.Names)))
		for _, sym := range n.Names {
			b = appendName(b, sym)
		}
		return b
	}
	panic("harness: appendTV of unknown NF kind " + string(n.Kind))
}

// canonTV is the harness's own serialisation of a type: union members in the
// documented type order, a named type spelled as a reference exactly when its
// name is currently bound (DFS order) to the same type.
func canonTV(n *NF) []byte {
	var s spell
	return s.appendTV(nil, n, map[string]string{})
}

type tvStats struct{ refs, redefs, unions int }

func canonStats(n *NF) tvStats {
	var s spell
	s.appendTV(nil, n, map[string]string{})
	return tvStats{s.refs, s.redefs, s.unions}
}

func spellTV(n *NF, perms []int, noRefs bool) []byte {
	s := spell{perms: perms, noRefs: noRefs}
	return s.appendTV(nil, n, map[string]string{})
}

// ---- parser for type values (independent of Context.DecodeTypeValue)

var errTV = errors.New("malformed type value")

func parseLen(b []byte) (int, []byte, error) {
	v, n := binary.Uvarint(b)
	if n <= 0 || v > 1<<20 {
		return 0, nil, errTV
	}
	return int(v), b[n:], nil
}

func parseName(b []byte) (string, []byte, error) {
	n, b, err := parseLen(b)
	if err != nil || n > len(b) {
		return "", nil, errTV
	}
	return string(b[:n]), b[n:], nil
}

func parseTV(b []byte, defs map[string]*NF) (*NF, []byte, error) {
	if len(b) == 0 {
		return nil, nil, errTV
	}
	code := b[0]
	b = b[1:]
	switch code {
	case tvNameDef:
		name, b, err := parseName(b)
		if err != nil {
			return nil, nil, err
		}
		inner, b, err := parseTV(b, defs)
		if err != nil {
			return nil, nil, err
		}
		n := mkNamed(name, inner)
		defs[name] = n
		return n, b, nil
	case tvNameRef:
		name, b, err := parseName(b)
		if err != nil {
			return nil, nil, err
		}
		n := defs[name]
		if n == nil {
			return nil, nil, fmt.Errorf("reference to undefined name %q", name)
		}
		return n, b, nil
	case tvRecord:
		n, b, err := parseLen(b)
		if err != nil {
			return nil, nil, err
		}
		var names []string
		var kids []*NF
		for i := 0; i < n; i++ {
			var name string
			var k *NF
			if name, b, err = parseName(b); err != nil {
				return nil, nil, err
			}
			if k, b, err = parseTV(b, defs); err != nil {
				return nil, nil, err
			}
			names, kids = append(names, name), append(kids, k)
		}
		return mkRec(names, kids), b, nil
	case tvArray, tvSet, tvError:
		k, b, err := parseTV(b, defs)
		if err != nil {
			return nil, nil, err
		}
		switch code {
		case tvArray:
			return mkArr(k), b, nil
		case tvSet:
			return mkSet(k), b, nil
		}
		return mkErr(k), b, nil
	case tvMap:
		k, b, err := parseTV(b, defs)
		if err != nil {
			return nil, nil, err
		}
		v, b, err := parseTV(b, defs)
		if err != nil {
			return nil, nil, err
		}
		return mkMap(k, v), b, nil
	case tvUnion:
		n, b, err := parseLen(b)
		if err != nil {
			return nil, nil, err
		}
		var kids []*NF
		for i := 0; i < n; i++ {
			var k *NF
			if k, b, err = parseTV(b, defs); err != nil {
				return nil, nil, err
			}
			kids = append(kids, k)
		}
		return mkUnion(kids), b, nil
	case tvEnum:
		n, b, err := parseLen(b)
		if err != nil {
			return nil, nil, err
		}
		var syms []string
		for i := 0; i < n; i++ {
			var s string
			if s, b, err = parseName(b); err != nil {
				return nil, nil, err
			}
			syms = append(syms, s)
		}
		return mkEnum(syms), b, nil
	}
	if int(code) >= zed.IDTypeComplex {
		return nil, nil, errTV
	}
	return mkPrim(int(code)), b, nil
}

// parseWhole parses a complete type value; "" key on error.
func parseWhole(b []byte) (*NF, error) {
	n, rest, err := parseTV(b, map[string]*NF{})
	if err != nil {
		return nil, err
	}
	if len(rest) != 0 {
		return nil, fmt.Errorf("%d trailing bytes", len(rest))
	}
	return n, nil
}

// ---- reading the NF off a real type

var nilNF = &NF{Kind: '?', Key: "?nil", Size: 1, Depth: 1}

// walk computes the NF of a type by reading its exported structure.  memo (may
// be nil) caches by pointer; types are immutable once created.
func walk(t zed.Type, memo map[zed.Type]*NF) *NF {
	if t == nil {
		return nilNF
	}
	if memo != nil {
		if n, ok := memo[t]; ok {
			return n
		}
	}
	var n *NF
	switch t := t.(type) {
	case *zed.TypeNamed:
		if t == nil {
			return nilNF
		}
		n = mkNamed(t.Name, walk(t.Type, memo))
	case *zed.TypeRecord:
		names := make([]string, len(t.Fields))
		kids := make([]*NF, len(t.Fields))
		for i, f := range t.Fields {
			names[i], kids[i] = f.Name, walk(f.Type, memo)
		}
		n = mkRec(names, kids)
	case *zed.TypeArray:
		n = mkArr(walk(t.Type, memo))
	case *zed.TypeSet:
		n = mkSet(walk(t.Type, memo))
	case *zed.TypeError:
		n = mkErr(walk(t.Type, memo))
	case *zed.TypeMap:
		n = mkMap(walk(t.KeyType, memo), walk(t.ValType, memo))
	case *zed.TypeUnion:
		kids := make([]*NF, len(t.Types))
		for i, m := range t.Types {
			kids[i] = walk(m, memo)
		}
		n = mkUnion(kids)
	case *zed.TypeEnum:
		n = mkEnum(t.Symbols)
	default:
		id := t.ID()
		if p, err := zed.LookupPrimitiveByID(id); err != nil || p != t {
			return &NF{Kind: '?', Key: fmt.Sprintf("?%T", t), Size: 1, Depth: 1}
		}
		n = mkPrim(id)
	}
	if memo != nil {
		memo[t] = n
	}
	return n
}

// subtypes lists t and every type reachable from it (children before parents).
func subtypes(t zed.Type, seen map[zed.Type]bool, out []zed.Type) []zed.Type {
	if t == nil || seen[t] {
		return out
	}
	seen[t] = true
	switch t := t.(type) {
	case *zed.TypeNamed:
		out = subtypes(t.Type, seen, out)
	case *zed.TypeRecord:
		for _, f := range t.Fields {
			out = subtypes(f.Type, seen, out)
		}
	case *zed.TypeArray:
		out = subtypes(t.Type, seen, out)
	case *zed.TypeSet:
		out = subtypes(t.Type, seen, out)
	case *zed.TypeError:
		out = subtypes(t.Type, seen, out)
	case *zed.TypeMap:
		out = subtypes(t.KeyType, seen, out)
		out = subtypes(t.ValType, seen, out)
	case *zed.TypeUnion:
		for _, m := range t.Types {
			out = subtypes(m, seen, out)
		}
	}
	return append(out, t)
}

// show renders an NF in a ZSON-like notation for messages.
func show(n *NF) string {
	if n == nil {
		return "<nil>"
	}
	switch n.Kind {
	case 'p':
		if t, err := zed.LookupPrimitiveByID(n.Prim); err == nil {
			return zed.PrimitiveName(t)
		}
		return fmt.Sprintf("prim%d", n.Prim)
	case 'N':
		return fmt.Sprintf("%s=(%s)", strconv.Quote(n.Name), show(n.Kids[0]))
	case 'R':
		var parts []string
		for i, f := range n.Names {
			parts = append(parts, strconv.Quote(f)+":"+show(n.Kids[i]))
		}
		return "{" + strings.Join(parts, ",") + "}"
	case 'A':
		return "[" + show(n.Kids[0]) + "]"
	case 'S':
		return "|[" + show(n.Kids[0]) + "]|"
	case 'M':
		return "|{" + show(n.Kids[0]) + ":" + show(n.Kids[1]) + "}|"
	case 'X':
		return "error(" + show(n.Kids[0]) + ")"
	case 'U':
		var parts []string
		for _, k := range n.Kids {
			parts = append(parts, show(k))
		}
		return "(" + strings.Join(parts, ",") + ")"
	case 'E':
		var parts []string
		for _, s := range n.Names {
			parts = append(parts, strconv.Quote(s))
		}
		return "enum(" + strings.Join(parts, ",") + ")"
	}
	return n.Key
}

// refRebound reports whether got differs from want only at named nodes that
// the serialisation of want spells as a name reference, where got has a named
// type of the same name with another underlying type: the signature of a name
// reference resolved against a binding made by someone else in between.
func refRebound(want, got *NF) bool {
	if want.Key == got.Key {
		return false
	}
	defs := map[string]string{}
	found := false
	var rec func(w, g *NF) bool
	rec = func(w, g *NF) bool {
		if w.Kind == 'N' {
			if prev, ok := defs[w.Name]; ok && prev == w.Kids[0].Key {
				// reference position
				if g.Kind == 'N' && g.Name == w.Name {
					if g.Key != w.Key {
						found = true
					}
					return true
				}
				return false
			}
			if g.Kind != 'N' || g.Name != w.Name {
				return false
			}
			if !rec(w.Kids[0], g.Kids[0]) {
				return false
			}
			defs[w.Name] = w.Kids[0].Key
			return true
		}
		if w.Kind != g.Kind || len(w.Kids) != len(g.Kids) || len(w.Names) != len(g.Names) || w.Prim != g.Prim {
			return false
		}
		for i := range w.Names {
			if w.Names[i] != g.Names[i] {
				return false
			}
		}
		if w.Kind == 'U' {
			// members may have been re-sorted after a rebinding; compare in
			// want's order against the best match by outermost shape
			used := make([]bool, len(g.Kids))
			for _, wk := range w.Kids {
				ok := false
				for j, gk := range g.Kids {
					if used[j] {
						continue
					}
					save, saveFound := cloneDefs(defs), found
					if rec(wk, gk) {
						used[j], ok = true, true
						break
					}
					defs, found = save, saveFound
				}
				if !ok {
					return false
				}
			}
			return true
		}
		for i := range w.Kids {
			if !rec(w.Kids[i], g.Kids[i]) {
				return false
			}
		}
		return true
	}
	return rec(want, got) && found
}

func cloneDefs(m map[string]string) map[string]string {
	c := make(map[string]string, len(m))
	for k, v := range m {
		c[k] = v
	}
	return c
}
