package c05

import (
	"encoding/json"
	"os"
	"time"

	"verif/vt"
)

// isKnown is vt.IsKnown plus a safeguard: the merged known-findings file is
// rewritten (truncate + write) by /verif/mkknown.py whenever any agent edits a
// fragment, and vt reads it exactly once at process start; a process starting
// inside that window sees no known findings at all.  This re-reads the same
// file (same VERIF_KNOWN override) with a few retries until it parses.
var knownRetry = loadKnownRetry()

func loadKnownRetry() map[string]bool {
	path := os.Getenv("VERIF_KNOWN")
	if path == "" {
		path = "/verif/known_findings.json"
	}
	m := map[string]bool{}
	for attempt := 0; attempt < 8; attempt++ {
		b, err := os.ReadFile(path)
		if err != nil {
			return m
		}
		var doc struct {
			Findings []struct {
				Status    string `json:"status"`
				Signature string `json:"signature"`
			} `json:"findings"`
		}
		if json.Unmarshal(b, &doc) == nil {
			for _, e := range doc.Findings {
				if e.Status == "open" {
					m[e.Signature] = true
				}
			}
			return m
		}
		if len(b) == 0 && path == "/dev/null" {
			return m
		}
		time.Sleep(100 * time.Millisecond)
	}
	return m
}

func isKnown(sig string) bool { return vt.IsKnown(sig) || knownRetry[sig] }
