# Per-property configuration for ./check: package, tests, (shards, checks-per-shard) per tier.
HOOK_COMMITS = []

PENDING = "check not built yet in this round (work in progress; see DESIGN.md section 8)"
NOT_APPLICABLE = {p: PENDING for p in ["C01","C02","C03","C04","C05","C06","C07","C08","C09","C10","C11","C12","C13","C14","C15","C16","C17","C19","C20"]}

PROPS = {
    "C18": dict(
        pkg="c18", level="fault_enumeration",
        rule="C18: every sink-write fault position of every generated (format, options, sequence) case",
        assumptions=["sink faults are modelled by an io.WriteCloser whose k-th Write returns an error (or a short count with io.ErrShortWrite); Close of the sink itself never fails"],
        level_text="Fault enumeration: for every generated (format, writer options, value sequence) case, every sink write position and every failure mode is executed and the error-reporting oracle checked; the input space itself is sampled by rapid.",
        level_note="Trusted: the fault-injecting sink (harness code), the repo's readers for the fault-free readability check. Not covered: arrows/parquet writers, failures of the sink's Close.",
        technique="property-based testing (rapid) with exhaustive fault-position enumeration per generated case",
        tests=[dict(name="TestSinkFaults", quick=(8, 250), thorough=(16, 1500))],
    ),
}
