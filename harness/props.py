# Per-property configuration for ./check.  Each property package cNN/ holds a prop.py
# defining PROP = dict(pkg=..., level=..., level_text=..., level_note=..., technique=...,
# rule=..., assumptions=[...], tests=[dict(name=..., quick=(shards, checks), thorough=(shards, checks))]).
# Properties without a package are listed as not_applicable (pending) until their check exists.
import glob, os, re

HOOK_COMMITS = []
ALL = ["C%02d" % i for i in range(1, 21)]
PROPS = {}
_here = os.path.dirname(os.path.abspath(__file__))
for _f in sorted(glob.glob(os.path.join(_here, "c[0-9][0-9]", "prop.py"))):
    _ns = {}
    exec(open(_f).read(), _ns)
    _pid = "C" + os.path.basename(os.path.dirname(_f))[1:]
    _p = _ns["PROP"]
    _p.setdefault("pkg", "c" + _pid[1:])
    PROPS[_pid] = _p

# Only properties the lead has reviewed and run at several seeds are claimed in MANIFEST.json.
READY = ["C01", "C02", "C03", "C04", "C05", "C06", "C07", "C08", "C09", "C10", "C11", "C19", "C20", "C12", "C13", "C14", "C15", "C16", "C17", "C18"]
CLAIMED = {p: PROPS[p] for p in READY if p in PROPS}

VALID_LEVELS = {"exploration", "fault_enumeration", "model_checking", "proof", "translation_validation", "other"}
for _p in PROPS.values():
    if _p.get("level") not in VALID_LEVELS:
        _p["level"] = "exploration"

NOT_APPLICABLE_REASONS = {}
PENDING = "check not built yet (work in progress; see DESIGN.md section 8)"
NOT_APPLICABLE = {p: NOT_APPLICABLE_REASONS.get(p, PENDING) for p in ALL if p not in CLAIMED}
