package c20

import (
	"fmt"
	"strings"
	"testing"

	zed "github.com/brimdata/super"
	"pgregory.net/rapid"

	"verif/gen"
	"verif/vt"
)

// The exhaustive sub-space: every sequence of 1..MaxLen values over a fixed
// alphabet of shapes chosen so that each pair exercises a different arm of
// agg.merge / the shaper (disjoint and overlapping records, same field with
// different types, nested records, array vs set vs differing element types,
// maps, unions, named types, nulls, non-record values, an error value).
var alphabet = []string{
	`{a:1}`,
	`{b:"s"}`,
	`{b:2,a:"x"}`,
	`{a:{x:1}}`,
	`{a:{y:"q",x:null(int64)},c:null(ip)}`,
	`{a:[1,2]}`,
	`{a:|["u","v"]|}`,
	`{a:|{1:"m"}|}`,
	`{a:|{1:"n","k":2}|,b:null(string)}`,
	`{a:"u"((string,bool))}`,
	`{a:1(=foo)}`,
	`null({a:int64,d:[string]})`,
	`7`,
	`[{x:"e"}]`,
	`error("bad")`,
}

type EnumCase struct {
	Shard  int `json:"shard"`
	Shards int `json:"shards"`
	MaxLen int `json:"maxlen"`
}

func genEnumCase(t *rapid.T) EnumCase {
	// Not random: the case is "this process's share of the enumeration".
	// (One dummy draw keeps rapid's bookkeeping uniform.)
	rapid.Just(0).Draw(t, "enumeration")
	return EnumCase{Shard: envInt("VERIF_SHARD", 0), Shards: max(envInt("VERIF_SHARDS", 1), 1), MaxLen: 3}
}

func runEnumCase(c EnumCase) *vt.Outcome {
	o := &vt.Outcome{}
	n := len(alphabet)
	idx := 0
	var rec func(prefix []int)
	var fail *vt.Failure
	known := map[string]bool{}
	rec = func(prefix []int) {
		if fail != nil {
			return
		}
		if len(prefix) > 0 {
			idx++
			if (idx-1)%c.Shards == c.Shard {
				var parts []string
				for _, i := range prefix {
					parts = append(parts, alphabet[i])
				}
				text := strings.Join(parts, " ")
				seq := reload(gen.SeqFromZSON(text))
				sub := &vt.Outcome{}
				classify(seq.Vals, sub)
				o.Evals++
				o.Labels = append(o.Labels, sub.Labels...)
				if f := check(seq, sub); f != nil {
					fail = vt.Failf(f.Sig, "enumerated input `%s`: %s", text, f.Msg)
					return
				}
				for _, k := range sub.Known {
					if !known[k] {
						known[k] = true
						o.Known = append(o.Known, k)
					}
					o.Label("known-in-subcase:" + k)
				}
				if sub.NonTrivial {
					o.Units = append(o.Units, fmt.Sprint(prefix))
				}
			}
		}
		if len(prefix) == c.MaxLen {
			return
		}
		for i := 0; i < n; i++ {
			rec(append(prefix[:len(prefix):len(prefix)], i))
		}
	}
	rec(nil)
	o.Fail = fail
	if fail == nil {
		total := 0
		for l, p := 1, n; l <= c.MaxLen; l, p = l+1, p*n {
			total += p
		}
		vt.SetExtra("TestFuseExhaustive", "exhaustive", fmt.Sprintf("all %d sequences of 1..%d values over the %d-value alphabet %v (each run at the 3 memory limits), split over %d shards",
			total, c.MaxLen, n, alphabet, c.Shards))
	}
	return o
}

var enumProp = &vt.Prop[EnumCase]{
	Name: "TestFuseExhaustive",
	Rule: "one case per shard = that shard's share (every Shards-th) of ALL sequences of 1..3 values over a fixed 15-value alphabet of shapes; each sequence goes through the same oracle as TestFuse; " +
		"evaluations counts sequences; a sequence is non-trivial by the TestFuse rule.",
	CaseLimit: 0,
	Gen:       genEnumCase,
	Run:       runEnumCase,
}

func init() { enumProp.Register() }

func TestFuseExhaustive(t *testing.T) { enumProp.Check(t) }

var _ = zed.TypeNull
