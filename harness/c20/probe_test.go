package c20

import (
	"encoding/json"
	"fmt"
	"os"
	"strings"
	"testing"

	"github.com/brimdata/super/zson"

	"verif/gen"
	"verif/oracle"
	"verif/vt"
)

// TestProbe is a development aid: C20_PROBE='<zson values>' prints what fuse
// and fuse(this) do with a literal input and what the oracle says.
func TestProbe(t *testing.T) {
	text := os.Getenv("C20_PROBE")
	if text == "" {
		t.Skip("C20_PROBE not set")
	}
	seq := reload(gen.SeqFromZSON(text))
	for _, limit := range limits {
		out, err := runFuse(seq, limit)
		fmt.Printf("MemMaxBytes=%d err=%v\n", limit, err)
		for _, v := range out {
			fmt.Printf("   %s   :: %s\n", oracle.Show(v), zson.FormatType(v.Type()))
		}
	}
	agg, err := runQuery(seq.Zctx, seq.Vals, "fuse(this)")
	fmt.Printf("fuse(this): %v err=%v\n", showAll(agg), err)
	o := &vt.Outcome{}
	if f := check(seq, o); f != nil {
		fmt.Printf("ORACLE: %s: %s\n", f.Sig, f.Msg)
	} else {
		fmt.Printf("ORACLE: ok known=%v\n", o.Known)
	}
}

// TestMakeReplay is a development aid: C20_MKREPLAY='<file>|<sig>|<zson values>'
// writes a replay file for TestFuse with the literal input.
func TestMakeReplay(t *testing.T) {
	spec := os.Getenv("C20_MKREPLAY")
	if spec == "" {
		t.Skip("C20_MKREPLAY not set")
	}
	parts := strings.SplitN(spec, "|", 3)
	c := Case{Kind: "literal", Seq: gen.SeqFromZSON(parts[2])}
	raw, err := json.Marshal(c)
	if err != nil {
		t.Fatal(err)
	}
	rf := map[string]any{"test": "TestFuse", "sig": parts[1], "expect": "known", "case": json.RawMessage(raw)}
	b, _ := json.MarshalIndent(rf, "", " ")
	if err := os.WriteFile(parts[0], append(b, '\n'), 0o644); err != nil {
		t.Fatal(err)
	}
}
