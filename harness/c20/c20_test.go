package c20

import (
	"bytes"
	"fmt"
	"os"
	"strconv"
	"testing"

	zed "github.com/brimdata/super"
	"github.com/brimdata/super/zson"
	"pgregory.net/rapid"

	"verif/gen"
	"verif/oracle"
	"verif/vt"
)

func TestMain(m *testing.M) { vt.Main(m) }

var limits = []int{1, 100, 128 * 1024 * 1024}

type Case struct {
	Kind string  `json:"kind"` // "random" (independent types) or "related" (variants of a base type)
	Seq  gen.Seq `json:"seq"`
}

func genCase(t *rapid.T) Case {
	maxLen := 24
	if vt.Thorough() {
		maxLen = 60
	}
	if rapid.SampledFrom([]string{"random", "random", "random", "related", "related", "related", "related", "related", "related", "related"}).Draw(t, "kind") == "random" {
		return Case{Kind: "random", Seq: drawRandom(t, maxLen)}
	}
	return Case{Kind: "related", Seq: drawRelated(t, maxLen)}
}

func typeBytes(t zed.Type) []byte { return zed.EncodeTypeValue(t) }

func sameType(a, b zed.Type) bool { return bytes.Equal(typeBytes(a), typeBytes(b)) }

// check applies the C20 oracle to one input sequence.  It returns the failure
// (nil if the property holds) and fills o's labels.
func check(seq gen.Seq, o *vt.Outcome) *vt.Failure {
	in := seq.Vals
	var outs [][]zed.Value
	for _, limit := range limits {
		out, err := runFuse(seq, limit)
		if err != nil {
			if isPanicErr(err) {
				return vt.Failf("C20/panic", "fuse (MemMaxBytes=%d) panicked: %v", limit, err)
			}
			return vt.Failf("C20/query-error", "fuse (MemMaxBytes=%d) failed: %v", limit, err)
		}
		outs = append(outs, out)
	}
	// identical across memory limits (same context, so Key identity applies)
	for k := 1; k < len(outs); k++ {
		if d := oracle.Same(outs[len(outs)-1], outs[k-1]); d != "" {
			return vt.Failf("C20/limit-dependent", "output with MemMaxBytes=%d differs from the in-memory output: %s", limits[k-1], d)
		}
	}
	out := outs[len(outs)-1]
	if len(out) != len(in) {
		return vt.Failf("C20/length", "fuse emitted %d values for %d input values", len(out), len(in))
	}
	if len(in) == 0 {
		return nil
	}
	// the fused type according to the aggregate
	aggOut, err := runQuery(seq.Zctx, in, "fuse(this)")
	if err != nil {
		return vt.Failf("C20/aggregate-error", "fuse(this) failed: %v", err)
	}
	if len(aggOut) != 1 || aggOut[0].Type() != zed.TypeType || aggOut[0].IsNull() {
		return vt.Failf("C20/aggregate-shape", "fuse(this) returned %d values: %v", len(aggOut), showAll(aggOut))
	}
	T, err := seq.Zctx.LookupByValue(aggOut[0].Bytes())
	if err != nil {
		return vt.Failf("C20/aggregate-shape", "fuse(this) returned an undecodable type value: %v", err)
	}
	uniform := true
	for _, v := range out[1:] {
		if !sameType(v.Type(), out[0].Type()) {
			uniform = false
		}
	}
	known := map[string]bool{}
	for i := range in {
		if sameType(out[i].Type(), T) {
			// lossless, value by value
			if d := oracle.SameInfo(oracle.InfoOf(in[i]), oracle.InfoOf(out[i])); d != "" {
				return vt.Failf("C20/lossy", "value %d: %s\n input:  %s\n output: %s\n fused type: %s", i, d, oracle.Show(in[i]), oracle.Show(out[i]), zson.FormatType(T))
			}
			continue
		}
		// Not of the fused type.  Three root causes are known findings; a value in one of
		// these classes is exempt, everything else is still checked.
		sig := ""
		switch {
		case in[i].IsError() && oracle.Key(in[i]) == oracle.Key(out[i]):
			// expr.ConstShaper.Eval returns error values as they are
			sig = "C20/not-uniform/error-value-passthrough"
		case isMapShapingError(out[i]) && oracle.TypeHas(T, func(t zed.Type) bool { _, ok := t.(*zed.TypeMap); return ok }):
			// shaperType refuses any map that is not already of the target type
			sig = "C20/map-shaping-unsupported"
		case needsMemberShaping(in[i].Type(), T):
			// the shaper only casts into a union member of identical underlying type
			sig = "C20/union-member-needs-shaping"
		}
		if sig == "" {
			if uniform {
				return vt.Failf("C20/type-differs-from-aggregate", "fuse operator output type %s, fuse(this) aggregate %s", zson.FormatType(out[0].Type()), zson.FormatType(T))
			}
			return vt.Failf("C20/not-uniform", "output %d has type %s, the fused type is %s\n input %d: %s\n output %d: %s",
				i, zson.FormatType(out[i].Type()), zson.FormatType(T), i, oracle.Show(in[i]), i, oracle.Show(out[i]))
		}
		if !vt.IsKnown(sig) {
			return vt.Failf(sig, "output %d is not of the fused type %s\n input %d: %s :: %s\n output %d: %s :: %s",
				i, zson.FormatType(T), i, oracle.Show(in[i]), zson.FormatType(in[i].Type()), i, oracle.Show(out[i]), zson.FormatType(out[i].Type()))
		}
		if !known[sig] {
			known[sig] = true
			o.Known = append(o.Known, sig)
		}
	}
	return nil
}

const mapShapingMsg = "cannot yet use maps in shaping functions (issue #2894)"

func isMapShapingError(v zed.Value) bool {
	et, ok := v.Type().(*zed.TypeError)
	return ok && et.Type == zed.TypeString && !v.IsNull() && string(v.Bytes()) == mapShapingMsg
}

// needsMemberShaping reports whether shaping a value of type s to the fused
// type t requires turning some part of it into a union member that does not
// have the part's own underlying type (known finding C20-union-member: the
// shaper only picks a member of identical underlying type, see
// expr.bestUnionTag; such members arise because agg.mergeAllRecords merges all
// record members of a union into one).
func needsMemberShaping(s, t zed.Type) bool {
	su, tu := zed.TypeUnder(s), zed.TypeUnder(t)
	if su == tu || su == zed.TypeNull {
		return false
	}
	if tunion, ok := tu.(*zed.TypeUnion); ok {
		if sunion, ok := su.(*zed.TypeUnion); ok {
			for _, m := range sunion.Types {
				if needsMemberShaping(m, t) {
					return true
				}
			}
			return false
		}
		for _, m := range tunion.Types {
			if zed.TypeUnder(m) == su {
				return false
			}
		}
		return true
	}
	switch su := su.(type) {
	case *zed.TypeRecord:
		if tr, ok := tu.(*zed.TypeRecord); ok {
			for _, f := range su.Fields {
				if ft, ok := tr.TypeOfField(f.Name); ok && needsMemberShaping(f.Type, ft) {
					return true
				}
			}
		}
	case *zed.TypeArray, *zed.TypeSet:
		if ti := zed.InnerType(tu); ti != nil {
			return needsMemberShaping(zed.InnerType(su), ti)
		}
	case *zed.TypeError:
		if te, ok := tu.(*zed.TypeError); ok {
			return needsMemberShaping(su.Type, te.Type)
		}
	}
	return false
}

func showAll(vals []zed.Value) []string {
	var s []string
	for _, v := range vals {
		s = append(s, oracle.Show(v))
	}
	return s
}

// classify computes the labels and the non-triviality of a sequence.
func classify(in []zed.Value, o *vt.Outcome) {
	types := map[zed.Type]bool{}
	var order []zed.Type
	for _, v := range in {
		if !types[v.Type()] {
			types[v.Type()] = true
			order = append(order, v.Type())
		}
	}
	// a "real merge of kinds": >= 2 distinct types that are not all records with pairwise disjoint field names
	realMerge := false
	if len(order) >= 2 {
		names := map[string]bool{}
		for _, t := range order {
			rt, ok := zed.TypeUnder(t).(*zed.TypeRecord)
			if !ok {
				realMerge = true
				break
			}
			for _, f := range rt.Fields {
				if names[f.Name] {
					realMerge = true
				}
				names[f.Name] = true
			}
		}
	}
	spilled := false
	for _, l := range limits {
		if idx := spillIndex(in, l); idx >= 0 {
			spilled = true
			if l == 100 {
				o.Label("spilled@100")
			}
			if idx > 0 {
				o.Label(fmt.Sprintf("spill-after-buffering@%d", l))
			}
		}
	}
	if spilled {
		o.Label("spilled")
	}
	if realMerge {
		o.Label("real-merge")
	}
	switch n := len(order); {
	case n <= 1:
		o.Label("types:<=1")
	case n <= 3:
		o.Label("types:2-3")
	default:
		o.Label("types:4+")
	}
	has := func(pred func(zed.Type) bool) bool {
		for _, t := range order {
			if oracle.TypeHas(t, pred) {
				return true
			}
		}
		return false
	}
	if has(func(t zed.Type) bool { _, ok := t.(*zed.TypeUnion); return ok }) {
		o.Label("has-union")
	}
	if has(func(t zed.Type) bool { _, ok := t.(*zed.TypeNamed); return ok }) {
		o.Label("has-named")
	}
	if has(func(t zed.Type) bool { _, ok := t.(*zed.TypeMap); return ok }) {
		o.Label("has-map")
	}
	if has(func(t zed.Type) bool { _, ok := t.(*zed.TypeSet); return ok }) {
		o.Label("has-set")
	}
	if has(func(t zed.Type) bool { _, ok := t.(*zed.TypeArray); return ok }) {
		o.Label("has-array")
	}
	if has(func(t zed.Type) bool { _, ok := t.(*zed.TypeError); return ok }) {
		o.Label("has-error")
	}
	nonrec := false
	for _, t := range order {
		if !zed.IsRecordType(t) {
			nonrec = true
		}
	}
	if nonrec {
		o.Label("has-non-record-value")
	}
	o.NonTrivial = (realMerge || spilled) && len(in) > 0
}

func runCase(c Case) *vt.Outcome {
	o := &vt.Outcome{}
	seq := reload(c.Seq)
	o.Label("kind:" + c.Kind)
	classify(seq.Vals, o)
	o.Fail = check(seq, o)
	return o
}

var prop = &vt.Prop[Case]{
	Name: "TestFuse",
	Rule: "case = generated value sequence (40% over 1..5 independent random types, 60% over a base type and 1..5 derived variants: fields dropped/added/reordered/retyped, array<->set, " +
		"element/key/value types changed, union members added/removed, names added/stripped/rebound), values with nulls at every level; each case is run through `fuse` with " +
		"fuse.MemMaxBytes in {1, 100, 128MiB} and through the `fuse(this)` aggregate; oracle: same length, one output type, type = aggregate's type, per value same information " +
		"(oracle.SameInfo), identical output for all limits.  Non-trivial: >=2 distinct input types that are not all records with pairwise disjoint fields, or some run took the spill path " +
		"(spill decided by mirroring Fuser.stash: cumulative value bytes >= limit).",
	Gen: genCase,
	Run: runCase,
}

func init() { prop.Register() }

func TestFuse(t *testing.T)   { prop.Check(t) }
func TestReplay(t *testing.T) { vt.TestReplay(t) }

func envInt(name string, def int) int {
	if n, err := strconv.Atoi(os.Getenv(name)); err == nil {
		return n
	}
	return def
}
