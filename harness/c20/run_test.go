package c20

import (
	"bytes"
	"context"
	"fmt"
	"strings"

	zed "github.com/brimdata/super"
	"github.com/brimdata/super/compiler"
	"github.com/brimdata/super/runtime"
	"github.com/brimdata/super/runtime/sam/op/fuse"
	"github.com/brimdata/super/zbuf"
	"github.com/brimdata/super/zio"
	"github.com/brimdata/super/zio/zngio"

	"verif/gen"
)

// reload moves a sequence into a fresh context by a ZNG round trip, so that a
// case behaves the same whether it comes from the generator or from a replay
// file (type ids and creation order inside the context are then identical).
func reload(s gen.Seq) gen.Seq {
	var buf bytes.Buffer
	w := zngio.NewWriterWithOpts(zio.NopCloser(&buf), zngio.WriterOpts{})
	for _, v := range s.Vals {
		if err := w.Write(v); err != nil {
			panic(fmt.Sprintf("harness: reload write: %v", err))
		}
	}
	if err := w.Close(); err != nil {
		panic(fmt.Sprintf("harness: reload close: %v", err))
	}
	out := gen.Seq{Zctx: zed.NewContext()}
	r := zngio.NewReader(out.Zctx, bytes.NewReader(buf.Bytes()))
	defer r.Close()
	for {
		v, err := r.Read()
		if err != nil {
			panic(fmt.Sprintf("harness: reload read: %v", err))
		}
		if v == nil {
			return out
		}
		out.Vals = append(out.Vals, v.Copy())
	}
}

// runQuery runs the program text over vals (typed in zctx) in-process, the way
// fuzz.RunQuery and `super query` do.
func runQuery(zctx *zed.Context, vals []zed.Value, src string) ([]zed.Value, error) {
	ctx, cancel := context.WithCancel(context.Background())
	defer cancel()
	ast, sset, err := compiler.Parse(src)
	if err != nil {
		return nil, fmt.Errorf("parse: %w", err)
	}
	comp := compiler.NewFileSystemCompiler(nil)
	q, err := runtime.CompileQuery(ctx, zctx, comp, ast, sset, []zio.Reader{zbuf.NewArray(vals)})
	if err != nil {
		return nil, fmt.Errorf("compile: %w", err)
	}
	defer q.Pull(true)
	var out []zed.Value
	for {
		batch, err := q.Pull(false)
		if err != nil {
			return out, err
		}
		if batch == nil {
			return out, nil
		}
		for _, v := range batch.Values() {
			out = append(out, v.Copy())
		}
		batch.Unref()
	}
}

// runFuse runs `fuse` with fuse.MemMaxBytes set to limit (restored afterwards).
func runFuse(seq gen.Seq, limit int) ([]zed.Value, error) {
	saved := fuse.MemMaxBytes
	fuse.MemMaxBytes = limit
	defer func() { fuse.MemMaxBytes = saved }()
	return runQuery(seq.Zctx, seq.Vals, "fuse")
}

// spillIndex mirrors fuse.Fuser.stash: the index of the value whose arrival
// makes the buffered byte count reach limit (the spill file is created there),
// or -1 if the run stays in memory.
func spillIndex(vals []zed.Value, limit int) int {
	n := 0
	for i, v := range vals {
		n += len(v.Bytes())
		if n >= limit {
			return i
		}
	}
	return -1
}

func isPanicErr(err error) bool {
	return err != nil && strings.HasPrefix(err.Error(), "panic:")
}
