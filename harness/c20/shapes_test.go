package c20

import (
	"fmt"

	zed "github.com/brimdata/super"
	"pgregory.net/rapid"

	"verif/gen"
)

// Generator of *related* shapes: a base type and variants derived from it by
// the edits that make fuse do real work (drop/add/reorder fields, change a
// field's type, array<->set, change element/key/value types, add/remove union
// members, add/strip/rebind type names).

type shaper struct {
	zctx *zed.Context
	tg   *gen.TypeGen
}

func (s *shaper) named(t *rapid.T, inner zed.Type) zed.Type {
	name := rapid.SampledFrom(gen.TypeNames).Draw(t, "tname")
	typ, err := s.zctx.LookupTypeNamed(name, inner)
	if err != nil {
		panic(fmt.Sprintf("harness: LookupTypeNamed(%q): %v", name, err))
	}
	return typ
}

func (s *shaper) union(types []zed.Type) zed.Type {
	var uniq []zed.Type
	for _, m := range types {
		dup := false
		for _, x := range uniq {
			if x == m {
				dup = true
			}
		}
		if !dup && m != zed.TypeNull {
			uniq = append(uniq, m)
		}
	}
	if len(uniq) < 2 {
		if len(uniq) == 1 {
			return uniq[0]
		}
		return zed.TypeInt64
	}
	return s.zctx.LookupTypeUnion(uniq)
}

// variant derives a type related to typ.
func (s *shaper) variant(t *rapid.T, typ zed.Type, depth int) zed.Type {
	// sometimes: unrelated fresh type / unchanged
	switch rapid.IntRange(0, 11).Draw(t, "vkind") {
	case 0:
		return s.tg.Draw(t, depth)
	case 1, 2, 3:
		return typ
	case 4:
		return s.named(t, typ)
	case 5:
		if n, ok := typ.(*zed.TypeNamed); ok {
			return n.Type
		}
	}
	switch typ := typ.(type) {
	case *zed.TypeNamed:
		// same name rebound to a variant of the inner type, or a variant without the name
		inner := s.variant(t, typ.Type, depth)
		if rapid.Bool().Draw(t, "keepname") {
			nt, err := s.zctx.LookupTypeNamed(typ.Name, inner)
			if err != nil {
				panic(err)
			}
			return nt
		}
		return inner
	case *zed.TypeRecord:
		var fields []zed.Field
		for _, f := range typ.Fields {
			switch rapid.IntRange(0, 5).Draw(t, "fedit") {
			case 0: // drop
			case 1, 2: // change
				fields = append(fields, zed.NewField(f.Name, s.variant(t, f.Type, depth-1)))
			default:
				fields = append(fields, f)
			}
		}
		nadd := rapid.SampledFrom([]int{0, 0, 1, 1, 2}).Draw(t, "nadd")
		for i := 0; i < nadd; i++ {
			name := rapid.SampledFrom(gen.FieldNames).Draw(t, "addname")
			dup := false
			for _, f := range fields {
				if f.Name == name {
					dup = true
				}
			}
			if !dup {
				fields = append(fields, zed.NewField(name, s.tg.Draw(t, max(depth-1, 0))))
			}
		}
		if rapid.IntRange(0, 2).Draw(t, "shuffle?") == 0 && len(fields) > 1 {
			perm := rapid.Permutation(fields).Draw(t, "perm")
			fields = perm
		}
		rt, err := s.zctx.LookupTypeRecord(fields)
		if err != nil {
			panic(fmt.Sprintf("harness: LookupTypeRecord: %v", err))
		}
		return rt
	case *zed.TypeArray:
		inner := s.variant(t, typ.Type, depth-1)
		if rapid.IntRange(0, 2).Draw(t, "toset") == 0 {
			return s.zctx.LookupTypeSet(inner)
		}
		return s.zctx.LookupTypeArray(inner)
	case *zed.TypeSet:
		inner := s.variant(t, typ.Type, depth-1)
		if rapid.IntRange(0, 2).Draw(t, "toarray") == 0 {
			return s.zctx.LookupTypeArray(inner)
		}
		return s.zctx.LookupTypeSet(inner)
	case *zed.TypeMap:
		k, v := typ.KeyType, typ.ValType
		switch rapid.IntRange(0, 2).Draw(t, "mapedit") {
		case 0:
			k = s.variant(t, k, depth-1)
		case 1:
			v = s.variant(t, v, depth-1)
		default:
			k, v = s.variant(t, k, depth-1), s.variant(t, v, depth-1)
		}
		return s.zctx.LookupTypeMap(k, v)
	case *zed.TypeUnion:
		members := append([]zed.Type(nil), typ.Types...)
		switch rapid.IntRange(0, 2).Draw(t, "unionedit") {
		case 0:
			members = append(members, s.tg.Draw(t, max(depth-1, 0)))
		case 1:
			i := rapid.IntRange(0, len(members)-1).Draw(t, "dropmember")
			members = append(members[:i:i], members[i+1:]...)
		default:
			i := rapid.IntRange(0, len(members)-1).Draw(t, "editmember")
			members[i] = s.variant(t, members[i], depth-1)
		}
		return s.union(members)
	case *zed.TypeError:
		return s.zctx.LookupTypeError(s.variant(t, typ.Type, depth-1))
	default:
		// primitive or enum
		switch rapid.IntRange(0, 4).Draw(t, "primedit") {
		case 0:
			return s.zctx.LookupTypeArray(typ)
		case 1:
			return s.union([]zed.Type{typ, s.tg.Prim(t)})
		case 2:
			return s.zctx.MustLookupTypeRecord([]zed.Field{zed.NewField(rapid.SampledFrom(gen.SimpleFieldNames).Draw(t, "wrapname"), typ)})
		default:
			return s.tg.Prim(t)
		}
	}
}

// drawRelated draws a sequence over a base type and 1..5 variants of it (and of
// each other).
func drawRelated(t *rapid.T, maxLen int) gen.Seq {
	zctx := zed.NewContext()
	tg := &gen.TypeGen{Zctx: zctx, Opts: gen.TypeOpts{MaxDepth: 3}}
	vg := &gen.ValGen{Zctx: zctx, Types: tg, Opts: gen.ValOpts{NullPercent: 10}}
	s := &shaper{zctx: zctx, tg: tg}
	var base zed.Type
	if rapid.IntRange(0, 3).Draw(t, "recbase") > 0 {
		base = tg.Record(t, 2)
	} else {
		base = tg.Draw(t, 3)
	}
	types := []zed.Type{base}
	nvar := rapid.IntRange(1, 5).Draw(t, "nvar")
	for i := 0; i < nvar; i++ {
		for tries := 0; tries < 4; tries++ {
			from := types[rapid.IntRange(0, len(types)-1).Draw(t, "from")]
			v := s.variant(t, from, 3)
			dup := false
			for _, x := range types {
				if x == v {
					dup = true
				}
			}
			if !dup {
				types = append(types, v)
				break
			}
		}
	}
	return drawOver(t, zctx, vg, types, maxLen)
}

// drawOver draws a sequence in which every type occurs at least once (in drawn
// order), followed by more values with run structure.
func drawOver(t *rapid.T, zctx *zed.Context, vg *gen.ValGen, types []zed.Type, maxLen int) gen.Seq {
	seq := gen.Seq{Zctx: zctx}
	first := rapid.Permutation(types).Draw(t, "first")
	if rapid.IntRange(0, 9).Draw(t, "short?") == 0 {
		first = first[:rapid.IntRange(0, len(first)).Draw(t, "nfirst")]
	}
	for _, typ := range first {
		seq.Vals = append(seq.Vals, vg.Value(t, typ))
	}
	n := rapid.IntRange(0, max(maxLen-len(first), 0)).Draw(t, "nmore")
	cur := 0
	for i := 0; i < n; i++ {
		if rapid.IntRange(0, 1).Draw(t, "switch?") == 0 {
			cur = rapid.IntRange(0, len(types)-1).Draw(t, "which")
		}
		seq.Vals = append(seq.Vals, vg.Value(t, types[cur]))
	}
	return seq
}

// drawRandom draws a sequence over 1..5 independent random types.
func drawRandom(t *rapid.T, maxLen int) gen.Seq {
	zctx := zed.NewContext()
	tg := &gen.TypeGen{Zctx: zctx, Opts: gen.TypeOpts{MaxDepth: 3}}
	vg := &gen.ValGen{Zctx: zctx, Types: tg}
	n := rapid.SampledFrom([]int{1, 2, 2, 3, 3, 4, 5}).Draw(t, "ntypes")
	var types []zed.Type
	for i := 0; i < n; i++ {
		var typ zed.Type
		if rapid.Bool().Draw(t, "rec?") {
			typ = tg.Record(t, 2)
		} else {
			typ = tg.Draw(t, 3)
		}
		types = append(types, typ)
	}
	return drawOver(t, zctx, vg, types, maxLen)
}
