PROP = dict(
        pkg="c20", level="exploration",
        rule="C20: generated value sequences through `fuse` at fuse.MemMaxBytes in {1, 100, 128MiB} and through `fuse(this)`; plus exhaustive enumeration of all sequences of <=3 values over a 15-shape alphabet",
        assumptions=[
            "whether a run took the spill path is decided by mirroring fuse.Fuser.stash (cumulative value bytes >= MemMaxBytes), not observed inside the operator",
            "values in three open known-finding classes (top-level error values, parts that must become a union member of different underlying type, maps that need shaping) are exempt from the per-value checks; see known.json",
        ],
        level_text="Property-based: rapid-generated sequences over independent and over related (derived) types, every case checked at three memory limits against the full oracle (length, one type, type = fuse(this), per-value information equality, identical across limits); the <=3-value sequences over a fixed 15-shape alphabet are enumerated exhaustively.",
        level_note="Trusted: the harness's information normal form (oracle/leaves.go), the ZNG round trip used to load cases, the ZSON parser for the literal alphabet. Exhaustive only for the enumerated alphabet, sampled beyond.",
        technique="property-based testing (rapid) plus exhaustive enumeration of a small alphabet",
        tests=[dict(name="TestFuse", quick=(8, 1000), thorough=(16, 6000)),
               dict(name="TestFuseExhaustive", quick=(8, 1), thorough=(16, 1))],
)
