package prog

import (
	"fmt"
	"regexp"
	"strings"
)

// boundary literals by kind, used next to the literals found in the input
var boundaryLits = map[string][]Lit{
	"int":      {{"0", "int", true}, {"1", "int", true}, {"-1", "int", true}, {"2", "int", true}, {"10", "int", true}, {"100", "int", true}},
	"uint":     {{"uint64(0)", "uint", false}, {"uint8(1)", "uint", false}},
	"float":    {{"0.", "float", true}, {"1.", "float", true}, {"0.5", "float", true}, {"1.5", "float", true}, {"-1.", "float", true}},
	"string":   {{`""`, "string", true}, {`"foo"`, "string", true}, {`"bar"`, "string", true}, {`"a"`, "string", true}, {`"A"`, "string", true}, {`"zzz"`, "string", true}},
	"bool":     {{"true", "bool", true}, {"false", "bool", true}},
	"ip":       {{"10.0.0.1", "ip", true}, {"::1", "ip", true}, {"0.0.0.0", "ip", true}},
	"net":      {{"10.0.0.0/8", "net", true}, {"::/0", "net", true}, {"0.0.0.0/0", "net", true}},
	"time":     {{"2020-01-01T00:00:00Z", "time", true}, {"1970-01-01T00:00:00Z", "time", true}},
	"duration": {{"0s", "duration", true}, {"1s", "duration", true}, {"1h", "duration", true}},
	"bytes":    {{"0x", "bytes", true}, {"0x666f6f", "bytes", true}},
	"type":     {{"<int64>", "type", true}, {"<string>", "type", true}, {"<{a:int64}>", "type", true}},
	"null":     {{"null", "null", true}},
}

var litKinds = []string{"int", "int", "string", "string", "float", "bool", "ip", "net", "time", "duration", "bytes", "type", "uint", "null"}

// ref draws a reference to a value of the stream: a field, a nested field, or this.
func (g *G) ref(s *st) string {
	if len(s.fields) == 0 {
		if g.chance(70, "refthis") {
			return "this"
		}
		return pickStr(g, FieldNames, "refname")
	}
	f := g.field(s, "ref")
	if len(f.Subs) > 0 && g.chance(40, "refsub") {
		return f.Name + "." + pickStr(g, f.Subs, "sub")
	}
	if g.chance(6, "refnested") && len(g.s.Nested) > 0 {
		return g.s.Nested[g.intn(len(g.s.Nested), "nestedref")].Name
	}
	return f.Name
}

// litFor draws a literal to compare field f with: mostly a value the field
// takes in the input, else a boundary value of one of its kinds, else anything.
func (g *G) litFor(f *Field) Lit {
	if f != nil && len(f.Lits) > 0 && g.chance(70, "litpresent") {
		return f.Lits[g.intn(len(f.Lits), "lit")]
	}
	if f != nil && g.chance(70, "litkind") {
		var kinds []string
		for _, k := range litKinds {
			if f.Kinds[k] {
				kinds = append(kinds, k)
			}
		}
		if len(kinds) > 0 {
			k := pickStr(g, kinds, "kind")
			return boundaryLits[k][g.intn(len(boundaryLits[k]), "blit")]
		}
	}
	return g.anyLit()
}

func (g *G) anyLit() Lit {
	if len(g.s.AnyLits) > 0 && g.chance(40, "anylit-present") {
		return g.s.AnyLits[g.intn(len(g.s.AnyLits), "anylit")]
	}
	k := pickStr(g, litKinds, "anykind")
	return boundaryLits[k][g.intn(len(boundaryLits[k]), "anyblit")]
}

func (g *G) typeLit() string {
	if len(g.s.TypeLits) > 0 && g.chance(70, "typelit-present") {
		return pickStr(g, g.s.TypeLits, "typelit")
	}
	return pickStr(g, []string{"<int64>", "<string>", "<float64>", "<bool>", "<ip>", "<type>", "<null>", "<[int64]>", "<{a:int64}>", "<error(string)>", "<port=int64>"}, "typelit-b")
}

// fieldLike returns a field descriptor for a drawn reference (for literal selection).
func (g *G) fieldAndRef(s *st) (*Field, string) {
	if len(s.fields) == 0 {
		if len(g.s.Fields) > 0 && g.chance(30, "fr-orig") {
			f := g.s.Fields[g.intn(len(g.s.Fields), "fr-origf")]
			return f, f.Name
		}
		return nil, g.ref(s)
	}
	f := g.field(s, "fr")
	if len(f.Subs) > 0 && g.chance(35, "fr-sub") {
		name := f.Name + "." + pickStr(g, f.Subs, "fr-subname")
		for _, nf := range g.s.Nested {
			if nf.Name == name {
				return nf, name
			}
		}
		return nil, name
	}
	return f, f.Name
}

var cmpOps = []string{"==", "==", "==", "!=", "<", "<=", ">", ">="}

// boolExpr draws a Boolean expression.
func (g *G) boolExpr(s *st, depth int) string {
	if depth > 0 {
		switch g.intn(10, "boolcombo") {
		case 0, 1:
			g.feat("and")
			return g.boolExpr(s, depth-1) + " and " + g.boolExpr(s, depth-1)
		case 2:
			g.feat("or")
			return "(" + g.boolExpr(s, depth-1) + " or " + g.boolExpr(s, depth-1) + ")"
		case 3:
			g.feat("not")
			if g.chance(50, "bang") {
				return "!(" + g.boolExpr(s, depth-1) + ")"
			}
			return "not (" + g.boolExpr(s, depth-1) + ")"
		}
	}
	f, ref := g.fieldAndRef(s)
	switch g.intn(24, "boolkind") {
	case 0, 1, 2, 3, 4, 5:
		g.feat("field-cmp-literal")
		op := pickStr(g, cmpOps, "cmpop")
		lit := g.litFor(f)
		if op == "==" {
			g.feat("field==literal:" + lit.Kind)
		}
		return ref + op + lit.Text
	case 6, 7, 8:
		// literal in field
		g.feat("literal-in-field")
		var lit Lit
		if f != nil && len(f.ElemLits) > 0 && g.chance(75, "inpresent") {
			lit = f.ElemLits[g.intn(len(f.ElemLits), "elemlit")]
		} else if f != nil && len(f.MapKeys) > 0 && g.chance(50, "inmapkey") {
			lit = f.MapKeys[g.intn(len(f.MapKeys), "mapkey")]
		} else {
			lit = g.litFor(f)
		}
		if g.chance(15, "inthis") {
			ref = "this"
		}
		return lit.Text + " in " + ref
	case 9:
		g.feat("field-in-array")
		return ref + " in [" + g.litFor(f).Text + "," + g.litFor(f).Text + "]"
	case 10:
		g.feat("has")
		if g.chance(30, "has2") {
			return "has(" + ref + ", " + g.ref(s) + ")"
		}
		return "has(" + ref + ")"
	case 11:
		g.feat("missing")
		return "missing(" + ref + ")"
	case 12:
		g.feat("is")
		if g.chance(40, "is1") {
			return "is(" + g.typeLit() + ")"
		}
		if f != nil && len(f.Types) > 0 && g.chance(70, "is-ftype") {
			if t := pickStr(g, f.Types, "ftype"); !strings.Contains(t, "enum(") {
				return "is(" + ref + ", <" + t + ">)"
			}
		}
		return "is(" + ref + ", " + g.typeLit() + ")"
	case 13:
		g.feat("typeof")
		if f != nil && len(f.Types) > 0 && g.chance(70, "typeof-ftype") {
			if t := pickStr(g, f.Types, "ftype2"); !strings.Contains(t, "enum(") {
				return "typeof(" + ref + ")==<" + t + ">"
			}
		}
		return "typeof(" + ref + ")==" + g.typeLit()
	case 14:
		g.feat("len")
		return fmt.Sprintf("len(%s)%s%d", ref, pickStr(g, []string{"==", ">", "<", ">="}, "lenop"), g.intn(4, "lenn"))
	case 15:
		g.feat("nameof")
		names := append([]string{"port", "foo", "bar"}, g.s.NamedTypes...)
		return "nameof(" + g.nameofArg(s, f, ref) + ")==\"" + pickStr(g, names, "tname") + "\""
	case 16:
		g.feat("grep")
		return "grep(" + g.pattern(s) + ", " + ref + ")"
	case 17:
		g.feat("field-cmp-field")
		return ref + pickStr(g, cmpOps, "cmpop2") + g.ref(s)
	case 18:
		g.feat("compare")
		return "compare(" + ref + ", " + g.litFor(f).Text + ")" + pickStr(g, []string{">0", "<0", "==0", ">=0"}, "cmp0")
	case 19:
		g.feat("coalesce")
		return "coalesce(" + ref + ", " + g.ref(s) + ")==" + g.litFor(f).Text
	case 20:
		g.feat("under")
		return "under(" + ref + ")==" + g.litFor(f).Text
	case 21:
		g.feat("arith-cmp")
		if f != nil && f.IntOnly && !f.Generic && g.chance(50, "mod") {
			return ref + "%2==0"
		}
		return ref + pickStr(g, []string{"+1", "-1", "+0.5"}, "arith") + pickStr(g, cmpOps, "cmpop3") + g.litFor(f).Text
	case 22:
		g.feat("kind/is_error")
		switch g.intn(3, "kindfn") {
		case 0:
			// (kind(null(type)) panics like nameof)
			return "kind(" + g.nameofArg(s, f, ref) + ")==\"" + pickStr(g, []string{"primitive", "record", "array", "set", "map", "union", "error"}, "kindname") + "\""
		case 1:
			return "is_error(" + ref + ")"
		default:
			return "has_error(this)"
		}
	default:
		g.feat("null-cmp")
		return ref + pickStr(g, []string{"==null", "!=null"}, "nullcmp")
	}
}

// nameofArg: nameof(null(type)) panics ("bad type value encoding", in an
// operator goroutine this kills the process), so nameof is only applied to
// input fields that are never a null type value, or to this.
func (g *G) nameofArg(s *st, f *Field, ref string) string {
	if f != nil && !f.Generic && ref == f.Name && !strings.Contains(ref, ".") {
		nullType := false
		for _, t := range f.Types {
			if t == "type" && f.Null {
				nullType = true
			}
		}
		if !nullType {
			return ref
		}
	}
	if s.recs {
		return "this"
	}
	return "typeof(this)"
}

var keywordRE = regexp.MustCompile(`^[A-Za-z_][A-Za-z0-9_]*$`)

// word draws a search word: from the string values, the field names (top
// level and nested at any depth), the named types, or (10%) a word that is absent.
func (g *G) word() string {
	var pools [][]string
	add := func(p []string, weight int) {
		var ok []string
		for _, w := range p {
			if keywordRE.MatchString(w) {
				ok = append(ok, w)
			}
		}
		for i := 0; i < weight && len(ok) > 0; i++ {
			pools = append(pools, ok)
		}
	}
	add(g.s.Words, 4)
	add(g.s.NestedNames, 3)
	var top []string
	for _, f := range g.s.Fields {
		top = append(top, f.Name)
	}
	add(top, 1)
	add(g.s.NamedTypes, 1)
	if len(pools) == 0 || g.chance(10, "absentword") {
		return pickStr(g, []string{"zzz", "foo", "bar", "hello", "oo", "ba"}, "absent")
	}
	return pickStr(g, pools[g.intn(len(pools), "wordpool")], "word")
}

// pattern draws a glob, regexp or string pattern (for grep and search terms).
func (g *G) pattern(s *st) string {
	w := g.word()
	sub := w
	if len(w) > 2 && g.chance(50, "substr") {
		i := g.intn(len(w)-1, "subi")
		j := i + 2 + g.intn(len(w)-i-1, "subj")
		if j > len(w) {
			j = len(w)
		}
		sub = w[i:j]
	}
	switch g.intn(8, "patkind") {
	case 0:
		g.feat("glob")
		return globSafe(sub) + "*"
	case 1:
		g.feat("glob")
		return "*" + globSafe(sub)
	case 2:
		g.feat("glob")
		return "*" + globSafe(sub) + "*"
	case 3:
		g.feat("regexp")
		return "/^" + sub + "/"
	case 4:
		g.feat("regexp")
		return "/" + sub + "$/"
	case 5:
		g.feat("regexp")
		return "/(" + sub + "|zzz)/"
	case 6:
		return "\"" + sub + "\""
	default:
		return "\"" + w + "\""
	}
}

func globSafe(w string) string {
	// a glob may not start with a digit and a glob that is a reserved word is parsed as that word
	if w == "" || (w[0] >= '0' && w[0] <= '9') {
		return "x" + w
	}
	return w
}

// searchTerm draws one search term.
func (g *G) searchTerm(s *st) string {
	switch g.intn(16, "termkind") {
	case 0, 1, 2, 3:
		g.feat("keyword")
		w := g.word()
		if reservedWords[strings.ToLower(w)] || g.chance(15, "quoted") {
			return "\"" + w + "\""
		}
		return w
	case 4, 5:
		p := g.pattern(s)
		if strings.HasPrefix(p, "\"") {
			g.feat("keyword")
		}
		if !strings.HasPrefix(p, "\"") && !strings.HasPrefix(p, "/") && startsWithReserved(strings.Trim(p, "*")) {
			return "\"" + strings.Trim(p, "*") + "\""
		}
		return p
	case 6:
		g.feat("string-literal-term")
		if len(g.s.StringLits) > 0 && g.chance(70, "strterm-present") {
			return g.s.StringLits[g.intn(len(g.s.StringLits), "strterm")].Text
		}
		return "\"foo\""
	case 7, 8:
		g.feat("literal-term")
		lit := g.anyLit()
		if !lit.Plain || lit.Kind == "null" || lit.Kind == "bool" || strings.HasPrefix(lit.Text, "-") {
			return "1"
		}
		g.feat("literal-term:" + lit.Kind)
		return lit.Text
	case 9, 10, 11:
		f, ref := g.fieldAndRef(s)
		lit := g.litFor(f)
		g.feat("field==literal:" + lit.Kind)
		return ref + "==" + lit.Text
	case 12, 13:
		g.feat("literal-in-field")
		f, ref := g.fieldAndRef(s)
		var lit Lit
		if f != nil && len(f.ElemLits) > 0 && g.chance(75, "sinpresent") {
			lit = f.ElemLits[g.intn(len(f.ElemLits), "selemlit")]
		} else {
			lit = g.litFor(f)
		}
		return lit.Text + " in " + ref
	default:
		// predicate term
		return g.boolExpr(s, 0)
	}
}

func (g *G) searchExpr(s *st, depth int) string {
	if depth > 0 {
		switch g.intn(10, "searchcombo") {
		case 0, 1:
			g.feat("and")
			return g.searchExpr(s, depth-1) + " and " + g.searchExpr(s, depth-1)
		case 2:
			// Concatenation is only unambiguous when the right-hand term
			// starts like a word, a number or a string (`foo (x)` is a call,
			// `foo /re/` a division).
			l, r := g.searchExpr(s, depth-1), g.searchExpr(s, depth-1)
			if c := r[0]; (c >= 'a' && c <= 'z' || c >= 'A' && c <= 'Z' || c >= '0' && c <= '9' || c == '"') && !startsWithReserved(r) {
				g.feat("and-implied")
				return l + " " + r
			}
			g.feat("and")
			return l + " and " + r
		case 3, 4:
			g.feat("or")
			return "(" + g.searchExpr(s, depth-1) + " or " + g.searchExpr(s, depth-1) + ")"
		case 5:
			g.feat("not")
			return "not " + g.searchTerm(s)
		}
	}
	return g.searchTerm(s)
}

// numExpr draws an expression that is usually numeric.
func (g *G) numExpr(s *st, depth int) string {
	f := g.fieldWhere(s, "numfield", func(f *Field) bool { return f.NumOnly || f.Has("int") || f.Has("float") || f.Has("uint") })
	if f == nil || g.chance(20, "numany") {
		if g.chance(50, "numlen") {
			return "len(" + g.ref(s) + ")"
		}
		return g.ref(s)
	}
	if depth > 0 && g.chance(30, "numarith") {
		return f.Name + pickStr(g, []string{"+1", "-1", "+" + g.ref(s)}, "numop")
	}
	return f.Name
}

// valueExpr draws an expression of any type.
func (g *G) valueExpr(s *st, depth int) string {
	f, ref := g.fieldAndRef(s)
	if depth <= 0 {
		if g.chance(30, "leaflit") {
			return g.litFor(f).Text
		}
		return ref
	}
	switch g.intn(30, "valkind") {
	case 0, 1, 2:
		return ref
	case 3:
		return g.litFor(f).Text
	case 4, 5:
		g.feat("arith")
		op := pickStr(g, []string{"+", "-"}, "addop")
		return ref + op + g.valueExpr(s, depth-1)
	case 6:
		// products and quotients only of single-typed integer fields (a float
		// product may be -0, which compares equal to 0 but is another value)
		if f != nil && f.IntOnly && !f.Generic {
			g.feat("arith-mul")
			return ref + pickStr(g, []string{"*2", "*" + ref, "/2", "/0", "%3"}, "mulop")
		}
		return ref + "+1"
	case 7:
		g.feat("typeof")
		return "typeof(" + ref + ")"
	case 8:
		g.feat("len")
		return "len(" + ref + ")"
	case 9:
		g.feat("under")
		return "under(" + ref + ")"
	case 10:
		g.feat("nameof")
		return "nameof(" + g.nameofArg(s, f, ref) + ")"
	case 11:
		g.feat("fields")
		if g.chance(50, "fieldsthis") {
			return "fields(this)"
		}
		return "fields(" + ref + ")"
	case 12:
		g.feat("has")
		return "has(" + ref + ")"
	case 13:
		g.feat("missing")
		return "missing(" + ref + ")"
	case 14:
		g.feat("coalesce")
		return "coalesce(" + ref + ", " + g.valueExpr(s, depth-1) + ")"
	case 15:
		g.feat("compare")
		return "compare(" + ref + ", " + g.valueExpr(s, depth-1) + ")"
	case 16, 17:
		g.feat("cast")
		switch g.intn(6, "castkind") {
		case 0:
			return "string(" + ref + ")"
		case 1:
			return "int64(" + ref + ")"
		case 2:
			return "float64(" + ref + ")"
		case 3:
			return "cast(" + ref + ", " + g.typeLit() + ")"
		case 4:
			return "cast(" + ref + ", <port=int64>)"
		default:
			return pickStr(g, []string{"bool", "ip", "time", "duration", "bytes", "uint8", "float32"}, "castfn") + "(" + ref + ")"
		}
	case 18:
		g.feat("bool-as-value")
		return g.boolExpr(s, depth-1)
	case 19:
		g.feat("conditional")
		return "(" + g.boolExpr(s, depth-1) + ") ? " + g.valueExpr(s, depth-1) + " : " + g.valueExpr(s, depth-1)
	case 20:
		g.feat("record-expr")
		return "{x:" + ref + ",y:" + g.valueExpr(s, depth-1) + "}"
	case 21:
		g.feat("array-expr")
		if g.chance(30, "setexpr") {
			return "|[" + ref + "," + g.valueExpr(s, depth-1) + "]|"
		}
		return "[" + ref + "," + g.valueExpr(s, depth-1) + "]"
	case 22:
		g.feat("index")
		switch g.intn(4, "indexkind") {
		case 0:
			return ref + "[0]"
		case 1:
			return ref + "[1]"
		case 2:
			if f != nil && len(f.MapKeys) > 0 {
				return ref + "[" + f.MapKeys[g.intn(len(f.MapKeys), "idxkey")].Text + "]"
			}
			return ref + "[\"a\"]"
		default:
			return ref + "[1:]"
		}
	case 23:
		g.feat("kind/is_error")
		if fn := pickStr(g, []string{"kind", "is_error", "typeunder", "quiet"}, "miscfn"); fn != "kind" {
			return fn + "(" + ref + ")"
		}
		return "kind(" + g.nameofArg(s, f, ref) + ")"
	case 24:
		g.feat("string-fn")
		return pickStr(g, []string{"upper", "lower", "trim", "rune_len", "hex"}, "strfn") + "(" + ref + ")"
	case 25:
		g.feat("error-expr")
		return "error(" + ref + ")"
	case 26:
		// `{...x}` panics ("bad uvarint") when x is a null record: only
		// spread this (streams of non-null records) or never-null record fields.
		if f != nil && !f.Generic && ref == f.Name && f.Has("record") && !f.Null && len(f.Kinds) == 1 {
			g.feat("spread")
			return "{..." + ref + ",q:1}"
		}
		if s.recs {
			g.feat("spread")
			return "{...this,q:1}"
		}
		return "{x:" + ref + "}"
	case 27:
		g.feat("this")
		return "this"
	case 28:
		g.feat("floor/ceil/round")
		return pickStr(g, []string{"floor", "ceil", "round", "abs"}, "roundfn") + "(" + ref + ")"
	default:
		g.feat("grep")
		return "grep(" + g.pattern(s) + ", " + ref + ")"
	}
}
