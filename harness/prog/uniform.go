package prog

import "pgregory.net/rapid"

// rapid's integer generators favour small values heavily (IntRange(0,99)<15
// holds about half of the time), which is what one wants for sizes but not
// for choosing between alternatives.  Uniform draws a raw 64-bit value and
// mixes it (a bijection with 0 -> 0, so shrinking still moves towards the
// first alternative) before reducing it modulo n.
func mix64(z uint64) uint64 {
	z ^= z >> 30
	z *= 0xbf58476d1ce4e5b9
	z ^= z >> 27
	z *= 0x94d049bb133111eb
	z ^= z >> 31
	return z
}

// Uniform draws an approximately uniform integer in [0, n).
func Uniform(t *rapid.T, n int, label string) int {
	if n <= 1 {
		return 0
	}
	return int(mix64(rapid.Uint64().Draw(t, label)) % uint64(n))
}

// Chance is true with probability pct/100.
func Chance(t *rapid.T, pct int, label string) bool {
	return Uniform(t, 100, label) < pct
}

// Pick draws an element of list uniformly.
func Pick[T any](t *rapid.T, list []T, label string) T {
	return list[Uniform(t, len(list), label)]
}
