package prog

import (
	"fmt"
	"os"
	"sort"
	"testing"

	"github.com/brimdata/super/compiler"
	"github.com/brimdata/super/compiler/data"
	"github.com/brimdata/super/zio/zsonio"
	"github.com/brimdata/super/zson"
	"pgregory.net/rapid"
	"strings"

	zed "github.com/brimdata/super"
)

func readAll(text string) (int, error) {
	r := zsonio.NewReader(zed.NewContext(), strings.NewReader(text))
	n := 0
	for {
		v, err := r.Read()
		if err != nil || v == nil {
			return n, err
		}
		n++
	}
}

func sbIn(vals []zed.Value) string {
	var sb strings.Builder
	for _, v := range vals {
		sb.WriteString(zson.FormatValue(v) + "\n")
	}
	return sb.String()
}

// TestGeneratorSmoke measures how many generated programs compile and run
// (development aid; the properties measure the same through their skip counters).
func TestGeneratorSmoke(t *testing.T) {
	fails := map[string]int{}
	examples := map[string]string{}
	n, bad := 0, 0
	show := os.Getenv("PROG_SHOW") != ""
	rapid.Check(t, func(rt *rapid.T) {
		in := DrawInput(rt, InputOpts{Rich: rapid.Bool().Draw(rt, "rich")})
		s := Summarize(in.Vals)
		p := Gen(rt, s, Options{Loose: false})
		n++
		if os.Getenv("PROG_TRACE") != "" {
			os.WriteFile("/var/tmp/c0407/last.txt", []byte(p.Text+"\n"+sbIn(in.Vals)), 0o644)
		}
		seq, _, err := compiler.Parse(p.Text)
		if err != nil {
			bad++
			fails["parse"]++
			examples["parse:"+ErrClass(err)] = p.Text
			return
		}
		rctx := NewRuntime(zed.NewContext())
		job, err := compiler.NewJob(rctx.Context, seq, data.NewSource(nil, nil), nil)
		if err != nil {
			bad++
			fails["analyze"]++
			examples["analyze:"+ErrClass(err)] = p.Text
			rctx.Cancel()
			return
		}
		var sb strings.Builder
		for _, v := range in.Vals {
			sb.WriteString(zson.FormatValue(v) + "\n")
		}
		vals, err := Exec(rctx, job, zsonio.NewReader(rctx.Zctx, strings.NewReader(sb.String())))
		if err != nil {
			bad++
			if _, err2 := readAll(sb.String()); err2 != nil {
				fails["zson-input-unreadable"]++
				examples["zson-input:"+ErrClass(err2)] = sb.String()
				return
			}
			fails["run"]++
			examples["run:"+ErrClass(err)] = p.Text
			return
		}
		if show && n%20 == 0 {
			fmt.Printf("PROGRAM %s\n  meta ordered=%v det=%v in=%d out=%d\n", p.Text, p.Meta.Ordered, p.Meta.Deterministic, len(in.Vals), len(vals))
		}
	})
	t.Logf("programs=%d failing=%d %v", n, bad, fails)
	var keys []string
	for k := range examples {
		keys = append(keys, k)
	}
	sort.Strings(keys)
	for _, k := range keys {
		t.Logf("%s\n    %s", k, examples[k])
	}
}
