package prog

import (
	"fmt"
	"sort"
	"strings"

	"pgregory.net/rapid"
)

// Options select sub-grammars of the generator.
type Options struct {
	MaxOps        int  // top-level operators (default 5)
	FiltersOnly   bool // only where/search operators
	LeadingFilter bool // the program starts with a filter or search (so that it is pushed into the scanner)
	NoJoin        bool
	NoFork        bool // no fork/switch/merge/join
	NoOver        bool
	NoSummarize   bool
	NoSort        bool
	NoShaping     bool // no cut/drop/put/rename/yield
	NoLimit       bool // no `with -limit`
	VamSubset     bool // reserved (restrict to what the vector runtime supports)
	// EndOrdered: when the stream is unordered at the end, append a total sort
	// with this percentage (default 50) so that the output can be compared as a sequence.
	EndOrdered int
	// SortKey is the declared sort key of the input ("" = none): the generator
	// then favours operators whose plan depends on it (summarize by the key or
	// an order-preserving function of it, join on it, sort on it, renames/cuts of it).
	SortKey string
	// Loose additionally allows order-sensitive operators (head, tail, uniq,
	// ...) on streams without a defined order; such programs get
	// Deterministic=false and the consumer must use a weaker validity predicate.
	Loose bool
}

// Meta says how the output of a program may be compared across runs that
// must be equivalent.
type Meta struct {
	// Ordered: the output sequence is a function of the input sequence (the
	// program preserves input order or ends in a total order).
	Ordered bool `json:"ordered"`
	// Deterministic: the output multiset is a function of the input sequence.
	Deterministic bool     `json:"deterministic"`
	Features      []string `json:"features"`
	// FinalSort is the text of the program's last operator when that is a
	// sort with explicit keys: whatever precedes it, the output must then be
	// in that order, i.e. a (stable) `FinalSort` of the output leaves it unchanged.
	FinalSort string `json:"final_sort,omitempty"`
}

// Program is program text plus its metadata.
type Program struct {
	Text string `json:"text"`
	Meta Meta   `json:"meta"`
	// Lead is the text of the leading filter/search operator when
	// Options.LeadingFilter was set (Text == Lead or Lead + " | " + rest).
	Lead string `json:"lead,omitempty"`
}

// st is what the generator knows about the stream at some point of the pipeline.
type st struct {
	ordered bool     // the sequence is a deterministic function of the input sequence
	recs    bool     // every value is a non-null record
	fields  []*Field // known top-level fields (possibly Generic); nil when nothing is known
	fresh   int      // counter for new field names
}

func (s *st) clone() *st {
	c := *s
	c.fields = append([]*Field(nil), s.fields...)
	return &c
}

type G struct {
	t     *rapid.T
	s     *Schema
	o     Options
	feats map[string]bool
	det   bool
	nest  int
	// uniq answers a done request with its pending value, which crashes a fork
	// downstream of it ("non-nil done batch"): no fork/switch/join after uniq
	uniqUsed bool
}

// Gen draws a program for an input summarised by s.
func Gen(t *rapid.T, s *Schema, o Options) Program {
	if o.MaxOps == 0 {
		o.MaxOps = 5
	}
	if o.EndOrdered == 0 {
		o.EndOrdered = 50
	}
	g := &G{t: t, s: s, o: o, feats: map[string]bool{}, det: true}
	state := &st{ordered: true, recs: s.AllRecords, fields: append([]*Field(nil), s.Fields...)}
	var ops []string
	n := 1 + Uniform(t, o.MaxOps, "nops")
	lead := ""
	if o.LeadingFilter {
		if g.chance(70, "pushablelead") {
			lead = g.pushableFilterOp(state)
		} else {
			lead = g.filterOp(state)
		}
		ops = append(ops, lead)
		n--
	}
	if o.SortKey != "" && !o.FiltersOnly && g.chance(35, "keytemplate") {
		// programs whose plan depends on the declared order: the key is
		// consumed while the stream still has that order
		g.feat("sortkey-template")
		if g.chance(40, "keytemplate-filter") {
			ops = append(ops, g.filterOp(state))
			n--
		}
		if !o.NoSummarize && (o.NoFork || o.NoJoin || !state.recs || g.chance(65, "keytemplate-summarize")) {
			ops = append(ops, g.summarizeOpKey(state, true))
		} else if !o.NoFork && !o.NoJoin && state.recs {
			ops = append(ops, g.joinOpKey(state, true))
		}
		n--
	}
	for i := 0; i < n; i++ {
		ops = append(ops, g.op(state, i == n-1))
	}
	if !state.ordered && g.det && Chance(t, o.EndOrdered, "endorder") {
		ops = append(ops, g.restore(state))
	}
	p := Program{Text: strings.Join(ops, " | "), Lead: lead}
	if last := ops[len(ops)-1]; strings.HasPrefix(last, "sort ") && !strings.Contains(last, "|") && sortHasKeys(last) {
		p.Meta.FinalSort = last
	}
	p.Meta.Ordered = state.ordered && g.det
	p.Meta.Deterministic = g.det
	for f := range g.feats {
		p.Meta.Features = append(p.Meta.Features, f)
	}
	sort.Strings(p.Meta.Features)
	return p
}

// sortHasKeys tells whether a sort operator text has key expressions (not only flags).
func sortHasKeys(text string) bool {
	fields := strings.Fields(strings.TrimPrefix(text, "sort"))
	for i := 0; i < len(fields); i++ {
		switch fields[i] {
		case "-r":
		case "-nulls":
			i++
		default:
			return true
		}
	}
	return false
}

func (g *G) feat(f string) { g.feats[f] = true }

func (g *G) intn(n int, label string) int { return Uniform(g.t, n, label) }

func (g *G) chance(pct int, label string) bool { return Chance(g.t, pct, label) }

func pickStr(g *G, list []string, label string) string {
	return list[g.intn(len(list), label)]
}

// restore emits a sort that is total on the stream: distinct values never
// compare equal (types are ordered first, and within one type the comparator
// is total apart from -0/NaN floats, which generated programs avoid).
func (g *G) restore(s *st) string {
	g.feat("restore-order")
	s.ordered = true
	return "sort typeof(this), this"
}

// needOrder makes sure the stream has a defined order before an
// order-sensitive operator; it returns the text to put in front (may be empty).
func (g *G) needOrder(s *st) string {
	if s.ordered {
		return ""
	}
	if g.o.Loose && g.chance(50, "loose") {
		g.det = false
		g.feat("order-sensitive-on-unordered")
		return ""
	}
	return g.restore(s) + " | "
}

// ---- operators

func (g *G) op(s *st, last bool) string {
	if g.o.FiltersOnly {
		return g.filterOp(s)
	}
	type cand struct {
		w int
		f func() string
	}
	var cs []cand
	add := func(w int, f func() string) { cs = append(cs, cand{w, f}) }
	add(22, func() string { return g.filterOp(s) })
	if !g.o.NoShaping {
		add(6, func() string { return g.cutOp(s) })
		add(4, func() string { return g.dropOp(s) })
		add(8, func() string { return g.putOp(s) })
		add(4, func() string { return g.renameOp(s) })
		add(5, func() string { return g.yieldOp(s) })
	}
	if !g.o.NoSort {
		add(10, func() string { return g.sortOp(s) })
	}
	add(5, func() string { return g.headTail(s) })
	if g.nest == 0 && last {
		// uniq only as the last operator of the program: `fork (=> pass => uniq)`
		// never terminates (uniq answers its parent's end of stream with a last
		// batch and then pulls the parent again, which a fork leg takes for the
		// start of the next round), and uniq answers a done request with its
		// pending value, which panics a fork or lateral scope downstream of it
		// ("non-nil done batch").
		add(6, func() string { return g.uniqOp(s) })
	}
	if g.nest == 0 {
		// likewise `fork (=> fuse => pass) | merge a` (fuse is one-shot, merge
		// re-pulls all its parents at end of stream)
		add(3, func() string { return g.fuseOp(s) })
	}
	add(3, func() string { g.feat("pass"); return "pass" })
	if !g.o.NoSummarize {
		add(12, func() string { return g.summarizeOp(s) })
	}
	// Forks are not nested: the runtime's end-of-stream protocol deadlocks on
	// shapes such as `fork (=> pass => fork (=> pass => pass) | sort b)`.
	if !g.o.NoFork && g.nest == 0 && !g.uniqUsed {
		add(6, func() string { return g.forkOp(s) })
		add(4, func() string { return g.switchOp(s) })
		if !g.o.NoJoin && s.recs {
			add(6, func() string { return g.joinOp(s) })
		}
	}
	if !g.o.NoOver && g.nest < 2 {
		add(4, func() string { return g.overOp(s) })
	}
	total := 0
	for _, c := range cs {
		total += c.w
	}
	r := g.intn(total, "op")
	for _, c := range cs {
		if r < c.w {
			return c.f()
		}
		r -= c.w
	}
	panic("unreachable")
}

// pipeline draws a short sub-pipeline (fork legs, switch cases).
func (g *G) pipeline(s *st, maxOps int) string {
	g.nest++
	defer func() { g.nest-- }()
	n := rapid.IntRange(1, maxOps).Draw(g.t, "legops")
	var ops []string
	for i := 0; i < n; i++ {
		ops = append(ops, g.op(s, i == n-1))
	}
	return strings.Join(ops, " | ")
}

func (g *G) filterOp(s *st) string {
	switch g.intn(10, "filterkind") {
	case 0, 1, 2, 3:
		g.feat("where")
		return "where " + g.boolExpr(s, 2)
	case 4, 5, 6:
		g.feat("search")
		return "search " + g.searchExpr(s, 2)
	default:
		// implied operator: a bare search expression
		g.feat("search-implied")
		e := g.searchExpr(s, 2)
		if startsWithReserved(e) {
			return "search " + e
		}
		return e
	}
}

func nonNumeric(l Lit) bool {
	switch l.Kind {
	case "string", "ip", "net", "bool", "bytes", "type", "time", "duration":
		return l.Plain
	}
	return false
}

func nonNumericLits(list []Lit, noNet bool) []Lit {
	var out []Lit
	for _, l := range list {
		if nonNumeric(l) && !(noNet && l.Kind == "net") {
			out = append(out, l)
		}
	}
	return out
}

// pushableTerm draws a filter term for which the ZNG scanner can build a
// buffer filter: a keyword / string search term, a non-numeric literal search
// term, field==literal or literal in field with a non-numeric literal.
// Literals are values the input holds (80%), so the term usually selects something.
func (g *G) pushableTerm(s *st) string {
	known := append(append([]*Field{}, s.fields...), g.s.Nested...)
	for try := 0; try < 8; try++ {
		switch g.intn(10, "pushkind") {
		case 0, 1, 2:
			w := g.word()
			if len(w) < 2 {
				continue
			}
			g.feat("keyword")
			if reservedWords[strings.ToLower(w)] || g.chance(20, "pushquoted") {
				return "\"" + w + "\""
			}
			return w
		case 3:
			if len(g.s.StringLits) > 0 {
				if l := g.s.StringLits[g.intn(len(g.s.StringLits), "pushstr")]; len(l.Text) >= 4 {
					g.feat("string-literal-term")
					return l.Text
				}
			}
		case 4:
			var c []Lit
			for _, l := range g.s.AnyLits {
				if nonNumeric(l) && l.Kind != "string" && l.Kind != "bool" && l.Kind != "net" {
					c = append(c, l)
				}
			}
			if len(c) > 0 {
				lit := c[g.intn(len(c), "pushanylit")]
				g.feat("literal-term:" + lit.Kind)
				return lit.Text
			}
		case 5, 6, 7:
			var c []*Field
			for _, f := range known {
				if !f.Generic && len(nonNumericLits(f.Lits, false)) > 0 {
					c = append(c, f)
				}
			}
			if len(c) == 0 {
				continue
			}
			f := c[g.intn(len(c), "pusheqfield")]
			lits := nonNumericLits(f.Lits, false)
			lit := lits[g.intn(len(lits), "pusheqlit")]
			if g.chance(15, "pusheqother") {
				if o := g.litFor(f); nonNumeric(o) {
					lit = o
				}
			}
			g.feat("field==literal:" + lit.Kind)
			return f.Name + "==" + lit.Text
		default:
			var c []*Field
			for _, f := range known {
				if !f.Generic && len(nonNumericLits(append(append([]Lit{}, f.ElemLits...), f.MapKeys...), true)) > 0 {
					c = append(c, f)
				}
			}
			if len(c) == 0 {
				continue
			}
			f := c[g.intn(len(c), "pushinfield")]
			lits := nonNumericLits(append(append([]Lit{}, f.ElemLits...), f.MapKeys...), true)
			lit := lits[g.intn(len(lits), "pushinlit")]
			g.feat("literal-in-field")
			ref := f.Name
			if g.chance(15, "pushinthis") {
				ref = "this"
			}
			return lit.Text + " in " + ref
		}
	}
	g.feat("keyword")
	return g.word()
}

// pushableFilterOp draws a leading search whose predicate (or a conjunct of
// it) compiles to a buffer filter.
func (g *G) pushableFilterOp(s *st) string {
	g.feat("search")
	t := g.pushableTerm(s)
	switch g.intn(8, "pushcombo") {
	case 0:
		g.feat("and")
		t += " and " + g.pushableTerm(s)
	case 1:
		g.feat("or")
		t = "(" + t + " or " + g.pushableTerm(s) + ")"
	case 2:
		g.feat("and")
		t += " and " + g.searchTerm(s)
	case 3:
		g.feat("and")
		t = "(" + t + " or " + g.pushableTerm(s) + ") and " + g.pushableTerm(s)
	}
	return "search " + t
}

func (g *G) freshName(s *st) string {
	names := []string{"z", "w", "q", "r", "u", "p"}
	name := names[s.fresh%len(names)]
	if s.fresh >= len(names) {
		name = fmt.Sprintf("%s%d", name, s.fresh/len(names))
	}
	s.fresh++
	return name
}

func generic(name string) *Field {
	return &Field{Name: name, Kinds: map[string]bool{}, Generic: true, Missing: true}
}

func (s *st) find(name string) int {
	for i, f := range s.fields {
		if f.Name == name {
			return i
		}
	}
	return -1
}

func (s *st) set(f *Field) {
	if i := s.find(f.Name); i >= 0 {
		s.fields[i] = f
		return
	}
	s.fields = append(s.fields, f)
}

// fieldName draws a field reference: mostly a known field, sometimes a nested
// path or a name that may not exist.
func (g *G) field(s *st, label string) *Field {
	if len(s.fields) > 0 && !g.chance(8, label+"-stray") {
		return s.fields[g.intn(len(s.fields), label)]
	}
	return generic(pickStr(g, FieldNames, label+"-name"))
}

func (g *G) fieldWhere(s *st, label string, pred func(*Field) bool) *Field {
	var c []*Field
	for _, f := range s.fields {
		if pred(f) {
			c = append(c, f)
		}
	}
	if len(c) == 0 {
		return nil
	}
	return c[g.intn(len(c), label)]
}

func (g *G) cutOp(s *st) string {
	g.feat("cut")
	n := 1 + Uniform(g.t, 3, "ncut")
	var parts []string
	var out []*Field
	used := map[string]bool{}
	for i := 0; i < n; i++ {
		if g.chance(25, "cutassign") {
			name := g.freshName(s)
			if used[name] {
				continue
			}
			used[name] = true
			parts = append(parts, name+":="+g.valueExpr(s, 2))
			out = append(out, generic(name))
			continue
		}
		f := g.field(s, "cutfield")
		top := strings.Split(f.Name, ".")[0]
		if used[top] {
			continue
		}
		used[top] = true
		parts = append(parts, f.Name)
		c := f.clone()
		if g.o.SortKey != "" && f.Name == g.o.SortKey {
			g.feat("cut-sortkey")
		}
		out = append(out, c)
	}
	if len(parts) == 0 {
		parts = append(parts, "a")
		out = append(out, generic("a"))
	}
	s.fields = out
	s.recs = true
	return "cut " + strings.Join(parts, ", ")
}

func (g *G) dropOp(s *st) string {
	g.feat("drop")
	n := 1 + Uniform(g.t, 2, "ndrop")
	var parts []string
	used := map[string]bool{}
	for i := 0; i < n; i++ {
		f := g.field(s, "dropfield")
		if used[f.Name] {
			continue
		}
		used[f.Name] = true
		parts = append(parts, f.Name)
		if j := s.find(f.Name); j >= 0 {
			s.fields = append(s.fields[:j:j], s.fields[j+1:]...)
		}
	}
	// dropping every field of a record removes the value; the stream still holds records only
	return "drop " + strings.Join(parts, ", ")
}

func (g *G) putOp(s *st) string {
	g.feat("put")
	n := 1 + Uniform(g.t, 2, "nput")
	var parts []string
	used := map[string]bool{}
	var outs []*Field
	for i := 0; i < n; i++ {
		var name string
		if len(s.fields) > 0 && g.chance(30, "putover") {
			name = s.fields[g.intn(len(s.fields), "putoverfield")].Name
			g.feat("put-overwrite")
		} else {
			name = g.freshName(s)
		}
		if used[name] {
			continue
		}
		used[name] = true
		parts = append(parts, name+":="+g.valueExpr(s, 2))
		outs = append(outs, generic(name))
	}
	for _, f := range outs {
		s.set(f)
	}
	if g.chance(30, "putimplied") {
		return strings.Join(parts, ", ")
	}
	return "put " + strings.Join(parts, ", ")
}

func (g *G) renameOp(s *st) string {
	g.feat("rename")
	f := g.field(s, "renamefield")
	if strings.Contains(f.Name, ".") {
		f = generic(strings.Split(f.Name, ".")[0])
	}
	name := g.freshName(s)
	if j := s.find(f.Name); j >= 0 {
		c := s.fields[j].clone()
		c.Name = name
		s.fields[j] = c
	}
	if g.o.SortKey != "" && f.Name == g.o.SortKey {
		g.feat("rename-sortkey")
	}
	return "rename " + name + ":=" + f.Name
}

func (g *G) yieldOp(s *st) string {
	g.feat("yield")
	switch g.intn(4, "yieldkind") {
	case 0:
		// record literal: the stream keeps holding records
		n := 1 + Uniform(g.t, 3, "nyield")
		var parts []string
		var out []*Field
		used := map[string]bool{}
		for i := 0; i < n; i++ {
			if len(s.fields) > 0 && g.chance(50, "yieldkeep") {
				f := s.fields[g.intn(len(s.fields), "yieldfield")]
				if used[f.Name] || strings.Contains(f.Name, ".") {
					continue
				}
				used[f.Name] = true
				parts = append(parts, f.Name)
				out = append(out, f)
				continue
			}
			name := g.freshName(s)
			parts = append(parts, name+":"+g.valueExpr(s, 2))
			out = append(out, generic(name))
		}
		if len(parts) == 0 {
			parts = append(parts, "z:1")
			out = append(out, generic("z"))
		}
		s.fields = out
		s.recs = true
		return "yield {" + strings.Join(parts, ",") + "}"
	case 1:
		e := g.valueExpr(s, 2)
		s.fields = nil
		s.recs = false
		return "yield " + e
	case 2:
		g.feat("yield-multi")
		e1, e2 := g.valueExpr(s, 1), g.valueExpr(s, 1)
		s.fields = nil
		s.recs = false
		return "yield " + e1 + ", " + e2
	default:
		return "yield this"
	}
}

func (g *G) sortKeyExpr(s *st) string {
	switch g.intn(10, "sortkeykind") {
	case 0:
		return "typeof(" + g.ref(s) + ")"
	case 1:
		return "len(" + g.ref(s) + ")"
	case 2:
		return "this"
	default:
		if g.o.SortKey != "" && g.chance(40, "sortonkey") {
			return g.o.SortKey
		}
		return g.ref(s)
	}
}

func (g *G) sortOp(s *st) string {
	g.feat("sort")
	var sb strings.Builder
	sb.WriteString("sort")
	if g.chance(30, "sort-r") {
		sb.WriteString(" -r")
		g.feat("sort-r")
	}
	if g.chance(30, "sort-nulls") {
		sb.WriteString(" -nulls " + pickStr(g, []string{"first", "last"}, "nullspos"))
		g.feat("sort-nulls")
	}
	pre := ""
	if g.chance(8, "sort-nokey") {
		// The key is guessed from the first value, so the input order matters.
		pre = g.needOrder(s)
		g.feat("sort-nokey")
		if g.nest > 0 {
			// inside `switch (case ... => sort default => ...)` a key-less
			// sort swallows the next keyword
			return pre + sb.String() + " | pass"
		}
		return pre + sb.String()
	}
	n := Pick(g.t, []int{1, 1, 1, 2, 2, 3}, "nsortkeys")
	for i := 0; i < n; i++ {
		if i > 0 {
			sb.WriteString(",")
		}
		sb.WriteString(" " + g.sortKeyExpr(s))
		if g.chance(20, "sortdesc") {
			sb.WriteString(" desc")
		}
	}
	if n > 1 {
		g.feat("sort-multikey")
	}
	// A stable sort of an ordered stream is ordered; of an unordered stream
	// it is ordered only up to ties, which we do not claim.
	return sb.String()
}

func (g *G) headTail(s *st) string {
	pre := g.needOrder(s)
	n := 1 + Uniform(g.t, 6, "headn")
	if g.chance(60, "head?") {
		g.feat("head")
		if n == 1 && g.chance(50, "head-bare") {
			return pre + "head"
		}
		return pre + fmt.Sprintf("head %d", n)
	}
	g.feat("tail")
	return pre + fmt.Sprintf("tail %d", n)
}

func (g *G) uniqOp(s *st) string {
	pre := g.needOrder(s)
	g.feat("uniq")
	g.uniqUsed = true
	if g.chance(30, "uniq-c") {
		s.fields = []*Field{generic("value"), generic("count")}
		s.recs = true
		return pre + "uniq -c"
	}
	return pre + "uniq"
}

func (g *G) fuseOp(s *st) string {
	// The fused type depends on the order in which types are met.
	pre := g.needOrder(s)
	g.feat("fuse")
	for i, f := range s.fields {
		c := f.clone()
		c.Generic, c.TieFree, c.IntOnly = true, false, false
		s.fields[i] = c
	}
	return pre + "fuse"
}

// aggregate functions whose result does not depend on the order of their input
var commutativeAggs = []string{"count", "count", "dcount", "union", "and", "or", "sum", "min", "max", "avg"}
var orderAggs = []string{"any", "collect", "fuse", "sum", "min", "max", "avg"}

func (g *G) aggExpr(s *st, ordered bool) string {
	var name string
	if ordered && g.chance(40, "orderagg") {
		name = pickStr(g, orderAggs, "oagg")
	} else {
		name = pickStr(g, commutativeAggs, "cagg")
	}
	var arg string
	switch name {
	case "count":
		if g.chance(25, "countarg") {
			arg = g.ref(s)
		}
	case "and", "or":
		arg = g.boolExpr(s, 1)
	case "sum", "min", "max", "avg":
		if ordered {
			arg = g.numExpr(s, 1)
		} else {
			// unordered input: only arguments of one single integer type,
			// so that promotion does not depend on arrival order
			if f := g.fieldWhere(s, "intfield", func(f *Field) bool { return f.IntOnly && !f.Generic }); f != nil && g.chance(70, "aggint") {
				arg = f.Name
			} else {
				arg = "len(" + g.ref(s) + ")"
			}
		}
	case "fuse":
		arg = "this"
	default:
		arg = g.ref(s)
		if g.chance(15, "aggthis") {
			arg = "this"
		}
	}
	g.feat("agg:" + name)
	out := name + "(" + arg + ")"
	if g.chance(15, "aggwhere") {
		out += " where " + g.boolExpr(s, 1)
		g.feat("agg-where")
	}
	return out
}

func (g *G) summarizeOp(s *st) string { return g.summarizeOpKey(s, false) }

// summarizeOpKey draws a summarize; with onKey the declared sort key (or a
// function of it) is one of the keys, usually the first.
func (g *G) summarizeOpKey(s *st, onKey bool) string {
	g.feat("summarize")
	limit := 0
	if !g.o.NoLimit && !onKey && g.chance(25, "limit?") {
		limit = 1 + Uniform(g.t, 4, "limit")
	}
	pre := ""
	ordered := s.ordered && limit == 0
	// keys
	nk := Pick(g.t, []int{0, 1, 1, 1, 1, 2, 2, 3}, "nkeys")
	if (limit > 0 || onKey) && nk == 0 {
		nk = 1
	}
	keyPos := 0
	if onKey && nk > 1 && g.chance(30, "keysecond") {
		keyPos = 1 // the sort key is not the first group-by key
		g.feat("by-sortkey-not-first")
	}
	var keys []string
	var out []*Field
	used := map[string]bool{}
	for i := 0; i < nk; i++ {
		var name, text string
		var fd *Field
		k := g.intn(10, "keykind")
		if limit > 0 {
			// With -limit groups may be spilled and merged by the sort
			// comparator, which equates values the hash table keeps apart (1 and
			// 1., null and missing); only tie-free keys give a determined result.
			if f := g.fieldWhere(s, "tiefree", func(f *Field) bool { return f.TieFree && !f.Generic && !strings.Contains(f.Name, ".") }); f != nil && k < 7 {
				name, text, fd = f.Name, f.Name, f.clone()
			} else {
				name = g.freshName(s)
				text = name + ":=typeof(" + g.ref(s) + ")"
			}
		} else if g.o.SortKey != "" && i == keyPos && (onKey || g.chance(60, "bykey")) {
			// primary key = declared sort key or an order-preserving function of it
			name = g.o.SortKey
			switch g.intn(10, "keyfn") {
			case 6, 7, 8:
				// not monotone: must not be taken for an order-preserving key
				text = name + ":=" + pickStr(g, []string{"abs", "len", "typeof"}, "nonmono") + "(" + name + ")"
				g.feat("by-nonmonotone(sortkey)")
			case 0:
				text = name + ":=floor(" + name + ")"
				g.feat("by-floor(sortkey)")
			case 1:
				text = name + ":=" + pickStr(g, []string{"ceil", "round"}, "fn") + "(" + name + ")"
				g.feat("by-ceil/round(sortkey)")
			case 2:
				if name == "ts" {
					text = "every(1h)"
					g.feat("by-every")
				} else {
					text = name + ":=bucket(" + name + ", " + pickStr(g, []string{"2", "1h", "3"}, "bucketarg") + ")"
					g.feat("by-bucket(sortkey)")
				}
			default:
				text = name
				g.feat("by-sortkey")
			}
			if j := s.find(name); j >= 0 && text == name {
				fd = s.fields[j].clone()
			}
		} else {
			switch {
			case k < 6:
				f := g.field(s, "keyfield")
				if strings.Contains(f.Name, ".") {
					name = g.freshName(s)
					text = name + ":=" + f.Name
				} else {
					name, text, fd = f.Name, f.Name, f.clone()
				}
			case k == 6:
				name = g.freshName(s)
				text = name + ":=typeof(" + g.ref(s) + ")"
			case k == 7:
				name = g.freshName(s)
				text = name + ":=len(" + g.ref(s) + ")"
			case k == 8 && s.find("ts") >= 0:
				name = "ts"
				text = "every(" + pickStr(g, []string{"1h", "1d", "30m"}, "every") + ")"
				g.feat("by-every")
			default:
				name = g.freshName(s)
				text = name + ":=" + g.valueExpr(s, 1)
				g.feat("by-computed")
			}
		}
		if used[name] {
			continue
		}
		used[name] = true
		keys = append(keys, text)
		if fd == nil {
			fd = generic(name)
		}
		fd.Missing = false
		out = append(out, fd)
	}
	// aggregates
	na := Pick(g.t, []int{1, 1, 1, 2, 2, 3}, "naggs")
	if len(keys) > 0 && g.chance(8, "noaggs") {
		na = 0
	}
	var aggs []string
	for i := 0; i < na; i++ {
		a := g.aggExpr(s, ordered)
		name := a[:strings.Index(a, "(")]
		if g.chance(50, "aggname") || used[name] || name == "and" || name == "or" {
			name = g.freshName(s)
			a = name + ":=" + a
		}
		if used[name] {
			continue
		}
		used[name] = true
		aggs = append(aggs, a)
		out = append(out, generic(name))
	}
	var sb strings.Builder
	if g.chance(40, "summarizekw") || len(aggs) == 0 {
		sb.WriteString("summarize ")
	}
	sb.WriteString(strings.Join(aggs, ", "))
	if len(keys) > 0 {
		if len(aggs) > 0 {
			sb.WriteString(" ")
		}
		sb.WriteString("by " + strings.Join(keys, ", "))
		g.feat(fmt.Sprintf("summarize-keys:%d", len(keys)))
	} else {
		g.feat("summarize-nokeys")
	}
	if limit > 0 {
		fmt.Fprintf(&sb, " with -limit %d", limit)
		g.feat("summarize-limit")
	}
	single := len(keys) == 0 && len(aggs) == 1 && !strings.Contains(aggs[0], ":=")
	s.fields = out
	s.recs = true
	if single {
		// a lone unnamed aggregate yields its bare value
		s.fields = nil
		s.recs = false
	}
	if len(keys) > 0 {
		s.ordered = false // groups come out in hash-table order
	}
	return pre + sb.String()
}

func mergeFields(legs []*st) []*Field {
	var out []*Field
	seen := map[string]bool{}
	for _, l := range legs {
		for _, f := range l.fields {
			if seen[f.Name] {
				continue
			}
			seen[f.Name] = true
			same := true
			for _, m := range legs {
				if j := m.find(f.Name); j < 0 || m.fields[j] != f {
					same = false
				}
			}
			if same {
				out = append(out, f)
			} else {
				c := f.clone()
				c.Generic, c.TieFree, c.IntOnly, c.Missing = true, false, false, true
				out = append(out, c)
			}
		}
	}
	return out
}

func (g *G) forkOp(s *st) string {
	g.feat("fork")
	n := 2 + Uniform(g.t, 2, "nlegs")
	var legs []*st
	var texts []string
	mergeKey := ""
	if g.chance(25, "merge?") {
		mergeKey = g.sortKeyExpr(s)
		if mergeKey == "this" || strings.Contains(mergeKey, "(") {
			mergeKey = g.ref(s)
		}
	}
	for i := 0; i < n; i++ {
		l := s.clone()
		txt := g.pipeline(l, 2)
		if mergeKey != "" {
			// Every leg of a merge ends in a sort: a leg that streams next to a leg
			// that has to see its whole input first deadlocks the flowgraph.
			txt += " | sort " + mergeKey
		}
		legs = append(legs, l)
		texts = append(texts, txt)
	}
	s.fields = mergeFields(legs)
	s.recs = true
	for _, l := range legs {
		s.recs = s.recs && l.recs
		if l.fresh > s.fresh {
			s.fresh = l.fresh
		}
	}
	s.ordered = false // the legs are combined in arrival order
	out := "fork (=> " + strings.Join(texts, " => ") + ")"
	if mergeKey != "" {
		g.feat("merge")
		out += " | merge " + mergeKey
	}
	return out
}

func (g *G) switchOp(s *st) string {
	g.feat("switch")
	n := 1 + Uniform(g.t, 3, "ncases")
	var legs []*st
	var sb strings.Builder
	exprSwitch := g.chance(30, "exprswitch")
	var f *Field
	if exprSwitch {
		f = g.fieldWhere(s, "switchfield", func(f *Field) bool { return len(f.Lits) > 0 })
		if f == nil {
			exprSwitch = false
		}
	}
	if exprSwitch {
		g.feat("switch-expr")
		sb.WriteString("switch " + f.Name + " (")
	} else {
		sb.WriteString("switch (")
	}
	for i := 0; i < n; i++ {
		l := s.clone()
		if exprSwitch {
			sb.WriteString(" case " + f.Lits[g.intn(len(f.Lits), "caselit")].Text + " => ")
		} else {
			sb.WriteString(" case " + g.boolExpr(s, 1) + " => ")
		}
		sb.WriteString(g.pipeline(l, 2))
		legs = append(legs, l)
	}
	if g.chance(60, "default") {
		l := s.clone()
		sb.WriteString(" default => " + g.pipeline(l, 2))
		legs = append(legs, l)
		g.feat("switch-default")
	}
	sb.WriteString(" )")
	s.fields = mergeFields(legs)
	s.recs = true
	for _, l := range legs {
		s.recs = s.recs && l.recs
		if l.fresh > s.fresh {
			s.fresh = l.fresh
		}
	}
	s.ordered = false
	return sb.String()
}

// joinLeg draws a leg that keeps holding records and keeps the key field.
func (g *G) joinLeg(s *st, key string) string {
	g.nest++
	defer func() { g.nest-- }()
	var ops []string
	n := 0 + Uniform(g.t, 3, "joinlegops")
	for i := 0; i < n; i++ {
		switch g.intn(6, "joinlegop") {
		case 0, 1:
			ops = append(ops, g.filterOp(s))
		case 2:
			ops = append(ops, g.putOp(s))
		case 3:
			if !g.o.NoSort {
				ops = append(ops, g.sortOp(s))
			}
		case 4:
			if !g.o.NoSummarize {
				// aggregate by the key
				a := g.aggExpr(s, false)
				name := g.freshName(s)
				ops = append(ops, name+":="+a+" by "+key)
				kf := generic(key)
				if j := s.find(key); j >= 0 {
					kf = s.fields[j]
				}
				s.fields = []*Field{kf, generic(name)}
				s.ordered = false
				g.feat("join-leg-summarize")
			}
		default:
			ops = append(ops, g.headTail(s))
		}
	}
	if len(ops) == 0 {
		return "pass"
	}
	return strings.Join(ops, " | ")
}

func (g *G) joinOp(s *st) string { return g.joinOpKey(s, false) }

func (g *G) joinOpKey(s *st, onKey bool) string {
	g.feat("join")
	var key string
	if g.o.SortKey != "" && (onKey || g.chance(60, "joinonkey")) {
		key = g.o.SortKey
		g.feat("join-on-sortkey")
	} else {
		f := g.field(s, "joinkey")
		key = strings.Split(f.Name, ".")[0]
	}
	left, right := s.clone(), s.clone()
	lt := g.joinLeg(left, key)
	rt := g.joinLeg(right, key)
	style := pickStr(g, []string{"", "", "inner ", "left ", "right ", "anti "}, "joinstyle")
	g.feat("join-style:" + strings.TrimSpace(style+"default"))
	rkey := key
	// the keys may be spelled as different expressions of the two sides
	base, other := left, right
	if style == "right " {
		base, other = right, left
	}
	var args []string
	out := append([]*Field(nil), base.fields...)
	if style != "anti " {
		na := 0 + Uniform(g.t, 3, "njoinargs")
		used := map[string]bool{}
		for i := 0; i < na; i++ {
			name := g.freshName(s)
			if used[name] {
				continue
			}
			used[name] = true
			rf := g.field(other, "joinarg")
			args = append(args, name+":="+rf.Name)
			out = append(out, generic(name))
		}
	}
	s.fields = out
	for _, l := range []*st{left, right} {
		if l.fresh > s.fresh {
			s.fresh = l.fresh
		}
	}
	s.recs = true
	s.ordered = false // the order among equal keys is not defined
	text := "fork (=> " + lt + " => " + rt + ") | " + style + "join on " + key + "=" + rkey
	if len(args) > 0 {
		text += " " + strings.Join(args, ", ")
	}
	return text
}

func (g *G) overOp(s *st) string {
	g.feat("over")
	f := g.fieldWhere(s, "overfield", func(f *Field) bool {
		return f.Has("array") || f.Has("set") || f.Has("map") || f.Has("record") || f.Has("union")
	})
	target := "this"
	if f != nil && g.chance(85, "overfieldp") {
		target = f.Name
	} else if g.chance(50, "overany") {
		target = g.ref(s)
	}
	inner := &st{ordered: true}
	var sb strings.Builder
	sb.WriteString("over " + target)
	if g.nest > 0 {
		// Inside a fork leg only the plain form is used: a lateral scope there can
		// deadlock the flowgraph, and `=> over a => (...)` would read the next
		// leg as a lateral body (hence the trailing pass).
		s.fields = nil
		s.recs = false
		return sb.String() + " | pass"
	}
	if g.chance(30, "overwith") {
		g.feat("over-with")
		sb.WriteString(" with v=" + g.ref(s))
		switch g.intn(3, "overwithbody") {
		case 0:
			sb.WriteString(" => ( yield {v, e:this} )")
			s.fields = []*Field{generic("v"), generic("e")}
			s.recs = true
		case 1:
			sb.WriteString(" => ( where this!=v )")
			s.fields, s.recs = nil, false
		default:
			sb.WriteString(" => ( count() by v )")
			s.fields = []*Field{generic("v"), generic("count")}
			s.recs = true
		}
		return sb.String()
	}
	if g.chance(45, "overlateral") {
		g.feat("over-lateral")
		switch g.intn(5, "lateral") {
		case 0:
			sb.WriteString(" => ( " + pickStr(g, []string{"count()", "collect(this)", "union(this)", "sum(this)", "max(this)"}, "latagg") + " )")
		case 1:
			sb.WriteString(" => ( sort this | head 1 )")
		case 2:
			sb.WriteString(" => ( yield {e:this} )")
			s.fields = []*Field{generic("e")}
			s.recs = true
			return sb.String()
		case 3:
			sb.WriteString(" => ( where " + g.boolExpr(inner, 1) + " )")
		default:
			sb.WriteString(" => ( typeof(this) )")
		}
	}
	s.fields = nil
	s.recs = false
	return sb.String()
}

var reservedWords = map[string]bool{}

func init() {
	for _, w := range strings.Fields(`and or not in by with from fork switch case default over merge join on left right inner anti
		sort head tail uniq fuse summarize cut drop put rename yield pass where search top sample load output debug assert
		explode file get pool const func op type null true false this is has missing len count sum avg min max any collect
		union dcount nan inf shape as yield combine`) {
		reservedWords[w] = true
	}
}

func startsWithReserved(e string) bool {
	w := wordRE.FindString(e)
	if w == "" || !strings.HasPrefix(e, w) {
		return false
	}
	return reservedWords[strings.ToLower(w)]
}
