package prog

import (
	"math"
	"net/netip"
	"strings"

	zed "github.com/brimdata/super"
	"github.com/brimdata/super/pkg/nano"
	"github.com/brimdata/super/zcode"
	"pgregory.net/rapid"

	"verif/gen"
	"verif/oracle"
)

// FieldNames is the name pool of the program-oriented input generator: the
// identifier-only names of gen plus a few longer ones (the ZNG buffer filter
// ignores search patterns shorter than two bytes, and "foo"/"bar" also occur
// as string values, so a keyword can hit a value in one record and a field
// name in another).
var FieldNames = append(append([]string{}, gen.SimpleFieldNames...), "foo", "bar", "id", "ts")

// InputOpts tunes DrawInput.
type InputOpts struct {
	MaxLen    int  // default 30
	MaxShapes int  // default 4
	Rich      bool // more containers holding records (arrays/maps/unions/errors of records), type values, named types
	CleanKey  bool // make field "k" a never-null, never-missing int64 and "s" a never-null string in every shape
	// NonRecords: about one value in seven is not a record (a string, an array
	// or set of records, a union, an error, ... at the top level).
	NonRecords bool
}

type inputGen struct {
	zctx *zed.Context
	rich bool
	pref map[string]zed.Type
}

func (g *inputGen) named(name string, typ zed.Type) zed.Type {
	// The same name is only ever bound to one underlying type within one
	// input (rebinding is C01/C05's subject); the first binding wins.
	if t, err := g.zctx.LookupTypeNamed(name, typ); err == nil {
		if prev := g.pref["#"+name]; prev != nil {
			return prev
		}
		g.pref["#"+name] = t
		return t
	}
	return typ
}

func (g *inputGen) prim(t *rapid.T) zed.Type {
	return Pick(t, []zed.Type{
		zed.TypeInt64, zed.TypeInt64, zed.TypeInt64, zed.TypeInt64, zed.TypeString, zed.TypeString, zed.TypeString,
		zed.TypeFloat64, zed.TypeFloat64, zed.TypeBool, zed.TypeUint64, zed.TypeUint8, zed.TypeInt32, zed.TypeFloat32,
		zed.TypeIP, zed.TypeNet, zed.TypeTime, zed.TypeDuration, zed.TypeBytes, zed.TypeType, zed.TypeNull,
	}, "prim")
}

func (g *inputGen) smallRecord(t *rapid.T, depth int) zed.Type {
	n := 1 + Uniform(t, 3, "nsub")
	names := rapid.Permutation(FieldNames).Draw(t, "subnames")
	fields := make([]zed.Field, n)
	for i := range fields {
		var ft zed.Type
		if depth > 0 && 0+Uniform(t, 5, "subdeep") == 0 {
			ft = g.fieldType(t, depth-1)
		} else {
			ft = g.prim(t)
		}
		fields[i] = zed.NewField(names[i], ft)
	}
	return g.zctx.MustLookupTypeRecord(fields)
}

// fieldType draws a field type from a small curated set.
func (g *inputGen) fieldType(t *rapid.T, depth int) zed.Type {
	hi := 9
	if g.rich {
		hi = 15
	}
	k := Uniform(t, hi+1, "ftkind")
	if depth <= 0 && k > 4 {
		k = 0
	}
	switch k {
	case 0, 1, 2, 3, 4:
		return g.prim(t)
	case 5:
		return g.smallRecord(t, depth-1)
	case 6:
		return g.zctx.LookupTypeArray(g.prim(t))
	case 7:
		switch 0 + Uniform(t, 3, "setmap") {
		case 0:
			return g.zctx.LookupTypeSet(g.prim(t))
		case 1:
			return g.zctx.LookupTypeMap(zed.TypeString, g.prim(t))
		default:
			return g.zctx.LookupTypeError(g.prim(t))
		}
	case 8:
		a, b := g.prim(t), g.prim(t)
		if a == b || a == zed.TypeNull || b == zed.TypeNull {
			return g.zctx.LookupTypeUnion([]zed.Type{zed.TypeInt64, zed.TypeString})
		}
		return g.zctx.LookupTypeUnion([]zed.Type{a, b})
	case 9:
		switch 0 + Uniform(t, 3, "namedkind") {
		case 0:
			return g.named("port", zed.TypeInt64)
		case 1:
			return g.named("bar", zed.TypeString)
		default:
			return g.zctx.LookupTypeEnum([]string{"A", "B", "foo"})
		}
	// rich part: records inside containers
	case 10:
		return g.zctx.LookupTypeArray(g.smallRecord(t, depth-1))
	case 11:
		return g.zctx.LookupTypeMap(zed.TypeString, g.smallRecord(t, depth-1))
	case 12:
		return g.zctx.LookupTypeUnion([]zed.Type{g.prim1(t), g.smallRecord(t, depth-1)})
	case 13:
		return g.zctx.LookupTypeError(g.smallRecord(t, depth-1))
	case 14:
		return g.named("foo", g.smallRecord(t, depth-1))
	default:
		switch 0 + Uniform(t, 3, "rich2") {
		case 0:
			return g.zctx.LookupTypeSet(g.smallRecord(t, depth-1))
		case 1:
			return g.zctx.LookupTypeArray(g.zctx.LookupTypeUnion([]zed.Type{zed.TypeString, g.smallRecord(t, depth-1)}))
		default:
			return zed.TypeType
		}
	}
}

// prim1 is a non-null primitive (for union members).
func (g *inputGen) prim1(t *rapid.T) zed.Type {
	for {
		if p := g.prim(t); p != zed.TypeNull {
			return p
		}
	}
}

var smallTimes = []nano.Ts{0, nano.Ts(1577836800e9), nano.Ts(1577836800e9 + 1800e9), nano.Ts(1577836800e9 + 3600e9),
	nano.Ts(1577836800e9 + 2*3600e9 + 1), nano.Ts(1577836800e9 + 26*3600e9)}
var smallDurations = []nano.Duration{0, 1, 1e9, 60e9, 3600e9, -1e9}

// smallLeaf maps the leaves that gen.ValGen does not keep small in Small mode
// onto small readable pools (a deterministic function of the drawn value), and
// removes -0 and non-finite floats (round-trip corners of the text formats that
// belong to C02/C03).
func smallLeaf(typ zed.Type, body zcode.Bytes) zcode.Bytes {
	switch typ.ID() {
	case zed.IDTime:
		v := uint64(zed.DecodeTime(body))
		return zed.EncodeTime(smallTimes[v%uint64(len(smallTimes))])
	case zed.IDDuration:
		v := uint64(zed.DecodeDuration(body))
		return zed.EncodeDuration(smallDurations[v%uint64(len(smallDurations))])
	case zed.IDInt8, zed.IDInt16, zed.IDInt32:
		v := zed.DecodeInt(body)
		return zed.EncodeInt(v%8 - 2)
	case zed.IDUint8, zed.IDUint16, zed.IDUint32:
		return zed.EncodeUint(zed.DecodeUint(body) % 7)
	case zed.IDFloat16:
		return zed.EncodeFloat16(float32(cleanFloat(float64(zed.DecodeFloat16(body)))))
	case zed.IDFloat32:
		return zed.EncodeFloat32(float32(cleanFloat(float64(zed.DecodeFloat32(body)))))
	case zed.IDFloat64:
		return zed.EncodeFloat64(cleanFloat(zed.DecodeFloat64(body)))
	case zed.IDBytes:
		if len(body) > 4 {
			return body[:4]
		}
	case zed.IDIP:
		// ZSON text cannot be read back when a map value starts with "::"
		// (`|{"a":::1}|`: C02's subject); keep such addresses out of the inputs.
		if ip := zed.DecodeIP(body); strings.HasPrefix(ip.String(), "::") {
			return zed.EncodeIP(netip.MustParseAddr("10.0.0.1"))
		}
	case zed.IDNet:
		if p := zed.DecodeNet(body); strings.HasPrefix(p.String(), "::") {
			return zed.EncodeNet(netip.MustParsePrefix("10.0.0.0/8"))
		}
	}
	return body
}

func cleanFloat(f float64) float64 {
	if f == 0 || math.IsNaN(f) || math.IsInf(f, 0) {
		return 0
	}
	return f
}

// DrawInput draws the input of a program: records over FieldNames with 1..4
// heterogeneous shapes (the same field name usually but not always keeps its
// type across shapes), nulls, missing fields, duplicate keys and duplicate
// values, nested records inside arrays/maps/unions/errors, type values, named types.
func DrawInput(t *rapid.T, o InputOpts) gen.Seq {
	if o.MaxLen == 0 {
		o.MaxLen = 30
	}
	if o.MaxShapes == 0 {
		o.MaxShapes = 4
	}
	zctx := zed.NewContext()
	g := &inputGen{zctx: zctx, rich: o.Rich, pref: map[string]zed.Type{}}
	tg := &gen.TypeGen{Zctx: zctx, Opts: gen.TypeOpts{SimpleNames: true, MaxDepth: 2, NoNamed: true}}
	vg := &gen.ValGen{Zctx: zctx, Types: tg, Opts: gen.ValOpts{Small: true, MaxLen: 3, NullPercent: 10}}
	vgKey := &gen.ValGen{Zctx: zctx, Types: tg, Opts: gen.ValOpts{Small: true, MaxLen: 3, NoNulls: true}}
	nshapes := 1 + Uniform(t, o.MaxShapes, "nshapes")
	shapes := make([]*zed.TypeRecord, nshapes)
	for i := range shapes {
		nf := 1 + Uniform(t, 5, "nfields")
		names := rapid.Permutation(FieldNames).Draw(t, "names")
		var fields []zed.Field
		if o.CleanKey {
			fields = append(fields, zed.NewField("k", zed.TypeInt64), zed.NewField("s", zed.TypeString))
		}
		for _, name := range names {
			if len(fields) >= nf+2 || (!o.CleanKey && len(fields) >= nf) {
				break
			}
			if o.CleanKey && (name == "k" || name == "s") {
				continue
			}
			var ft zed.Type
			if p := g.pref[name]; p != nil && 0+Uniform(t, 10, "keeptype") < 7 {
				ft = p
			} else {
				if name == "ts" && 0+Uniform(t, 4, "tstime") > 0 {
					ft = zed.TypeTime
				} else {
					ft = g.fieldType(t, 2)
				}
				if g.pref[name] == nil {
					g.pref[name] = ft
				}
			}
			fields = append(fields, zed.NewField(name, ft))
		}
		shapes[i] = zctx.MustLookupTypeRecord(fields)
	}
	n := Uniform(t, o.MaxLen+1, "nvals")
	s := gen.Seq{Zctx: zctx}
	cur := 0
	for len(s.Vals) < n {
		if len(s.Vals) > 0 && 0+Uniform(t, 7, "dup?") == 0 {
			s.Vals = append(s.Vals, s.Vals[Uniform(t, len(s.Vals), "dupof")])
			continue
		}
		if o.NonRecords && Chance(t, 14, "nonrecord?") {
			typ := g.fieldType(t, 2)
			if typ != zed.TypeNull {
				v := vgKey.Value(t, typ)
				s.Vals = append(s.Vals, oracle.MapLeaves(v, smallLeaf))
				continue
			}
		}
		if Uniform(t, 3, "switch?") == 0 {
			cur = Uniform(t, nshapes, "which")
		}
		typ := shapes[cur]
		var b zcode.Builder
		b.BeginContainer()
		for _, f := range typ.Fields {
			if o.CleanKey && (f.Name == "k" || f.Name == "s") {
				vgKey.Append(t, &b, f.Type, false)
			} else {
				vg.Append(t, &b, f.Type, false)
			}
		}
		b.EndContainer()
		v := zed.NewValue(typ, b.Bytes().Body())
		s.Vals = append(s.Vals, oracle.MapLeaves(v, smallLeaf))
	}
	return s
}
