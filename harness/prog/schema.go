// Package prog is the grammar-directed program generator shared by the
// program-level properties (C04, C07, ...).  It produces program TEXT (so the
// real parser and semantic analyser are in the loop) together with metadata
// saying how the output may be compared (Ordered / Deterministic), driven by a
// summary (Schema) of the input the program will run on, so that predicates
// match roughly half of the time.
package prog

import (
	"math"
	"regexp"
	"sort"
	"strconv"
	"strings"

	zed "github.com/brimdata/super"
	"github.com/brimdata/super/zcode"
	"github.com/brimdata/super/zson"
)

// Lit is a literal usable in program text.
type Lit struct {
	Text string // program text of the literal (or of a cast call producing it)
	Kind string // int uint float string bool ip net time duration bytes type null
	// Pushable tells whether the literal is a plain literal in the DAG (a
	// cast call such as uint8(1) is not, and numbers never produce a buffer filter).
	Plain bool
}

// Field summarises one top-level (or one-level nested, Name "k.x") field of the input.
type Field struct {
	Name     string
	Types    []string        // distinct type texts seen
	Kinds    map[string]bool // kinds of the values seen (after removing named wrappers; "named" is added as well)
	Lits     []Lit           // distinct primitive values seen (non-null)
	ElemLits []Lit           // primitive values seen inside arrays/sets/unions/map values of this field
	MapKeys  []Lit           // primitive map keys seen
	Subs     []string        // names of the fields of records seen as this field's value
	Missing  bool            // absent from at least one input value
	Null     bool            // null in at least one input value
	Present  int
	// IntOnly: every present non-null value is a signed or unsigned integer
	// of one single type (so sum/min/max over it do not depend on arrival order
	// and products cannot produce -0).
	IntOnly bool
	// NumOnly: every present non-null value is a number.
	NumOnly bool
	// TieFree: no two distinct values of this field (missing and null
	// included) compare as equal under the runtime's sort comparator, so
	// grouping on it gives the same groups in the hash table and in the
	// spill/merge path and a sort on it has no ties between distinct keys.
	TieFree bool
	// Uniform: exactly one type among present values.
	Uniform bool
	// Generic is set for fields created by the program whose contents the
	// generator does not know.
	Generic bool
}

func (f *Field) Has(kind string) bool { return f.Kinds[kind] }

func (f *Field) clone() *Field {
	c := *f
	return &c
}

// Schema is the summary of an input sequence.
type Schema struct {
	N           int
	Fields      []*Field // top-level fields in order of first appearance
	Nested      []*Field // fields one level down ("k.x")
	Words       []string // identifier-like words (len>=2) found in string leaves anywhere
	StringLits  []Lit    // string leaves found anywhere (any depth), as literals
	NestedNames []string // names of fields of records found anywhere below the top level
	TypeLits    []string // "<...>" texts: types of top-level values, of fields, type values seen
	NamedTypes  []string // names of named types seen anywhere
	AllRecords  bool     // every input value is a non-null record
	// Value literals of non-numeric primitive kinds found anywhere (for `lit in this`-style searches).
	AnyLits []Lit
}

var wordRE = regexp.MustCompile(`[A-Za-z][A-Za-z0-9_]+`)

// Floats are only used as literals in the plain digits.digits spelling (the
// language does not read every spelling the ZSON formatter produces, e.g. 1e+21).
var plainFloatRE = regexp.MustCompile(`^-?[0-9]+\.[0-9]*$`)

// LiteralOf renders a primitive value as program text.
func LiteralOf(typ zed.Type, body zcode.Bytes) (Lit, bool) {
	if body == nil {
		return Lit{Text: "null", Kind: "null", Plain: true}, true
	}
	under := zed.TypeUnder(typ)
	v := zed.NewValue(under, body)
	switch under.ID() {
	case zed.IDInt64:
		return Lit{Text: zson.FormatValue(v), Kind: "int", Plain: true}, true
	case zed.IDInt8, zed.IDInt16, zed.IDInt32:
		return Lit{Text: zson.FormatType(under) + "(" + strconv.FormatInt(v.Int(), 10) + ")", Kind: "int"}, true
	case zed.IDUint8, zed.IDUint16, zed.IDUint32, zed.IDUint64:
		return Lit{Text: zson.FormatType(under) + "(" + strconv.FormatUint(v.Uint(), 10) + ")", Kind: "uint"}, true
	case zed.IDFloat64:
		f := v.Float()
		if math.IsNaN(f) || math.IsInf(f, 0) {
			return Lit{}, false
		}
		s := zson.FormatValue(v)
		if !plainFloatRE.MatchString(s) {
			return Lit{}, false
		}
		return Lit{Text: s, Kind: "float", Plain: true}, true
	case zed.IDFloat16, zed.IDFloat32:
		f := v.Float()
		if math.IsNaN(f) || math.IsInf(f, 0) {
			return Lit{}, false
		}
		s := zson.FormatValue(zed.NewFloat64(f))
		if !plainFloatRE.MatchString(s) {
			return Lit{}, false
		}
		return Lit{Text: zson.FormatType(under) + "(" + s + ")", Kind: "float"}, true
	case zed.IDString:
		return Lit{Text: zson.QuotedString(body), Kind: "string", Plain: true}, true
	case zed.IDBool:
		return Lit{Text: zson.FormatValue(v), Kind: "bool", Plain: true}, true
	case zed.IDIP:
		return Lit{Text: zson.FormatValue(v), Kind: "ip", Plain: true}, true
	case zed.IDNet:
		return Lit{Text: zson.FormatValue(v), Kind: "net", Plain: true}, true
	case zed.IDTime:
		return Lit{Text: zson.FormatValue(v), Kind: "time", Plain: true}, true
	case zed.IDDuration:
		return Lit{Text: zson.FormatValue(v), Kind: "duration", Plain: true}, true
	case zed.IDBytes:
		return Lit{Text: zson.FormatValue(v), Kind: "bytes", Plain: true}, true
	case zed.IDType:
		s := zson.FormatValue(v)
		if strings.Contains(s, "enum(") {
			// the language has no spelling for enum types in type literals
			return Lit{}, false
		}
		return Lit{Text: s, Kind: "type", Plain: true}, true
	}
	return Lit{}, false
}

func kindOf(typ zed.Type) string {
	switch t := zed.TypeUnder(typ).(type) {
	case *zed.TypeRecord:
		return "record"
	case *zed.TypeArray:
		return "array"
	case *zed.TypeSet:
		return "set"
	case *zed.TypeMap:
		return "map"
	case *zed.TypeUnion:
		return "union"
	case *zed.TypeError:
		return "error"
	case *zed.TypeEnum:
		return "enum"
	default:
		id := t.ID()
		switch {
		case zed.IsSigned(id) && id != zed.IDDuration && id != zed.IDTime:
			return "int"
		case zed.IsUnsigned(id):
			return "uint"
		case zed.IsFloat(id):
			return "float"
		}
		switch id {
		case zed.IDDuration:
			return "duration"
		case zed.IDTime:
			return "time"
		case zed.IDString:
			return "string"
		case zed.IDBool:
			return "bool"
		case zed.IDIP:
			return "ip"
		case zed.IDNet:
			return "net"
		case zed.IDBytes:
			return "bytes"
		case zed.IDType:
			return "type"
		case zed.IDNull:
			return "null"
		}
	}
	return "other"
}

type summarizer struct {
	s         *Schema
	words     map[string]bool
	strs      map[string]bool
	names     map[string]bool
	typeLits  map[string]bool
	named     map[string]bool
	anyLits   map[string]bool
	fields    map[string]*Field
	nested    map[string]*Field
	fieldLits map[string]map[string]bool
	// tie analysis: per field, set of distinct value identities and their tie classes
	ident map[string]map[string]string // field -> identity -> tie class
}

func addStr(m map[string]bool, list *[]string, s string) {
	if strings.HasPrefix(s, "<") && strings.Contains(s, "enum(") {
		// the language has no spelling for enum types in type literals
		return
	}
	if !m[s] {
		m[s] = true
		*list = append(*list, s)
	}
}

// Summarize computes the schema summary of vals.  The result depends only on
// the values (and their order), never on map iteration order.
func Summarize(vals []zed.Value) *Schema {
	z := &summarizer{
		s:     &Schema{N: len(vals), AllRecords: true},
		words: map[string]bool{}, strs: map[string]bool{}, names: map[string]bool{}, typeLits: map[string]bool{},
		named: map[string]bool{}, anyLits: map[string]bool{}, fields: map[string]*Field{}, nested: map[string]*Field{},
		fieldLits: map[string]map[string]bool{}, ident: map[string]map[string]string{},
	}
	for _, v := range vals {
		addStr(z.typeLits, &z.s.TypeLits, "<"+zson.FormatType(v.Type())+">")
		rt, ok := zed.TypeUnder(v.Type()).(*zed.TypeRecord)
		if !ok || v.IsNull() {
			z.s.AllRecords = false
			z.walk(nil, v.Type(), v.Bytes(), 0)
			continue
		}
		seen := map[string]bool{}
		it := v.Bytes().Iter()
		for _, f := range rt.Fields {
			body := it.Next()
			seen[f.Name] = true
			fd := z.field(z.fields, &z.s.Fields, f.Name)
			z.observe(fd, f.Type, body)
			if sub, ok := zed.TypeUnder(f.Type).(*zed.TypeRecord); ok && body != nil {
				sit := body.Iter()
				for _, sf := range sub.Fields {
					sbody := sit.Next()
					nf := z.field(z.nested, &z.s.Nested, f.Name+"."+sf.Name)
					z.observe(nf, sf.Type, sbody)
				}
			}
			z.walk(fd, f.Type, body, 1)
		}
		for _, fd := range z.s.Fields {
			if !seen[fd.Name] {
				fd.Missing = true
			}
		}
	}
	// fields first seen late are missing from earlier values
	for _, fd := range z.s.Fields {
		if fd.Present < len(vals) {
			fd.Missing = true
		}
		z.finish(fd)
	}
	for _, fd := range z.s.Nested {
		fd.Missing = true // the parent may be absent or of another type
		z.finish(fd)
	}
	sort.Strings(z.s.NamedTypes)
	return z.s
}

func (z *summarizer) field(m map[string]*Field, list *[]*Field, name string) *Field {
	fd := m[name]
	if fd == nil {
		fd = &Field{Name: name, Kinds: map[string]bool{}}
		m[name] = fd
		*list = append(*list, fd)
		z.fieldLits[name] = map[string]bool{}
		z.ident[name] = map[string]string{}
	}
	return fd
}

func (z *summarizer) observe(fd *Field, typ zed.Type, body zcode.Bytes) {
	fd.Present++
	tt := zson.FormatType(typ)
	found := false
	for _, t := range fd.Types {
		if t == tt {
			found = true
		}
	}
	if !found {
		fd.Types = append(fd.Types, tt)
	}
	addStr(z.typeLits, &z.s.TypeLits, "<"+tt+">")
	if _, ok := typ.(*zed.TypeNamed); ok {
		fd.Kinds["named"] = true
	}
	k := kindOf(typ)
	if body == nil {
		fd.Null = true
		z.ident[fd.Name]["null:"+tt] = "null"
		return
	}
	fd.Kinds[k] = true
	id := tt + ":" + string(body)
	class := id
	switch k {
	case "int", "uint", "float", "duration", "time":
		v := zed.NewValue(zed.TypeUnder(typ), body)
		var f float64
		switch k {
		case "float":
			f = v.Float()
		case "uint":
			f = float64(v.Uint())
		default:
			f = float64(v.Int())
		}
		class = "num:" + zson.FormatValue(zed.NewFloat64(f))
		if f != f {
			class = "num:nan"
		}
	}
	z.ident[fd.Name][id] = class
	if lit, ok := LiteralOf(typ, body); ok {
		if !z.fieldLits[fd.Name][lit.Text] {
			z.fieldLits[fd.Name][lit.Text] = true
			fd.Lits = append(fd.Lits, lit)
		}
	}
	if rt, ok := zed.TypeUnder(typ).(*zed.TypeRecord); ok {
		for _, sf := range rt.Fields {
			dup := false
			for _, s := range fd.Subs {
				if s == sf.Name {
					dup = true
				}
			}
			if !dup {
				fd.Subs = append(fd.Subs, sf.Name)
			}
		}
	}
}

func (z *summarizer) finish(fd *Field) {
	fd.Uniform = len(fd.Types) == 1
	numKinds := 0
	for _, k := range []string{"int", "uint", "float"} {
		if fd.Kinds[k] {
			numKinds++
		}
	}
	other := false
	for k := range fd.Kinds {
		switch k {
		case "int", "uint", "float", "named":
		default:
			other = true
		}
	}
	fd.NumOnly = numKinds > 0 && !other
	fd.IntOnly = fd.NumOnly && !fd.Kinds["float"] && fd.Uniform && !fd.Kinds["named"]
	// tie analysis
	classes := map[string]int{}
	for _, c := range z.ident[fd.Name] {
		classes[c]++
	}
	if fd.Missing {
		classes["null"]++ // missing is treated as null by the sort comparator
	}
	fd.TieFree = true
	for _, n := range classes {
		if n > 1 {
			fd.TieFree = false
		}
	}
}

// walk visits every value below a field (depth>=1) or below a non-record
// top-level value, collecting search material.
func (z *summarizer) walk(fd *Field, typ zed.Type, body zcode.Bytes, depth int) {
	if named, ok := typ.(*zed.TypeNamed); ok {
		addStr(z.named, &z.s.NamedTypes, named.Name)
		z.walk(fd, named.Type, body, depth)
		return
	}
	if body == nil {
		return
	}
	switch t := typ.(type) {
	case *zed.TypeRecord:
		it := body.Iter()
		for _, f := range t.Fields {
			if depth >= 1 {
				addStr(z.names, &z.s.NestedNames, f.Name)
			}
			z.walk(fd, f.Type, it.Next(), depth+1)
		}
	case *zed.TypeArray:
		for it := body.Iter(); !it.Done(); {
			z.elem(fd, t.Type, it.Next(), depth)
		}
	case *zed.TypeSet:
		for it := body.Iter(); !it.Done(); {
			z.elem(fd, t.Type, it.Next(), depth)
		}
	case *zed.TypeMap:
		for it := body.Iter(); !it.Done(); {
			kb := it.Next()
			if fd != nil && depth == 1 {
				if lit, ok := LiteralOf(t.KeyType, kb); ok && kb != nil {
					fd.MapKeys = appendLit(fd.MapKeys, lit)
				}
			}
			z.walk(fd, t.KeyType, kb, depth+1)
			z.elem(fd, t.ValType, it.Next(), depth)
		}
	case *zed.TypeUnion:
		it := body.Iter()
		tag := int(zed.DecodeInt(it.Next()))
		z.elem(fd, t.Types[tag], it.Next(), depth)
	case *zed.TypeError:
		z.walk(fd, t.Type, body, depth+1)
	case *zed.TypeEnum:
	default:
		z.leaf(typ, body)
	}
}

func appendLit(list []Lit, lit Lit) []Lit {
	for _, l := range list {
		if l.Text == lit.Text {
			return list
		}
	}
	return append(list, lit)
}

func (z *summarizer) elem(fd *Field, typ zed.Type, body zcode.Bytes, depth int) {
	if fd != nil && depth == 1 && body != nil && zed.IsPrimitiveType(zed.TypeUnder(typ)) {
		if lit, ok := LiteralOf(typ, body); ok {
			fd.ElemLits = appendLit(fd.ElemLits, lit)
		}
	}
	z.walk(fd, typ, body, depth+1)
}

func (z *summarizer) leaf(typ zed.Type, body zcode.Bytes) {
	lit, ok := LiteralOf(typ, body)
	if !ok {
		return
	}
	switch lit.Kind {
	case "string":
		s := zed.DecodeString(body)
		if !z.strs[s] {
			z.strs[s] = true
			z.s.StringLits = append(z.s.StringLits, lit)
		}
		for _, w := range wordRE.FindAllString(s, -1) {
			addStr(z.words, &z.s.Words, w)
		}
	case "type":
		addStr(z.typeLits, &z.s.TypeLits, lit.Text)
	}
	switch lit.Kind {
	case "string", "ip", "net", "bytes", "bool", "type", "time", "duration":
		if !z.anyLits[lit.Text] {
			z.anyLits[lit.Text] = true
			z.s.AnyLits = append(z.s.AnyLits, lit)
		}
	}
}
