package prog

import (
	"encoding/json"
	"os"
	"path/filepath"
	"regexp"
	"sort"
	"strings"
	"sync"

	zed "github.com/brimdata/super"
	"github.com/brimdata/super/compiler/ast/dag"
	"github.com/brimdata/super/zio/zsonio"
	"github.com/brimdata/super/ztest"
	"pgregory.net/rapid"
)

// CorpusEntry is a program of the repo's own test corpus.
type CorpusEntry struct {
	Source string // file (relative to the repo) or "valid.zed:<line>"
	Text   string
	Input  string // the ztest's own ZSON input ("" if none or not ZSON)
}

var (
	corpusOnce sync.Once
	corpus     []CorpusEntry
)

// RepoDir is where the corpus is read from (the checkout the harness is built against).
func RepoDir() string {
	if d := os.Getenv("VERIF_REPO"); d != "" {
		return d
	}
	return "/repo"
}

// programs that name their own sources cannot be fed a generated input
var sourceRE = regexp.MustCompile(`(?i)(^|[\s|(>])(from|file|get|load|pool)\s`)

func parsesAsZSON(s string) bool {
	defer func() { recover() }()
	r := zsonio.NewReader(zed.NewContext(), strings.NewReader(s))
	n := 0
	for {
		v, err := r.Read()
		if err != nil {
			return false
		}
		if v == nil {
			return n > 0
		}
		n++
		if n > 500 {
			return false
		}
	}
}

// Corpus returns the repo corpus: every line of compiler/parser/valid.zed and
// the `zed:` program of every in-process ztest, in a fixed order.  It is read
// once per process; a chosen entry's TEXT goes into the case, so replays do
// not depend on the files.
func Corpus() []CorpusEntry {
	corpusOnce.Do(func() {
		root := RepoDir()
		if b, err := os.ReadFile(filepath.Join(root, "compiler/parser/valid.zed")); err == nil {
			for i, line := range strings.Split(string(b), "\n") {
				if strings.TrimSpace(line) == "" {
					continue
				}
				corpus = append(corpus, CorpusEntry{Source: "valid.zed:" + itoa(i+1), Text: line})
			}
		}
		var files []string
		filepath.WalkDir(root, func(path string, d os.DirEntry, err error) error {
			if err != nil {
				return nil
			}
			if d.IsDir() {
				if n := d.Name(); n == ".git" || n == "node_modules" {
					return filepath.SkipDir
				}
				return nil
			}
			if strings.HasSuffix(path, ".yaml") && strings.Contains(path, "ztests") {
				files = append(files, path)
			}
			return nil
		})
		sort.Strings(files)
		for _, f := range files {
			zt, err := ztest.FromYAMLFile(f)
			if err != nil || zt.Zed == "" || zt.Skip != "" {
				continue
			}
			text := strings.TrimSpace(zt.Zed)
			if sourceRE.MatchString(text) || len(text) > 2000 {
				continue
			}
			e := CorpusEntry{Source: strings.TrimPrefix(f, root+"/"), Text: text}
			if zt.InputFlags == "" && zt.Input != "" && len(zt.Input) < 20000 && parsesAsZSON(zt.Input) {
				e.Input = zt.Input
			}
			corpus = append(corpus, e)
		}
	})
	return corpus
}

func itoa(i int) string {
	b, _ := json.Marshal(i)
	return string(b)
}

// DrawCorpus draws a corpus entry.
func DrawCorpus(t *rapid.T) CorpusEntry {
	c := Corpus()
	if len(c) == 0 {
		return CorpusEntry{Source: "builtin", Text: "pass"}
	}
	return c[Uniform(t, len(c), "corpus")]
}

// ---- metadata from the analysed DAG (for programs the generator did not build)

type cst struct {
	ordered bool
	det     bool
	// everUnordered / sumAggs are shared through the pointer fields below
	shared *cshared
	feats  map[string]bool
	ok     bool // false: contains something that cannot run on a supplied input
}

type cshared struct {
	everUnordered bool
	summarizeAggs int
}

var nondetCallRE = regexp.MustCompile(`"name":"(now|ksuid)"`)

// Classify derives conservative metadata from an analysed DAG: Deterministic
// is only claimed when every operator is known to produce a result that is a
// function of its input sequence (or multiset, after an unordered point).
// usable is false when the program reads from sources of its own.
func Classify(seq dag.Seq) (m Meta, usable bool) {
	c := &cst{ordered: true, det: true, feats: map[string]bool{}, ok: true, shared: &cshared{}}
	b, err := json.Marshal(seq)
	if err == nil && nondetCallRE.Match(b) {
		c.det = false
		c.feats["nondeterministic-call"] = true
	}
	c.seq(seq)
	if !c.ordered {
		c.shared.everUnordered = true
	}
	// aggregate functions used as (stateful) expressions depend on arrival order
	if n := strings.Count(string(b), `"kind":"Agg"`); n > c.shared.summarizeAggs {
		c.feats["agg-in-expr"] = true
		if c.shared.everUnordered {
			c.det = false
		}
	}
	m.Deterministic = c.det
	m.Ordered = c.det && c.ordered
	for f := range c.feats {
		m.Features = append(m.Features, f)
	}
	sort.Strings(m.Features)
	return m, c.ok
}

func (c *cst) orderSensitive(name string) {
	c.feats[name] = true
	if !c.ordered {
		c.det = false
	}
}

func (c *cst) seq(seq dag.Seq) {
	for _, op := range seq {
		c.op(op)
	}
}

func (c *cst) paths(paths []dag.Seq) {
	ordered := c.ordered
	for _, p := range paths {
		sub := &cst{ordered: ordered, det: true, feats: c.feats, ok: true, shared: c.shared}
		sub.seq(p)
		c.det = c.det && sub.det
		c.ok = c.ok && sub.ok
		if len(paths) == 1 {
			c.ordered = sub.ordered
		}
	}
	if len(paths) != 1 {
		c.ordered = false
		c.shared.everUnordered = true
	}
}

func (c *cst) op(op dag.Op) {
	switch op := op.(type) {
	case *dag.DefaultScan:
	case *dag.Filter:
		c.feats["where"] = true
	case *dag.Cut, *dag.Drop, *dag.Put, *dag.Rename, *dag.Yield, *dag.Pass, *dag.Output, *dag.Explode:
		c.feats["shaping"] = true
	case *dag.Shape:
		c.orderSensitive("shape")
	case *dag.Sort:
		c.feats["sort"] = true
		if len(op.Args) == 0 {
			c.orderSensitive("sort-nokey")
		}
	case *dag.Head:
		c.orderSensitive("head")
	case *dag.Tail:
		c.orderSensitive("tail")
	case *dag.Uniq:
		c.orderSensitive("uniq")
	case *dag.Fuse:
		c.orderSensitive("fuse")
	case *dag.Top:
		c.orderSensitive("top")
		c.det = false // ties are cut arbitrarily
	case *dag.Summarize:
		c.feats["summarize"] = true
		for _, a := range op.Aggs {
			if agg, ok := a.RHS.(*dag.Agg); ok {
				c.shared.summarizeAggs++
				switch agg.Name {
				case "count", "dcount", "union", "and", "or":
				default:
					c.orderSensitive("agg:" + agg.Name)
				}
			}
		}
		if op.Limit > 0 {
			// spilled groups are merged by the sort comparator (ties between distinct keys)
			c.feats["summarize-limit"] = true
			c.det = false
		}
		if len(op.Keys) > 0 {
			c.ordered = false
			c.shared.everUnordered = true
		}
	case *dag.Over:
		c.feats["over"] = true
		if op.Body != nil {
			sub := &cst{ordered: true, det: true, feats: c.feats, ok: true, shared: c.shared}
			sub.seq(op.Body)
			c.det = c.det && sub.det
			c.ok = c.ok && sub.ok
			if !sub.ordered {
				c.ordered = false
			}
		}
	case *dag.Fork:
		c.feats["fork"] = true
		c.paths(op.Paths)
	case *dag.Switch:
		c.feats["switch"] = true
		var ps []dag.Seq
		for _, cs := range op.Cases {
			ps = append(ps, cs.Path)
		}
		c.paths(ps)
		c.ordered = false
	case *dag.Mirror:
		c.feats["mirror"] = true
		c.paths([]dag.Seq{op.Main, op.Mirror})
	case *dag.Scope:
		c.seq(op.Body)
	case *dag.Merge:
		c.feats["merge"] = true
		c.ordered = false
		c.shared.everUnordered = true
	case *dag.Combine:
		c.ordered = false
		c.shared.everUnordered = true
	case *dag.Join:
		c.feats["join"] = true
		c.ordered = false
		c.shared.everUnordered = true
	default:
		// sources of their own, load, anything unknown
		c.feats["unsupported-op"] = true
		c.ok = false
		c.det = false
	}
}
