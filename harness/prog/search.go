package prog

import (
	"encoding/json"
	"sort"
	"strings"

	"github.com/brimdata/super/compiler/ast/dag"

	zed "github.com/brimdata/super"
	"github.com/brimdata/super/runtime/sam/expr"
	"github.com/brimdata/super/zcode"

	"verif/oracle"
)

// MultisetMinus returns the values of a that are not matched by an identical value of b.
func MultisetMinus(a, b []zed.Value) []zed.Value {
	n := map[string]int{}
	for _, v := range b {
		n[oracle.Key(v)]++
	}
	var out []zed.Value
	for _, v := range a {
		k := oracle.Key(v)
		if n[k] > 0 {
			n[k]--
			continue
		}
		out = append(out, v)
	}
	return out
}

func namesContain(typ zed.Type, term string) bool {
	rt := zed.TypeRecordOf(typ)
	if rt == nil {
		return false
	}
	var it expr.FieldNameIter
	for it.Init(rt); !it.Done(); {
		if strings.Contains(strings.ToLower(string(it.Next())), term) {
			return true
		}
	}
	return false
}

// MatchesOnlyNestedFieldName reports whether the keyword term matches v only
// through the name of a field of a record that sits inside an array, set, map,
// union or error (or any other place not reachable from the top-level record
// type through directly nested records): no string value contains the term
// and no dotted field path of the top-level record type does, but the field
// names of some nested record type do.  This is the class of values the
// evaluator (expr.searchString walks every nested value) accepts and the ZNG
// scanner's expr.FieldNameFinder (top-level record type only) cannot see.
func MatchesOnlyNestedFieldName(v zed.Value, term string) bool {
	term = strings.ToLower(term)
	// (for a top-level value that is not a record the finder answers "maybe",
	// so the scanner cannot lose it)
	if term == "" || zed.TypeRecordOf(v.Type()) == nil || namesContain(v.Type(), term) {
		return false
	}
	str, nested := false, false
	v.Walk(func(typ zed.Type, body zcode.Bytes) error {
		if typ.ID() == zed.IDString && body != nil && strings.Contains(strings.ToLower(zed.DecodeString(body)), term) {
			str = true
		}
		if namesContain(typ, term) {
			nested = true
		}
		return nil
	})
	return nested && !str
}

// SearchTerms extracts the string search terms (keywords and quoted strings) of a DAG rendered as JSON.
func SearchTerms(dagJSON string) []string {
	var v any
	if json.Unmarshal([]byte(dagJSON), &v) != nil {
		return nil
	}
	var out []string
	var walk func(v any)
	walk = func(v any) {
		switch v := v.(type) {
		case []any:
			for _, e := range v {
				walk(e)
			}
		case map[string]any:
			if v["kind"] == "Search" {
				if lit, ok := v["value"].(string); ok && strings.HasPrefix(lit, "\"") {
					var term string
					if json.Unmarshal([]byte(lit), &term) == nil {
						out = append(out, term)
					}
				}
			}
			keys := make([]string, 0, len(v))
			for k := range v {
				keys = append(keys, k)
			}
			sort.Strings(keys)
			for _, k := range keys {
				walk(v[k])
			}
		}
	}
	walk(v)
	return out
}

// AllOnlyNestedFieldName reports whether every value of missing matches one
// of terms only through a nested field name (and there is at least one value).
func AllOnlyNestedFieldName(missing []zed.Value, terms []string) bool {
	if len(missing) == 0 || len(terms) == 0 {
		return false
	}
	for _, v := range missing {
		ok := false
		for _, t := range terms {
			if MatchesOnlyNestedFieldName(v, t) {
				ok = true
			}
		}
		if !ok {
			return false
		}
	}
	return true
}

type falseCmp struct {
	path []string
	in   bool // `false in path` rather than `path == false`
}

// falseComparisons returns the comparisons `P == false` and `false in P` of a filter expression.
func falseComparisons(e dag.Expr, out *[]falseCmp) {
	switch e := e.(type) {
	case *dag.BinaryExpr:
		if this, ok := e.LHS.(*dag.This); ok && e.Op == "==" {
			if lit, ok := e.RHS.(*dag.Literal); ok && lit.Value == "false" {
				*out = append(*out, falseCmp{path: this.Path})
			}
		}
		if this, ok := e.RHS.(*dag.This); ok && e.Op == "in" {
			if lit, ok := e.LHS.(*dag.Literal); ok && lit.Value == "false" {
				*out = append(*out, falseCmp{path: this.Path, in: true})
			}
		}
		falseComparisons(e.LHS, out)
		falseComparisons(e.RHS, out)
	case *dag.UnaryExpr:
		falseComparisons(e.Operand, out)
	}
}

func holdsNullBool(v zed.Value) bool {
	found := false
	v.Walk(func(typ zed.Type, body zcode.Bytes) error {
		if body == nil && zed.TypeUnder(typ) == zed.TypeBool {
			found = true
		}
		return nil
	})
	return found
}

// BufferFilterLossClass names the known class that explains why the ZNG
// scanner lost the values `lost` under filter, or "".
func BufferFilterLossClass(filter dag.Expr, lost []zed.Value) string {
	if len(lost) == 0 || filter == nil {
		return ""
	}
	b, _ := json.Marshal(filter)
	if AllOnlyNestedFieldName(lost, SearchTerms(string(b))) {
		return "search-fieldname-inside-container"
	}
	var cmps []falseCmp
	falseComparisons(filter, &cmps)
	if len(cmps) > 0 {
		all := true
		for _, v := range lost {
			hit := false
			for _, c := range cmps {
				// (a null record makes its fields null as well)
				f := expr.NewDottedExpr(zed.NewContext(), c.path).Eval(expr.NewContext(), v)
				if !c.in && f.IsNull() && zed.TypeUnder(f.Type()) == zed.TypeBool {
					hit = true
				}
				if c.in && !f.IsError() && holdsNullBool(f) {
					hit = true
				}
			}
			all = all && hit
		}
		if all {
			return "null-equals-false-literal"
		}
	}
	return ""
}
