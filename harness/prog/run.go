package prog

import (
	"context"
	"errors"
	"regexp"
	goruntime "runtime"
	"strings"
	"time"

	zed "github.com/brimdata/super"
	"github.com/brimdata/super/compiler"
	"github.com/brimdata/super/runtime"
	"github.com/brimdata/super/zio"
)

// Runtime is a runtime context whose cancellation the harness controls.
type Runtime struct {
	*runtime.Context
	cancelParent context.CancelFunc
}

// NewRuntime returns a runtime context over zctx.
func NewRuntime(zctx *zed.Context) *Runtime {
	ctx, cancel := context.WithCancel(context.Background())
	return &Runtime{Context: runtime.NewContext(ctx, zctx), cancelParent: cancel}
}

// ErrDeadlock is returned by Exec when the flowgraph stopped making progress:
// every goroutine that is inside the code under test is blocked on a channel
// operation (none is running, runnable, sleeping or in a system call) and the
// set of their stacks did not change over several observations.  This is a
// statement about the state of the goroutines, not a time limit: a slow but
// live flowgraph always has a runnable goroutine or changes its stacks.
var ErrDeadlock = errors.New("deadlock: all flowgraph goroutines are blocked on channel operations")

// BuildError wraps an error of the flowgraph builder (as opposed to a runtime error).
type BuildError struct{ Err error }

func (e *BuildError) Error() string { return "build: " + e.Err.Error() }
func (e *BuildError) Unwrap() error { return e.Err }

func pullAll(job *compiler.Job, readers []zio.Reader) (vals []zed.Value, err error) {
	if err := job.Build(readers...); err != nil {
		return nil, &BuildError{err}
	}
	p := job.Puller()
	if p == nil {
		return nil, &BuildError{errors.New("no output")}
	}
	for {
		b, err := p.Pull(false)
		if err != nil {
			return vals, err
		}
		if b == nil {
			return vals, nil
		}
		for _, v := range b.Values() {
			vals = append(vals, v.Copy())
		}
		b.Unref()
	}
}

type execResult struct {
	vals []zed.Value
	err  error
}

// Exec builds job over readers, pulls the flowgraph to end of stream and
// returns copies of the output values.  Before returning it cancels the
// runtime context, waits for the operators that register with its WaitGroup
// (sort, summarize: spill clean-up) and lets the remaining operator
// goroutines (fork, combine, merge, switch: they exit on cancellation) run
// off.  If the flowgraph deadlocks, Exec cancels it and returns ErrDeadlock.
func Exec(rt *Runtime, job *compiler.Job, readers ...zio.Reader) ([]zed.Value, error) {
	base := goruntime.NumGoroutine()
	done := make(chan execResult, 1)
	go func() {
		vals, err := pullAll(job, readers)
		done <- execResult{vals, err}
	}()
	var res execResult
	deadlock := false
	tick := time.NewTicker(150 * time.Millisecond)
	defer tick.Stop()
	var prev string
	same := 0
wait:
	for {
		select {
		case res = <-done:
			break wait
		case <-tick.C:
			snap, blocked := flowgraphSnapshot()
			if blocked && snap == prev {
				same++
			} else {
				same = 0
			}
			prev = snap
			if same >= 4 {
				deadlock = true
				rt.cancelParent()
				select {
				case res = <-done:
				case <-time.After(10 * time.Second):
					// the flowgraph does not even react to cancellation; leave it behind
					res = execResult{}
				}
				break wait
			}
		}
	}
	rt.cancelParent()
	if !deadlock {
		rt.Cancel() // waits for spill clean-up
	}
	for i := 0; i < 2000 && goruntime.NumGoroutine() > base; i++ {
		goruntime.Gosched()
	}
	if deadlock {
		return res.vals, ErrDeadlock
	}
	return res.vals, res.err
}

var durRE = regexp.MustCompile(`, \d+ minutes?`)
var addrRE = regexp.MustCompile(`0x[0-9a-f]+|\+0x[0-9a-f]+|goroutine \d+`)

// flowgraphSnapshot returns a canonical rendering of the stacks of the
// goroutines that are inside the code under test and whether all of them are
// blocked on channel/synchronisation operations.
func flowgraphSnapshot() (string, bool) {
	buf := make([]byte, 1<<20)
	buf = buf[:goruntime.Stack(buf, true)]
	var keep []string
	blocked := true
	n := 0
	for _, g := range strings.Split(string(buf), "\n\n") {
		if !strings.Contains(g, "github.com/brimdata/super/") {
			continue
		}
		n++
		head := g
		if i := strings.IndexByte(g, '\n'); i >= 0 {
			head = g[:i]
		}
		switch {
		case strings.Contains(head, "[chan receive"), strings.Contains(head, "[chan send"), strings.Contains(head, "[select"),
			strings.Contains(head, "[semacquire"), strings.Contains(head, "[sync."):
		default:
			blocked = false
		}
		g = durRE.ReplaceAllString(g, "")
		keep = append(keep, addrRE.ReplaceAllString(g, ""))
	}
	if n == 0 {
		return "", false
	}
	return strings.Join(keep, "\n\n"), blocked
}

// IsPanic tells whether a runtime error is a recovered panic of an operator.
func IsPanic(err error) bool {
	return err != nil && strings.HasPrefix(err.Error(), "panic: ")
}

// ErrClass reduces an error to a short stable class (first line, no positions).
func ErrClass(err error) string {
	if err == nil {
		return ""
	}
	s := err.Error()
	if i := strings.IndexByte(s, '\n'); i >= 0 {
		s = s[:i]
	}
	if len(s) > 120 {
		s = s[:120]
	}
	return s
}
