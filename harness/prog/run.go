package prog

import (
	"context"
	"errors"
	goruntime "runtime"
	"strings"

	zed "github.com/brimdata/super"
	"github.com/brimdata/super/compiler"
	"github.com/brimdata/super/runtime"
	"github.com/brimdata/super/zio"
)

// Exec builds job over readers, pulls the flowgraph to end of stream and
// returns copies of the output values.  Before returning it cancels the
// runtime context, waits for the operators that register with its WaitGroup
// (sort, summarize: spill clean-up) and lets the remaining operator
// goroutines (fork, combine, merge, switch: they exit on cancellation) run off.
func Exec(rctx *runtime.Context, job *compiler.Job, readers ...zio.Reader) (vals []zed.Value, err error) {
	base := goruntime.NumGoroutine()
	defer func() {
		rctx.Cancel()
		for i := 0; i < 2000 && goruntime.NumGoroutine() > base; i++ {
			goruntime.Gosched()
		}
	}()
	if err := job.Build(readers...); err != nil {
		return nil, &BuildError{err}
	}
	p := job.Puller()
	if p == nil {
		return nil, &BuildError{errors.New("no output")}
	}
	for {
		b, err := p.Pull(false)
		if err != nil {
			return vals, err
		}
		if b == nil {
			return vals, nil
		}
		for _, v := range b.Values() {
			vals = append(vals, v.Copy())
		}
		b.Unref()
	}
}

// BuildError wraps an error of the flowgraph builder (as opposed to a runtime error).
type BuildError struct{ Err error }

func (e *BuildError) Error() string { return "build: " + e.Err.Error() }
func (e *BuildError) Unwrap() error { return e.Err }

// NewRuntime returns a runtime context over zctx.
func NewRuntime(zctx *zed.Context) *runtime.Context {
	return runtime.NewContext(context.Background(), zctx)
}

// IsPanic tells whether a runtime error is a recovered panic of an operator.
func IsPanic(err error) bool {
	return err != nil && strings.HasPrefix(err.Error(), "panic: ")
}

// ErrClass reduces an error to a short stable class (first line, no positions).
func ErrClass(err error) string {
	if err == nil {
		return ""
	}
	s := err.Error()
	if i := strings.IndexByte(s, '\n'); i >= 0 {
		s = s[:i]
	}
	if len(s) > 120 {
		s = s[:120]
	}
	return s
}
