package c08

import (
	"fmt"
	"os"
	"testing"

	"verif/gen"
	"verif/oracle"
	"verif/qh"
)

func TestProbeFork(t *testing.T) {
	if os.Getenv("C08_PROBE2") == "" {
		t.Skip()
	}
	s := gen.SeqFromZSON(`{n:1} {n:3} {n:2} {n:null(int64)}`)
	out, err := qh.Run(s.Zctx, s.Vals, os.Getenv("C08_PROBE2"))
	fmt.Println(err)
	for _, v := range out {
		fmt.Print(oracle.Show(v), " ")
	}
	fmt.Println()
}
